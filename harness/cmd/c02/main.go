// Harness for C02 (concurrent writes are atomic): executes model schedules on the real
// pkg/resource code through the verifhook yield points (K4), compares every outcome with the Lean
// model (driverC02), and evaluates the property itself with an independent linearizability checker
// on hooked schedules and on unhooked multi-core stress histories.
package main

import (
	"encoding/json"
	"fmt"
	"io"
	"log"
	"math/rand"
	"os"
	"runtime"
	"sort"
	"strconv"
	"strings"
	"sync"
	"sync/atomic"
	"time"

	"github.com/smart-core-os/sc-golang/verifharness/cmd/c02/k4"
	"github.com/smart-core-os/sc-golang/verifharness/lib"
)

var parkPoints = []string{"gau.afterRead", "gau.beforeLock", "coll.delete.afterRead"}

// ---------------------------------------------------------------------------------------------
// one hooked execution

type Run struct {
	Sched   []int      // the schedule actually executed: one entry per released step
	Enabled [][]int    // threads that could have been released at each step
	Results [][]string // per thread, per call
	Hist    []HOp
	Final   map[int]int64
}

// runScheduled executes sc on the real code. The schedule follows prefix as long as it lasts (entries
// naming a finished thread are skipped), then always releases the lowest unfinished thread.
func runScheduled(ctl *k4.Controller, sc Scenario, prefix []int, choose func(enabled []int) int) *Run {
	w := newWorld(sc)
	n := len(sc.Progs)
	r := &Run{Results: make([][]string, n)}
	ths := make([]*k4.Thread, n)
	cur := make([]int, n) // index of the call a thread is in (or about to start)
	inv := make([]int64, n)
	for t := 0; t < n; t++ {
		t := t
		prog := sc.Progs[t]
		ths[t] = ctl.Spawn(t, func(yield func(string)) {
			for _, op := range prog {
				yield("start")
				res := w.exec(op)
				r.Results[t] = append(r.Results[t], res)
			}
		})
	}
	step := int64(0)
	pi := 0
	for {
		var enabled []int
		for t := 0; t < n; t++ {
			if ths[t].Status == k4.Parked {
				enabled = append(enabled, t)
			}
		}
		if len(enabled) == 0 {
			break
		}
		pick := -1
		for pi < len(prefix) && pick < 0 {
			c := prefix[pi]
			pi++
			if c >= 0 && c < n && ths[c].Status == k4.Parked {
				pick = c
			}
		}
		if pick < 0 {
			if choose != nil {
				pick = choose(enabled)
			} else {
				pick = enabled[0]
			}
		}
		th := ths[pick]
		wasStart := th.Point == "start"
		if wasStart {
			inv[pick] = step
		}
		before := len(r.Results[pick])
		st := ctl.Step(th)
		if st == k4.Blocked {
			panic("c02: a writer blocked without subscribers: " + th.Point)
		}
		if th.Panic != nil {
			r.Results[pick] = append(r.Results[pick], fmt.Sprint("panic:", th.Panic))
		}
		r.Sched = append(r.Sched, pick)
		r.Enabled = append(r.Enabled, enabled)
		if len(r.Results[pick]) > before {
			r.Hist = append(r.Hist, HOp{T: pick, N: cur[pick], Op: sc.Progs[pick][cur[pick]], Inv: inv[pick], Resp: step, Res: r.Results[pick][before]})
			cur[pick]++
		}
		step++
	}
	r.Final = w.contents()
	return r
}

func (r *Run) canon(n int) string {
	var parts []string
	for t := 0; t < n; t++ {
		parts = append(parts, fmt.Sprintf("T%d=[%s]", t, strings.Join(r.Results[t], ",")))
	}
	return strings.Join(parts, "|") + "|store=" + showContents(r.Final)
}

// exploreAll enumerates every schedule of sc (stateless depth-first search by re-execution).
func exploreAll(ctl *k4.Controller, sc Scenario, limit int, visit func(*Run)) (count int, complete bool) {
	stack := [][]int{{}}
	for len(stack) > 0 {
		if limit > 0 && count >= limit {
			return count, false
		}
		prefix := stack[len(stack)-1]
		stack = stack[:len(stack)-1]
		r := runScheduled(ctl, sc, prefix, nil)
		count++
		visit(r)
		for i := len(r.Sched) - 1; i >= len(prefix); i-- {
			for _, alt := range r.Enabled[i] {
				if alt > r.Sched[i] {
					p := append(append([]int{}, r.Sched[:i]...), alt)
					stack = append(stack, p)
				}
			}
		}
	}
	return count, true
}

// ---------------------------------------------------------------------------------------------
// the property evaluated on one history

type verdict struct {
	sig, what, expected, observed string
}

func judge(sc Scenario, hist []HOp, final map[int]int64) *verdict {
	init := sc.initMap()
	// specific clauses first, so that signatures stay specific
	addsOK := map[int]int{}
	deletes := map[int]bool{}
	pureInc := map[int]bool{}
	sum := map[int]int64{}
	for _, p := range sc.Progs {
		for _, o := range p {
			id := o.target()
			if _, seen := pureInc[id]; !seen {
				pureInc[id] = true
			}
			if !(o.K != "d" && !o.EA && !o.CIA && o.Expect == nil && (o.Check == "" || o.Check == "n") && strings.HasPrefix(o.F, "a")) {
				pureInc[id] = false
			}
			if o.K == "d" {
				deletes[id] = true
			}
		}
	}
	for _, h := range hist {
		if strings.HasPrefix(h.Res, "panic:") {
			return &verdict{"C02/" + h.Op.K + "/panic", "a concurrent write panicked", "a result", h.Res}
		}
		id := h.Op.target()
		if strings.HasPrefix(h.Res, "ok:") && h.Op.K == "u" && h.Op.EA {
			addsOK[id]++
		}
		if strings.HasPrefix(h.Res, "ok:") && strings.HasPrefix(h.Op.F, "a") {
			k, _ := strconv.ParseInt(h.Op.F[1:], 10, 64)
			sum[id] += k
		}
	}
	for id, c := range addsOK {
		if c > 1 && !deletes[id] {
			return &verdict{"C02/add/both-succeed", fmt.Sprintf("%d Adds of id %d reported success although nothing deletes it", c, id), "at most one Add of an id succeeds", fmt.Sprintf("%d successes", c)}
		}
	}
	for id, pure := range pureInc {
		if v0, present := init[id]; pure && present {
			if final[id] != v0+sum[id] {
				return &verdict{"C02/increment/lost", fmt.Sprintf("successful increments on id %d add up to %d but the value went from %d to %d", id, sum[id], v0, final[id]),
					strconv.FormatInt(v0+sum[id], 10), strconv.FormatInt(final[id], 10)}
			}
		}
	}
	// Aborted / Unavailable only when some other call overlapped
	for i, h := range hist {
		if !lostRace(h.Res) {
			continue
		}
		overlap := false
		for j, g := range hist {
			if i != j && !(g.Resp < h.Inv || h.Resp < g.Inv) {
				overlap = true
			}
		}
		if !overlap {
			return &verdict{"C02/" + h.Op.K + "/spurious-" + strings.TrimPrefix(h.Res, "err:"), "a call that overlapped no other call lost a race", "a result of the sequential specification", h.Res}
		}
	}
	if ok, _ := linearizable(init, hist, final); !ok {
		var hs []string
		for _, h := range hist {
			hs = append(hs, fmt.Sprintf("T%d.%d %s [%d,%d] -> %s", h.T, h.N, h.Op.encode(), h.Inv, h.Resp, h.Res))
		}
		return &verdict{"C02/linearizability/no-sequential-order", "no one-at-a-time order consistent with real time explains the results and the final contents",
			"some sequential order of the calls on the map specification", strings.Join(hs, "; ") + " ; final " + showContents(final)}
	}
	return nil
}

// ---------------------------------------------------------------------------------------------
// scenario generation

func pi64(v int64) *int64 { return &v }

func genOp(rng *rand.Rand, ids []int, withValue bool) Op {
	val := func() int64 { return int64(rng.Intn(4)) }
	f := func() string {
		if rng.Intn(2) == 0 {
			return "s" + strconv.FormatInt(val(), 10)
		}
		return "a" + strconv.Itoa(1+rng.Intn(2))
	}
	pre := func(o *Op) {
		switch rng.Intn(6) {
		case 0, 1:
			o.Expect = pi64(val())
		case 2:
			o.Check = []string{"eq", "ne"}[rng.Intn(2)] + strconv.FormatInt(val(), 10)
		}
	}
	id := ids[rng.Intn(len(ids))]
	k := rng.Intn(10)
	if withValue && k < 3 {
		o := Op{K: "v", ID: valueID, F: f()}
		pre(&o)
		return o
	}
	switch {
	case k < 5: // Add
		return Op{K: "u", ID: id, EA: true, CIA: true, F: "s" + strconv.FormatInt(val(), 10)}
	case k < 7: // upsert
		o := Op{K: "u", ID: id, CIA: true, F: f()}
		if rng.Intn(3) == 0 {
			pre(&o)
		}
		return o
	case k < 9: // update existing
		o := Op{K: "u", ID: id, F: f()}
		pre(&o)
		return o
	default:
		o := Op{K: "d", ID: id, AM: rng.Intn(3) == 0}
		pre(&o)
		return o
	}
}

func genScenario(rng *rand.Rand, maxThreads, maxOps int) Scenario {
	sc := Scenario{Init: map[string]int64{}}
	ids := []int{0}
	if rng.Intn(3) == 0 {
		ids = append(ids, 1)
	}
	withValue := rng.Intn(3) == 0
	for _, id := range ids {
		if rng.Intn(2) == 0 {
			sc.Init[strconv.Itoa(id)] = int64(rng.Intn(4))
		}
	}
	if withValue && rng.Intn(3) > 0 {
		sc.Init[strconv.Itoa(valueID)] = int64(rng.Intn(4))
	}
	nt := 2 + rng.Intn(maxThreads-1)
	// a third of the scenarios are Delete-heavy or increment-only so that the rarer paths are visited
	mode := rng.Intn(6)
	for t := 0; t < nt; t++ {
		var prog []Op
		no := 1 + rng.Intn(maxOps)
		for i := 0; i < no; i++ {
			switch {
			case mode == 0:
				prog = append(prog, Op{K: "u", ID: ids[0], F: "a" + strconv.Itoa(1+rng.Intn(3))})
			case mode == 1 && rng.Intn(2) == 0:
				o := Op{K: "d", ID: ids[0], AM: rng.Intn(3) == 0}
				if rng.Intn(2) == 0 {
					o.Expect = pi64(int64(rng.Intn(4)))
				}
				prog = append(prog, o)
			default:
				prog = append(prog, genOp(rng, ids, withValue))
			}
		}
		sc.Progs = append(sc.Progs, prog)
	}
	if mode == 0 {
		sc.Init[strconv.Itoa(ids[0])] = int64(rng.Intn(4))
	}
	return sc
}

// witnesses: small scenarios that exercise each race window; all their schedules are enumerated
func witnessScenarios() []Scenario {
	add := func(v int64) Op { return Op{K: "u", ID: 0, EA: true, CIA: true, F: "s" + strconv.FormatInt(v, 10)} }
	inc := func(k int) Op { return Op{K: "u", ID: 0, F: "a" + strconv.Itoa(k)} }
	upinc := func(k int) Op { return Op{K: "u", ID: 0, CIA: true, F: "a" + strconv.Itoa(k)} }
	cas := func(e, v int64) Op { return Op{K: "u", ID: 0, Expect: pi64(e), F: "s" + strconv.FormatInt(v, 10)} }
	vcas := func(e, v int64) Op { return Op{K: "v", ID: valueID, Expect: pi64(e), F: "s" + strconv.FormatInt(v, 10)} }
	vinc := func(k int) Op { return Op{K: "v", ID: valueID, F: "a" + strconv.Itoa(k)} }
	del := func() Op { return Op{K: "d", ID: 0} }
	delx := func(e int64) Op { return Op{K: "d", ID: 0, Expect: pi64(e)} }
	return []Scenario{
		{Init: map[string]int64{}, Progs: [][]Op{{add(1)}, {add(2)}}},                                // the defect fixed by 41c35d0
		{Init: map[string]int64{}, Progs: [][]Op{{upinc(1)}, {upinc(2)}}},                            // create-if-absent increments
		{Init: map[string]int64{}, Progs: [][]Op{{add(0)}, {upinc(2)}}},                              // created value equal to the empty message
		{Init: map[string]int64{"0": 1}, Progs: [][]Op{{inc(1)}, {inc(2)}}},                          // lost update
		{Init: map[string]int64{"0": 1}, Progs: [][]Op{{cas(1, 2)}, {cas(1, 3)}}},                    // CAS vs CAS
		{Init: map[string]int64{"0": 1}, Progs: [][]Op{{cas(1, 2), cas(2, 1)}, {cas(1, 3)}}},         // ABA on values
		{Init: map[string]int64{"0": 1}, Progs: [][]Op{{delx(1)}, {cas(1, 2), cas(2, 1)}}},           // Delete vs ABA: pointer comparison
		{Init: map[string]int64{"0": 1}, Progs: [][]Op{{del()}, {inc(1)}}},                           // Delete retry
		{Init: map[string]int64{"0": 0}, Progs: [][]Op{{del()}, {upinc(1)}}},                         // delete, then re-create on the re-validation read
		{Init: map[string]int64{"9": 1}, Progs: [][]Op{{vcas(1, 2)}, {vinc(1)}}},                     // Value
		{Init: map[string]int64{}, Progs: [][]Op{{vinc(1)}, {vinc(2)}}},                              // Value starting nil
		{Init: map[string]int64{"0": 1}, Progs: [][]Op{{del()}, {add(5)}, {Op{K: "d", ID: 0, AM: true}}}}, // three threads
	}
}

func thoroughScenarios() []Scenario {
	inc := func(k int) Op { return Op{K: "u", ID: 0, F: "a" + strconv.Itoa(k)} }
	add := func(v int64) Op { return Op{K: "u", ID: 0, EA: true, CIA: true, F: "s" + strconv.FormatInt(v, 10)} }
	del := func() Op { return Op{K: "d", ID: 0} }
	cas := func(e, v int64) Op { return Op{K: "u", ID: 0, Expect: pi64(e), F: "s" + strconv.FormatInt(v, 10)} }
	return []Scenario{
		{Init: map[string]int64{}, Progs: [][]Op{{add(1)}, {add(2)}, {add(3)}}},
		{Init: map[string]int64{"0": 0}, Progs: [][]Op{{inc(1)}, {inc(2)}, {inc(3)}}},
		{Init: map[string]int64{"0": 1}, Progs: [][]Op{{del(), add(4)}, {inc(1), inc(1)}}},
		{Init: map[string]int64{}, Progs: [][]Op{{add(1), del()}, {add(2), del()}}},
		{Init: map[string]int64{"0": 1}, Progs: [][]Op{{cas(1, 2), cas(2, 1)}, {cas(1, 3), del()}}},
		{Init: map[string]int64{"0": 1}, Progs: [][]Op{{del()}, {inc(1)}, {inc(2)}}},
	}
}

// ---------------------------------------------------------------------------------------------

type pending struct {
	sc  Scenario
	run *Run
}

func main() {
	f := lib.ParseFlags()
	log.SetOutput(io.Discard) // Value.set's "took too long" alarm fires while a thread is parked
	if f.Replay != "" {
		os.Exit(replay(f))
	}
	res := lib.NewResult("C02", f)
	rng := lib.NewRand(f.Seed)
	ctl := k4.New(parkPoints...)

	tie := res.Tie("k4-schedules", "K4",
		"each case = one scenario (2-3 writers x 1-2 calls from {Add, upsert, Update with expected value/check, delta interceptor, Delete with precondition, Value.Set} on 1-2 ids + a Value) executed on the real code under one schedule forced through the yield points gau.afterRead / gau.beforeLock / coll.delete.afterRead; per-call results and final contents compared with run(model) on the same schedule; non-trivial = at least two calls overlapped; distinct = distinct (scenario, schedule)")
	mon := res.Monitor("linearizable-hooked",
		"the property on every hooked execution: independent Go map specification + backtracking linearizability checker (real-time order from step indices), plus add-exclusive, no-lost-increment, no spurious Aborted")
	var cases []pending
	record := func(sc Scenario, r *Run) {
		cases = append(cases, pending{sc, r})
	}

	// 1. witnesses: every schedule
	exhaustiveCount := 0
	for _, sc := range witnessScenarios() {
		n, complete := exploreAll(ctl, sc, 0, func(r *Run) { record(sc, r) })
		exhaustiveCount += n
		if !complete {
			tie.Fail(fmt.Errorf("schedule enumeration incomplete"))
		}
	}
	res.Extra["witness_scenarios_all_schedules"] = exhaustiveCount
	// a Delete invalidated five times in a row gives up with Unavailable
	{
		inc := Op{K: "u", ID: 0, F: "a1"}
		sc := Scenario{Init: map[string]int64{"0": 0}, Progs: [][]Op{{{K: "d", ID: 0}}, {inc, inc, inc, inc, inc}}}
		sched := []int{0}
		for i := 0; i < 5; i++ {
			sched = append(sched, 1, 1, 1, 0)
		}
		record(sc, runScheduled(ctl, sc, sched, nil))
		sc4 := Scenario{Init: map[string]int64{"0": 0}, Progs: [][]Op{{{K: "d", ID: 0}}, {inc, inc, inc, inc}}}
		record(sc4, runScheduled(ctl, sc4, sched, nil))
	}
	// 2. thorough: every schedule of bigger programs and of random small scenarios
	if f.Thorough() {
		n2 := 0
		for _, sc := range thoroughScenarios() {
			n, _ := exploreAll(ctl, sc, 6000, func(r *Run) { record(sc, r) })
			n2 += n
		}
		for i := 0; i < 60; i++ {
			sc := genScenario(rng, 2, 2)
			n, _ := exploreAll(ctl, sc, 1500, func(r *Run) { record(sc, r) })
			n2 += n
		}
		res.Extra["thorough_scenarios_all_schedules"] = n2
	}
	// 3. random scenarios, random schedules
	nrand := f.N(2500, 30000)
	for i := 0; i < nrand; i++ {
		sc := genScenario(rng, 3, 2)
		r := runScheduled(ctl, sc, nil, func(en []int) int { return en[rng.Intn(len(en))] })
		record(sc, r)
	}
	ctl.Close()

	// model side, in one batch
	drv, err := lib.StartDriver(f.Driver)
	if err != nil {
		tie.Fail(err)
	} else {
		lines := make([]string, len(cases))
		for i, c := range cases {
			lines[i] = c.sc.driverLine(true, c.run.Sched)
		}
		answers, err := drv.Batch(lines)
		drv.Close()
		if err != nil {
			tie.Fail(err)
		} else {
			for i, c := range cases {
				n := len(c.sc.Progs)
				model := answers[i]
				// the model must also say every thread is finished after exactly these steps
				wantPc := "|pc=" + strings.Repeat("i", n)
				code := c.run.canon(n) + fmt.Sprintf("|log=%d", countCommits(c.run.Hist)) + wantPc
				in := map[string]any{"init": c.sc.Init, "progs": c.sc.Progs, "sched": c.run.Sched}
				tie.Record(lines[i], overlapped(c.run.Hist), in, model, code)
				for _, h := range c.run.Hist {
					tie.Count(h.Op.K + ":" + h.Res[:strings.IndexByte(h.Res, ':')+1] + codeOf(h.Res))
				}
			}
		}
	}
	for _, c := range cases {
		sc := c.sc
		sc.Sched = c.run.Sched
		in := map[string]any{"mode": "k4", "init": sc.Init, "progs": sc.Progs, "sched": c.run.Sched}
		mon.Eval(sc.driverLine(true, c.run.Sched), overlapped(c.run.Hist), nil)
		for _, h := range c.run.Hist {
			mon.Count(codeOf(h.Res))
		}
		if v := judge(sc, c.run.Hist, c.run.Final); v != nil {
			mon.Violate(v.sig, v.what, in, v.expected, v.observed)
		}
	}

	// 4. unhooked stress
	stress(f, res, rng)

	if err := res.Write(f.Out); err != nil {
		lib.Fatal(err)
	}
}

func codeOf(res string) string {
	if strings.HasPrefix(res, "ok:") {
		return "ok"
	}
	return strings.TrimPrefix(res, "err:")
}

func countCommits(hist []HOp) int {
	n := 0
	for _, h := range hist {
		if strings.HasPrefix(h.Res, "ok:") && h.Res != "ok:nil" {
			n++
		}
	}
	return n
}

func overlapped(hist []HOp) bool {
	for i, h := range hist {
		for j, g := range hist {
			if i < j && h.T != g.T && !(g.Resp < h.Inv || h.Resp < g.Inv) {
				return true
			}
		}
	}
	return false
}

// ---------------------------------------------------------------------------------------------
// unhooked stress: real goroutines on all cores, histories stamped with an atomic counter

func stressOnce(sc Scenario) ([]HOp, map[int]int64) {
	w := newWorld(sc)
	var clock atomic.Int64
	var wg sync.WaitGroup
	start := make(chan struct{})
	hists := make([][]HOp, len(sc.Progs))
	for t, prog := range sc.Progs {
		wg.Add(1)
		go func(t int, prog []Op) {
			defer wg.Done()
			<-start
			for n, op := range prog {
				inv := clock.Add(1)
				var res string
				if p, msg := lib.Catch(func() { res = w.exec(op) }); p {
					res = "panic:" + msg
				}
				resp := clock.Add(1)
				hists[t] = append(hists[t], HOp{T: t, N: n, Op: op, Inv: inv, Resp: resp, Res: res})
			}
		}(t, prog)
	}
	close(start)
	wg.Wait()
	var hist []HOp
	for _, h := range hists {
		hist = append(hist, h...)
	}
	sort.Slice(hist, func(i, j int) bool { return hist[i].Inv < hist[j].Inv })
	return hist, w.contents()
}

func stress(f lib.Flags, res *lib.Result, rng *rand.Rand) {
	mon := res.Monitor("linearizable-stress",
		"the property on unhooked executions: writers are real goroutines released together on all cores, calls stamped with an atomic counter at invocation and response; same independent checker; a violation is then searched for among all hooked schedules of the same scenario to obtain a deterministic replay")
	rounds := f.N(80, 600)
	reps := f.N(300, 500)
	workers := runtime.GOMAXPROCS(0) / 2
	if workers < 2 {
		workers = 2
	}
	if workers > 8 {
		workers = 8
	}
	type found struct {
		sc Scenario
		v  *verdict
	}
	var scs []Scenario
	for _, sc := range witnessScenarios() {
		scs = append(scs, sc)
	}
	for i := 0; i < rounds; i++ {
		scs = append(scs, genScenario(rng, 4, 2))
	}
	var mu sync.Mutex
	var founds []found
	var evals, overl atomic.Int64
	dist := map[string]int{}
	jobs := make(chan Scenario)
	var wg sync.WaitGroup
	deadline := time.Now().Add(time.Duration(f.N(20, 240)) * time.Second)
	for wk := 0; wk < workers; wk++ {
		wg.Add(1)
		go func() {
			defer wg.Done()
			for sc := range jobs {
				local := map[string]int{}
				for i := 0; i < reps && time.Now().Before(deadline); i++ {
					hist, final := stressOnce(sc)
					evals.Add(1)
					if overlapped(hist) {
						overl.Add(1)
					}
					for _, h := range hist {
						local[codeOf(h.Res)]++
					}
					if v := judge(sc, hist, final); v != nil {
						mu.Lock()
						founds = append(founds, found{sc, v})
						mu.Unlock()
						break
					}
				}
				mu.Lock()
				for k, v := range local {
					dist[k] += v
				}
				mu.Unlock()
			}
		}()
	}
	for _, sc := range scs {
		jobs <- sc
	}
	close(jobs)
	wg.Wait()
	mon.Evaluations = int(evals.Load())
	mon.Distinct = int(overl.Load())
	for k, v := range dist {
		mon.Distribution[k] = v
	}
	mon.Samples = append(mon.Samples, map[string]any{"scenarios": len(scs), "repetitions_each": reps, "workers": workers, "histories_with_overlap": overl.Load()})
	if len(founds) > 0 {
		ctl := k4.New(parkPoints...)
		defer ctl.Close()
		searched := map[string]bool{}
		for _, fd := range founds {
			if searched[fd.v.sig] {
				mon.Violate(fd.v.sig, fd.v.what, nil, fd.v.expected, fd.v.observed)
				continue
			}
			searched[fd.v.sig] = true
			in := map[string]any{"mode": "stress", "init": fd.sc.Init, "progs": fd.sc.Progs}
			// look for a deterministic schedule showing the same failure
			exploreAll(ctl, fd.sc, 4000, func(r *Run) {
				if _, has := in["sched"]; has {
					return
				}
				if v := judge(fd.sc, r.Hist, r.Final); v != nil && v.sig == fd.v.sig {
					in["sched"] = r.Sched
					in["mode"] = "k4"
				}
			})
			mon.Violate(fd.v.sig, fd.v.what, in, fd.v.expected, fd.v.observed)
		}
	}
}

// ---------------------------------------------------------------------------------------------

func replay(f lib.Flags) int {
	rp, err := lib.ReadReplay(f.Replay)
	if err != nil {
		lib.Fatal(err)
	}
	raw, _ := json.Marshal(rp.Input)
	var in struct {
		Mode string `json:"mode"`
		Scenario
	}
	if err := json.Unmarshal(raw, &in); err != nil || len(in.Progs) == 0 {
		fmt.Println("replay: no concrete input in file (", rp.Kind, ")")
		return 2
	}
	sc := in.Scenario
	if sc.Init == nil {
		sc.Init = map[string]int64{}
	}
	if in.Mode == "stress" || len(sc.Sched) == 0 {
		for i := 0; i < 20000; i++ {
			hist, final := stressOnce(sc)
			if v := judge(sc, hist, final); v != nil {
				fmt.Printf("STILL FAILS %s: %s (expected %s, observed %s) after %d stress repetitions\n", v.sig, v.what, v.expected, v.observed, i+1)
				return 1
			}
		}
		fmt.Println("replay: 20000 stress repetitions of the scenario satisfied the property")
		return 0
	}
	ctl := k4.New(parkPoints...)
	defer ctl.Close()
	r := runScheduled(ctl, sc, sc.Sched, nil)
	fmt.Printf("replay schedule %v -> %s\n", r.Sched, r.canon(len(sc.Progs)))
	if f.Driver != "" {
		if ans, err := lib.RunOnce(f.Driver, []string{sc.driverLine(true, r.Sched)}); err == nil {
			fmt.Println("model:", ans[0])
		}
	}
	if v := judge(sc, r.Hist, r.Final); v != nil {
		fmt.Printf("STILL FAILS %s: %s (expected %s, observed %s)\n", v.sig, v.what, v.expected, v.observed)
		return 1
	}
	fmt.Println("replay: property holds on this input now")
	return 0
}
