package main

import (
	"fmt"
	"math/rand"
	"strconv"
	"strings"

	"github.com/smart-core-os/sc-golang/verifharness/cmd/c02/k4"
	"github.com/smart-core-os/sc-golang/verifharness/lib"
)

// ---------------------------------------------------------------------------------------------
// ids spelled differently by different callers (a Collection with an id interceptor)

// spellable: the scenario can be run on a collection with a lower-casing id interceptor (generated ids are
// base64: their model numbering does not survive a change of case)
func (sc Scenario) spellable() bool {
	if len(sc.Cands) > 0 {
		return false
	}
	for _, id := range sc.initIDs() {
		if id >= genBase {
			return false
		}
	}
	for _, p := range sc.Progs {
		for _, o := range p {
			if o.Gen || o.ID >= genBase {
				return false
			}
			for _, r := range o.Rivals {
				if r.Gen || r.ID >= genBase {
					return false
				}
			}
		}
	}
	return true
}

// spell configures the id interceptor and lets every caller pick a spelling of its id
func (sc *Scenario) spell(rng *rand.Rand) {
	pick := func(o *Op) {
		if o.K == "u" || o.K == "d" {
			o.Sp = rng.Intn(2)
			sc.Icpt = true
		}
	}
	for _, p := range sc.Progs {
		for i := range p {
			pick(&p[i])
			for j := range p[i].Rivals {
				pick(&p[i].Rivals[j])
			}
		}
	}
}

func sp(o Op, s int) Op { o.Sp = s; return o }

// icptWitnesses: the race windows of the create / update / delete paths entered by callers that do not spell the
// id the way it is stored; every schedule is enumerated
func icptWitnesses() []Scenario {
	set := func(a, b int64) string { return "s" + P{a, b}.String() }
	add := func(v int64) Op { return Op{K: "u", ID: 0, EA: true, CIA: true, ViaAdd: v%2 == 0, F: set(v, 0)} }
	inc := func(k int) Op { return Op{K: "u", ID: 0, F: "a" + strconv.Itoa(k)} }
	upinc := func(k int) Op { return Op{K: "u", ID: 0, CIA: true, F: "a" + strconv.Itoa(k)} }
	upset := func(v int64) Op { return Op{K: "u", ID: 0, CIA: true, F: set(v, 0)} }
	cas := func(e, v int64) Op { return Op{K: "u", ID: 0, Expect: pp(e, 0), F: set(v, 0)} }
	del := Op{K: "d", ID: 0}
	one := map[string]P{"0": {1, 0}}
	return []Scenario{
		{Icpt: true, Init: map[string]P{}, Progs: [][]Op{{sp(add(1), 1)}, {sp(add(2), 1)}}},
		{Icpt: true, Init: map[string]P{}, Progs: [][]Op{{sp(add(1), 1)}, {add(2)}}},
		{Icpt: true, Init: map[string]P{}, Progs: [][]Op{{sp(upinc(1), 1)}, {sp(add(2), 1)}}},
		{Icpt: true, Init: map[string]P{}, Progs: [][]Op{{sp(upset(1), 1)}, {upset(2)}}},
		{Icpt: true, Init: one, Progs: [][]Op{{sp(inc(1), 1)}, {inc(2)}}},
		{Icpt: true, Init: one, Progs: [][]Op{{sp(del, 1)}, {upinc(1)}}},
		{Icpt: true, Init: one, Clock: "f", Progs: [][]Op{{sp(Op{K: "d", ID: 0, Expect: pp(1, 0)}, 1)}, {sp(cas(1, 2), 1), cas(2, 1)}}},
	}
}

func nestedIcptWitnesses() []Scenario {
	set := func(a, b int64) string { return "s" + P{a, b}.String() }
	add := func(v int64) Op { return Op{K: "u", ID: 0, EA: true, CIA: true, ViaAdd: v%2 == 0, F: set(v, 0)} }
	inc := func(k int) Op { return Op{K: "u", ID: 0, F: "a" + strconv.Itoa(k)} }
	with := func(o Op, at string, rv ...Op) Op { o.Rivals, o.RivalAt = rv, at; return o }
	mk := func(init map[string]P, o Op) Scenario {
		return Scenario{Init: init, Clock: "f", Nested: true, Icpt: true, Progs: [][]Op{{o}}}
	}
	one := map[string]P{"0": {1, 0}}
	return []Scenario{
		mk(map[string]P{}, with(sp(add(1), 1), "b", sp(add(2), 1))),
		mk(map[string]P{}, with(sp(add(1), 1), "b", add(2))),
		mk(map[string]P{}, with(sp(Op{K: "u", ID: 0, CIA: true, F: set(1, 0)}, 1), "b", sp(add(2), 1))),
		mk(map[string]P{}, with(sp(Op{K: "u", ID: 0, CIA: true, F: "a1"}, 1), "c", add(2))),
		mk(one, with(sp(inc(1), 1), "b", inc(2))),
		mk(one, with(sp(Op{K: "d", ID: 0, Check: "eq1"}, 1), "c", inc(1))),
	}
}

// ---------------------------------------------------------------------------------------------
// family publish-window

func countOp(f, mask string) Op { return Op{K: "c", ID: countID, F: f, Mask: mask} }

var resetOp = Op{K: "z", ID: countID, F: "s0.0"}

// genCount: 2-3 clients of one count device: fetch-and-add on either field, absolute updates (whole or masked), resets
func genCount(rng *rand.Rand) Scenario {
	sc := Scenario{Init: map[string]P{strconv.Itoa(countID): genVal(rng)}, Clock: "f"}
	nt := 2 + rng.Intn(2)
	for t := 0; t < nt; t++ {
		var prog []Op
		for i, n := 0, 1+rng.Intn(2); i < n; i++ {
			switch k := rng.Intn(8); {
			case k < 4:
				prog = append(prog, countOp([]string{"a", "a", "b"}[rng.Intn(3)]+strconv.Itoa(1+rng.Intn(2)), []string{"", "", "ab"}[rng.Intn(3)]))
			case k < 5:
				fld := []string{"a", "b"}[rng.Intn(2)]
				prog = append(prog, countOp(fld+strconv.Itoa(1+rng.Intn(2)), fld))
			case k < 7:
				prog = append(prog, countOp("s"+genVal(rng).String(), []string{"", "a", "b"}[rng.Intn(3)]))
			default:
				prog = append(prog, resetOp)
			}
		}
		sc.Progs = append(sc.Progs, prog)
	}
	return sc
}

func countWitnesses() []Scenario {
	zero := map[string]P{strconv.Itoa(countID): {0, 0}}
	some := map[string]P{strconv.Itoa(countID): {1, 1}}
	return []Scenario{
		{Init: zero, Clock: "f", Progs: [][]Op{{countOp("a1", "")}, {countOp("a1", "")}}}, // two clients take a ticket
		{Init: some, Clock: "f", Progs: [][]Op{{countOp("a1", "")}, {resetOp}}},
		{Init: some, Clock: "f", Progs: [][]Op{{countOp("s5.0", "a")}, {countOp("b2", "b")}}},
		{Init: zero, Clock: "f", Progs: [][]Op{{countOp("a1", ""), countOp("b1", "")}, {countOp("a2", "")}}},
	}
}

// pubWitnesses: every schedule, the publication being a step
func pubWitnesses() []Scenario {
	set := func(a, b int64) string { return "s" + P{a, b}.String() }
	add := func(v int64) Op { return Op{K: "u", ID: 0, EA: true, CIA: true, ViaAdd: v%2 == 0, F: set(v, 0)} }
	inc := func(k int) Op { return Op{K: "u", ID: 0, F: "a" + strconv.Itoa(k)} }
	vinc := func(k int) Op { return Op{K: "v", ID: valueID, F: "a" + strconv.Itoa(k)} }
	out := countWitnesses()
	out = append(out,
		Scenario{Init: map[string]P{"9": {1, 0}}, Clock: "f", Progs: [][]Op{{vinc(1)}, {Op{K: "v", ID: valueID, Expect: pp(1, 0), F: set(5, 0)}}}},
		Scenario{Init: map[string]P{}, Progs: [][]Op{{vinc(1)}, {Op{K: "v", ID: valueID, F: set(0, 7), Mask: "b"}}}},
		Scenario{Init: map[string]P{"6": {0, 0}}, Progs: [][]Op{{enterOp("a1")}, {enterOp("a1")}}},
		Scenario{Init: map[string]P{"7": {0, 10}}, Progs: [][]Op{{vendOp(2)}, {vendOp(2)}}},
		Scenario{Init: map[string]P{}, Progs: [][]Op{{add(1)}, {add(2)}}},
		Scenario{Init: map[string]P{"0": {1, 0}}, Progs: [][]Op{{inc(1)}, {Op{K: "d", ID: 0}}}},
		Scenario{Init: map[string]P{"5": {1, 0}}, Clock: "f", Progs: [][]Op{{pubOp(2, pp(1, 0))}, {pubOp(3, pp(1, 0))}}},
	)
	for i := range out {
		out[i].Pub = true
	}
	return out
}

func genPub(rng *rand.Rand) Scenario {
	if rng.Intn(3) == 0 {
		sc := genCount(rng)
		sc.Pub = true
		return sc
	}
	for {
		sc := genScenario(rng, 3, 2)
		if len(sc.Cands) == 0 && sc.spellable() {
			sc.Pub = true
			return sc
		}
	}
}

func (r *Run) canonPlain() string {
	var parts []string
	for t := range r.Results {
		parts = append(parts, fmt.Sprintf("T%d=[%s]", t, strings.Join(r.Results[t], ",")))
	}
	return strings.Join(parts, "|") + "|store=" + showContents(r.Final)
}

// pubDriverLine: the run as a schedule of the answer layer (Answer.lean, arun with handlers that answer the way
// the code does) on top of the publication-layer model (Send.lean, prun): a committed Value.Set makes its
// publication as the thread's next step, and the handler around the call answers in that step; Collection.Update publishes without a budget, as part of the
// call's last step in the model, so the steps released from coll.update.beforeSend are left out
func pubDriverLine(sc Scenario, r *Run) string {
	var ps []int
	for i, t := range r.Sched {
		if i < len(r.From) && r.From[i] == "coll.update.beforeSend" {
			continue
		}
		ps = append(ps, t)
	}
	f := strings.Fields(driverLine(sc, r.Progs, ps)) // run 1 clock cands init progs sched
	return fmt.Sprintf("answer own %s %s %s %s", f[2], f[4], f[5], f[6])
}

// pubFamily: hooked executions in which a thread also parks between its save and its publication
func pubFamily(f lib.Flags, res *lib.Result, rng *rand.Rand, mon *lib.Monitor) {
	tie := res.Tie("publish-window", "K4",
		"hooked executions in which the publication after the commit is a step of its own (threads also park at value.set.beforeSend / coll.update.beforeSend: value stored, call not returned - what a slow subscriber with backpressure does to a writer): write HANDLERS of a trait server (countpb.MemoryDevice.UpdateCount as fetch-and-add / absolute / masked, ResetCount), the trait callers and plain Set / Update / Add / Delete; per-call RESPONSES and the final contents compared with the answers of arun(own) (the answer layer Answer.lean on top of the publication layer Send.lean: the theorems C02_handler_answers_are_the_reported_results / C02_reported_result_is_final speak about them) on the same schedule; all schedules of the witness scenarios, random schedules of random scenarios; non-trivial = at least two calls overlapped; distinct = distinct (scenario, schedule)")
	ctl := k4.New(parkPointsPub...)
	type pcase struct {
		sc  Scenario
		run *Run
	}
	var cases []pcase
	n := 0
	for _, sc := range pubWitnesses() {
		if stuckHooked >= 10 {
			break
		}
		sc := sc
		k, complete := exploreAll(ctl, sc, 3000, func(r *Run) { cases = append(cases, pcase{sc, r}) })
		n += k
		if !complete {
			tie.Fail(fmt.Errorf("schedule enumeration incomplete"))
		}
	}
	res.Extra["publish_window_witness_schedules"] = n
	for i, k := 0, f.N(700, 8000); i < k && stuckHooked < 10; i++ {
		sc := genPub(rng)
		cases = append(cases, pcase{sc, runScheduled(ctl, sc, nil, func(en []int) int { return en[rng.Intn(len(en))] })})
	}
	ctl.Close()
	lines := make([]string, len(cases))
	for i, c := range cases {
		lines[i] = pubDriverLine(c.sc, c.run)
	}
	answers, err := lib.RunOnce(f.Driver, lines)
	if err != nil {
		tie.Fail(err)
	}
	for i, c := range cases {
		in := c.sc.input(c.run.Sched)
		nontrivial := overlapped(c.run.Hist)
		if err == nil && !c.run.Stuck {
			tie.Record(lines[i], nontrivial, in, answers[i], c.run.canonPlain())
		}
		for _, h := range c.run.Hist {
			tie.Count(h.Op.K + ":" + h.Res[:strings.IndexByte(h.Res, ':')+1] + codeOf(h.Res))
			tie.Count(h.Op.optionClass())
		}
		held := false
		for j, from := range c.run.From {
			// a step of another thread between a thread's save and its publication
			if strings.HasSuffix(from, ".beforeSend") && j > 0 && c.run.Sched[j-1] != c.run.Sched[j] {
				held = true
			}
		}
		if held {
			tie.Count("another-thread-ran-between-save-and-publication")
		}
		mon.Eval(lines[i], nontrivial, nil)
		for _, h := range c.run.Hist {
			mon.Count(codeOf(h.Res))
		}
		if v := judgeSteps(c.run); v != nil {
			mon.Violate(v.sig+c.sc.family(), v.what, in, v.expected, v.observed)
		}
		if v := judge(c.sc, c.run.Hist, c.run.Final); v != nil {
			mon.Violate(v.sig+c.sc.family(), v.what, in, v.expected, v.observed)
		}
	}
}
