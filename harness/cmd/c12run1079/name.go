package main

import (
	"context"
	"fmt"
	"hash/fnv"
	"io"
	"sort"
	"strings"

	"google.golang.org/grpc"
	"google.golang.org/grpc/codes"
	"google.golang.org/grpc/metadata"
	"google.golang.org/grpc/status"
	"google.golang.org/protobuf/proto"
	"google.golang.org/protobuf/reflect/protoreflect"
	"google.golang.org/protobuf/reflect/protoregistry"

	namemw "github.com/smart-core-os/sc-golang/pkg/middleware/name"
	"github.com/smart-core-os/sc-golang/verifharness/lib"
)

// nameCase: the default-name interceptor on one request message (replay input).
type nameCase struct {
	Kind    string `json:"kind"` // "name"
	Message string `json:"message"`
	Default string `json:"default"` // the real strings (JSON-escaped)
	Name    string `json:"name"`
	Stream  bool   `json:"stream_interceptor"`
	MsgSeed int64  `json:"msg_seed"`
	// stream interceptor only: how the underlying ServerStream.RecvMsg fills the handler's message
	// (mg merge as pkg/wrap does, ow overwrite as grpc's codec does, f<tok> fail, of<tok> overwrite then fail)
	// and whether the handler's message already holds strings when RecvMsg is called
	Transport string `json:"transport,omitempty"`
	Prefilled bool   `json:"handler_message_prefilled,omitempty"`
	// unary interceptor only: a second IfAbsentUnaryInterceptor(Inner) chained behind the first
	Inner *string `json:"inner_default,omitempty"`
}

func fieldTok(m protoreflect.Message, fd protoreflect.FieldDescriptor) string {
	if fd.Kind() == protoreflect.StringKind && !fd.IsList() && !fd.IsMap() {
		return fmt.Sprintf("%s:S:%s", fd.TextName(), escTok(m.Get(fd).String()))
	}
	// any other field: a hash of its value (deterministic marshalling of a one-field copy)
	h := fnv.New32a()
	if m.Has(fd) {
		c := m.New()
		c.Set(fd, m.Get(fd))
		b, _ := proto.MarshalOptions{Deterministic: true}.Marshal(c.Interface())
		h.Write(b)
	}
	return fmt.Sprintf("%s:O:%d", fd.TextName(), h.Sum32())
}

func safeTok(s string) string {
	r := strings.NewReplacer(" ", "_", ",", "_", ":", "_", "\n", "_")
	return r.Replace(s)
}

func msgTok(m proto.Message) string {
	var fs []string
	fds := m.ProtoReflect().Descriptor().Fields()
	for i := 0; i < fds.Len(); i++ {
		fs = append(fs, fieldTok(m.ProtoReflect(), fds.Get(i)))
	}
	return commaList(fs)
}

type oneShotStream struct {
	req       proto.Message
	got       bool
	transport string
	failure   error
}

func (s *oneShotStream) SetHeader(metadata.MD) error  { return nil }
func (s *oneShotStream) SendHeader(metadata.MD) error { return nil }
func (s *oneShotStream) SetTrailer(metadata.MD)       {}
func (s *oneShotStream) Context() context.Context     { return context.Background() }
func (s *oneShotStream) SendMsg(any) error            { return nil }
func (s *oneShotStream) RecvMsg(m any) error {
	if s.got {
		return io.EOF
	}
	s.got = true
	return transportRecv(s.transport, s.failure, s.req, m)
}

// prefill sets every singular string field without explicit presence (top level) to a marker.
func prefill(m proto.Message) {
	fds := m.ProtoReflect().Descriptor().Fields()
	for i := 0; i < fds.Len(); i++ {
		fd := fds.Get(i)
		if fd.Kind() == protoreflect.StringKind && !fd.IsList() && !fd.IsMap() && !fd.HasPresence() {
			m.ProtoReflect().Set(fd, protoreflect.ValueOfString(fmt.Sprintf("stale%d", i)))
		}
	}
}

// nameFailure is the error of a failing transport (tok from "f<tok>" / "of<tok>").
func nameFailure(transport string) (error, string) {
	i := strings.IndexByte(transport, 'f')
	if i < 0 {
		return nil, "-"
	}
	return status.Error(codes.Unavailable, "tok"+transport[i+1:]), transport[i+1:]
}

// runNameCase returns (model line, code's answer, what the handler was due to see before the interceptor
// acted (the request; for a stream: what the transport left in the handler's message), what it saw).
func runNameCase(c nameCase) (string, string, proto.Message, proto.Message, error) {
	rng := lib.NewRand(c.MsgSeed)
	req, err := randomMessage(rng, protoreflect.FullName(c.Message))
	if err != nil {
		return "", "", nil, nil, err
	}
	setName(req, c.Name)
	before := proto.Clone(req)
	in := fmt.Sprintf("name %s %s", escTok(c.Default), msgTok(req))
	var seen proto.Message
	if c.Stream {
		m0, _ := newMessage(protoreflect.FullName(c.Message))
		m0s := "z"
		if c.Prefilled {
			prefill(m0)
			m0s = msgTok(m0)
		}
		tr := c.Transport
		if tr == "" {
			tr = "mg"
		}
		in = fmt.Sprintf("nrecv %s %s %s %s", escTok(c.Default), tr, m0s, msgTok(req))
		// the independent expectation of what the transport leaves in the handler's message
		switch {
		case tr == "mg":
			before = proto.Clone(m0)
			proto.Merge(before, req)
		case tr[0] == 'f':
			before = proto.Clone(m0)
		}
		failure, ftok := nameFailure(tr)
		ic := namemw.IfAbsentStreamInterceptor(c.Default)
		var rerr error
		err = ic(nil, &oneShotStream{req: req, transport: tr, failure: failure}, &grpc.StreamServerInfo{}, func(srv any, ss grpc.ServerStream) error {
			rerr = ss.RecvMsg(m0)
			seen = m0
			return nil
		})
		if err != nil || seen == nil {
			return in, fmt.Sprintf("error:%v", err), before, nil, nil
		}
		etok := "-"
		if rerr != nil {
			etok = "?" + strings.ReplaceAll(rerr.Error(), " ", "_")
			if sameStatus(rerr, failure) {
				etok = ftok
			}
		}
		return in, msgTok(seen) + " err=" + etok, before, seen, nil
	} else {
		ic := namemw.IfAbsentUnaryInterceptor(c.Default)
		handler := func(ctx context.Context, r any) (any, error) {
			seen, _ = r.(proto.Message)
			return nil, nil
		}
		if c.Inner != nil {
			// as grpc.ChainUnaryInterceptor(outer, inner) calls them: the outer one's handler is the inner interceptor
			in = fmt.Sprintf("namechain %s %s %s", escTok(c.Default), escTok(*c.Inner), msgTok(req))
			last, ic2 := handler, namemw.IfAbsentUnaryInterceptor(*c.Inner)
			handler = func(ctx context.Context, r any) (any, error) { return ic2(ctx, r, &grpc.UnaryServerInfo{}, last) }
		}
		_, err = ic(context.Background(), req, &grpc.UnaryServerInfo{}, handler)
	}
	if err != nil || seen == nil {
		return in, fmt.Sprintf("error:%v", err), before, nil, nil
	}
	return in, msgTok(seen), before, seen, nil
}

func monitorName(mon *lib.Monitor, c nameCase, before, after proto.Message) {
	sig := func(class string) string { return "C12/name.IfAbsent/" + class }
	if after == nil {
		mon.Violate(sig("handler-not-called"), "the interceptor must hand the request to the handler", c, "handler called", "not called / error")
		return
	}
	want := proto.Clone(before)
	if strings.Contains(c.Transport, "f") {
		// RecvMsg failed: the error is the transport's (compared by the tie), the message is left as the
		// transport left it
		if !proto.Equal(want, after) {
			mon.Violate(sig("touched-after-recv-error"), "after a failing RecvMsg the interceptor must leave the message alone", c, fmt.Sprint(want), fmt.Sprint(after))
		}
		return
	}
	if nameIsEmpty(want) {
		setName(want, c.Default)
	}
	if c.Inner != nil && nameIsEmpty(want) {
		setName(want, *c.Inner)
	}
	if !proto.Equal(want, after) {
		class := "other-field-changed"
		fd := before.ProtoReflect().Descriptor().Fields().ByTextName("name")
		if fd != nil && fd.Kind() == protoreflect.StringKind && !fd.IsList() {
			if after.ProtoReflect().Get(fd).String() != want.ProtoReflect().Get(fd).String() {
				class = "name-wrong"
			}
		}
		mon.Violate(sig(class), "the interceptor fills in only empty names and changes nothing else", c, fmt.Sprint(want), fmt.Sprint(after))
	}
}

// nameIsEmpty: the message has a singular string field `name` and it is empty.
func nameIsEmpty(m proto.Message) bool {
	fd := m.ProtoReflect().Descriptor().Fields().ByTextName("name")
	return fd != nil && fd.Kind() == protoreflect.StringKind && !fd.IsList() && m.ProtoReflect().Get(fd).String() == ""
}

// randName: a non-empty name of 1-12 characters (also blank-looking and path-like ones).
func randName(rng interface{ Intn(int) int }) string {
	const al = "abz09_-./AZ"
	n := 1 + rng.Intn(12)
	b := make([]byte, n)
	for i := range b {
		b[i] = al[rng.Intn(len(al))]
	}
	if string(b) == "-" || string(b) == "~" {
		return "n"
	}
	return string(b)
}

func runName(f lib.Flags, res *lib.Result, drv *lib.Driver) {
	tie := res.Tie("default-name", "K1", "name.IfAbsentUnaryInterceptor and IfAbsentStreamInterceptor on every request message type of every routed service, plus every message in the compiled descriptors that has no `name` field or a non-string / repeated one (up to 40), x name in {empty, ordinary, random, whitespace-only (space, tab, newline, mixed, NBSP, EM SPACE), leading/trailing blanks, case variants, containing / or NUL, non-ASCII, 5000 characters} x default in {empty, non-empty, blank} x random other content; the message the handler sees, field by field (strings through an injective escaping, other fields by a hash of their encoding), compared with the Lean replaceEmptyName; the stream interceptor's RecvMsg over a transport that merges into the handler's message (pkg/wrap), overwrites it (grpc codec), fails, or overwrites and fails, the handler's message fresh or already holding strings, compared with the Lean wrappedRecv (message and error); two chained unary interceptors (inner default non-empty / empty / blank) compared with the composition; distinct = (message type, name empty?, default empty?, interceptor kind, transport, pre-filled?, chained?)")
	mon := res.Monitor("default-name", "the handler sees what the transport delivered (unary: the request; stream: the wire message written over / merged into the handler's message) with name = default iff it was empty, proto.Equal otherwise; chained interceptors: the first non-empty default; after a failing RecvMsg the message is left as the transport left it")
	rng := lib.NewRand(f.Seed + 3)
	types := map[string]bool{}
	for _, e := range tables {
		sd, err := methodsOf(e)
		if err != nil {
			tie.Fail(err)
			return
		}
		for i := 0; i < sd.Methods().Len(); i++ {
			types[string(sd.Methods().Get(i).Input().FullName())] = true
		}
	}
	odd := 0
	protoregistry.GlobalFiles.RangeFiles(func(fd protoreflect.FileDescriptor) bool {
		ms := fd.Messages()
		for i := 0; i < ms.Len(); i++ {
			nf := ms.Get(i).Fields().ByTextName("name")
			if (nf == nil || nf.Kind() != protoreflect.StringKind || nf.IsList()) && odd < 40 {
				if _, err := protoregistry.GlobalTypes.FindMessageByName(ms.Get(i).FullName()); err == nil && !types[string(ms.Get(i).FullName())] {
					types[string(ms.Get(i).FullName())] = true
					odd++
				}
			}
		}
		return true
	})
	var names []string
	for t := range types {
		names = append(names, t)
	}
	sort.Strings(names)
	reps := f.N(1, 6)
	var cases []nameCase
	var lines, answers []string
	combo := 0
	for ti, t := range names {
		nms := []string{"", "dev1", randName(rng)}
		// unusual non-empty names: each message type gets the blank ones and a rotating share of the rest
		nms = append(nms, " ", "\t", "\n", " \t\r\n ", "\u00a0", "\u2003")
		for k := 0; k < 3; k++ {
			nms = append(nms, unusualNames[(ti*3+k)%len(unusualNames)].real)
		}
		for _, nm := range nms {
			for _, d := range []string{"", "thisnode", " "} {
				if d == " " && nm != "" && nm != " " {
					continue
				}
				type variant struct {
					stream    bool
					transport string
					prefilled bool
					inner     *string
				}
				inner := []string{"inner", "", " "}[combo%3]
				k := combo // alternates per (message type, name, default) combination
				combo++
				// the stream interceptor over a merging, an overwriting and a failing transport, the handler's
				// message fresh or already holding strings (alternating)
				variants := []variant{{false, "", false, nil}, {true, "mg", k%2 == 1, nil}, {true, "ow", k%2 == 0, nil}, {true, []string{"f14", "of14"}[k/2%2], k%4 == 0, nil}, {false, "", false, &inner}}
				for _, v := range variants {
					st := v.stream
					for r := 0; r < reps; r++ {
						c := nameCase{"name", t, d, nm, st, rng.Int63() >> 12, v.transport, v.prefilled, v.inner}
						var in, out string
						var before, after proto.Message
						var err error
						panicked, msg := lib.Catch(func() { in, out, before, after, err = runNameCase(c) })
						if panicked {
							mon.Violate("C12/name.IfAbsent/panic", "the interceptor panicked", c, "no panic", msg)
							out = "panic"
						} else if err != nil {
							tie.Fail(err)
							return
						} else {
							monitorName(mon, c, before, after)
						}
						mon.Eval(fmt.Sprintf("%s/%s/%s/%v/%s/%v/%v", t, nm, d, st, v.transport, v.prefilled, v.inner != nil), true, nil)
						cases = append(cases, c)
						answers = append(answers, out)
						lines = append(lines, in)
					}
				}
			}
		}
	}
	ans, err := drv.Batch(lines)
	if err != nil {
		tie.Fail(err)
		return
	}
	for i, c := range cases {
		tie.Record(fmt.Sprintf("%s/%s/%s/%v/%s/%v/%v", c.Message, c.Name, c.Default, c.Stream, c.Transport, c.Prefilled, c.Inner != nil), true, c, ans[i], answers[i])
		if c.Inner != nil {
			tie.Count("two chained unary interceptors")
		}
		if c.Stream {
			tie.Count("stream-interceptor transport=" + strings.TrimRight(c.Transport, "0123456789") + " prefilled=" + fmt.Sprint(c.Prefilled))
		}
		switch {
		case c.Name == "":
			tie.Count("empty-name")
		case strings.TrimSpace(c.Name) == "":
			tie.Count("blank-name")
		case c.Name != strings.TrimSpace(c.Name) || len(c.Name) > 100 || strings.ContainsAny(c.Name, "/\x00") || c.Name != strings.ToLower(c.Name):
			tie.Count("unusual-name")
		default:
			tie.Count("given-name")
		}
	}
	res.Extra["request_types"] = len(names)
}
