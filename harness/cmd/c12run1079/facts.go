package main

// K3 translator: descriptors + Go AST of the checked-in routers/wrappers -> lean/ScVerif/Generated/C12Facts.lean

import (
	"fmt"
	"os"
	"path/filepath"
	"regexp"
	"sort"
	"strings"

	"google.golang.org/protobuf/reflect/protoreflect"
	"google.golang.org/protobuf/reflect/protoregistry"
	"google.golang.org/protobuf/types/descriptorpb"

	"github.com/smart-core-os/sc-golang/verifharness/lib"
)

var genLine = regexp.MustCompile(`(?m)^//go:generate\s+protomod\s+protoc\s+--\s+(.*)$`)

// protoFilesToGenerate reads the go:generate lines of pkg/trait/*/gen.go: the proto files the routers
// and wrappers are generated from, as paths known to the protobuf registry.
func protoFilesToGenerate(root string) ([]string, error) {
	gens, _ := filepath.Glob(filepath.Join(root, "pkg", "trait", "*", "*.go"))
	sort.Strings(gens)
	seen := map[string]bool{}
	var out []string
	for _, g := range gens {
		if strings.HasSuffix(g, ".pb.go") || strings.HasSuffix(g, "_test.go") {
			continue
		}
		b, err := os.ReadFile(g)
		if err != nil {
			return nil, err
		}
		for _, m := range genLine.FindAllStringSubmatch(string(b), -1) {
			if !strings.Contains(m[1], "--router_out") && !strings.Contains(m[1], "--wrapper_out") {
				continue
			}
			for _, tok := range strings.Fields(m[1]) {
				if strings.HasPrefix(tok, "-") || !strings.HasSuffix(tok, ".proto") {
					continue
				}
				p := strings.TrimPrefix(tok, "github.com/smart-core-os/sc-api/protobuf/")
				if !seen[p] {
					seen[p] = true
					out = append(out, p)
				}
			}
		}
	}
	sort.Strings(out)
	return out, nil
}

func goPackageOf(fd protoreflect.FileDescriptor) string {
	opts, _ := fd.Options().(*descriptorpb.FileOptions)
	gp := opts.GetGoPackage()
	if i := strings.Index(gp, ";"); i >= 0 {
		gp = gp[:i]
	}
	return gp
}

func goCamel(s string) string {
	var b strings.Builder
	up := true
	for _, r := range s {
		if r == '_' {
			up = true
			continue
		}
		if up && r >= 'a' && r <= 'z' {
			r -= 'a' - 'A'
		}
		up = false
		b.WriteRune(r)
	}
	return b.String()
}

type svcDesc struct {
	Key     string
	Full    string
	Methods []protoreflect.MethodDescriptor
}

func apiServices(root string) ([]svcDesc, []string, error) {
	files, err := protoFilesToGenerate(root)
	if err != nil {
		return nil, nil, err
	}
	if len(files) == 0 {
		return nil, nil, fmt.Errorf("no go:generate protoc lines found under %s/pkg/trait", root)
	}
	var out []svcDesc
	for _, p := range files {
		fd, err := protoregistry.GlobalFiles.FindFileByPath(p)
		if err != nil {
			return nil, nil, fmt.Errorf("proto file %s (named by a go:generate line) is not in the compiled descriptors: %v", p, err)
		}
		for i := 0; i < fd.Services().Len(); i++ {
			sd := fd.Services().Get(i)
			s := svcDesc{Key: goPackageOf(fd) + "." + goCamel(string(sd.Name())), Full: string(sd.FullName())}
			for j := 0; j < sd.Methods().Len(); j++ {
				s.Methods = append(s.Methods, sd.Methods().Get(j))
			}
			out = append(out, s)
		}
	}
	sort.Slice(out, func(i, j int) bool { return out[i].Key < out[j].Key })
	return out, files, nil
}

func leanBool(b bool) string {
	if b {
		return "true"
	}
	return "false"
}

func writeFacts(path string) error {
	root := lib.RepoRoot()
	routers, wraps, err := scanRepo(root)
	if err != nil {
		return err
	}
	svcs, files, err := apiServices(root)
	if err != nil {
		return err
	}
	// intern every string
	set := map[string]bool{}
	for _, s := range svcs {
		set[s.Key] = true
		for _, m := range s.Methods {
			set[string(m.Name())] = true
		}
	}
	for _, r := range routers {
		set[svcKey(r.SvcImport, r.importPath(), r.GoSvc)] = true
		set[svcKey(r.RegImport, r.importPath(), r.Registers)] = true
		for _, m := range r.Methods {
			set[m.Name] = true
			for _, c := range m.ChildCalls {
				set[c] = true
			}
		}
	}
	for _, w := range wraps {
		set[svcKey(w.SvcImport, w.importPath(), w.ServerSvc)] = true
		set[svcKey(w.SvcImport, w.importPath(), w.DescSvc)] = true
		set[svcKey(w.SvcImport, w.importPath(), w.ClientSvc)] = true
	}
	var names []string
	for s := range set {
		names = append(names, s)
	}
	sort.Strings(names)
	id := map[string]int{}
	for i, s := range names {
		id[s] = i
	}
	var b strings.Builder
	b.WriteString("import ScVerif.C12.Tables\n/-! GENERATED on every run by `harness/cmd/c12 -facts` from the working tree of the repository\n(compiled API descriptors of the proto files named by pkg/trait/*/gen.go; Go AST of pkg/trait/*). Never committed. -/\nnamespace ScVerif.C12.Generated\nopen ScVerif.C12\n\n")
	fmt.Fprintf(&b, "/-- proto files the generators are run on: %s -/\ndef protoFiles : Nat := %d\n\n", strings.Join(files, " "), len(files))
	b.WriteString("/-- id ↦ string (documentation of the interning; ids are positions in this list) -/\ndef names : List String := [\n")
	for i, s := range names {
		sep := ","
		if i == len(names)-1 {
			sep = ""
		}
		fmt.Fprintf(&b, "  %q%s -- %d\n", s, sep, i)
	}
	b.WriteString("]\n\ndef descriptors : List ServiceD := [\n")
	for i, s := range svcs {
		var ms []string
		for _, m := range s.Methods {
			ms = append(ms, fmt.Sprintf("⟨%d, %s, %s⟩", id[string(m.Name())], leanBool(m.IsStreamingServer()), leanBool(m.IsStreamingClient())))
		}
		sep := ","
		if i == len(svcs)-1 {
			sep = ""
		}
		fmt.Fprintf(&b, "  ⟨%d, [%s]⟩%s -- %s\n", id[s.Key], strings.Join(ms, ", "), sep, s.Full)
	}
	b.WriteString("]\n\ndef routers : List RouterFact := [\n")
	for i, r := range routers {
		var ms []string
		for _, m := range r.Methods {
			var cs []string
			for _, c := range m.ChildCalls {
				cs = append(cs, fmt.Sprint(id[c]))
			}
			ms = append(ms, fmt.Sprintf("⟨%d, %s, %s, [%s]⟩", id[m.Name], leanBool(m.Streaming), leanBool(m.ReadsName), strings.Join(cs, ", ")))
		}
		sep := ","
		if i == len(routers)-1 {
			sep = ""
		}
		fmt.Fprintf(&b, "  ⟨%d, %d, [%s]⟩%s -- %s.%s (%s)\n", id[svcKey(r.SvcImport, r.importPath(), r.GoSvc)],
			id[svcKey(r.RegImport, r.importPath(), r.Registers)], strings.Join(ms, ", "), sep, r.Dir, r.Router, r.File)
	}
	b.WriteString("]\n\ndef wrappers : List WrapperFact := [\n")
	for i, w := range wraps {
		sep := ","
		if i == len(wraps)-1 {
			sep = ""
		}
		fmt.Fprintf(&b, "  ⟨%d, %d, %d⟩%s -- %s.%s (%s)\n", id[svcKey(w.SvcImport, w.importPath(), w.ServerSvc)],
			id[svcKey(w.SvcImport, w.importPath(), w.DescSvc)], id[svcKey(w.SvcImport, w.importPath(), w.ClientSvc)], sep, w.Dir, w.Func, w.File)
	}
	b.WriteString("]\n\nend ScVerif.C12.Generated\n")
	if err := os.MkdirAll(filepath.Dir(path), 0o755); err != nil {
		return err
	}
	return os.WriteFile(path, []byte(b.String()), 0o644)
}
