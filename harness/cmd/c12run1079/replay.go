package main

import (
	"encoding/json"
	"fmt"
	"runtime"

	"google.golang.org/protobuf/proto"

	"github.com/smart-core-os/sc-golang/verifharness/lib"
)

func replay(f lib.Flags) int {
	rp, err := lib.ReadReplay(f.Replay)
	if err != nil {
		lib.Fatal(err)
	}
	in, ok := rp.Input.(map[string]any)
	if !ok {
		fmt.Println("replay: no concrete input in file (", rp.Kind, rp.Broken, ")")
		return 2
	}
	raw, _ := json.Marshal(in)
	m := lib.NewMonitor("replay", "")
	switch fmt.Sprint(in["kind"]) {
	case "route":
		var c routeCase
		if err := json.Unmarshal(raw, &c); err != nil {
			lib.Fatal(err)
		}
		e, ok := findEntry(c.Pkg, c.Router)
		if !ok {
			fmt.Printf("replay: router %s.%s no longer exists\n", c.Pkg, c.Router)
			return 2
		}
		var o routeOutcome
		var rerr error
		panicked, msg := lib.Catch(func() { o, rerr = runRoute(e, c) })
		if panicked {
			m.Violate("C12/"+e.id()+"/"+c.Method+"/panic", "forwarder panicked", c, "no panic", msg)
		} else if rerr != nil {
			fmt.Println("replay: cannot run the case:", rerr)
			return 2
		} else {
			monitorRoute(m, e, c, o)
		}
		fmt.Printf("replay %+v\n -> code: %s\n", c, o.answer)
	case "wrapchild":
		var c wrapCase
		if err := json.Unmarshal(raw, &c); err != nil {
			lib.Fatal(err)
		}
		e, ok := findEntry(c.Pkg, c.Router)
		if !ok {
			fmt.Printf("replay: router %s.%s no longer exists\n", c.Pkg, c.Router)
			return 2
		}
		old := runtime.GOMAXPROCS(1)
		o := checkWrapCase(m, e, c)
		runtime.GOMAXPROCS(old)
		fmt.Printf("replay %+v\n -> code: %s\n", c, o.answer)
	case "e2e":
		var c e2eCase
		if err := json.Unmarshal(raw, &c); err != nil {
			lib.Fatal(err)
		}
		e, ok := findEntry(c.Pkg, c.Router)
		if !ok {
			fmt.Printf("replay: router %s.%s no longer exists\n", c.Pkg, c.Router)
			return 2
		}
		w, err := newE2EWorld()
		if err != nil {
			lib.Fatal(err)
		}
		defer w.close()
		var rerr error
		panicked, msg := lib.Catch(func() { rerr = w.runE2E(m, e, c) })
		if panicked {
			m.Violate("C12/"+e.id()+"/"+c.Method+"/grpc/panic", "panic", c, "no panic", msg)
		} else if rerr != nil {
			fmt.Println("replay: cannot run the case:", rerr)
			return 2
		}
		fmt.Printf("replay %+v\n", c)
	case "lin":
		var c linCase
		if err := json.Unmarshal(raw, &c); err != nil {
			lib.Fatal(err)
		}
		o, err := runLinCase(c)
		if be, ok := err.(*blockedErr); ok && monitorBlocked(m, c, be) {
			fmt.Printf("replay %+v\n -> code: %v\n", c, err)
			break
		}
		if err != nil {
			fmt.Println("replay: cannot run the schedule:", err)
			return 2
		}
		monitorLin(m, c, o)
		fmt.Printf("replay %+v\n -> code: %s\n", c, o.answer)
	case "wrapper":
		res := lib.NewResult("C12", f)
		runWrappers(f, res)
		for _, v := range res.Monitors[0].Violations {
			if mm, ok := v.Input.(map[string]any); ok && mm["pkg"] == in["pkg"] && mm["router"] == in["router"] {
				m.Violate(v.Signature, v.What, v.Input, v.Expected, v.Observed)
			}
		}
	case "regen":
		res := lib.NewResult("C12", f)
		runRegen(f, res, nil)
		for _, mm := range res.Monitors {
			for _, v := range mm.Violations {
				if vi, ok := v.Input.(map[string]any); ok && vi["key"] == in["key"] {
					m.Violate(v.Signature, v.What, v.Input, v.Expected, v.Observed)
				}
			}
		}
	case "naming":
		res := lib.NewResult("C12", f)
		runRegen(f, res, nil)
		for _, mm := range res.Monitors {
			for _, v := range mm.Violations {
				if vi, ok := v.Input.(namingCase); ok && vi.Dir == in["go_package_dir"] && vi.File == in["proto_base"] && vi.Service == in["service"] {
					m.Violate(v.Signature, v.What, v.Input, v.Expected, v.Observed)
				}
			}
		}
	case "stress":
		res := lib.NewResult("C12", f)
		runStress(f, res)
		m = res.Monitors[0]
	case "registry":
		var c regCase
		if err := json.Unmarshal(raw, &c); err != nil {
			lib.Fatal(err)
		}
		e, ok := findEntry(c.Pkg, c.Router)
		if !ok {
			fmt.Printf("replay: router %s.%s no longer exists\n", c.Pkg, c.Router)
			return 2
		}
		var a string
		panicked, msg := lib.Catch(func() { a = runRegCase(e, c) })
		if panicked {
			m.Violate("C12/"+e.id()+"/registry/panic", "registry operation panicked", c, "no panic", msg)
		} else {
			monitorReg(m, e, c, a)
		}
		fmt.Printf("replay %+v\n -> code: %s\n", c, a)
	case "options":
		var c optCase
		if err := json.Unmarshal(raw, &c); err != nil {
			lib.Fatal(err)
		}
		e, ok := findEntry(c.Pkg, c.Router)
		if !ok {
			fmt.Printf("replay: router %s.%s no longer exists\n", c.Pkg, c.Router)
			return 2
		}
		var a string
		panicked, msg := lib.Catch(func() { a = runOptCase(e, c) })
		if panicked {
			m.Violate("C12/"+e.id()+"/options/panic", "a router configured with a list of options panicked", c, "no panic", msg)
		} else {
			monitorOpt(m, c, a)
		}
		fmt.Printf("replay %+v\n -> code: %s\n", c, a)
	case "reentrant":
		var c reCase
		if err := json.Unmarshal(raw, &c); err != nil {
			lib.Fatal(err)
		}
		e, ok := findEntry(c.Pkg, c.Router)
		if !ok {
			fmt.Printf("replay: router %s.%s no longer exists\n", c.Pkg, c.Router)
			return 2
		}
		confirmed := false
		a := checkReCase(m, e, c, &confirmed)
		fmt.Printf("replay %+v\n -> code: %s\n", c, a)
	case "conc":
		var c concCase
		if err := json.Unmarshal(raw, &c); err != nil {
			lib.Fatal(err)
		}
		a, err := runConcCase(c)
		if err != nil {
			fmt.Println("replay: cannot run the schedule:", err)
			return 2
		}
		monitorConc(m, c, a)
		fmt.Printf("replay %+v\n -> code: %s\n", c, a)
	case "name":
		var c nameCase
		if err := json.Unmarshal(raw, &c); err != nil {
			lib.Fatal(err)
		}
		var before, after proto.Message
		var out string
		panicked, msg := lib.Catch(func() { _, out, before, after, err = runNameCase(c) })
		if panicked {
			m.Violate("C12/name.IfAbsent/panic", "the interceptor panicked", c, "no panic", msg)
		} else if err != nil {
			fmt.Println("replay: cannot run the case:", err)
			return 2
		} else {
			monitorName(m, c, before, after)
		}
		fmt.Printf("replay %+v\n -> code: %s\n", c, out)
	default:
		fmt.Println("replay: unknown input kind", in["kind"])
		return 2
	}
	if len(m.Violations) > 0 {
		for _, v := range m.Violations {
			fmt.Printf("STILL FAILS %s: %s (expected %s, observed %s)\n", v.Signature, v.What, v.Expected, v.Observed)
		}
		return 1
	}
	fmt.Println("replay: property holds on this input now")
	return 0
}
