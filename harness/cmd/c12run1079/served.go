package main

// Requests as a grpc.Server SERVES them: the default-name interceptors of pkg/middleware/name in front of
// the generated handler of every router x method, the request delivered by a transport.
//
//   - fake transports (forward.go's rig): the ServerStream's RecvMsg / the unary decode function merges
//     (pkg/wrap), overwrites (grpc's codec: proto.Unmarshal resets the message first), fails, or
//     overwrites and then fails;
//   - real gRPC over bufconn (e2e.go's world): a grpc.Server with both interceptors installed.
//
// Tie against the Lean `serveUnary` / `serveStream` (driver op `srv`); the monitors are forward.go's and
// e2e.go's, evaluated for the name the request is served under (its own, or the default when it has none).

import (
	"fmt"
	"math/rand"
	"strconv"
	"strings"

	"github.com/smart-core-os/sc-golang/verifharness/lib"
)

var servedDefaults = []string{"x", "y", "nobody", "~", "ab", "n4", "n6"}

func servedCasesFor(rng *rand.Rand, e entry, method string, streaming bool, n int) []routeCase {
	base := routeCase{Kind: "route", Pkg: e.Pkg, Router: e.Router, Method: method, Streaming: streaming, Fb: "none", Fac: "none"}
	var out []routeCase
	add := func(c routeCase, def, transport string) {
		c.Served = &servedOpt{Default: def, Transport: transport}
		c.MsgSeed = rng.Int63() >> 12
		c.NameReal = strconv.Quote(unTilde(c.Name))
		if len(c.NameReal) > 40 {
			c.NameReal = c.NameReal[:40] + fmt.Sprintf("...(%d bytes)", len(unTilde(c.Name)))
		}
		if streaming {
			if c.Child == "" {
				c.Child, c.Caller = "-:-:9:1.2:eof:4", "-:-:77"
			}
		} else if c.ChildOut == "" {
			c.ChildOut = "m3"
		}
		out = append(out, c)
	}
	c := base
	// no name, the default names a registered client: over an overwriting and over a merging transport
	c.Ops, c.Name = "a:x:1,a:y:2", "~"
	add(c, "x", "ow")
	add(c, "x", "mg")
	// a name is given: the default is not used
	c.Name = "y"
	add(c, "x", "ow")
	// no name, nothing registered under the default / an empty default
	c.Name = "~"
	add(c, "nobody", "ow")
	add(c, "~", "ow")
	// an empty default and a client registered under the empty name
	c.Ops = "a:~:3,a:x:1"
	add(c, "~", "ow")
	// the default client is made by the factory
	c = base
	c.Fac, c.Ops, c.Name = "new", "-", "~"
	add(c, "x", "ow")
	if streaming {
		// RecvMsg fails (before / after decoding)
		c = base
		c.Ops, c.Name = "a:x:1", "~"
		add(c, "x", "f14")
		add(c, "x", "of15")
	}
	for len(out) < n {
		c = base
		c.Fb, c.Fac = facKinds[rng.Intn(len(facKinds))], facKinds[rng.Intn(len(facKinds))]
		c.Ops = randOps(rng, 4)
		c.Name = namePool[rng.Intn(len(namePool))]
		if rng.Intn(2) == 0 {
			c.Name = "~"
		}
		if streaming {
			c.Child, c.Caller = randStreamScripts(rng)
		} else if rng.Intn(3) == 0 {
			c.ChildOut = "e" + strconv.Itoa(20+rng.Intn(10))
		}
		tr := []string{"ow", "ow", "mg"}[rng.Intn(3)]
		if streaming && rng.Intn(8) == 0 {
			tr = []string{"f", "of"}[rng.Intn(2)] + strconv.Itoa(30+rng.Intn(5))
		}
		add(c, servedDefaults[rng.Intn(len(servedDefaults))], tr)
	}
	return out
}

// projectSeen keeps of a model answer what a caller over real gRPC can observe of the routing.
func projectSeen(ans string) string {
	var req, calls, st string
	for _, f := range strings.Fields(ans) {
		switch {
		case strings.HasPrefix(f, "req="):
			req = f
		case strings.HasPrefix(f, "calls="):
			calls = f
		case strings.HasPrefix(f, "st="):
			st = f
		case f == "out=m3":
			st = "st=-"
		case strings.HasPrefix(f, "out=e"):
			st = "st=" + f[5:]
		}
	}
	return req + " " + calls + " " + st
}

func runServed(f lib.Flags, res *lib.Result, drv *lib.Driver) {
	tie := res.Tie("served-default-name", "K1", "every generated router x every method of its service descriptor, SERVED: the real handler from the router's ServiceDesc behind the real name.IfAbsentUnaryInterceptor / IfAbsentStreamInterceptor (default names: registered, unregistered, empty, unusual), the request delivered (a) by a fake transport whose RecvMsg / decode function overwrites the handler's message (as grpc's codec does), merges into it (as pkg/wrap does), fails, or overwrites and then fails, against fake per-name client connections (fixed cases: no name + registered default over both transports, given name, unregistered default, empty default with and without a client under the empty name, factory-made default client, failing RecvMsg; then random histories, factories, names, defaults, child and caller scripts), (b) by real gRPC over bufconn: a grpc.Server with both interceptors in front of all routers, children real grpc servers (no name / given name / unregistered default / empty default / child error); the request the child is given (field by field), the client called, response/status, header, messages, trailer, cancellation, change log and registry compared with the Lean serveUnary / serveStream (for (b) the projection a caller can see: child's request, client, status); distinct = (router, method, case shape, default, transport)")
	mon := res.Monitor("served-default-name", "the property's statement on the same executions for the name the request is served under (its own name, or the server's default when it has none; plain-Go oracle): exactly one child call on the client resolving under that name, carrying the request with nothing but the empty name filled in; response / status / header / messages / trailer the child's; NotFound touches no client; a failing RecvMsg is returned unaltered and touches no client — over fake transports and over real gRPC")
	rng := lib.NewRand(f.Seed + 11)
	n := f.N(10, 120)
	type pending struct {
		key   string
		c     any
		line  string
		code  string
		proj  bool
		count string
	}
	var batch []pending
	var w *e2eWorld
	defer func() {
		if w != nil {
			w.close()
		}
	}()
	for _, e := range tables {
		sd, err := methodsOf(e)
		if err != nil {
			tie.Fail(err)
			return
		}
		ms := sd.Methods()
		for i := 0; i < ms.Len(); i++ {
			md := ms.Get(i)
			if md.IsStreamingClient() {
				continue
			}
			kind := "unary"
			if md.IsStreamingServer() {
				kind = "stream"
			}
			// (a) fake transports
			for _, c := range servedCasesFor(rng, e, string(md.Name()), md.IsStreamingServer(), n) {
				var o routeOutcome
				var rerr error
				panicked, msg := lib.Catch(func() { o, rerr = runRoute(e, c) })
				if panicked {
					o.answer = "panic:" + strings.ReplaceAll(msg, " ", "_")
					mon.Violate("C12/"+e.id()+"+default-name/"+kind+"/panic", "a served call panicked", c, "no panic", msg)
				} else if rerr != nil {
					o.answer = "harness-error:" + strings.ReplaceAll(rerr.Error(), " ", "_")
				} else {
					monitorRoute(mon, e, c, o)
				}
				key := e.id() + "/" + c.Method + "/" + caseShape(c) + "/" + c.Served.Default + "/" + c.Served.Transport
				mon.Eval(key, true, nil)
				wire := o.wire
				if wire == "" {
					wire = "?"
				}
				batch = append(batch, pending{key, c, fmt.Sprintf(c.modelLine(), md.Index(), wire), o.answer, false,
					kind + " transport=" + strings.TrimRight(c.Served.Transport, "0123456789")})
			}
			// (b) real gRPC
			if w == nil {
				if w, err = newE2EWorld(); err != nil {
					tie.Fail(err)
					return
				}
			}
			type gc struct{ def, name, script string }
			gcs := []gc{{"x", "", "ok"}, {"x", "y", "ok"}, {"nobody", "", "ok"}, {"", "", "ok"}, {"y", "", "error"}}
			for r := 0; r < f.N(1, 4); r++ {
				for _, g := range gcs {
					def := g.def
					msgs := 2
					if g.script == "error" {
						msgs = 1
					}
					c := e2eCase{"e2e", e.Pkg, e.Router, string(md.Name()), g.name, g.script, msgs, rng.Int63() >> 12, &def, false}
					var rerr error
					panicked, msg := lib.Catch(func() { rerr = w.runE2E(mon, e, c) })
					code := w.lastSeen
					if panicked {
						mon.Violate("C12/"+e.id()+"+default-name/"+kind+"/grpc/panic", "panic", c, "no panic", msg)
						code = "panic"
					} else if rerr != nil {
						tie.Fail(rerr)
						return
					}
					key := e.id() + "/" + c.Method + "/grpc/" + tilde(g.def) + "/" + tilde(g.name) + "/" + g.script
					mon.Eval(key, true, nil)
					var line string
					if md.IsStreamingServer() {
						child := "-:-:9:1.2:eof:4"
						if g.script == "error" {
							child = "-:-:9:1:e9:4"
						}
						line = fmt.Sprintf("srv %s none none a:x:1,a:y:2 %d S ow z %s %s -:-:0", tilde(g.def), md.Index(), w.lastWire, child)
					} else {
						out := "m3"
						if g.script == "error" {
							out = "e9"
						}
						line = fmt.Sprintf("srv %s none none a:x:1,a:y:2 %d U %s %s", tilde(g.def), md.Index(), w.lastWire, out)
					}
					batch = append(batch, pending{key, c, line, code, true, kind + " transport=grpc"})
				}
			}
		}
	}
	lines := make([]string, len(batch))
	for i, p := range batch {
		lines[i] = p.line
	}
	ans, err := drv.Batch(lines)
	if err != nil {
		tie.Fail(err)
		return
	}
	for i, p := range batch {
		a := ans[i]
		if p.proj {
			a = projectSeen(a)
		}
		tie.Record(p.key, true, p.c, a, p.code)
		tie.Count(p.count)
		if strings.Contains(a, "st=5") || strings.Contains(a, "out=e5 ") {
			tie.Count("notfound")
		}
	}
}
