package main

// Children that are REAL wrapped servers. The clients a router normally holds are not remote connections
// but generated wrappers (`xxxpb.WrapApi(server)`): pkg/wrap's in-process stream sits between the router
// and the server's handler. Here every child is Wrap<X>(server) where the server is a second generated
// router of the same service (a genuine <X>Server implementation, it exists for every service) whose only
// client is a scripted DEVICE. Seen from the wrapper the handler is "inner forwarder + device": it stages
// metadata on its context (grpc.SetHeader / grpc.SetTrailer: staged, not sent), sends the header or fails
// before it, sends k messages, RE-USES every message once Send has returned (a handler may: gRPC has
// serialised it by then), and ends with OK or a status.
//
//   A (streams): caller -> outer router's handler -> wrapper client -> [pkg/wrap stream] -> inner router -> device
//   B (unary)  : typed call ON THE WRAPPER (the way users call it) with ANY list of call options: several
//                grpc.Header / grpc.Trailer (the application's and a middleware's), other options in between
//   C (streams): as A, but the device PARKS (inside its Header(), or inside the Recv after k messages) and the
//                caller's context is cancelled once it is parked: what the server has not sent by then must
//                not be forwarded
//
// The processor count is 1 while family A runs: with the hand-over channel of pkg/wrap unbuffered and the
// receiver already waiting, the sending goroutine keeps the processor after a hand-over, so "the handler
// touches its message right after Send returned" is a forced interleaving, not a lucky one.

import (
	"context"
	"errors"
	"fmt"
	"io"
	"math/rand"
	"reflect"
	"runtime"
	"strconv"
	"strings"
	"time"

	"google.golang.org/grpc"
	"google.golang.org/grpc/codes"
	"google.golang.org/grpc/metadata"
	"google.golang.org/grpc/status"
	"google.golang.org/protobuf/proto"
	"google.golang.org/protobuf/reflect/protoreflect"

	"github.com/smart-core-os/sc-golang/pkg/router"
	"github.com/smart-core-os/sc-golang/verifharness/lib"
)

type wrapCase struct {
	Kind      string `json:"kind"` // "wrapchild"
	Pkg       string `json:"pkg"`
	Router    string `json:"router"`
	Method    string `json:"method"`
	Streaming bool   `json:"streaming"`
	Fb        string `json:"fallback,omitempty"` // A: fallback / factory kinds of the outer router (their products are wrapped servers too)
	Fac       string `json:"factory,omitempty"`
	Ops       string `json:"ops,omitempty"`  // A: registry history of the outer router (every client is a wrapped server)
	Name      string `json:"name,omitempty"` // A: name token of the request
	// A: device script  stagedHeader:stagedTrailer:open:headerErr:header:msgs:final:trailer:reuse(r|f)
	// B: device script  stagedHeader:sentHeader:stagedTrailer:out(m3|e<tok>)
	Dev     string `json:"device_script"`
	Caller  string `json:"caller_script,omitempty"` // A: sendHeaderErr:failAt:sendErr
	Opts    string `json:"call_options,omitempty"`  // B: h<var> grpc.Header(&var), t<var> grpc.Trailer(&var), o another option; `.`-separated ("" = h1.t2)
	Park    string `json:"park,omitempty"`          // C: where the device parks until the caller goes away: h (in Header()) / r<k> (in the Recv after k messages) / u (unary: before answering); suffix d: the caller's deadline passes (else it cancels)
	MsgSeed int64  `json:"msg_seed"`
}

const mdKey = "k"

func tokMD1(tok int) metadata.MD { return metadata.MD{mdKey: []string{strconv.Itoa(tok)}} }

// mdList renders metadata made of tokMD1 pieces: the values under the one key, in order (`-`: none).
func mdList(md metadata.MD) string {
	if len(md) == 0 {
		return "-"
	}
	if v, ok := md[mdKey]; ok && len(md) == 1 {
		return strings.Join(v, "+")
	}
	return "?" + strings.ReplaceAll(fmt.Sprint(md), " ", "_")
}

func optMD(s string) (metadata.MD, bool) {
	if t, ok := parseOptTok(s); ok {
		return tokMD1(t), true
	}
	return nil, false
}

func joinToks(xs ...string) string {
	var out []string
	for _, x := range xs {
		if x != "-" && x != "" {
			out = append(out, x)
		}
	}
	if len(out) == 0 {
		return "-"
	}
	return strings.Join(out, "+")
}

type wrapOutcome struct {
	answer string
	calls  []call
	req    proto.Message
	plan   *childPlan
	ss     *fakeServerStream
	err    error
	full   string
	// B
	resp  proto.Message
	vars  map[int]*metadata.MD // the caller's variables named by the call options
	order []int                // … in order of first appearance
	kinds map[int]string       // … and the kinds of option naming each ("h", "t", "ht")
}

// ctxEndTok: 1 if err is what a call ends with when its caller cancelled, 2 when the caller's deadline passed
// (the context's own error or the gRPC status made from it), else 0.
func ctxEndTok(err error) int {
	if err == nil {
		return 0
	}
	if errors.Is(err, context.Canceled) {
		return 1
	}
	if errors.Is(err, context.DeadlineExceeded) {
		return 2
	}
	st, ok := status.FromError(err)
	if !ok || strings.HasPrefix(st.Message(), "tok") {
		return 0
	}
	switch st.Code() {
	case codes.Canceled:
		return 1
	case codes.DeadlineExceeded:
		return 2
	}
	return 0
}

// parkPoint / parkEnd: where the device parks, and how the caller goes away (1 cancels, 2 deadline).
func (c wrapCase) parkPoint() string { return strings.TrimSuffix(c.Park, "d") }
func (c wrapCase) parkEnd() (int, error) {
	if strings.HasSuffix(c.Park, "d") {
		return 2, context.DeadlineExceeded
	}
	return 1, context.Canceled
}

// goAwayWhenParked: the caller's context ends as soon as (and only when) the device is parked. The context handed
// to the code is an ordinary child of the hand-ended one: all contexts the code derives from it are then ended
// in one go, parents first, like on a real cancel / timer (a hand-made context is propagated to each derived
// context by a goroutine of its own, i.e. in any order).
func goAwayWhenParked(plan *childPlan, c wrapCase, parent context.Context) (context.Context, context.CancelFunc) {
	ec := newEndCtx(parent)
	plan.ParkAt, plan.Parked, plan.Left = c.parkPoint(), make(chan struct{}), make(chan struct{})
	_, how := c.parkEnd()
	go func() {
		select {
		case <-plan.Parked:
			ec.end(how)
		case <-parent.Done():
		}
	}()
	return context.WithCancel(ec)
}

// awaitLeft: once the call is over, give a device that parked the time to notice.
func awaitLeft(plan *childPlan) {
	select {
	case <-plan.Parked:
		select {
		case <-plan.Left:
		case <-time.After(10 * time.Second):
		}
	default:
	}
}

// runWrapStream: family A on the real generated router and wrapper.
func runWrapStream(e entry, c wrapCase) (out wrapOutcome, err error) {
	if e.Wrap == nil {
		return out, fmt.Errorf("%s has no wrapper", e.id())
	}
	if c.Fb == "" {
		c.Fb = "none"
	}
	if c.Fac == "" {
		c.Fac = "none"
	}
	g := newRig(e, c.Fb, c.Fac, true)
	g.chain = true
	if err = g.applyOps(c.Ops); err != nil {
		return
	}
	g.pool[unTilde(c.Name)] = true
	reg := &captureRegistrar{}
	g.r.Register(reg)
	if reg.desc == nil {
		return out, fmt.Errorf("%s: Register registered nothing", e.id())
	}
	sd, err := serviceOf(reg.desc)
	if err != nil {
		return
	}
	md := sd.Methods().ByName(protoreflect.Name(c.Method))
	if md == nil {
		return out, fmt.Errorf("%s has no method %s", sd.FullName(), c.Method)
	}
	out.full = "/" + string(sd.FullName()) + "/" + c.Method
	rng := rand.New(rand.NewSource(c.MsgSeed))
	req, err := randomMessage(rng, md.Input().FullName())
	if err != nil {
		return
	}
	setName(req, unTilde(c.Name))
	out.req = proto.Clone(req)
	root, cancelAll := context.WithCancel(context.WithValue(context.Background(), ctxKey{}, "marker"))
	defer cancelAll()
	ctx := context.Context(root)
	plan := &childPlan{Yield: true}
	out.plan = plan
	g.rec.plan = plan
	if c.Park != "" {
		var stop context.CancelFunc
		ctx, stop = goAwayWhenParked(plan, c, root)
		defer stop()
	}
	dp := strings.Split(c.Dev, ":")
	kp := strings.Split(c.Caller, ":")
	if len(dp) != 9 || len(kp) != 3 {
		return out, fmt.Errorf("bad scripts %q %q", c.Dev, c.Caller)
	}
	plan.Staged, _ = optMD(dp[0])
	plan.StagedTrailer, _ = optMD(dp[1])
	if t, ok := parseOptTok(dp[2]); ok {
		plan.OpenErr = tokErr(t, rng)
	}
	if t, ok := parseOptTok(dp[3]); ok {
		plan.HeaderErr = tokErr(t, rng)
	}
	plan.Header, _ = optMD(dp[4])
	for range splitList(dp[5], ".") {
		m, e2 := randomMessage(rng, md.Output().FullName())
		if e2 != nil {
			return out, e2
		}
		plan.Msgs = append(plan.Msgs, m)
	}
	if dp[6] == "eof" {
		plan.Final = io.EOF
	} else {
		t, _ := strconv.Atoi(dp[6][1:])
		plan.Final = tokErr(t, rng)
	}
	plan.Trailer, _ = optMD(dp[7])
	plan.Reuse = dp[8] == "r"
	if plan.Reuse {
		plan.Scribble, _ = randomMessage(rng, md.Output().FullName())
	}
	ss := &fakeServerStream{ctx: ctx, req: req, failAt: -1, rec: g.rec}
	if t, ok := parseOptTok(kp[0]); ok {
		ss.sendHeaderErr = tokErr(t, rng)
	}
	if t, ok := parseOptTok(kp[1]); ok {
		ss.failAt = t
	}
	st, _ := strconv.Atoi(kp[2])
	ss.sendErr = tokErr(st, rng)
	out.ss = ss
	var h grpc.StreamHandler
	for _, s := range reg.desc.Streams {
		if s.StreamName == c.Method {
			h = s.Handler
		}
	}
	if h == nil {
		return out, fmt.Errorf("%s: ServiceDesc has no stream %s", e.id(), c.Method)
	}
	rerr := h(reg.impl, ss)
	if c.Park != "" {
		awaitLeft(plan)
	}
	cancelAll()
	g.rec.mu.Lock()
	out.calls = append([]call(nil), g.rec.calls...)
	g.rec.mu.Unlock()
	out.err = rerr
	hdr := "none"
	if ss.headerCalled {
		hdr = mdList(ss.header)
	}
	if len(ss.setHeader) > 0 {
		hdr += "+SetHeader"
	}
	var sent []string
	for i, m := range ss.sent {
		tok := "0"
		if i < len(plan.Msgs) && proto.Equal(m, plan.Msgs[i]) {
			tok = strconv.Itoa(i + 1)
		}
		sent = append(sent, tok)
	}
	tr := "-"
	if ss.trailerSet {
		tr = mdList(ss.trailer)
	}
	stTok := errTok(rerr, unTilde(c.Name))
	if t := ctxEndTok(rerr); c.Park != "" && t != 0 {
		stTok = strconv.Itoa(t)
	}
	out.answer = fmt.Sprintf("calls=%s hdr=%s sent=%s sends=%d tr=%s st=%s %s",
		showCalls(sd, out.calls, out.req), hdr, commaList(sent), ss.sends, tr, stTok, g.stateString())
	return
}

func (c wrapCase) modelLine(midx int) string {
	if c.Streaming {
		dp := strings.Split(c.Dev, ":")
		if len(dp) != 9 {
			return "bad-case"
		}
		if c.Park != "" {
			ce, _ := c.parkEnd()
			return fmt.Sprintf("wcancel %s %s %s %s %d 5 %s %s %s %s %s %d", orNone(c.Fb), orNone(c.Fac), tildeList(c.Ops), c.Name, midx, dp[0], dp[1], strings.Join(dp[2:8], ":"), dp[8], c.parkPoint(), ce)
		}
		return fmt.Sprintf("wroute %s %s %s %s %d 5 %s %s %s %s %s", orNone(c.Fb), orNone(c.Fac), tildeList(c.Ops), c.Name, midx, dp[0], dp[1], strings.Join(dp[2:8], ":"), dp[8], c.Caller)
	}
	dp := strings.Split(c.Dev, ":")
	if len(dp) != 4 {
		return "bad-case"
	}
	if c.Park != "" {
		ce, _ := c.parkEnd()
		return fmt.Sprintf("wcallc %d 5 %s %s %s %s %d", midx, dp[0], dp[1], dp[2], c.callOpts(), ce)
	}
	return fmt.Sprintf("wcall %d 5 %s %s %s %s %s", midx, dp[0], dp[1], dp[2], dp[3], c.callOpts())
}

// monitorWrapStream: the property's statement for a routed stream whose registered client is a wrapped server,
// with the DEVICE's script as the reference (plain Go, no model): what the device staged/sent/returned is what
// the caller must receive.
func monitorWrapStream(report func(sig, what, exp, obs string), e entry, c wrapCase, o wrapOutcome) {
	sig := func(class string) string { return "C12/" + e.id() + "+wrapped-child/" + c.Method + "/" + class }
	viol := func(class, what, exp, obs string) { report(sig(class), what, exp, obs) }
	target, ok := oracleTarget(routeCase{Fb: orNone(c.Fb), Fac: orNone(c.Fac), Ops: c.Ops, Name: c.Name})
	ss, p := o.ss, o.plan
	if !ok {
		if len(o.calls) != 0 {
			viol("notfound-touched-client", "a name with no client must touch no client", "no device call", fmt.Sprintf("%d device calls", len(o.calls)))
		}
		if status.Code(o.err) != codes.NotFound {
			viol("notfound-wrong-status", "a name with no client must yield NotFound", "NotFound", fmt.Sprint(o.err))
		}
		if len(ss.sent) > 0 || ss.headerCalled || ss.trailerSet {
			viol("notfound-sent-something", "a name with no client must send nothing", "nothing sent", "header/messages/trailer sent")
		}
		return
	}
	if len(o.calls) != 1 {
		viol("not-forwarded-once", "the request must reach the wrapped server registered under its name exactly once", "1 device call", fmt.Sprintf("%d device calls; caller got %v", len(o.calls), o.err))
		if len(o.calls) == 0 {
			return
		}
	}
	k := o.calls[0]
	if k.Client != target {
		viol("wrong-client", "the request reached a server other than the one registered under its name", fmt.Sprint(target), fmt.Sprint(k.Client))
	}
	if k.Method != o.full {
		viol("wrong-method", "the request was forwarded to a different method", o.full, k.Method)
	}
	if k.Req == nil || !proto.Equal(k.Req, o.req) {
		viol("request-altered", "the request must pass through unaltered", fmt.Sprint(o.req), fmt.Sprint(k.Req))
	}
	dp := strings.Split(c.Dev, ":")
	if c.Park != "" {
		monitorWrapCancel(viol, c, o, dp)
		return
	}
	failedEarly := p.OpenErr != nil || p.HeaderErr != nil
	// header: everything the server attached to the call before its first message or its return
	expHdr := joinToks(dp[0], dp[4])
	if failedEarly {
		expHdr = joinToks(dp[0])
	}
	gotHdr := "not sent"
	if ss.headerCalled {
		gotHdr = mdList(ss.header)
	}
	if gotHdr != expHdr {
		viol("header-altered", "the header the wrapped server attached to the stream (staged with SetHeader and/or sent) must reach the caller unaltered, whether the call then succeeds, fails, or carries no message", expHdr, gotHdr)
	}
	if ss.sendHeaderErr != nil {
		if !sameStatus(o.err, ss.sendHeaderErr) {
			viol("status-altered", "the caller's SendHeader error must be returned", fmt.Sprint(ss.sendHeaderErr), fmt.Sprint(o.err))
		}
		return
	}
	msgs := p.Msgs
	if failedEarly {
		msgs = nil
	}
	expN := len(msgs)
	callerFailed := ss.failAt >= 0 && ss.failAt < len(msgs)
	if callerFailed {
		expN = ss.failAt
	}
	if len(ss.sent) != expN {
		viol("messages-altered", "the caller must receive exactly the server's messages (up to its own failing Send)", fmt.Sprint(expN), fmt.Sprint(len(ss.sent)))
	}
	for i, m := range ss.sent {
		if i >= len(msgs) || !proto.Equal(m, msgs[i]) {
			exp := "no such message"
			if i < len(msgs) {
				exp = fmt.Sprint(msgs[i])
			}
			viol("messages-altered", "the caller must receive each response as it was when the server sent it (a handler may re-use its message once Send has returned)", exp, fmt.Sprint(m))
			break
		}
	}
	if callerFailed {
		if !sameStatus(o.err, ss.sendErr) {
			viol("status-altered", "the caller's Send error must be returned", fmt.Sprint(ss.sendErr), fmt.Sprint(o.err))
		}
		return
	}
	expErr := p.Final
	switch {
	case p.OpenErr != nil:
		expErr = p.OpenErr
	case p.HeaderErr != nil:
		expErr = p.HeaderErr
	}
	if expErr == io.EOF {
		if o.err != nil {
			viol("status-altered", "a server that returns OK must end the call with OK", "nil", fmt.Sprint(o.err))
		}
	} else if !sameStatus(o.err, expErr) {
		viol("status-altered", "the server's final status must pass through unaltered", fmt.Sprint(expErr), fmt.Sprint(o.err))
	}
	expTr := joinToks(dp[1], dp[7])
	if failedEarly {
		expTr = joinToks(dp[1])
	}
	gotTr := "-"
	if ss.trailerSet {
		gotTr = mdList(ss.trailer)
	}
	if gotTr != expTr {
		viol("trailer-altered", "the trailer the wrapped server attached must reach the caller unaltered", expTr, gotTr)
	}
}

// monitorWrapCancel: family C — the caller went away while the server (device) was parked. What the server had
// SENT by then is what the caller's stream may have been given: the header only if the server let it go
// (staged metadata stays with the server), exactly the messages sent before, a cancellation as status; and the
// server must have been told (its context ended).
func monitorWrapCancel(viol func(class, what, exp, obs string), c wrapCase, o wrapOutcome, dp []string) {
	ss, p := o.ss, o.plan
	select {
	case <-p.Parked:
	default:
		viol("server-not-reached", "the call must reach the server and run up to the point where it parks", "device parked at "+c.Park, fmt.Sprint("never parked; caller got ", o.err))
		return
	}
	if p.LeftBy != "ctx" {
		viol("server-not-cancelled", "when the caller goes away the context of the call on the wrapped server must end", "device context done", "device left its park by "+p.LeftBy)
	}
	gotHdr := "-"
	if ss.headerCalled {
		gotHdr = mdList(ss.header)
	}
	k := 0
	if c.parkPoint() == "h" {
		if gotHdr != "-" {
			viol("unsent-header-forwarded", "a header the server has only STAGED (SetHeader) and never sent must not be forwarded once the caller has gone away", "no header metadata", gotHdr)
		}
	} else {
		k, _ = strconv.Atoi(c.parkPoint()[1:])
		if exp := joinToks(dp[0], dp[4]); gotHdr != exp {
			viol("header-altered", "the header the server sent before the caller went away must have reached the caller's stream unaltered", exp, gotHdr)
		}
	}
	if len(ss.sent) != k {
		viol("messages-altered", "the caller's stream must have been given exactly the messages the server sent before the caller went away", fmt.Sprint(k), fmt.Sprint(len(ss.sent)))
	}
	for i, m := range ss.sent {
		if i >= len(p.Msgs) || !proto.Equal(m, p.Msgs[i]) {
			viol("messages-altered", "each response must arrive as it was when the server sent it", "message "+strconv.Itoa(i+1), fmt.Sprint(m))
			break
		}
	}
	if ce, how := c.parkEnd(); ctxEndTok(o.err) != ce {
		viol("cancel-status", "a call whose caller went away must end with that cause as its status (cancelled / deadline exceeded)", how.Error(), fmt.Sprint(o.err))
	}
}

// callOpts: the call options of a family B case.
func (c wrapCase) callOpts() string {
	if c.Opts == "" {
		return "h1.t2"
	}
	return c.Opts
}

// runWrapCall: family B — a unary method called ON the generated wrapper, as its users do, asking for the
// response metadata with the grpc.Header / grpc.Trailer call options.
func runWrapCall(e entry, c wrapCase) (out wrapOutcome, err error) {
	if e.Wrap == nil {
		return out, fmt.Errorf("%s has no wrapper", e.id())
	}
	rec := &recorder{}
	dev := e.NewClient(&fakeConn{id: 1, rec: rec})
	inner := e.New(router.WithFallback(func(string) (any, error) { return dev, nil }))
	w := e.Wrap(inner)
	sd, err := methodsOf(e)
	if err != nil {
		return
	}
	md := sd.Methods().ByName(protoreflect.Name(c.Method))
	if md == nil {
		return out, fmt.Errorf("%s has no method %s", sd.FullName(), c.Method)
	}
	out.full = "/" + string(sd.FullName()) + "/" + c.Method
	rng := rand.New(rand.NewSource(c.MsgSeed))
	req, err := randomMessage(rng, md.Input().FullName())
	if err != nil {
		return
	}
	setName(req, "x")
	out.req = proto.Clone(req)
	plan := &childPlan{}
	out.plan = plan
	rec.plan = plan
	dp := strings.Split(c.Dev, ":")
	if len(dp) != 4 {
		return out, fmt.Errorf("bad script %q", c.Dev)
	}
	plan.Staged, _ = optMD(dp[0])
	plan.USent, _ = optMD(dp[1])
	plan.StagedTrailer, _ = optMD(dp[2])
	if strings.HasPrefix(dp[3], "m") {
		if plan.Resp, err = randomMessage(rng, md.Output().FullName()); err != nil {
			return
		}
	} else {
		t, _ := strconv.Atoi(dp[3][1:])
		plan.Err = tokErr(t, rng)
	}
	fn := reflect.ValueOf(w).MethodByName(c.Method)
	if !fn.IsValid() {
		return out, fmt.Errorf("%s: the wrapper has no method %s", e.id(), c.Method)
	}
	root, cancelAll := context.WithCancel(context.WithValue(context.Background(), ctxKey{}, "marker"))
	defer cancelAll()
	ctx := context.Context(root)
	if c.Park != "" {
		var stop context.CancelFunc
		ctx, stop = goAwayWhenParked(plan, c, root)
		defer stop()
	}
	args := []reflect.Value{reflect.ValueOf(ctx), reflect.ValueOf(req)}
	out.vars, out.kinds = map[int]*metadata.MD{}, map[int]string{}
	for _, t := range splitList(c.callOpts(), ".") {
		if t == "o" {
			args = append(args, reflect.ValueOf(grpc.WaitForReady(true)))
			continue
		}
		id, e2 := strconv.Atoi(t[1:])
		if e2 != nil || (t[0] != 'h' && t[0] != 't') {
			return out, fmt.Errorf("bad call option %q", t)
		}
		v, ok := out.vars[id]
		if !ok {
			v = new(metadata.MD)
			out.vars[id] = v
			out.order = append(out.order, id)
		}
		if !strings.Contains(out.kinds[id], t[:1]) {
			out.kinds[id] += t[:1]
		}
		if t[0] == 'h' {
			args = append(args, reflect.ValueOf(grpc.Header(v)))
		} else {
			args = append(args, reflect.ValueOf(grpc.Trailer(v)))
		}
	}
	rs := fn.Call(args)
	if c.Park != "" {
		awaitLeft(plan)
	}
	if len(rs) != 2 {
		return out, fmt.Errorf("%s.%s: unexpected result arity", e.id(), c.Method)
	}
	if !rs[1].IsNil() {
		out.err, _ = rs[1].Interface().(error)
	}
	if !rs[0].IsNil() {
		out.resp, _ = rs[0].Interface().(proto.Message)
	}
	out.calls = rec.calls
	o := "m0"
	if t := ctxEndTok(out.err); c.Park != "" && t != 0 {
		o = "e" + strconv.Itoa(t)
	} else if out.err != nil {
		o = "e" + errTok(out.err, "x")
	} else if out.resp != nil && plan.Resp != nil && proto.Equal(out.resp, plan.Resp) {
		o = "m3"
	}
	var vs []string
	for _, id := range out.order {
		vs = append(vs, strconv.Itoa(id)+":"+mdList(*out.vars[id]))
	}
	out.answer = fmt.Sprintf("calls=%s vars=%s out=%s", showCalls(sd, out.calls, out.req), commaList(vs), o)
	return
}

func monitorWrapCall(report func(sig, what, exp, obs string), e entry, c wrapCase, o wrapOutcome) {
	sig := func(class string) string { return "C12/" + e.id() + "+wrapper/call/" + class }
	viol := func(class, what, exp, obs string) { report(sig(class), what, exp, obs) }
	p := o.plan
	if len(o.calls) != 1 {
		viol("not-reaching-server", "a call on the generated wrapper must reach the wrapped server exactly once", "1 call", fmt.Sprint(len(o.calls)))
		if len(o.calls) == 0 {
			return
		}
	}
	k := o.calls[0]
	if k.Method != o.full {
		viol("wrong-method", "the call reached a different method of the wrapped server", o.full, k.Method)
	}
	if k.Req == nil || !proto.Equal(k.Req, o.req) {
		viol("request-altered", "the request must pass through unaltered", fmt.Sprint(o.req), fmt.Sprint(k.Req))
	}
	if !k.CtxOK {
		viol("context-lost", "the caller's context must reach the server", "context values visible", "not visible")
	}
	dp := strings.Split(c.Dev, ":")
	if c.Park != "" {
		// the caller went away while the server was parked: only a header the server had SENT may be reported
		if p.LeftBy != "ctx" {
			viol("server-not-cancelled", "when the caller goes away the context of the call on the wrapped server must end", "device context done", "device left its park by "+p.LeftBy)
		}
		for _, id := range o.order {
			got := mdList(*o.vars[id])
			if o.kinds[id] != "h" {
				continue
			}
			if dp[1] == "-" && got != "-" {
				viol("unsent-header-reported", "a header the server has only STAGED (SetHeader) and never sent must not be reported once the caller has gone away", fmt.Sprintf("variable %d empty", id), fmt.Sprintf("variable %d = %s", id, got))
			} else if exp := joinToks(dp[0], dp[1]); dp[1] != "-" && exp != got {
				viol("header-lost", "the header the server sent before the caller went away must reach every grpc.Header option", fmt.Sprintf("variable %d = %s", id, exp), fmt.Sprintf("variable %d = %s (options %s)", id, got, c.callOpts()))
			}
		}
		if ce, how := c.parkEnd(); ctxEndTok(o.err) != ce {
			viol("cancel-status", "a call whose caller went away must end with that cause as its status (cancelled / deadline exceeded)", how.Error(), fmt.Sprint(o.err))
		}
		return
	}
	for _, id := range o.order {
		got := mdList(*o.vars[id])
		switch o.kinds[id] {
		case "h":
			if exp := joinToks(dp[0], dp[1]); exp != got {
				viol("header-lost", "the header the server attached to the call (grpc.SetHeader / grpc.SendHeader) must reach EVERY grpc.Header option of the call (the application's and a middleware's), on success and on failure", fmt.Sprintf("variable %d = %s", id, exp), fmt.Sprintf("variable %d = %s (options %s)", id, got, c.callOpts()))
			}
		case "t":
			if exp := joinToks(dp[2]); exp != got {
				viol("trailer-lost", "the trailer the server attached to the call (grpc.SetTrailer) must reach EVERY grpc.Trailer option of the call, on success and on failure", fmt.Sprintf("variable %d = %s", id, exp), fmt.Sprintf("variable %d = %s (options %s)", id, got, c.callOpts()))
			}
		}
	}
	if p.Err != nil {
		if !sameStatus(o.err, p.Err) {
			viol("error-altered", "the server's error status must pass through unaltered", fmt.Sprint(p.Err), fmt.Sprint(o.err))
		}
		return
	}
	if o.err != nil {
		viol("error-invented", "the server succeeded but the caller got an error", "nil", fmt.Sprint(o.err))
		return
	}
	if o.resp == nil || !proto.Equal(o.resp, p.Resp) {
		viol("response-altered", "the server's response must pass through unaltered", fmt.Sprint(p.Resp), fmt.Sprint(o.resp))
	}
}

func randDevStream(rng *rand.Rand) (string, string) {
	opt := func(p int, tok int) string {
		if rng.Intn(100) < p {
			return strconv.Itoa(tok)
		}
		return "-"
	}
	n := rng.Intn(4)
	var ms []string
	for i := 1; i <= n; i++ {
		ms = append(ms, strconv.Itoa(i))
	}
	final := "eof"
	if rng.Intn(2) == 0 {
		final = "e" + strconv.Itoa(20+rng.Intn(10))
	}
	reuse := "f"
	if rng.Intn(3) > 0 {
		reuse = "r"
	}
	dev := fmt.Sprintf("%s:%s:%s:%s:%s:%s:%s:%s:%s", opt(60, 7), opt(40, 6), opt(15, 11), opt(25, 12), opt(60, 9), commaDot(ms), final, opt(60, 4), reuse)
	failAt := "-"
	if rng.Intn(3) == 0 {
		failAt = strconv.Itoa(rng.Intn(n + 2))
	}
	return dev, fmt.Sprintf("%s:%s:%d", opt(6, 13), failAt, 77)
}

func orNone(s string) string {
	if s == "" {
		return "none"
	}
	return s
}

func commaDot(xs []string) string {
	if len(xs) == 0 {
		return "-"
	}
	return strings.Join(xs, ".")
}

// wrapCasesFor: fixed small cases first (they become the replays), then random ones.
func wrapCasesFor(rng *rand.Rand, e entry, method string, streaming bool, n int) []wrapCase {
	base := wrapCase{Kind: "wrapchild", Pkg: e.Pkg, Router: e.Router, Method: method, Streaming: streaming}
	var out []wrapCase
	add := func(c wrapCase) {
		c.MsgSeed = rng.Int63() >> 12
		out = append(out, c)
	}
	if streaming {
		c := base
		c.Ops, c.Name, c.Caller = "a:x:1,a:y:2", "y", "-:-:77"
		for _, dev := range []string{
			"-:-:-:-:9:1.2:eof:4:r",   // the handler re-uses each message after Send
			"7:-:-:21:-:-:eof:-:f",    // header STAGED, no message, the handler fails
			"7:-:-:-:9:-:eof:-:f",     // staged and sent, no message, OK
			"7:6:-:-:9:1:e22:4:r",     // staged header and trailer, one message, error status
			"7:6:11:-:9:1:eof:4:f",    // fails when the request arrives
			"-:-:-:-:-:-:eof:-:f",     // nothing attached at all
			"-:-:-:-:9:1.2.3:e23:-:r", // plain
			"-:-:-:26:-:-:eof:-:f",    // nothing attached, no message, the handler fails
			"-:6:11:-:-:-:eof:-:f",    // only a trailer staged, fails when the request arrives
		} {
			c.Dev = dev
			add(c)
		}
		c.Dev, c.Caller = "7:-:-:-:9:1.2.3:eof:4:r", "-:1:77" // the caller fails in the middle
		add(c)
		c.Name, c.Caller = "z", "-:-:77" // unknown name
		add(c)
		c.Fac, c.Ops, c.Dev = "new", "-", "7:-:-:-:9:1.2:e24:4:r" // the wrapped server is made by the factory
		add(c)
		// C: the device parks, then the caller goes away
		c = base
		c.Ops, c.Name, c.Caller = "a:x:1,a:y:2", "y", "-:-:77"
		for _, pc := range [][2]string{
			{"7:6:-:-:9:1.2:eof:-:r", "h"},   // header and trailer staged, parked before anything is sent
			{"7:-:-:-:9:1.2:eof:-:r", "r1"},  // staged and sent, one message, parked (the message re-used meanwhile)
			{"-:6:-:-:-:1:eof:-:f", "r0"},    // an empty header sent, parked before the first message
			{"7:-:-:-:9:1.2:eof:-:f", "r2d"}, // every message sent, parked, the caller's DEADLINE passes
		} {
			c.Dev, c.Park = pc[0], pc[1]
			add(c)
		}
		for len(out) < n {
			c = base
			c.Fb, c.Fac = facKinds[rng.Intn(len(facKinds))], facKinds[rng.Intn(len(facKinds))]
			c.Ops = randOps(rng, 3)
			c.Name = namePool[rng.Intn(len(namePool))]
			c.Dev, c.Caller = randDevStream(rng)
			if rng.Intn(4) == 0 {
				// a parking device: it opens, has no failure of its own, and the caller stays healthy until it cancels
				dp := strings.Split(c.Dev, ":")
				dp[2], dp[3], dp[7] = "-", "-", "-"
				c.Dev, c.Caller = strings.Join(dp, ":"), "-:-:77"
				c.Park = "h"
				if k := rng.Intn(len(splitList(dp[5], ".")) + 2); k > 0 {
					c.Park = "r" + strconv.Itoa(k-1)
				}
				if rng.Intn(3) == 0 {
					c.Park += "d"
				}
			}
			add(c)
		}
		return out
	}
	fixed := [][2]string{
		{"7:9:6:m3", "h1.h2.t3.t4"},    // the application's and a middleware's header and trailer options
		{"7:-:6:e21", "t1.h2.o.h3.t4"}, // … in another order, another option in between, the call fails
		{"-:9:-:m3", "h1.t2"},          // one of each
		{"-:-:-:m3", "h1.h1.t2"},       // nothing attached; one variable named twice
		{"7:-:-:m3", "o.t1.t2.t3.h4"},  // three trailer options
		{"-:9:6:e22", "h1.h2.h3"},      // three header options, no trailer option
		{"7:-:6:m3", "h1.h2.t3|u"},     // header and trailer staged, the server parked, the caller cancels
		{"7:9:6:m3", "h1.t2.h3|ud"},    // header sent, the server parked, the caller's deadline passes
	}
	for _, dc := range fixed {
		c := base
		c.Dev, c.Opts = dc[0], dc[1]
		if i := strings.Index(c.Opts, "|"); i >= 0 {
			c.Opts, c.Park = c.Opts[:i], c.Opts[i+1:]
		}
		add(c)
		if len(out) >= n {
			return out
		}
	}
	for len(out) < n {
		c := base
		c.Dev = fixed[rng.Intn(len(fixed))][0]
		var os []string
		for i, k := 0, 1+rng.Intn(6); i < k; i++ {
			os = append(os, []string{"h", "h", "t", "t", "o"}[rng.Intn(5)])
			if os[i] != "o" {
				// header and trailer variables are kept apart (1-3 / 4-6); a variable may be named twice
				os[i] += strconv.Itoa(1 + rng.Intn(3) + 3*map[string]int{"h": 0, "t": 1}[os[i]])
			}
		}
		c.Opts = strings.Join(os, ".")
		if rng.Intn(4) == 0 {
			c.Park = []string{"u", "ud"}[rng.Intn(2)]
		}
		add(c)
	}
	return out
}

func runWrapCase(e entry, c wrapCase) (wrapOutcome, error) {
	if c.Streaming {
		return runWrapStream(e, c)
	}
	return runWrapCall(e, c)
}

type wrapViol struct{ sig, what, exp, obs string }

// judgeWrapCase runs one case and evaluates the monitor on it.
func judgeWrapCase(e entry, c wrapCase) (o wrapOutcome, vs []wrapViol) {
	var rerr error
	report := func(sig, what, exp, obs string) { vs = append(vs, wrapViol{sig, what, exp, obs}) }
	panicked, msg := lib.Catch(func() { o, rerr = runWrapCase(e, c) })
	switch {
	case panicked:
		o.answer = "panic:" + strings.ReplaceAll(msg, " ", "_")
		report("C12/"+e.id()+"+wrapped-child/"+c.Method+"/panic", "a call through a wrapped server panicked", "no panic", msg)
	case rerr != nil:
		o.answer = "harness-error:" + strings.ReplaceAll(rerr.Error(), " ", "_")
	case c.Streaming:
		monitorWrapStream(report, e, c, o)
	default:
		monitorWrapCall(report, e, c, o)
	}
	return
}

func checkWrapCase(mon *lib.Monitor, e entry, c wrapCase) wrapOutcome {
	o, vs := judgeWrapCase(e, c)
	// A caller that goes away races the server by nature (the end of a context reaches the contexts derived from
	// it one after the other): a verdict on such a case counts only if it repeats on fresh instances.
	for i := 0; i < 2 && c.Park != "" && len(vs) > 0; i++ {
		if o2, vs2 := judgeWrapCase(e, c); len(vs2) == 0 {
			o, vs = o2, vs2
		}
	}
	for _, v := range vs {
		mon.Violate(v.sig, v.what, c, v.exp, v.obs)
	}
	return o
}

func runWrapChild(f lib.Flags, res *lib.Result, drv *lib.Driver) {
	tie := res.Tie("wrapped-children", "K1", "every generated router that has a generated wrapper x every method of its service: (A, server-streaming methods) the outer router's real stream handler with every registered client = Wrap<X>(inner generated router -> scripted device): fixed scripts (message re-used after Send; header staged + no message + error status; staged and sent; staged header and trailer + message + error; failure on arrival; nothing attached; caller failing in the middle; unknown name) then random registry histories, names and device scripts (staged header/trailer present or not x open error x header error x sent header x 0-3 messages x EOF/status x trailer x re-use x caller SendHeader/Send failure), processor count 1 so that the device's re-use of a message directly follows the hand-over; (B, unary methods) the method called on the generated wrapper itself by reflection with grpc.Header and grpc.Trailer options, device staging / sending header, setting trailer, answering or failing; compared with the Lean model Router ∘ Wrap ∘ Router (Wrapped.lean: pkg/wrap's stream as the fold of the handler's calls, composed with the forwarder models); distinct = (router, method, scripts)")
	mon := res.Monitor("wrapped-children-faithful", "property statement on the same executions with the DEVICE's script as the reference (plain Go): one call on the server registered under the name with an equal request; the caller receives exactly the metadata the server attached (staged or sent; header also when the call fails without a message), each message as it was when sent (even though the server overwrites it afterwards), the server's status and trailer; an unknown name touches nothing; a unary call on the wrapper with grpc.Header/grpc.Trailer returns the server's header and trailer, response and status")
	rng := lib.NewRand(f.Seed + 7777)
	nS, nU := f.N(18, 150), f.N(8, 24)
	type pending struct {
		e    entry
		c    wrapCase
		o    wrapOutcome
		line string
	}
	var batch []pending
	old := runtime.GOMAXPROCS(1)
	defer runtime.GOMAXPROCS(old)
	for _, e := range tables {
		if e.Wrap == nil {
			continue
		}
		sd, err := methodsOf(e)
		if err != nil {
			tie.Fail(err)
			return
		}
		ms := sd.Methods()
		for i := 0; i < ms.Len(); i++ {
			md := ms.Get(i)
			if md.IsStreamingClient() {
				continue
			}
			n := nU
			if md.IsStreamingServer() {
				n = nS
			}
			for _, c := range wrapCasesFor(rng, e, string(md.Name()), md.IsStreamingServer(), n) {
				o := checkWrapCase(mon, e, c)
				if c.Park != "" {
					tie.Count("caller-goes-away-while-server-parked/" + c.Park)
				}
				if c.Streaming {
					tie.Count("stream")
					if strings.HasSuffix(c.Dev, ":r") {
						tie.Count("stream/message-reused-after-send")
					}
					dp := strings.Split(c.Dev, ":")
					if dp[0] != "-" && (dp[2] != "-" || dp[3] != "-") {
						tie.Count("stream/staged-header+no-message+error")
					}
				} else {
					tie.Count("unary-on-wrapper")
					if strings.Count(c.callOpts(), "h") > 1 || strings.Count(c.callOpts(), "t") > 1 {
						tie.Count("unary-on-wrapper/repeated-option-kind")
					}
				}
				mon.Eval(e.id()+"/"+c.Method+"/"+c.Fb+"/"+c.Fac+"/"+c.Ops+"/"+c.Name+"/"+c.Dev+"/"+c.Caller+"/"+c.Opts+"/"+c.Park, true, nil)
				batch = append(batch, pending{e, c, o, c.modelLine(md.Index())})
			}
		}
	}
	runtime.GOMAXPROCS(old)
	lines := make([]string, len(batch))
	for i, p := range batch {
		lines[i] = p.line
	}
	ans, err := drv.Batch(lines)
	if err != nil {
		tie.Fail(err)
		return
	}
	for i, p := range batch {
		tie.Record(p.e.id()+"/"+p.c.Method+"/"+p.c.Fb+"/"+p.c.Fac+"/"+p.c.Ops+"/"+p.c.Name+"/"+p.c.Dev+"/"+p.c.Caller+"/"+p.c.Opts+"/"+p.c.Park, true, p.c, ans[i], p.o.answer)
	}
}
