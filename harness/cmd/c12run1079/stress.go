package main

import (
	"fmt"
	"sync"
	"sync/atomic"

	"github.com/smart-core-os/sc-golang/pkg/router"
	"github.com/smart-core-os/sc-golang/verifharness/lib"
)

// runStress: free-running concurrent first Gets (no hooks): supports the K4 tie where the forced
// schedules cannot reach (interleavings inside what the model treats as one atomic section).
// The property must hold on every run, so any failure is a genuine violation; passing proves nothing.
func runStress(f lib.Flags, res *lib.Result) {
	mon := res.Monitor("single-commit-stress", "R rounds of G goroutines released together, each calling Get of the same absent name on a router with a fresh-client factory (no yield points used): exactly one Auto change, every Get returns the client of that change; and R/3 rounds of G free-running Adds of distinct clients under one name: the returned previous clients form one chain ending in the registered client, and the reported changes are exactly its links")
	rounds, g := f.N(1500, 20000), 8
	for i := 0; i < rounds; i++ {
		var next atomic.Int64
		var mu sync.Mutex
		var autos []any
		r := router.NewRouter(
			router.WithFactory(func(string) (any, error) { return int(1000 + next.Add(1)), nil }),
			router.WithOnChange(func(c router.Change) {
				if c.Auto {
					mu.Lock()
					autos = append(autos, c.New)
					mu.Unlock()
				}
			}))
		start := make(chan struct{})
		got := make([]any, g)
		var wg sync.WaitGroup
		for k := 0; k < g; k++ {
			wg.Add(1)
			go func(k int) {
				defer wg.Done()
				<-start
				c, err := r.Get("n")
				if err == nil {
					got[k] = c
				}
			}(k)
		}
		close(start)
		wg.Wait()
		mon.Eval(fmt.Sprint(i), true, nil)
		in := map[string]any{"kind": "stress", "goroutines": g, "rounds": rounds}
		if len(autos) != 1 {
			mon.Violate("C12/router.Get/concurrent/double-commit", "concurrent first Gets must commit a single factory client (one Auto change)", in, "1 Auto change", fmt.Sprint(autos))
			continue
		}
		for _, c := range got {
			if c != autos[0] {
				mon.Violate("C12/router.Get/concurrent/returned-uncommitted-client", "every Get must return the committed client", in, fmt.Sprint(autos[0]), fmt.Sprint(got))
				break
			}
		}
	}
	// free-running concurrent Adds of distinct clients under one name: the previous-client results must
	// form one chain (nil once, every client returned at most once, the last one is what Remove returns),
	// and the reported changes must be exactly those links
	for i := 0; i < rounds/3; i++ {
		var mu sync.Mutex
		links := map[any]any{} // old -> new as reported by onChange
		dup := false
		r := router.NewRouter(router.WithOnChange(func(c router.Change) {
			mu.Lock()
			if _, ok := links[c.Old]; ok {
				dup = true
			}
			links[c.Old] = c.New
			mu.Unlock()
		}))
		start := make(chan struct{})
		olds := make([]any, g)
		var wg sync.WaitGroup
		for k := 0; k < g; k++ {
			wg.Add(1)
			go func(k int) {
				defer wg.Done()
				<-start
				olds[k] = r.Add("n", k+1)
			}(k)
		}
		close(start)
		wg.Wait()
		last := r.Remove("n")
		mon.Eval(fmt.Sprint("add", i), true, nil)
		in := map[string]any{"kind": "stress", "goroutines": g, "rounds": rounds}
		seen := map[any]int{}
		for _, o := range olds {
			seen[o]++
		}
		ok := seen[nil] == 1 && seen[last] == 0 && !dup
		for k := 1; k <= g; k++ {
			if k != last && seen[k] != 1 {
				ok = false
			}
		}
		for k, o := range olds {
			if links[o] != k+1 {
				ok = false
			}
		}
		if !ok {
			mon.Violate("C12/pkg-router/concurrent/not-linearizable", "concurrent Adds under one name must each return the client they replaced (one chain) and report exactly those transitions", in, "a chain nil -> .. -> "+fmt.Sprint(last), fmt.Sprint(olds, links))
		}
	}
	runStressLive(f, mon)
}

// runStressLive: free-running mixed Add / Remove / Get on one name with a fresh-client factory; every
// client id is used once, so real-time order alone decides what a Get may return: not a client whose
// Remove (or replacement by another Add) had already returned before the Get was invoked, and not a
// client whose Add / factory call began only after the Get had returned (theorem C12_get_live_client).
func runStressLive(f lib.Flags, mon *lib.Monitor) {
	type op struct {
		kind      string // add, remove, get
		arg, res  int    // client ids; 0 = none
		inv, resp int64
	}
	rounds := f.N(250, 5000)
	for i := 0; i < rounds; i++ {
		var clock, next atomic.Int64
		var cmu sync.Mutex
		created := map[int]int64{} // factory-made client -> time its factory call began
		r := router.NewRouter(router.WithFactory(func(string) (any, error) {
			t := clock.Add(1)
			id := int(1000 + next.Add(1))
			cmu.Lock()
			created[id] = t
			cmu.Unlock()
			return id, nil
		}))
		const g, per = 6, 12
		logs := make([][]op, g)
		start := make(chan struct{})
		var wg sync.WaitGroup
		for k := 0; k < g; k++ {
			wg.Add(1)
			go func(k int) {
				defer wg.Done()
				<-start
				for j := 0; j < per; j++ {
					o := op{inv: clock.Add(1)}
					switch k % 3 {
					case 0:
						o.kind, o.arg = "add", (k+1)*100+j
						if old := r.Add("n", o.arg); old != nil {
							o.res = old.(int)
						}
					case 1:
						o.kind = "remove"
						if old := r.Remove("n"); old != nil {
							o.res = old.(int)
						}
					default:
						o.kind = "get"
						c, err := r.Get("n")
						if err == nil && c != nil {
							o.res = c.(int)
						} else {
							o.res = -1
						}
					}
					o.resp = clock.Add(1)
					logs[k] = append(logs[k], o)
				}
			}(k)
		}
		close(start)
		wg.Wait()
		mon.Eval(fmt.Sprint("live", i), true, nil)
		in := map[string]any{"kind": "stress", "goroutines": g, "rounds": rounds}
		addInv := map[int]int64{} // client -> invocation of its Add
		goneBy := map[int]int64{} // client -> response time of the operation that took it out (Remove / replacing Add)
		for _, l := range logs {
			for _, o := range l {
				if o.kind == "add" {
					addInv[o.arg] = o.inv
				}
				if (o.kind == "add" || o.kind == "remove") && o.res > 0 {
					if t, ok := goneBy[o.res]; ok {
						mon.Violate("C12/pkg-router/concurrent/client-returned-twice", "a registered client is handed back (by Remove or a replacing Add) exactly once", in, "once", fmt.Sprint("client ", o.res, " at ", t, " and ", o.resp))
					}
					goneBy[o.res] = o.resp
				}
			}
		}
		for _, l := range logs {
			for _, o := range l {
				if o.kind != "get" {
					continue
				}
				if o.res <= 0 {
					mon.Violate("C12/router.Get/concurrent/notfound-with-factory", "with a factory that always supplies a client a Get cannot fail", in, "a client", "NotFound or nil")
					continue
				}
				born, known := addInv[o.res]
				if !known {
					born, known = created[o.res]
				}
				if !known || born > o.resp {
					mon.Violate("C12/router.Get/concurrent/client-from-the-future", "a Get returns a client that was registered (or created) between its invocation and its response", in, "Add/factory call begun before the Get returned", fmt.Sprint("client ", o.res, " born ", born, " get ", o.inv, "-", o.resp))
				}
				if t, ok := goneBy[o.res]; ok && t < o.inv {
					mon.Violate("C12/router.Get/concurrent/stale-client", "a Get never returns a client that had been removed (or replaced) before the Get was invoked", in, "a client live during the Get", fmt.Sprint("client ", o.res, " was handed back at ", t, ", the Get ran ", o.inv, "-", o.resp))
				}
			}
		}
	}
}
