package main

import (
	"fmt"
	"math/rand"
	"sort"
	"strconv"
	"strings"

	"github.com/smart-core-os/sc-golang/pkg/router"
	"github.com/smart-core-os/sc-golang/verifharness/lib"
)

// optCase: a router configured by a LIST of options (any number of each kind, in any order), then a
// registry history (replay input).
//
// Opts: options in call order, separated by `.`: `b<kind>` router.WithFallback, `f<kind>` router.WithFactory,
// `t<kind>` the generated With<Client>Factory, `c` router.WithOnChange; kind `none` passes a nil function.
// The function of option i makes clients 1000*(i+1)+k (k = its own earlier calls).
type optCase struct {
	Kind   string `json:"kind"` // "options"
	Pkg    string `json:"pkg"`
	Router string `json:"router"`
	Opts   string `json:"options"`
	Ops    string `json:"ops"`
	Typed  bool   `json:"typed_accessors"`
}

func optBase(i int) int { return 1000 * (i + 1) }

func runOptCase(e entry, c optCase) string {
	g := &routerRig{e: e, rec: &recorder{}, ids: map[any]int{}, pool: map[string]bool{}}
	toks := splitList(c.Opts, ".")
	calls := make([]int, len(toks))
	var opts []router.Option
	for i, t := range toks {
		i := i
		switch {
		case t == "c":
			opts = append(opts, router.WithOnChange(func(ch router.Change) {
				calls[i]++
				a := "M"
				if ch.Auto {
					a = "A"
				}
				g.log = append(g.log, strconv.Itoa(i)+">"+tilde(ch.Name)+":"+g.idOf(ch.Old)+":"+g.idOf(ch.New)+":"+a)
			}))
		case strings.HasPrefix(t, "b"):
			opts = append(opts, router.WithFallback(factoryKind(t[1:], optBase(i), g.mk, &calls[i])))
		case strings.HasPrefix(t, "f") || e.WithFactory == nil:
			opts = append(opts, router.WithFactory(factoryKind(t[1:], optBase(i), g.mk, &calls[i])))
		default:
			opts = append(opts, e.WithFactory(factoryKind(t[1:], optBase(i), g.mk, &calls[i])))
		}
	}
	g.r = e.New(opts...)
	g.typed = c.Typed
	for _, o := range splitList(c.Ops, ",") {
		if p := strings.Split(o, ":"); p[0] == "w" && len(p) == 3 {
			// Add of a value that is not a client of this router's service: the generated Add must refuse it (panic)
			// before pkg/router is reached
			n := unTilde(p[1])
			g.pool[n] = true
			var prev any
			panicked, _ := lib.Catch(func() { prev = g.r.Add(n, foreignClient(e, p[2], g.rec)) })
			if panicked {
				g.results = append(g.results, "pp")
			} else {
				g.results = append(g.results, "accepted:p"+g.idOf(prev))
			}
			continue
		}
		res, err := g.doOp(o)
		if err != nil {
			return "harness-error:" + err.Error()
		}
		g.results = append(g.results, res)
	}
	var cs []string
	for _, n := range calls {
		cs = append(cs, strconv.Itoa(n))
	}
	st := strings.Fields(g.stateString()) // log= reg= nfb= nfac= (reads the registry back by removing: after the counts)
	callS := "-"
	if len(cs) > 0 {
		callS = strings.Join(cs, ".")
	}
	return "res=" + commaList(g.results) + " " + st[0] + " " + st[1] + " calls=" + callS
}

// monitorOpt: the documented meaning of the options, stated with a plain Go map: the router asks the function of
// the LAST WithFallback first and the function of the LAST WithFactory only when that one declines, wherever the
// options stand in the list; the LAST WithOnChange hears exactly the transitions; no other function passed is called.
func monitorOpt(mon *lib.Monitor, c optCase, answer string) {
	sig := func(class string) string { return "C12/pkg-router/options/" + class }
	toks := splitList(c.Opts, ".")
	fb, fac, oc := -1, -1, -1
	for i, t := range toks {
		switch t[0] {
		case 'b':
			fb = i
		case 'f', 't':
			fac = i
		case 'c':
			oc = i
		}
	}
	kindAt := func(i int) string {
		if i < 0 {
			return "none"
		}
		return toks[i][1:]
	}
	calls := make([]int, len(toks))
	reg := map[string]int{}
	var exp, log []string
	show := func(id int, ok bool) string {
		if !ok {
			return "-"
		}
		return strconv.Itoa(id)
	}
	tell := func(s string) {
		if oc >= 0 {
			calls[oc]++
			log = append(log, strconv.Itoa(oc)+">"+s)
		}
	}
	for _, o := range splitList(c.Ops, ",") {
		p := strings.Split(o, ":")
		n := unTilde(p[1])
		old, had := reg[n]
		switch p[0] {
		case "w":
			exp = append(exp, "pp")
		case "a":
			id, _ := strconv.Atoi(p[2])
			reg[n] = id
			exp = append(exp, "p"+show(old, had))
			tell(fmt.Sprintf("%s:%s:%d:M", tilde(n), show(old, had), id))
		case "r":
			delete(reg, n)
			exp = append(exp, "p"+show(old, had))
			if had {
				tell(fmt.Sprintf("%s:%d:-:M", tilde(n), old))
			}
		case "h":
			if had {
				exp = append(exp, "bT")
			} else {
				exp = append(exp, "bF")
			}
		case "g":
			if had {
				exp = append(exp, "g"+strconv.Itoa(old))
				continue
			}
			done := false
			if kindAt(fb) != "none" {
				id, ok := oracleSupplies(kindAt(fb), optBase(fb), n, calls[fb])
				calls[fb]++
				if ok {
					exp = append(exp, "g"+strconv.Itoa(id))
					done = true
				}
			}
			if !done && kindAt(fac) != "none" {
				id, ok := oracleSupplies(kindAt(fac), optBase(fac), n, calls[fac])
				calls[fac]++
				if ok {
					reg[n] = id
					exp = append(exp, "g"+strconv.Itoa(id))
					tell(fmt.Sprintf("%s:-:%d:A", tilde(n), id))
					done = true
				}
			}
			if !done {
				exp = append(exp, "nf")
			}
		}
	}
	var keys, names, cs []string
	for n := range reg {
		keys = append(keys, n)
	}
	sort.Slice(keys, func(i, j int) bool { return nameKey(keys[i]) < nameKey(keys[j]) })
	for _, n := range keys {
		names = append(names, tilde(n)+":"+strconv.Itoa(reg[n]))
	}
	for _, n := range calls {
		cs = append(cs, strconv.Itoa(n))
	}
	callS := "-"
	if len(cs) > 0 {
		callS = strings.Join(cs, ".")
	}
	want := fmt.Sprintf("res=%s log=%s reg=%s calls=%s", commaList(exp), commaList(log), commaList(names), callS)
	if want == answer {
		return
	}
	wf, af := strings.Fields(want), strings.Fields(answer)
	class := "behaviour"
	if len(wf) == len(af) {
		for i := range wf {
			if wf[i] != af[i] {
				class = strings.SplitN(wf[i], "=", 2)[0]
				break
			}
		}
	}
	names2 := map[string]string{"res": "results", "log": "onchange-log", "reg": "final-registry", "calls": "functions-called"}
	if v, ok := names2[class]; ok {
		class = v
	}
	mon.Violate(sig(class), "the generated Add refuses a value that is not a client of its service (panic, nothing changes); a router configured with a list of options asks the last WithFallback first, then the last WithFactory (committed once, announced to the last WithOnChange), in whatever order the options were passed; no other function is called", c, want, answer)
}

// randOpts: 0-5 options, each kind possibly several times, in random order.
func randOpts(rng *rand.Rand) string {
	n := rng.Intn(6)
	var toks []string
	supplying := []string{"new", "pfx", "odd", "new", "pfx", "err", "nil", "both"}
	for i := 0; i < n; i++ {
		k := supplying[rng.Intn(len(supplying))]
		switch rng.Intn(7) {
		case 0, 1:
			toks = append(toks, "b"+k)
		case 2:
			toks = append(toks, "f"+k)
		case 3, 4:
			toks = append(toks, "t"+k)
		case 5:
			toks = append(toks, "c")
		default:
			if rng.Intn(4) == 0 {
				toks = append(toks, []string{"bnone", "fnone"}[rng.Intn(2)]) // a nil function resets the field
			} else {
				toks = append(toks, "c")
			}
		}
	}
	return commaListSep(toks, ".")
}

// foreignClient: a value that is not a client of e's service: `n` nil, `s` a string, `o` the client of another
// trait package's service (different request types: never assignable).
func foreignClient(e entry, what string, rec *recorder) any {
	if sd, err := methodsOf(e); what == "n" || err != nil || sd.Methods().Len() == 0 {
		return nil // a service without methods has the empty interface as its client type: nil is its only foreign value
	}
	if what == "s" {
		return "not a client"
	}
	for _, o := range tables {
		if o.Pkg != e.Pkg {
			return o.NewClient(&fakeConn{id: 9999, rec: rec})
		}
	}
	return struct{}{}
}

// withForeignAdds sprinkles Adds of foreign values into a history.
func withForeignAdds(rng *rand.Rand, ops string) string {
	toks := splitList(ops, ",")
	var out []string
	for _, t := range toks {
		if rng.Intn(6) == 0 {
			out = append(out, "w:"+namePool[rng.Intn(len(namePool))]+":"+[]string{"n", "s", "o"}[rng.Intn(3)])
		}
		out = append(out, t)
	}
	if rng.Intn(6) == 0 {
		out = append(out, "w:x:"+[]string{"n", "s", "o"}[rng.Intn(3)])
	}
	return commaList(out)
}

func commaListSep(xs []string, sep string) string {
	if len(xs) == 0 {
		return "-"
	}
	return strings.Join(xs, sep)
}

func runOptions(f lib.Flags, res *lib.Result, drv *lib.Driver) {
	tie := res.Tie("router-options", "K1", "NewRouter(opts...) with a LIST of 0-5 options (WithFallback / WithFactory / generated With<Client>Factory / WithOnChange, each kind any number of times, nil functions, every order: all 2- and 3-option orders of the supplying kinds exhaustively, then random lists) on generated routers chosen round-robin, followed by a Get-biased registry history that also tries to Add values that are not clients of the router's service (nil, a string, another trait's client: the generated Add refuses them by panicking, nothing changes); every function passed counts its own calls and every listener tags what it hears; results, tagged onChange log, final registry and per-option call counts compared with the Lean model (Options.lean: newRouter = fold of assignments, callsOf); distinct = (options, ops)")
	mon := res.Monitor("router-options-order", "same cases against a plain Go map with the documented precedence: last fallback first, then last factory, whatever the order of the options; superseded functions are never called")
	rng := lib.NewRand(f.Seed + 12)
	n := f.N(700, 60000)
	var fixed []optCase
	// every order of a fallback, a factory and a listener, for names the fallback supplies / declines
	kinds := []string{"new", "pfx", "odd", "err"}
	for _, fb := range kinds {
		for _, fac := range kinds[:3] {
			for _, facTok := range []string{"f", "t"} {
				b, fc := "b"+fb, facTok+fac
				for _, perm := range [][]string{{b, fc}, {fc, b}, {"c", b, fc}, {"c", fc, b}, {b, "c", fc}, {fc, "c", b}, {b, fc, "c"}, {fc, b, "c"}} {
					fixed = append(fixed, optCase{Opts: strings.Join(perm, "."), Ops: "g:ab,g:x,h:ab,w:ab:o,g:x,g:ab,w:q:n,h:x,r:x,g:x,h:q"})
				}
			}
		}
	}
	var cases []optCase
	var lines, answers []string
	for i := 0; i < n; i++ {
		var c optCase
		if i < len(fixed) {
			c = fixed[i]
		} else {
			c = optCase{Opts: randOpts(rng), Ops: withForeignAdds(rng, randOpsGet(rng, 10))}
		}
		e := tables[(i*7)%len(tables)]
		c.Kind, c.Pkg, c.Router = "options", e.Pkg, e.Router
		c.Typed = i%2 == 1
		var a string
		panicked, msg := lib.Catch(func() { a = runOptCase(e, c) })
		if panicked {
			a = "panic:" + strings.ReplaceAll(msg, " ", "_")
			mon.Violate("C12/"+e.id()+"/options/panic", "a router configured with a list of options panicked", c, "no panic", msg)
		} else {
			monitorOpt(mon, c, a)
		}
		mon.Eval(c.Opts+"/"+c.Ops, c.Ops != "-" && c.Opts != "-", nil)
		tie.Count(fmt.Sprintf("options=%d", len(splitList(c.Opts, "."))))
		if first := firstOf(c.Opts); first != "" {
			tie.Count("first-source=" + first)
		}
		cases = append(cases, c)
		answers = append(answers, a)
		lines = append(lines, fmt.Sprintf("ropts %s %s", c.Opts, c.Ops))
	}
	ans, err := drv.Batch(lines)
	if err != nil {
		tie.Fail(err)
		return
	}
	for i, c := range cases {
		tie.Record(c.Opts+"/"+c.Ops, c.Ops != "-" && c.Opts != "-", c, ans[i], answers[i])
	}
}

// firstOf: which kind of source comes first in an option list that has both (for the evidence distribution).
func firstOf(opts string) string {
	fb, fac := -1, -1
	for i, t := range splitList(opts, ".") {
		if t[0] == 'b' && fb < 0 {
			fb = i
		}
		if (t[0] == 'f' || t[0] == 't') && fac < 0 {
			fac = i
		}
	}
	if fb < 0 || fac < 0 {
		return ""
	}
	if fb < fac {
		return "fallback"
	}
	return "factory"
}
