package main

import (
	"context"
	"fmt"
	"hash/fnv"
	"io"
	"math/rand"
	"sort"
	"strconv"
	"strings"

	"google.golang.org/grpc"
	"google.golang.org/grpc/codes"
	"google.golang.org/grpc/metadata"
	"google.golang.org/grpc/status"
	"google.golang.org/protobuf/proto"
	"google.golang.org/protobuf/reflect/protoreflect"
	"google.golang.org/protobuf/reflect/protoregistry"

	namemw "github.com/smart-core-os/sc-golang/pkg/middleware/name"
	"github.com/smart-core-os/sc-golang/pkg/router"
	"github.com/smart-core-os/sc-golang/verifharness/lib"
)

// routeCase determines one driven call completely (it is also the replay input).
type routeCase struct {
	Kind      string     `json:"kind"` // "route"
	Pkg       string     `json:"pkg"`
	Router    string     `json:"router"`
	Method    string     `json:"method"`
	Fb        string     `json:"fallback"`
	Fac       string     `json:"factory"`
	Ops       string     `json:"ops"`
	Name      string     `json:"name"`      // token: ~ is the empty name, n1.. / a1.. are the unusual names of unusualNames
	NameReal  string     `json:"name_real"` // the real name, Go-quoted (documentation; derived from Name)
	Streaming bool       `json:"streaming"`
	ChildOut  string     `json:"child_out,omitempty"`
	Child     string     `json:"child_script,omitempty"`
	Caller    string     `json:"caller_script,omitempty"`
	MsgSeed   int64      `json:"msg_seed"`
	ViaWrap   bool       `json:"via_wrapper,omitempty"`
	Chain     bool       `json:"wrapped_children,omitempty"` // every child is Wrap(inner router -> fake client): Router ∘ Wrap ∘ Router
	Served    *servedOpt `json:"served,omitempty"`           // the handler runs behind the default-name interceptors (served.go)
}

// servedOpt: the call is served as a grpc.Server would serve it, the default-name interceptors of
// pkg/middleware/name in front of the generated handler, the request delivered by a transport.
type servedOpt struct {
	Default   string `json:"default"`   // name token, like routeCase.Name
	Transport string `json:"transport"` // ow | mg | f<tok> | of<tok> (stream: the ServerStream's RecvMsg; unary: the decode function)
}

// effName is the name token the request is served under.
func (c routeCase) effName() string {
	if c.Served != nil && unTilde(c.Name) == "" {
		return c.Served.Default
	}
	return c.Name
}

// Names in the line protocol are tokens without spaces. The model is parametric in names (it only
// compares them, tests emptiness, and the `pfx` factory tests a leading "a"), so unusual real names are
// represented by tokens through a fixed injective dictionary: `~` is the empty name, a plain token
// stands for itself, and the tokens below stand for names that an implementation might wrongly
// normalise (trim, case-fold, cut at "/" or NUL, truncate). Tokens start with "a" iff the name does.
var unusualNames = []struct{ tok, real string }{
	{"n1", " "}, {"n2", "\t"}, {"n3", "\n"}, {"n4", " x"}, {"n5", "x "}, {"n6", "X"}, {"n7", "x/y"},
	{"n8", "x\x00y"}, {"n9", "ünï/名前 \u00a0"}, {"n10", strings.Repeat("x", 5000)}, {"n11", "Ab"},
	{"a1", "ab "}, {"a2", "aB"}, {"n12", "\u00a0"}, {"n13", "x\x00"},
}

var tokToReal, realToTok = func() (map[string]string, map[string]string) {
	a, b := map[string]string{}, map[string]string{}
	for _, u := range unusualNames {
		a[u.tok], b[u.real] = u.real, u.tok
	}
	return a, b
}()

// escTok is an injective spaceless rendering of an arbitrary string (`~` = empty).
func escTok(s string) string {
	if s == "" {
		return "~"
	}
	var b strings.Builder
	for i := 0; i < len(s); i++ {
		c := s[i]
		if c >= 'a' && c <= 'z' || c >= 'A' && c <= 'Z' || c >= '0' && c <= '9' || c == '_' || c == '.' || c == '/' {
			b.WriteByte(c)
		} else {
			fmt.Fprintf(&b, "%%%02X", c)
		}
	}
	return b.String()
}

// unTilde: token -> real name.
func unTilde(s string) string {
	if s == "~" {
		return ""
	}
	if r, ok := tokToReal[s]; ok {
		return r
	}
	return s
}

// tilde: real name -> token (a name the harness never used is escaped, so it equals no model token).
func tilde(s string) string {
	if s == "" {
		return "~"
	}
	if t, ok := realToTok[s]; ok {
		return t
	}
	if _, clash := tokToReal[s]; !clash && escTok(s) == s {
		return s
	}
	return "?" + escTok(s)
}

// nameKey orders names as the model does (by token, the empty name first).
func nameKey(real string) string {
	if real == "" {
		return ""
	}
	return tilde(real)
}
func splitList(s, sep string) []string {
	if s == "-" || s == "" {
		return nil
	}
	return strings.Split(s, sep)
}
func commaList(xs []string) string {
	if len(xs) == 0 {
		return "-"
	}
	return strings.Join(xs, ",")
}

// factoryKind is the closed family of factories shared with the Lean driver (Drv.lean factoryOf).
// mk makes the client with the given id; calls counts invocations.
func factoryKind(kind string, base int, mk func(id int) any, calls *int) func(string) (any, error) {
	if kind == "none" {
		return nil
	}
	return func(n string) (any, error) {
		k := *calls
		*calls++
		someErr := status.Error(codes.Unavailable, "factory failed")
		switch kind {
		case "new":
			return mk(base + k), nil
		case "err":
			return nil, someErr
		case "nil":
			return nil, nil
		case "both":
			return mk(base + k), someErr
		case "pfx":
			if strings.HasPrefix(n, "a") {
				return mk(base + k), nil
			}
			return nil, nil
		case "odd":
			if k%2 == 1 {
				return mk(base + k), nil
			}
			return nil, someErr
		}
		panic("unknown factory kind " + kind)
	}
}

// oracleSupplies: the same family as a pure function (the monitor's own, independent statement).
func oracleSupplies(kind string, base int, n string, k int) (int, bool) {
	switch kind {
	case "new":
		return base + k, true
	case "pfx":
		return base + k, strings.HasPrefix(n, "a")
	case "odd":
		return base + k, k%2 == 1
	}
	return 0, false
}

// routerRig is one router under test with its fake children and its change log.
type routerRig struct {
	e       entry
	r       routerLike
	rec     *recorder
	ids     map[any]int
	log     []string
	nfb     int
	nfac    int
	pool    map[string]bool // names ever mentioned
	results []string
	typed   bool                // use the generated typed accessors (Add<Client>, Remove<Client>, Get<Client>)
	chain   bool                // children are generated wrappers around an inner router that holds the fake client
	cb      func(router.Change) // runs inside the onChange callback after the change was logged (re-entrant callbacks)
}

func (g *routerRig) idOf(c any) string {
	if c == nil {
		return "-"
	}
	if id, ok := g.ids[c]; ok {
		return strconv.Itoa(id)
	}
	return "?unknown-client"
}

func (g *routerRig) mk(id int) any {
	c := g.e.NewClient(&fakeConn{id: id, rec: g.rec})
	if g.chain && g.e.Wrap != nil {
		// the fake sits behind an inner router (any name resolves to it) presented as a client by the
		// generated wrapper: the outer router must treat that wrapper like any other client
		inner := g.e.New(router.WithFallback(func(string) (any, error) { return c, nil }))
		var w any = g.e.Wrap(inner)
		g.ids[w] = id
		return w
	}
	g.ids[c] = id
	return c
}

func newRig(e entry, fb, fac string, typedFactory bool) *routerRig {
	g := &routerRig{e: e, rec: &recorder{}, ids: map[any]int{}, pool: map[string]bool{}}
	opts := []router.Option{router.WithOnChange(func(c router.Change) {
		a := "M"
		if c.Auto {
			a = "A"
		}
		g.log = append(g.log, tilde(c.Name)+":"+g.idOf(c.Old)+":"+g.idOf(c.New)+":"+a)
		if g.cb != nil {
			g.cb(c)
		}
	})}
	if f := factoryKind(fb, 2000, g.mk, &g.nfb); f != nil {
		opts = append(opts, router.WithFallback(f))
	}
	if f := factoryKind(fac, 1000, g.mk, &g.nfac); f != nil {
		if typedFactory && e.WithFactory != nil {
			opts = append(opts, e.WithFactory(f))
		} else {
			opts = append(opts, router.WithFactory(f))
		}
	}
	orderOptions(opts, fb+"/"+fac+"/"+e.Router)
	g.r = e.New(opts...)
	return g
}

// orderOptions permutes an option list (up to three options: all 6 orders) by a fixed function of the configuration
// key: the order in which options are passed to NewRouter must not matter, and a replay must build the same router.
func orderOptions(opts []router.Option, key string) {
	h := fnv.New32a()
	h.Write([]byte(key))
	k := int(h.Sum32() % 720)
	for i := len(opts) - 1; i > 0; i-- {
		j := k % (i + 1)
		k /= i + 1
		opts[i], opts[j] = opts[j], opts[i]
	}
}

func (g *routerRig) applyOps(ops string) error {
	for _, o := range splitList(ops, ",") {
		res, err := g.doOp(o)
		if err != nil {
			return err
		}
		g.results = append(g.results, res)
	}
	return nil
}

// doOp executes one operation token (a:<name>:<id>, r:<name>, h:<name>, g:<name>) and returns its result token.
func (g *routerRig) doOp(o string) (string, error) {
	p := strings.Split(o, ":")
	if len(p) < 2 {
		return "", fmt.Errorf("bad op %q", o)
	}
	n := unTilde(p[1])
	g.pool[n] = true
	switch p[0] {
	case "a":
		if len(p) < 3 {
			return "", fmt.Errorf("bad op %q", o)
		}
		id, err := strconv.Atoi(p[2])
		if err != nil {
			return "", err
		}
		if g.typed && g.e.AddTyped != nil {
			return "p" + g.idOf(g.e.AddTyped(g.r, n, g.mk(id))), nil
		}
		return "p" + g.idOf(g.r.Add(n, g.mk(id))), nil
	case "r":
		if g.typed && g.e.RemoveTyped != nil {
			return "p" + g.idOf(g.e.RemoveTyped(g.r, n)), nil
		}
		return "p" + g.idOf(g.r.Remove(n)), nil
	case "h":
		if g.r.Has(n) {
			return "bT", nil
		}
		return "bF", nil
	case "g":
		var c any
		var err error
		if g.typed && g.e.GetTyped != nil {
			c, err = g.e.GetTyped(g.r, n)
		} else {
			c, err = g.r.Get(n)
		}
		if err != nil {
			if status.Code(err) == codes.NotFound && c == nil {
				return "nf", nil
			}
			return "?" + status.Code(err).String(), nil
		}
		return "g" + g.idOf(c), nil
	}
	return "", fmt.Errorf("bad op %q", o)
}

// stateString reads the registry back purely through the public API (Has, then Remove) — call last.
func (g *routerRig) stateString() string {
	log := commaList(g.log)
	nfb, nfac := g.nfb, g.nfac
	var names []string
	for n := range g.pool {
		names = append(names, n)
	}
	sort.Slice(names, func(i, j int) bool { return nameKey(names[i]) < nameKey(names[j]) })
	var reg []string
	for _, n := range names {
		if g.r.Has(n) {
			reg = append(reg, tilde(n)+":"+g.idOf(g.r.Remove(n)))
		}
	}
	return fmt.Sprintf("log=%s reg=%s nfb=%d nfac=%d", log, commaList(reg), nfb, nfac)
}

type methodInfo struct {
	sd    protoreflect.ServiceDescriptor
	md    protoreflect.MethodDescriptor
	index int
}

func serviceOf(desc *grpc.ServiceDesc) (protoreflect.ServiceDescriptor, error) {
	d, err := protoregistry.GlobalFiles.FindDescriptorByName(protoreflect.FullName(desc.ServiceName))
	if err != nil {
		return nil, err
	}
	sd, ok := d.(protoreflect.ServiceDescriptor)
	if !ok {
		return nil, fmt.Errorf("%s is not a service", desc.ServiceName)
	}
	return sd, nil
}

func methodIndex(sd protoreflect.ServiceDescriptor, full string) string {
	prefix := "/" + string(sd.FullName()) + "/"
	if !strings.HasPrefix(full, prefix) {
		return "999"
	}
	ms := sd.Methods()
	for i := 0; i < ms.Len(); i++ {
		if string(ms.Get(i).Name()) == full[len(prefix):] {
			return strconv.Itoa(i)
		}
	}
	return "999"
}

func parseOptTok(s string) (int, bool) {
	if s == "-" {
		return 0, false
	}
	n, _ := strconv.Atoi(s)
	return n, true
}

// routeOutcome: the code's answer in the driver's format + what the monitor needs.
type routeOutcome struct {
	answer    string
	calls     []call
	midx      int
	fullMeth  string
	req       proto.Message
	plan      *childPlan
	ss        *fakeServerStream
	resp      any
	err       error
	childCtx  context.Context
	cancelled bool
	recvs     int
	hasName   bool
	events    []string
	wire      string // served cases: the request on the wire, field by field (model input)
}

// reqSeen renders the request the first child call carried, field by field (`-`: no call).
func reqSeen(calls []call) string {
	if len(calls) == 0 || calls[0].Req == nil {
		return "-"
	}
	return msgTokNamed(calls[0].Req)
}

// msgTokNamed renders a request field by field like msgTok, the string field `name` as a name TOKEN (the
// injective dictionary the registry operations use), so that the model compares like with like.
func msgTokNamed(m proto.Message) string {
	var fs []string
	fds := m.ProtoReflect().Descriptor().Fields()
	for i := 0; i < fds.Len(); i++ {
		fd := fds.Get(i)
		if fd.TextName() == "name" && fd.Kind() == protoreflect.StringKind && !fd.IsList() && !fd.IsMap() {
			fs = append(fs, "name:S:"+tilde(m.ProtoReflect().Get(fd).String()))
			continue
		}
		fs = append(fs, fieldTok(m.ProtoReflect(), fd))
	}
	return commaList(fs)
}

func showCalls(sd protoreflect.ServiceDescriptor, calls []call, req proto.Message) string {
	var out []string
	for _, c := range calls {
		rt := "5"
		if c.Req == nil || !proto.Equal(c.Req, req) {
			rt = "0"
		} else if !c.CtxOK {
			rt = "1"
		}
		out = append(out, fmt.Sprintf("%d:%s:%s", c.Client, methodIndex(sd, c.Method), rt))
	}
	return commaList(out)
}

// runRoute executes one case on the real generated router.
func runRoute(e entry, c routeCase) (out routeOutcome, err error) {
	g := newRig(e, c.Fb, c.Fac, true)
	g.chain = c.Chain
	if err = g.applyOps(c.Ops); err != nil {
		return
	}
	g.pool[unTilde(c.Name)] = true
	reg := &captureRegistrar{}
	g.r.Register(reg)
	if reg.desc == nil {
		return out, fmt.Errorf("%s: Register registered nothing", e.id())
	}
	sd, err := serviceOf(reg.desc)
	if err != nil {
		return
	}
	md := sd.Methods().ByName(protoreflect.Name(c.Method))
	if md == nil {
		return out, fmt.Errorf("%s has no method %s", sd.FullName(), c.Method)
	}
	out.midx = md.Index()
	out.fullMeth = "/" + string(sd.FullName()) + "/" + c.Method
	rng := rand.New(rand.NewSource(c.MsgSeed))
	req, err := randomMessage(rng, md.Input().FullName())
	if err != nil {
		return
	}
	out.hasName = setName(req, unTilde(c.Name))
	orig := proto.Clone(req)
	if c.Served != nil {
		// the forwarder must be handed the request with nothing but an empty name filled in
		setName(orig, unTilde(c.effName()))
		g.pool[unTilde(c.effName())] = true
	}
	out.req = orig
	ctx, cancelAll := context.WithCancel(context.WithValue(context.Background(), ctxKey{}, "marker"))
	defer cancelAll()
	plan := &childPlan{}
	out.plan = plan
	g.rec.plan = plan

	var impl any = reg.impl
	var conn grpc.ClientConnInterface
	if c.ViaWrap {
		if e.Wrap == nil {
			return out, fmt.Errorf("%s has no wrapper", e.id())
		}
		conn, _ = e.Wrap(reg.impl).UnwrapService()
	}

	if !c.Streaming {
		if strings.HasPrefix(c.ChildOut, "m") {
			plan.Resp, err = randomMessage(rng, md.Output().FullName())
			if err != nil {
				return
			}
		} else {
			tok, _ := strconv.Atoi(c.ChildOut[1:])
			plan.Err = tokErr(tok, rng)
		}
		var resp any
		var rerr error
		if c.ViaWrap {
			reply, _ := newMessage(md.Output().FullName())
			rerr = conn.Invoke(ctx, out.fullMeth, req, reply)
			resp = reply
			if rerr != nil {
				resp = nil
			}
		} else {
			var h func(srv any, ctx context.Context, dec func(any) error, interceptor grpc.UnaryServerInterceptor) (any, error)
			for _, m := range reg.desc.Methods {
				if m.MethodName == c.Method {
					h = m.Handler
				}
			}
			if h == nil {
				return out, fmt.Errorf("%s: ServiceDesc has no unary method %s", e.id(), c.Method)
			}
			if c.Served != nil {
				out.wire = msgTokNamed(req)
				resp, rerr = h(impl, ctx, func(in any) error { return transportRecv(c.Served.Transport, nil, req, in) },
					namemw.IfAbsentUnaryInterceptor(unTilde(c.Served.Default)))
			} else {
				resp, rerr = h(impl, ctx, func(in any) error { proto.Merge(in.(proto.Message), req); return nil }, nil)
			}
		}
		out.resp, out.err, out.calls = resp, rerr, g.rec.calls
		o := ""
		if rerr != nil {
			o = "e" + errTok(rerr, unTilde(c.effName()))
		} else if pm, ok := resp.(proto.Message); ok && plan.Resp != nil && proto.Equal(pm, plan.Resp) {
			o = "m3"
		} else {
			o = "m0"
		}
		out.answer = "calls=" + showCalls(sd, g.rec.calls, orig) + " out=" + o + " " + g.stateString()
		if c.Served != nil {
			out.answer = "req=" + reqSeen(g.rec.calls) + " " + out.answer
		}
		return
	}

	// server streaming
	cp := strings.Split(c.Child, ":")
	kp := strings.Split(c.Caller, ":")
	if len(cp) != 6 || len(kp) != 3 {
		return out, fmt.Errorf("bad scripts %q %q", c.Child, c.Caller)
	}
	if t, ok := parseOptTok(cp[0]); ok {
		plan.OpenErr = tokErr(t, rng)
	}
	if t, ok := parseOptTok(cp[1]); ok {
		plan.HeaderErr = tokErr(t, rng)
	}
	if t, ok := parseOptTok(cp[2]); ok {
		plan.Header = tokMD("h", t)
	}
	for range splitList(cp[3], ".") {
		m, e2 := randomMessage(rng, md.Output().FullName())
		if e2 != nil {
			return out, e2
		}
		plan.Msgs = append(plan.Msgs, m)
	}
	if cp[4] == "eof" {
		plan.Final = io.EOF
	} else {
		t, _ := strconv.Atoi(cp[4][1:])
		plan.Final = tokErr(t, rng)
	}
	if t, ok := parseOptTok(cp[5]); ok {
		plan.Trailer = tokMD("t", t)
	}
	ss := &fakeServerStream{ctx: ctx, req: req, failAt: -1, rec: g.rec}
	if t, ok := parseOptTok(kp[0]); ok {
		ss.sendHeaderErr = tokErr(t, rng)
	}
	if t, ok := parseOptTok(kp[1]); ok {
		ss.failAt = t
	}
	st, _ := strconv.Atoi(kp[2])
	ss.sendErr = tokErr(st, rng)
	out.ss = ss
	var h grpc.StreamHandler
	for _, s := range reg.desc.Streams {
		if s.StreamName == c.Method {
			h = s.Handler
		}
	}
	if h == nil {
		return out, fmt.Errorf("%s: ServiceDesc has no stream %s", e.id(), c.Method)
	}
	var rerr error
	if c.Served != nil {
		out.wire = msgTokNamed(req)
		ss.transport = c.Served.Transport
		if i := strings.IndexByte(ss.transport, 'f'); i >= 0 {
			t, _ := strconv.Atoi(ss.transport[i+1:])
			ss.recvErr = tokErr(t, rng)
		}
		ic := namemw.IfAbsentStreamInterceptor(unTilde(c.Served.Default))
		rerr = ic(impl, ss, &grpc.StreamServerInfo{FullMethod: out.fullMeth, IsServerStream: true}, h)
	} else {
		rerr = h(impl, ss)
	}
	out.err, out.calls, out.recvs = rerr, g.rec.calls, g.rec.recvs
	cancelled := false
	if len(g.rec.calls) > 0 {
		out.childCtx = g.rec.calls[len(g.rec.calls)-1].Ctx
		cancelled = out.childCtx.Err() != nil
	}
	out.cancelled = cancelled
	cancelS := fmt.Sprint(cancelled)
	if c.Chain {
		// the observed context is the innermost one (inner router behind the wrapper): the wrapper ends its
		// server-side context when the call ends, as gRPC does, so it says nothing about the outer reqDone
		cancelS = "na"
	}
	hdr := "none"
	if ss.headerCalled {
		hdr = mdTok(ss.header, "h")
	}
	var sent []string
	for i, m := range ss.sent {
		tok := "0"
		if i < len(plan.Msgs) && proto.Equal(m, plan.Msgs[i]) {
			tok = strconv.Itoa(i + 1)
		} else {
			for j, pm := range plan.Msgs {
				if proto.Equal(m, pm) {
					tok = strconv.Itoa(j + 1)
					break
				}
			}
		}
		sent = append(sent, tok)
	}
	tr := "-"
	if ss.trailerSet {
		tr = mdTok(ss.trailer, "t")
	}
	if len(ss.setHeader) > 0 {
		hdr += "+SetHeader"
	}
	evS := "-"
	if len(g.rec.events) > 0 {
		evS = strings.Join(g.rec.events, ".")
	}
	if c.Chain {
		// the fakes sit behind a wrapper + inner router: their calls run on the wrapper's handler goroutine,
		// decoupled from the outer forwarder's
		evS = "na"
	}
	out.events = append([]string(nil), g.rec.events...)
	state := g.stateString()
	out.answer = fmt.Sprintf("calls=%s hdr=%s sent=%s sends=%d recvs=%d tr=%s st=%s cancel=%s ev=%s %s",
		showCalls(sd, g.rec.calls, orig), hdr, commaList(sent), ss.sends, g.rec.recvs, tr, errTok(rerr, unTilde(c.Name)), cancelS, evS, state)
	if c.Served != nil {
		out.answer = fmt.Sprintf("req=%s calls=%s hdr=%s sent=%s sends=%d recvs=%d tr=%s st=%s cancel=%s %s", reqSeen(g.rec.calls),
			showCalls(sd, g.rec.calls, orig), hdr, commaList(sent), ss.sends, g.rec.recvs, tr, errTok(rerr, unTilde(c.effName())), cancelS, state)
	}
	return
}

func (c routeCase) modelLine() string {
	// the method token is filled in by the caller (index in the service descriptor)
	if c.Served != nil {
		// the wire message is filled in after the run (second verb)
		if c.Streaming {
			return fmt.Sprintf("srv %s %s %s %s %%d S %s z %%s %s %s", c.Served.Default, c.Fb, c.Fac, tildeList(c.Ops), c.Served.Transport, c.Child, c.Caller)
		}
		return fmt.Sprintf("srv %s %s %s %s %%d U %%s %s", c.Served.Default, c.Fb, c.Fac, tildeList(c.Ops), c.ChildOut)
	}
	if c.Streaming {
		return fmt.Sprintf("route %s %s %s %s %%d 5 S %s %s", c.Fb, c.Fac, tildeList(c.Ops), c.Name, c.Child, c.Caller)
	}
	return fmt.Sprintf("route %s %s %s %s %%d 5 U %s", c.Fb, c.Fac, tildeList(c.Ops), c.Name, c.ChildOut)
}

func tildeList(s string) string {
	if s == "" {
		return "-"
	}
	return s
}

// oracleTarget: the client a request naming n must reach after the history, by a plain Go map
// (independent of the Lean model): registered, else fallback, else factory (and then remembered).
func oracleTarget(c routeCase) (int, bool) {
	reg := map[string]int{}
	nfb, nfac := 0, 0
	get := func(n string) (int, bool) {
		if id, ok := reg[n]; ok {
			return id, true
		}
		if c.Fb != "none" {
			id, ok := oracleSupplies(c.Fb, 2000, n, nfb)
			nfb++
			if ok {
				return id, true
			}
		}
		if c.Fac != "none" {
			id, ok := oracleSupplies(c.Fac, 1000, n, nfac)
			nfac++
			if ok {
				reg[n] = id
				return id, true
			}
		}
		return 0, false
	}
	for _, o := range splitList(c.Ops, ",") {
		p := strings.Split(o, ":")
		n := unTilde(p[1])
		switch p[0] {
		case "a":
			id, _ := strconv.Atoi(p[2])
			reg[n] = id
		case "r":
			delete(reg, n)
		case "g":
			get(n)
		}
	}
	return get(unTilde(c.Name))
}

func mdEqual(a, b metadata.MD) bool {
	if len(a) != len(b) {
		return false
	}
	for k, v := range a {
		w := b[k]
		if len(v) != len(w) {
			return false
		}
		for i := range v {
			if v[i] != w[i] {
				return false
			}
		}
	}
	return true
}

func sameStatus(a, b error) bool {
	if a == nil || b == nil {
		return a == nil && b == nil
	}
	sa, _ := status.FromError(a)
	sb, _ := status.FromError(b)
	return sa.Code() == sb.Code() && sa.Message() == sb.Message()
}

// monitorRoute evaluates the property's statement on one executed case.
func monitorRoute(mon *lib.Monitor, e entry, c routeCase, o routeOutcome) {
	sig := func(class string) string { return "C12/" + e.id() + "/" + c.Method + "/" + class }
	if c.ViaWrap {
		sig = func(class string) string { return "C12/" + e.id() + "+wrapper/" + c.Method + "/" + class }
	}
	given := c
	if c.Served != nil {
		// behind the default-name interceptors a request is served under its name, or under the default when
		// it has none; everything the property says about forwarding then applies to that name
		kind := "unary"
		if c.Streaming {
			kind = "stream"
		}
		sig = func(class string) string { return "C12/" + e.id() + "+default-name/" + kind + "/" + class }
		if strings.Contains(c.Served.Transport, "f") {
			// the transport's RecvMsg failed: the error is returned, no client is touched
			if len(o.calls) != 0 {
				mon.Violate(sig("recv-error-touched-client"), "a request that could not be received must touch no client", given, "no child call", fmt.Sprintf("%d child calls", len(o.calls)))
			}
			if o.ss != nil && !sameStatus(o.err, o.ss.recvErr) {
				mon.Violate(sig("recv-error-altered"), "the transport's RecvMsg error must be returned unaltered", given, fmt.Sprint(o.ss.recvErr), fmt.Sprint(o.err))
			}
			return
		}
		c.Name = c.effName()
	}
	target, ok := oracleTarget(c)
	viol := func(class, what, exp, obs string) { mon.Violate(sig(class), what, given, exp, obs) }
	if !ok {
		if len(o.calls) != 0 {
			viol("notfound-touched-client", "a name with no client must touch no client", "no child call", fmt.Sprintf("%d child calls", len(o.calls)))
		}
		if status.Code(o.err) != codes.NotFound {
			viol("notfound-wrong-status", "a name with no client must yield NotFound", "NotFound", fmt.Sprint(o.err))
		}
		if o.ss != nil && (len(o.ss.sent) > 0 || o.ss.headerCalled || o.ss.trailerSet) {
			viol("notfound-sent-something", "a name with no client must send nothing", "nothing sent", "header/messages/trailer sent")
		}
		return
	}
	if len(o.calls) == 0 {
		viol("not-forwarded", "the request was not forwarded to the client registered under its name",
			fmt.Sprintf("one call of %s on client %d", o.fullMeth, target), fmt.Sprintf("no child call; caller got %v", o.err))
		return
	}
	if len(o.calls) > 1 {
		viol("multiple-calls", "the request must be forwarded exactly once", "1 child call", fmt.Sprintf("%d child calls", len(o.calls)))
	}
	k := o.calls[0]
	if k.Client != target {
		viol("wrong-client", "the request reached a client other than the one registered under its name", fmt.Sprint(target), fmt.Sprint(k.Client))
	}
	if k.Method != o.fullMeth {
		viol("wrong-method", "the request was forwarded to a different method", o.fullMeth, k.Method)
	}
	if k.Req == nil || !proto.Equal(k.Req, o.req) {
		viol("request-altered", "the request must pass through unaltered", fmt.Sprint(o.req), fmt.Sprint(k.Req))
	}
	if !k.CtxOK {
		viol("context-lost", "the caller's context must reach the child", "context values visible", "not visible")
	}
	p := o.plan
	if !c.Streaming {
		if p.Err != nil {
			if !sameStatus(o.err, p.Err) {
				viol("error-altered", "the child's error status must pass through unaltered", fmt.Sprint(p.Err), fmt.Sprint(o.err))
			}
			return
		}
		if o.err != nil {
			viol("error-invented", "the child succeeded but the caller got an error", "nil", fmt.Sprint(o.err))
			return
		}
		pm, _ := o.resp.(proto.Message)
		if pm == nil || !proto.Equal(pm, p.Resp) {
			viol("response-altered", "the child's response must pass through unaltered", fmt.Sprint(p.Resp), fmt.Sprint(o.resp))
		}
		return
	}
	ss := o.ss
	cancelled := o.cancelled && !c.Chain
	// messages: always a prefix, in order
	for i, m := range ss.sent {
		if i >= len(p.Msgs) || !proto.Equal(m, p.Msgs[i]) {
			viol("messages-altered", "the caller must receive the child's messages in order, unaltered", fmt.Sprintf("prefix of %d child messages", len(p.Msgs)), fmt.Sprintf("message %d differs or is extra", i))
			break
		}
	}
	switch {
	case p.OpenErr != nil:
		if !sameStatus(o.err, p.OpenErr) {
			viol("status-altered", "error opening the child stream must be returned unaltered", fmt.Sprint(p.OpenErr), fmt.Sprint(o.err))
		}
	case p.HeaderErr != nil:
		if !sameStatus(o.err, p.HeaderErr) {
			viol("status-altered", "the child's header error must be returned unaltered", fmt.Sprint(p.HeaderErr), fmt.Sprint(o.err))
		}
	default:
		if !ss.headerCalled || !mdEqual(ss.header, p.Header) {
			viol("header-altered", "the child's stream header must reach the caller unaltered", fmt.Sprint(p.Header), fmt.Sprintf("called=%v %v", ss.headerCalled, ss.header))
		}
		if ss.sendHeaderErr != nil {
			if !sameStatus(o.err, ss.sendHeaderErr) {
				viol("status-altered", "the caller's SendHeader error must be returned", fmt.Sprint(ss.sendHeaderErr), fmt.Sprint(o.err))
			}
			break
		}
		if ss.failAt >= 0 && ss.failAt < len(p.Msgs) {
			// caller error
			if !sameStatus(o.err, ss.sendErr) {
				viol("status-altered", "the caller's Send error must be returned", fmt.Sprint(ss.sendErr), fmt.Sprint(o.err))
			}
			if len(ss.sent) != ss.failAt {
				viol("messages-altered", "exactly the messages before the failing Send are delivered", fmt.Sprint(ss.failAt), fmt.Sprint(len(ss.sent)))
			}
			if !cancelled && !c.Chain {
				viol("not-cancelled-on-caller-error", "on a caller error the child's context must be cancelled", "cancelled", "still live")
			}
			return
		}
		if len(ss.sent) != len(p.Msgs) {
			viol("messages-altered", "all the child's messages must be delivered", fmt.Sprint(len(p.Msgs)), fmt.Sprint(len(ss.sent)))
		}
		if p.Trailer != nil && (!ss.trailerSet || !mdEqual(ss.trailer, p.Trailer)) {
			viol("trailer-altered", "the child's stream trailer must reach the caller unaltered", fmt.Sprint(p.Trailer), fmt.Sprintf("set=%v %v", ss.trailerSet, ss.trailer))
		}
		if p.Trailer == nil && ss.trailerSet && len(ss.trailer) > 0 {
			viol("trailer-altered", "no trailer may be invented", "none", fmt.Sprint(ss.trailer))
		}
		if p.Final == io.EOF {
			if o.err != nil {
				viol("status-altered", "a child stream ending with EOF must end the call with OK", "nil", fmt.Sprint(o.err))
			}
		} else if !sameStatus(o.err, p.Final) {
			viol("status-altered", "the child's final status must pass through unaltered", fmt.Sprint(p.Final), fmt.Sprint(o.err))
		}
	}
	if !c.Chain {
		// order of the forwarder's calls: the header is passed on before the first message is pulled from the
		// child; every Send directly follows the Recv that produced its message; the trailer comes last
		firstRecv, hdrAt, lastRecv := -1, -1, -1
		for i, ev := range o.events {
			switch ev {
			case "r":
				if firstRecv < 0 {
					firstRecv = i
				}
				lastRecv = i
			case "H":
				if hdrAt < 0 {
					hdrAt = i
				}
			case "s":
				if i == 0 || o.events[i-1] != "r" {
					viol("send-without-recv", "every message sent to the caller directly follows the Recv that produced it", "r then s", strings.Join(o.events, "."))
				}
			case "T":
				if i < lastRecv || i != len(o.events)-1 {
					viol("trailer-not-last", "the trailer is set after the child's last Recv, as the last call", "T last", strings.Join(o.events, "."))
				}
			}
		}
		if firstRecv >= 0 && (hdrAt < 0 || hdrAt > firstRecv) {
			viol("header-held-back", "the child's header must be sent to the caller (SendHeader) before the first message is pulled from the child, so that a caller can read it while the child is quiet",
				"o.ch.H before the first r", strings.Join(o.events, "."))
		}
	}
	if cancelled {
		viol("cancelled-without-caller-error", "the child's context is cancelled only on a caller error", "live", "cancelled")
	}
}

var namePool = []string{"x", "y", "ab", "b", "~", "x", "y", "~", "n1", "n4", "n5", "n6", "n7", "n8", "n9", "n10", "n11", "a1", "a2", "n13"}
var facKinds = []string{"none", "none", "none", "new", "err", "nil", "both", "pfx", "odd"}

func randOps(rng *rand.Rand, max int) string {
	n := rng.Intn(max + 1)
	var ops []string
	for i := 0; i < n; i++ {
		nm := namePool[rng.Intn(len(namePool))]
		switch rng.Intn(6) {
		case 0, 1, 2:
			ops = append(ops, fmt.Sprintf("a:%s:%d", nm, 1+rng.Intn(9)))
		case 3:
			ops = append(ops, "r:"+nm)
		case 4:
			ops = append(ops, "g:"+nm)
		default:
			ops = append(ops, "h:"+nm)
		}
	}
	return commaList(ops)
}

func randStreamScripts(rng *rand.Rand) (string, string) {
	opt := func(p int, tok int) string {
		if rng.Intn(100) < p {
			return strconv.Itoa(tok)
		}
		return "-"
	}
	n := rng.Intn(5)
	var ms []string
	for i := 1; i <= n; i++ {
		ms = append(ms, strconv.Itoa(i))
	}
	msgs := "-"
	if n > 0 {
		msgs = strings.Join(ms, ".")
	}
	final := "eof"
	if rng.Intn(10) < 4 {
		final = "e" + strconv.Itoa(20+rng.Intn(10))
	}
	child := fmt.Sprintf("%s:%s:%s:%s:%s:%s", opt(8, 11), opt(8, 12), opt(80, 9), msgs, final, opt(70, 4))
	failAt := "-"
	if rng.Intn(2) == 0 {
		failAt = strconv.Itoa(rng.Intn(n + 2))
	}
	caller := fmt.Sprintf("%s:%s:%d", opt(8, 13), failAt, 77)
	return child, caller
}

// casesFor generates the cases of one method: fixed small ones first, then random ones.
func casesFor(rng *rand.Rand, e entry, method string, streaming bool, n int) []routeCase {
	base := routeCase{Kind: "route", Pkg: e.Pkg, Router: e.Router, Method: method, Streaming: streaming, Fb: "none", Fac: "none"}
	var out []routeCase
	add := func(c routeCase) {
		c.MsgSeed = rng.Int63() >> 12 // exact in a JSON number
		c.NameReal = strconv.Quote(unTilde(c.Name))
		if len(c.NameReal) > 40 {
			c.NameReal = c.NameReal[:40] + fmt.Sprintf("...(%d bytes)", len(unTilde(c.Name)))
		}
		out = append(out, c)
	}
	// 0: registered name, success
	c := base
	c.Ops, c.Name = "a:x:1", "x"
	if streaming {
		c.Child, c.Caller = "-:-:9:1.2:eof:4", "-:-:77"
	} else {
		c.ChildOut = "m3"
	}
	add(c)
	// 1: unknown name
	c.Name = "y"
	add(c)
	// 2: two clients, the second one is addressed; child fails
	c = base
	c.Ops, c.Name = "a:x:1,a:y:2", "y"
	if streaming {
		c.Child, c.Caller = "-:-:9:1.2.3:e21:4", "-:-:77"
	} else {
		c.ChildOut = "e21"
	}
	add(c)
	if streaming {
		// 3: the caller fails in the middle
		c.Child, c.Caller = "-:-:9:1.2.3:eof:4", "-:1:77"
		add(c)
		// 4: nil header, nil trailer, no messages
		c.Child, c.Caller = "-:-:-:-:eof:-", "-:-:77"
		add(c)
	}
	// factory-made client
	c = base
	c.Fac, c.Ops, c.Name = "new", "-", "x"
	if streaming {
		c.Child, c.Caller = "-:-:9:1:eof:4", "-:-:77"
	} else {
		c.ChildOut = "m3"
	}
	add(c)
	// via the generated wrapper (Wrap ∘ Router), unary only
	if !streaming && e.Wrap != nil {
		c = base
		c.Ops, c.Name, c.ChildOut, c.ViaWrap = "a:x:1", "x", "m3", true
		add(c)
	}
	if e.Wrap != nil {
		// children that are themselves generated wrappers around an inner router
		c = base
		c.Ops, c.Name, c.Chain = "a:x:1,a:y:2", "y", true
		if streaming {
			c.Child, c.Caller = "-:-:9:1.2:eof:4", "-:-:77"
		} else {
			c.ChildOut = "m3"
		}
		add(c)
	}
	for len(out) < n {
		c = base
		c.Chain = e.Wrap != nil && !streaming && rng.Intn(6) == 0 // streams through a wrapper: C13's semantics (empty vs nil metadata, error position); only the fixed happy-path case above
		c.Fb, c.Fac = facKinds[rng.Intn(len(facKinds))], facKinds[rng.Intn(len(facKinds))]
		c.Ops = randOps(rng, 4)
		c.Name = namePool[rng.Intn(len(namePool))]
		if streaming {
			c.Child, c.Caller = randStreamScripts(rng)
		} else if rng.Intn(3) == 0 {
			c.ChildOut = "e" + strconv.Itoa(20+rng.Intn(10))
		} else {
			c.ChildOut = "m3"
		}
		add(c)
	}
	return out
}

func findEntry(pkg, rt string) (entry, bool) {
	for _, e := range tables {
		if e.Pkg == pkg && e.Router == rt {
			return e, true
		}
	}
	return entry{}, false
}

// methodsOf lists the methods of the service a router registers for (from the compiled descriptors).
func methodsOf(e entry) (protoreflect.ServiceDescriptor, error) {
	reg := &captureRegistrar{}
	e.New().Register(reg)
	if reg.desc == nil {
		return nil, fmt.Errorf("%s: Register registered nothing", e.id())
	}
	return serviceOf(reg.desc)
}

func runForward(f lib.Flags, res *lib.Result, drv *lib.Driver) {
	tie := res.Tie("forward", "K1", "every generated router in pkg/trait (table rebuilt from the working tree) x every method of the service descriptor it registers for x N cases (fixed small cases: registered/unknown name, child error, caller failure, nil metadata, factory-made client, via the generated wrapper; then random registry histories with fallback/factory kinds, names from a pool of ordinary, empty and unusual names (blank, leading/trailing blank, case variants, containing / or NUL, non-ASCII, 5000 characters; injective token dictionary), random child scripts: open/header error, k messages, EOF or status, trailer, caller SendHeader/Send failure at any position); the real handler from the router's ServiceDesc is invoked with fake per-name client connections and its observable behaviour (child calls, response/status, header, messages, trailer, cancellation, change log, registry) compared with the Lean model; distinct = (router, method, case shape)")
	mon := res.Monitor("forwarding", "property statement on the same executions with a plain-Go oracle (map registry + resolution order): exactly one child call on the client registered under the name with the same method and an equal request; response / status / header / messages / trailer equal to the child's; NotFound touches no client; child context cancelled exactly on caller error")
	rng := lib.NewRand(f.Seed)
	n := f.N(12, 400)
	type pending struct {
		e    entry
		c    routeCase
		o    routeOutcome
		line string
	}
	var batch []pending
	for _, e := range tables {
		sd, err := methodsOf(e)
		if err != nil {
			tie.Fail(err)
			return
		}
		ms := sd.Methods()
		for i := 0; i < ms.Len(); i++ {
			md := ms.Get(i)
			if md.IsStreamingClient() {
				mon.Violate("C12/"+e.id()+"/"+string(md.Name())+"/client-streaming", "client-streaming methods cannot be routed by name", nil, "unary or server-streaming", "client-streaming")
				continue
			}
			for _, c := range casesFor(rng, e, string(md.Name()), md.IsStreamingServer(), n) {
				var o routeOutcome
				var rerr error
				panicked, msg := lib.Catch(func() { o, rerr = runRoute(e, c) })
				if panicked {
					o.answer = "panic:" + strings.ReplaceAll(msg, " ", "_")
					mon.Violate("C12/"+e.id()+"/"+c.Method+"/panic", "forwarder panicked", c, "no panic", msg)
				} else if rerr != nil {
					o.answer = "harness-error:" + strings.ReplaceAll(rerr.Error(), " ", "_")
				} else {
					monitorRoute(mon, e, c, o)
				}
				kind := "unary"
				if c.Streaming {
					kind = "stream"
				}
				tie.Count(kind)
				mon.Eval(e.id()+"/"+c.Method+"/"+caseShape(c), true, nil)
				batch = append(batch, pending{e, c, o, fmt.Sprintf(c.modelLine(), md.Index())})
			}
		}
	}
	lines := make([]string, len(batch))
	for i, p := range batch {
		lines[i] = p.line
	}
	ans, err := drv.Batch(lines)
	if err != nil {
		tie.Fail(err)
		return
	}
	for i, p := range batch {
		if p.c.Chain {
			ans[i] = strings.Replace(strings.Replace(ans[i], "cancel=true", "cancel=na", 1), "cancel=false", "cancel=na", 1)
			fs := strings.Fields(ans[i])
			for j, x := range fs {
				if strings.HasPrefix(x, "ev=") {
					fs[j] = "ev=na"
				}
			}
			ans[i] = strings.Join(fs, " ")
		}
		tie.Record(p.e.id()+"/"+p.c.Method+"/"+caseShape(p.c), true, p.c, ans[i], p.o.answer)
		if p.c.Chain {
			tie.Count("children-are-wrappers")
		}
		if strings.Contains(ans[i], "st=5 ") || strings.Contains(ans[i], "out=e5 ") {
			tie.Count("notfound")
		}
		if strings.Contains(ans[i], "cancel=true") {
			tie.Count("caller-error")
		}
	}
	res.Extra["services"] = len(tables)
}

func caseShape(c routeCase) string {
	return fmt.Sprintf("%s/%s/%s/%s/%s/%s/%s/%v/%v", c.Fb, c.Fac, c.Ops, c.Name, c.ChildOut, c.Child, c.Caller, c.ViaWrap, c.Chain)
}
