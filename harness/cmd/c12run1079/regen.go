package main

// K3 regeneration tie: the repository's own protoc plugins are built from the working tree and re-run
// offline (a CodeGeneratorRequest is built from the compiled descriptors; no protoc needed); their
// output is compared with the checked-in *_router.pb.go / *_wrap.pb.go as normalised ASTs.

import (
	"bytes"
	"crypto/sha256"
	"encoding/json"
	"fmt"
	"go/ast"
	"go/parser"
	"go/printer"
	"go/token"
	"os"
	"os/exec"
	"path/filepath"
	"regexp"
	"sort"
	"strings"

	"google.golang.org/protobuf/proto"
	"google.golang.org/protobuf/reflect/protodesc"
	"google.golang.org/protobuf/reflect/protoreflect"
	"google.golang.org/protobuf/reflect/protoregistry"
	"google.golang.org/protobuf/types/descriptorpb"
	"google.golang.org/protobuf/types/pluginpb"

	"github.com/smart-core-os/sc-golang/verifharness/lib"
)

func codeGenRequest(files []string) (*pluginpb.CodeGeneratorRequest, error) {
	req := &pluginpb.CodeGeneratorRequest{FileToGenerate: files}
	done := map[string]bool{}
	var visit func(fd protoreflect.FileDescriptor)
	visit = func(fd protoreflect.FileDescriptor) {
		if done[fd.Path()] {
			return
		}
		done[fd.Path()] = true
		imps := fd.Imports()
		for i := 0; i < imps.Len(); i++ {
			visit(imps.Get(i).FileDescriptor)
		}
		req.ProtoFile = append(req.ProtoFile, protodesc.ToFileDescriptorProto(fd))
	}
	for _, p := range files {
		fd, err := protoregistry.GlobalFiles.FindFileByPath(p)
		if err != nil {
			return nil, err
		}
		visit(fd)
	}
	_ = descriptorpb.FileDescriptorProto{}
	return req, nil
}

func runPlugin(root, tmp, name string, req *pluginpb.CodeGeneratorRequest) (map[string]string, error) {
	bin := filepath.Join(tmp, name)
	build := exec.Command("go", "build", "-o", bin, "./cmd/"+name)
	build.Dir = root
	build.Env = goEnv()
	if out, err := build.CombinedOutput(); err != nil {
		return nil, fmt.Errorf("building %s: %v\n%s", name, err, out)
	}
	in, err := proto.Marshal(req)
	if err != nil {
		return nil, err
	}
	cmd := exec.Command(bin)
	cmd.Stdin = bytes.NewReader(in)
	var stdout, stderr bytes.Buffer
	cmd.Stdout, cmd.Stderr = &stdout, &stderr
	if err := cmd.Run(); err != nil {
		return nil, fmt.Errorf("running %s: %v\n%s", name, err, stderr.String())
	}
	var resp pluginpb.CodeGeneratorResponse
	if err := proto.Unmarshal(stdout.Bytes(), &resp); err != nil {
		return nil, err
	}
	if resp.Error != nil {
		return nil, fmt.Errorf("%s: %s", name, resp.GetError())
	}
	out := map[string]string{}
	for _, f := range resp.File {
		out[f.GetName()] = f.GetContent()
	}
	return out, nil
}

// normFile is a generated file reduced to what matters: its package directory, the import paths it
// uses, and its declarations keyed by what they declare, each printed from the AST with comments
// dropped and import aliases replaced by the import path.
type normFile struct {
	Key     string // <pkgdir>:<first declared type or func>
	Path    string
	Imports []string
	Decls   map[string]string
	Raw     string // the file as emitted / as checked in
}

func declKey(d ast.Decl) string {
	switch t := d.(type) {
	case *ast.FuncDecl:
		if r := recvType(t); r != "" {
			return "func (" + r + ") " + t.Name.Name
		}
		return "func " + t.Name.Name
	case *ast.GenDecl:
		if t.Tok == token.IMPORT {
			return ""
		}
		var names []string
		for _, sp := range t.Specs {
			switch s := sp.(type) {
			case *ast.TypeSpec:
				names = append(names, "type "+s.Name.Name)
			case *ast.ValueSpec:
				for _, n := range s.Names {
					names = append(names, t.Tok.String()+" "+n.Name)
				}
			}
		}
		return strings.Join(names, ",")
	}
	return "?"
}

func normalise(dir, path, src string) (*normFile, error) {
	fset := token.NewFileSet()
	f, err := parser.ParseFile(fset, path, src, parser.SkipObjectResolution) // comments are not parsed
	if err != nil {
		return nil, err
	}
	im := importsOf(f)
	nf := &normFile{Path: path, Decls: map[string]string{}, Raw: src}
	used := map[string]bool{}
	ast.Inspect(f, func(n ast.Node) bool {
		if sel, ok := n.(*ast.SelectorExpr); ok {
			if x, ok := sel.X.(*ast.Ident); ok {
				if p, ok := im[x.Name]; ok {
					used[p] = true
					x.Name = "«" + p + "»"
				}
			}
		}
		return true
	})
	for p := range used {
		nf.Imports = append(nf.Imports, p)
	}
	sort.Strings(nf.Imports)
	first := ""
	for _, d := range f.Decls {
		k := declKey(d)
		if k == "" {
			continue
		}
		if first == "" || (strings.HasPrefix(k, "type ") && !strings.HasPrefix(first, "type ")) {
			if first == "" || !strings.HasPrefix(first, "type ") {
				first = k
			}
		}
		var b bytes.Buffer
		if err := printer.Fprint(&b, token.NewFileSet(), d); err != nil {
			return nil, err
		}
		// same key twice (e.g. several `var _`) : append
		nf.Decls[k] += strings.Join(strings.Fields(b.String()), " ") + "\n"
	}
	nf.Key = dir + ":" + first
	return nf, nil
}

func (n *normFile) digest() string {
	var keys []string
	for k := range n.Decls {
		keys = append(keys, k)
	}
	sort.Strings(keys)
	h := sha256.New()
	fmt.Fprintln(h, strings.Join(n.Imports, ","))
	for _, k := range keys {
		fmt.Fprintln(h, k, n.Decls[k])
	}
	return fmt.Sprintf("%x", h.Sum(nil))[:16]
}

func diffNorm(gen, have *normFile) string {
	var ds []string
	for k, v := range gen.Decls {
		if w, ok := have.Decls[k]; !ok {
			ds = append(ds, "missing:"+k)
		} else if w != v {
			ds = append(ds, "differs:"+k)
		}
	}
	for k := range have.Decls {
		if _, ok := gen.Decls[k]; !ok {
			ds = append(ds, "extra:"+k)
		}
	}
	if strings.Join(gen.Imports, ",") != strings.Join(have.Imports, ",") {
		ds = append(ds, "imports")
	}
	sort.Strings(ds)
	return strings.ReplaceAll(strings.Join(ds, ";"), " ", "_")
}

// compileRegenerated builds the package of a generator output that differs from the checked-in file with
// the output put in the file's place (go build -overlay; nothing is written into the tree). Returns the
// compiler's complaint, "" if it builds.
func compileRegenerated(root, tmp string, g, h *normFile) string {
	target := filepath.Join(root, g.Path)
	replace := map[string]string{}
	if h != nil {
		target = filepath.Join(root, h.Path)
	}
	gen := filepath.Join(tmp, "regen_"+strings.ReplaceAll(g.Path, "/", "_"))
	if err := os.WriteFile(gen, []byte(g.Raw), 0o644); err != nil {
		return ""
	}
	replace[target] = gen
	ov, _ := json.Marshal(map[string]any{"Replace": replace})
	ovPath := gen + ".overlay.json"
	if err := os.WriteFile(ovPath, ov, 0o644); err != nil {
		return ""
	}
	cmd := exec.Command("go", "build", "-overlay", ovPath, "./"+filepath.Dir(g.Path))
	cmd.Dir = root
	cmd.Env = goEnv()
	out, err := cmd.CombinedOutput()
	if err == nil {
		return ""
	}
	msg := strings.TrimSpace(regexp.MustCompile(`\S*`+regexp.QuoteMeta(filepath.Base(gen))).ReplaceAllString(string(out), g.Path))
	if len(msg) > 600 {
		msg = msg[:600] + "..."
	}
	if msg == "" {
		msg = err.Error()
	}
	return msg
}

func checkRegenerated(mon *lib.Monitor, root, tmp, key string, g, h *normFile) {
	in := map[string]any{"kind": "regen", "key": key, "generated": g.Path}
	diff := "no checked-in file"
	if h != nil {
		in["file"] = h.Path
		diff = diffNorm(g, h)
	}
	mon.Eval(key, true, in)
	mon.Count("compiled-in-overlay")
	if msg := compileRegenerated(root, tmp, g, h); msg != "" {
		gen := "protoc-gen-router"
		if strings.HasSuffix(g.Path, "_wrap.pb.go") {
			gen = "protoc-gen-wrapper"
		}
		mon.Violate("C12/"+gen+"/"+filepath.Base(filepath.Dir(g.Path))+"/"+filepath.Base(g.Path)+"/regenerated-does-not-compile",
			"what the generator produces from the current API descriptors must build: this output differs from the checked-in file ("+diff+") and does not compile, so the service's RPCs can no longer be routed by generated code",
			in, "the regenerated file compiles in place of the checked-in one", msg)
	}
}

// notGenerated reports, with the file as the concrete failing configuration, that a checked-in router /
// wrapper is not what the generators produce from the current descriptors (the property's last sentence).
func notGenerated(mon *lib.Monitor, key, class string, g, h *normFile, detail string) {
	in := map[string]any{"kind": "regen", "key": key}
	path := ""
	if h != nil {
		in["file"] = h.Path
		path = h.Path
	}
	if g != nil {
		in["generated"] = g.Path
		if path == "" {
			path = g.Path
		}
	}
	gen := "protoc-gen-router"
	if strings.HasSuffix(path, "_wrap.pb.go") {
		gen = "protoc-gen-wrapper"
	}
	exp, obs := "the generator's output and the checked-in file declare the same router / wrapper (normalised AST)", detail
	mon.Violate("C12/"+gen+"/"+filepath.Base(filepath.Dir(path))+"/"+filepath.Base(path)+"/"+class,
		"the checked-in routers and wrappers must be exactly what the generators produce from the current API descriptors", in, exp, obs)
}

func runRegen(f lib.Flags, res *lib.Result, drv *lib.Driver) {
	tie := res.Tie("regeneration", "K3", "cmd/protoc-gen-router and cmd/protoc-gen-wrapper are built from the working tree and re-run on the compiled descriptors of every proto file named by a pkg/trait/*/gen.go go:generate line; each emitted file is compared with the checked-in *_router.pb.go / *_wrap.pb.go declaring the same type as a normalised AST (declarations and bodies, set of imported packages; comments, layout, import aliases/grouping and file names ignored); one evaluation per generated or checked-in file")
	tie.Exhaustive = true
	mon := res.Monitor("regenerated-output", "every generator output that differs from (or has no) checked-in file is compiled in the file's place (go build -overlay, nothing written into the tree): what the generators produce from the current API descriptors must be a router / wrapper that builds, or the service's RPCs can no longer be routed by generated code; an output with the same declarations as the checked-in file needs no build of its own (the harness is compiled against that file and drives it); a checked-in file that no generator output corresponds to, an output that is not checked in, and an output whose declarations differ from the checked-in file's are reported with that file as the failing configuration (the property's last sentence evaluated on the artefacts); one evaluation per generated or checked-in file")
	root := lib.RepoRoot()
	files, err := protoFilesToGenerate(root)
	if err != nil {
		tie.Fail(err)
		return
	}
	req, err := codeGenRequest(files)
	if err != nil {
		tie.Fail(err)
		return
	}
	tmp, err := os.MkdirTemp("", "c12regen")
	if err != nil {
		tie.Fail(err)
		return
	}
	defer os.RemoveAll(tmp)
	gen := map[string]*normFile{}
	for _, plugin := range []string{"protoc-gen-router", "protoc-gen-wrapper"} {
		out, err := runPlugin(root, tmp, plugin, req)
		if err != nil {
			tie.Fail(err)
			return
		}
		for name, content := range out {
			if d := os.Getenv("C12_EMIT_DIR"); d != "" { // developer aid: keep the generators' raw output
				os.MkdirAll(filepath.Join(d, filepath.Dir(name)), 0o755)
				os.WriteFile(filepath.Join(d, name), []byte(content), 0o644)
			}
			nf, err := normalise(filepath.Base(filepath.Dir(name)), name, content)
			if err != nil {
				tie.Fail(fmt.Errorf("generator output %s does not parse: %v", name, err))
				return
			}
			gen[nf.Key] = nf
		}
	}
	have := map[string]*normFile{}
	for _, pat := range []string{"*_router.pb.go", "*_wrap.pb.go"} {
		ms, _ := filepath.Glob(filepath.Join(root, "pkg", "trait", "*", pat))
		for _, m := range ms {
			b, err := os.ReadFile(m)
			if err != nil {
				tie.Fail(err)
				return
			}
			rel, _ := filepath.Rel(root, m)
			nf, err := normalise(filepath.Base(filepath.Dir(m)), rel, string(b))
			if err != nil {
				tie.Fail(err)
				return
			}
			have[nf.Key] = nf
		}
	}
	var keys []string
	for k := range gen {
		keys = append(keys, k)
	}
	for k := range have {
		if _, ok := gen[k]; !ok {
			keys = append(keys, k)
		}
	}
	sort.Strings(keys)
	for _, k := range keys {
		g, h := gen[k], have[k]
		switch {
		case g == nil:
			tie.Record(k, true, map[string]any{"file": h.Path}, "not-generated", "checked-in:"+h.digest())
			tie.Count("checked-in-only")
			mon.Eval(k, true, nil)
			notGenerated(mon, k, "checked-in-not-generated", nil, h, "the generators no longer produce "+h.Path+" (no output declares "+k+")")
		case h == nil:
			tie.Record(k, true, map[string]any{"generated": g.Path}, g.digest(), "not-checked-in")
			tie.Count("generated-only")
			checkRegenerated(mon, root, tmp, k, g, nil)
			notGenerated(mon, k, "generated-not-checked-in", g, nil, "the generators produce "+g.Path+" ("+k+"), which is not checked in")
		default:
			code := h.digest()
			if code != g.digest() {
				code += " " + diffNorm(g, h)
				tie.Count("differs")
				checkRegenerated(mon, root, tmp, k, g, h)
				notGenerated(mon, k, "differs-from-generated", g, h, diffNorm(g, h))
			} else {
				if filepath.Base(g.Path) != filepath.Base(h.Path) {
					tie.Count("same-ast-other-file-name")
				} else {
					tie.Count("identical-ast")
				}
				// same declarations as the checked-in file, which this harness is compiled against and drives
				mon.Eval(k, true, nil)
				mon.Count("same-as-the-compiled-checked-in-file")
			}
			tie.Record(k, true, map[string]any{"file": h.Path, "generated": g.Path}, g.digest(), code)
		}
	}
	runNaming(res, drv, tmp, req)
	res.Extra["proto_files"] = len(files)
	res.Extra["generated_files"] = len(gen)
}
