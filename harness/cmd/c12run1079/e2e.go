package main

// End-to-end monitor over real gRPC (in-memory bufconn transport): every generated router is
// registered on one real grpc.Server; its children are real grpc client connections to generic child
// servers (grpc.UnknownServiceHandler) that play back a script; the caller is a real grpc connection.
// This checks the forwarding property with the genuine grpc-go client/server stream semantics
// (header/trailer delivery, trailers-only responses, cancellation) instead of the fakes of forward.go.

import (
	"context"
	"fmt"
	"io"
	"net"
	"strings"
	"sync"
	"time"

	"google.golang.org/grpc"
	"google.golang.org/grpc/codes"
	"google.golang.org/grpc/credentials/insecure"
	"google.golang.org/grpc/metadata"
	"google.golang.org/grpc/status"
	"google.golang.org/grpc/test/bufconn"
	"google.golang.org/protobuf/proto"
	"google.golang.org/protobuf/reflect/protoreflect"
	"google.golang.org/protobuf/reflect/protoregistry"

	namemw "github.com/smart-core-os/sc-golang/pkg/middleware/name"
	"github.com/smart-core-os/sc-golang/verifharness/lib"
)

type e2eCase struct {
	Kind    string `json:"kind"` // "e2e"
	Pkg     string `json:"pkg"`
	Router  string `json:"router"`
	Method  string `json:"method"`
	Name    string `json:"name"`   // x -> child 1, y -> child 2, anything else: unknown
	Script  string `json:"script"` // ok | error | trailers-only | cancel | quiet (header sent, then parked until the caller has read it)
	Msgs    int    `json:"msgs"`
	MsgSeed int64  `json:"msg_seed"`
	// Default, when set: the caller talks to a grpc.Server that has the default-name interceptors of
	// pkg/middleware/name installed with this default name, in front of the same routers
	Default *string `json:"default,omitempty"`
	confirm bool    // second run of a timing verdict (self-confirmation)
}

type e2ePlan struct {
	method   protoreflect.MethodDescriptor
	script   string
	resp     []proto.Message
	final    error
	header   metadata.MD
	trailer  metadata.MD
	calls    []call
	childCtx context.Context
	gate     chan struct{} // cancel script: the child blocks here after its first message
}

type e2eWorld struct {
	mu        sync.Mutex
	plan      *e2ePlan
	callerCC  *grpc.ClientConn
	routers   map[string]routerLike
	servers   []*grpc.Server
	childConn map[int]*grpc.ClientConn
	heldBack  int                         // confirmed header-held-back verdicts (each costs two watchdog waits)
	fronts    map[string]*grpc.ClientConn // per default name: connection to a server with the name interceptors
	lastWire  string                      // last case: the request as sent, field by field
	lastSeen  string                      // last case: req=<request the child got> calls=<client:method> st=<status token>
}

// front returns a connection to a real grpc.Server that serves every router behind the default-name
// interceptors for the given default name.
func (w *e2eWorld) front(def string) (*grpc.ClientConn, error) {
	if cc, ok := w.fronts[def]; ok {
		return cc, nil
	}
	srv := grpc.NewServer(
		grpc.UnaryInterceptor(namemw.IfAbsentUnaryInterceptor(def)),
		grpc.StreamInterceptor(namemw.IfAbsentStreamInterceptor(def)))
	for _, e := range tables {
		w.routers[e.id()].Register(srv)
	}
	cc, err := bufServe(srv)
	if err != nil {
		return nil, err
	}
	w.servers = append(w.servers, srv)
	if w.fronts == nil {
		w.fronts = map[string]*grpc.ClientConn{}
	}
	w.fronts[def] = cc
	return cc, nil
}

// e2eStatusTok: nil `-`, the router's NotFound 5, the scripted child error 9.
func e2eStatusTok(err error) string {
	switch st, _ := status.FromError(err); {
	case err == nil:
		return "-"
	case st.Code() == codes.NotFound:
		return "5"
	case st.Code() == codes.FailedPrecondition && st.Message() == "child says no":
		return "9"
	default:
		return "?" + st.Code().String() + ":" + strings.ReplaceAll(st.Message(), " ", "_")
	}
}

func methodByFullName(full string) protoreflect.MethodDescriptor {
	parts := strings.Split(strings.TrimPrefix(full, "/"), "/")
	if len(parts) != 2 {
		return nil
	}
	d, err := protoregistry.GlobalFiles.FindDescriptorByName(protoreflect.FullName(parts[0]))
	if err != nil {
		return nil
	}
	sd, ok := d.(protoreflect.ServiceDescriptor)
	if !ok {
		return nil
	}
	return sd.Methods().ByName(protoreflect.Name(parts[1]))
}

func bufServe(srv *grpc.Server) (*grpc.ClientConn, error) {
	lis := bufconn.Listen(1 << 18)
	go srv.Serve(lis)
	return grpc.NewClient("passthrough:///buf",
		grpc.WithContextDialer(func(ctx context.Context, _ string) (net.Conn, error) { return lis.DialContext(ctx) }),
		grpc.WithTransportCredentials(insecure.NewCredentials()))
}

func (w *e2eWorld) childHandler(id int) grpc.StreamHandler {
	return func(_ any, stream grpc.ServerStream) error {
		full, _ := grpc.MethodFromServerStream(stream)
		w.mu.Lock()
		p := w.plan
		w.mu.Unlock()
		md := methodByFullName(full)
		if p == nil || md == nil {
			return status.Error(codes.Internal, "child: no plan / unknown method "+full)
		}
		req, err := newMessage(md.Input().FullName())
		if err != nil {
			return err
		}
		if err := stream.RecvMsg(req); err != nil {
			return err
		}
		w.mu.Lock()
		p.calls = append(p.calls, call{Client: id, Method: full, Req: req})
		p.childCtx = stream.Context()
		w.mu.Unlock()
		if p.script == "trailers-only" {
			stream.SetTrailer(p.trailer)
			return p.final
		}
		if p.script == "quiet" {
			// the child sends its header at once and then stays quiet until the caller has looked at it
			if err := stream.SendHeader(p.header); err != nil {
				return err
			}
			select {
			case <-stream.Context().Done():
				return status.FromContextError(stream.Context().Err()).Err()
			case <-p.gate:
			case <-time.After(8 * time.Second):
			}
		} else {
			stream.SetHeader(p.header)
		}
		for i, m := range p.resp {
			if err := stream.SendMsg(m); err != nil {
				return err
			}
			if p.script == "cancel" && i == 0 {
				select {
				case <-stream.Context().Done():
					return status.FromContextError(stream.Context().Err()).Err()
				case <-p.gate:
				case <-time.After(5 * time.Second):
				}
			}
		}
		stream.SetTrailer(p.trailer)
		return p.final
	}
}

func newE2EWorld() (*e2eWorld, error) {
	w := &e2eWorld{routers: map[string]routerLike{}, childConn: map[int]*grpc.ClientConn{}}
	for _, id := range []int{1, 2} {
		srv := grpc.NewServer(grpc.UnknownServiceHandler(w.childHandler(id)))
		cc, err := bufServe(srv)
		if err != nil {
			return nil, err
		}
		w.servers = append(w.servers, srv)
		w.childConn[id] = cc
	}
	front := grpc.NewServer()
	for _, e := range tables {
		r := e.New()
		r.Add("x", e.NewClient(w.childConn[1]))
		r.Add("y", e.NewClient(w.childConn[2]))
		r.Register(front)
		w.routers[e.id()] = r
	}
	cc, err := bufServe(front)
	if err != nil {
		return nil, err
	}
	w.servers = append(w.servers, front)
	w.callerCC = cc
	return w, nil
}

func (w *e2eWorld) close() {
	w.callerCC.Close()
	for _, c := range w.fronts {
		c.Close()
	}
	for _, c := range w.childConn {
		c.Close()
	}
	for _, s := range w.servers {
		s.Stop()
	}
}

func mdHas(md metadata.MD, key, val string) bool {
	v := md.Get(key)
	return len(v) == 1 && v[0] == val
}

// runE2E executes one case and evaluates the property on it.
func (w *e2eWorld) runE2E(mon *lib.Monitor, e entry, c e2eCase) error {
	sig := func(class string) string { return "C12/" + e.id() + "/" + c.Method + "/grpc/" + class }
	callerCC := w.callerCC
	served := c.Name // the name the request is served under
	kind := "unary"
	if c.Default != nil {
		sig = func(class string) string { return "C12/" + e.id() + "+default-name/" + kind + "/grpc/" + class }
		var err error
		if callerCC, err = w.front(*c.Default); err != nil {
			return err
		}
		if served == "" {
			served = *c.Default
		}
	}
	viol := func(class, what, exp, obs string) { mon.Violate(sig(class), what, c, exp, obs) }
	reg := &captureRegistrar{}
	w.routers[e.id()].Register(reg)
	sd, err := serviceOf(reg.desc)
	if err != nil {
		return err
	}
	md := sd.Methods().ByName(protoreflect.Name(c.Method))
	if md == nil {
		return fmt.Errorf("no method %s", c.Method)
	}
	full := "/" + string(sd.FullName()) + "/" + c.Method
	if md.IsStreamingServer() {
		kind = "stream"
	}
	rng := lib.NewRand(c.MsgSeed)
	req, err := randomMessage(rng, md.Input().FullName())
	if err != nil {
		return err
	}
	setName(req, c.Name)
	want := proto.Clone(req) // what the child must be given: nothing but an empty name filled in
	setName(want, served)
	w.lastWire, w.lastSeen = msgTokNamed(req), ""
	p := &e2ePlan{method: md, script: c.Script, header: metadata.Pairs("h", "9", "x-bin", "v"), trailer: metadata.Pairs("t", "4"), gate: make(chan struct{})}
	n := 1
	if md.IsStreamingServer() {
		n = c.Msgs
	}
	for i := 0; i < n; i++ {
		m, err := randomMessage(rng, md.Output().FullName())
		if err != nil {
			return err
		}
		p.resp = append(p.resp, m)
	}
	if c.Script == "error" || c.Script == "trailers-only" {
		p.final = status.Error(codes.FailedPrecondition, "child says no")
		if !md.IsStreamingServer() || c.Script == "trailers-only" {
			p.resp = nil
		}
	}
	w.mu.Lock()
	w.plan = p
	w.mu.Unlock()
	target := map[string]int{"x": 1, "y": 2}[served]

	ctx, cancel := context.WithTimeout(context.Background(), 10*time.Second)
	defer cancel()
	var gotHeader, gotTrailer metadata.MD
	var got []proto.Message
	var rerr error
	if !md.IsStreamingServer() {
		reply, _ := newMessage(md.Output().FullName())
		rerr = callerCC.Invoke(ctx, full, req, reply, grpc.Header(&gotHeader), grpc.Trailer(&gotTrailer))
		if rerr == nil {
			got = append(got, reply)
		}
		// Observation only (outside the property, which speaks of the *stream* header and trailer): is
		// metadata the child sets on a unary call relayed to the caller? The generated unary forwarder
		// calls child.Method(ctx, request) without grpc.Header/grpc.Trailer call options.
		if c.Script == "ok" && target != 0 && c.Default == nil {
			mon.Count("unary child header relayed=" + fmt.Sprint(mdHas(gotHeader, "h", "9")))
			mon.Count("unary child trailer relayed=" + fmt.Sprint(mdHas(gotTrailer, "t", "4")))
			if e.Wrap != nil {
				var wh, wt metadata.MD
				conn, _ := e.Wrap(w.routers[e.id()]).UnwrapService()
				reply2, _ := newMessage(md.Output().FullName())
				w.mu.Lock()
				saved := p.calls
				p.calls = nil
				w.mu.Unlock()
				if err := conn.Invoke(ctx, full, req, reply2, grpc.Header(&wh), grpc.Trailer(&wt)); err == nil {
					mon.Count("unary via wrapper+router: child header relayed=" + fmt.Sprint(mdHas(wh, "h", "9")))
					mon.Count("unary via wrapper+router: child trailer relayed=" + fmt.Sprint(mdHas(wt, "t", "4")))
					if !proto.Equal(reply2, reply) {
						viol("wrapper-response-altered", "the response through wrapper+router differs from the one through the router", fmt.Sprint(reply), fmt.Sprint(reply2))
					}
				} else {
					viol("wrapper-call-failed", "the same call through the generated wrapper around the router failed", "nil", err.Error())
				}
				w.mu.Lock()
				if len(p.calls) != 1 {
					viol("wrapper-not-forwarded-once", "a call through wrapper+router must reach the child exactly once", "1", fmt.Sprint(len(p.calls)))
				}
				p.calls = saved
				w.mu.Unlock()
			}
		}
	} else {
		st, err := callerCC.NewStream(ctx, &grpc.StreamDesc{ServerStreams: true}, full)
		if err != nil {
			return err
		}
		if err := st.SendMsg(req); err != nil {
			return err
		}
		st.CloseSend()
		if c.Script == "quiet" && target != 0 {
			// the caller reads the header while the child is parked between its header and its first message
			hc := make(chan metadata.MD, 1)
			go func() { h, _ := st.Header(); hc <- h }()
			select {
			case gotHeader = <-hc:
				close(p.gate)
			case <-time.After(4 * time.Second):
				close(p.gate)
				gotHeader = <-hc
				if !c.confirm {
					// a timing verdict: run the case once more and report only if it reproduces
					cancel()
					mon.Count("quiet: header late once, re-run")
					c2 := c
					c2.confirm = true
					return w.runE2E(mon, e, c2)
				}
				w.heldBack++
				viol("header-held-back", "the child has sent its stream header and is quiet: the header must reach the caller now, not with the first message", "Header() returns the child's header while the child is parked", "Header() returned only after the child was released (4s)")
			}
		} else {
			gotHeader, _ = st.Header()
		}
		for {
			m, _ := newMessage(md.Output().FullName())
			rerr = st.RecvMsg(m)
			if rerr != nil {
				break
			}
			got = append(got, m)
			if c.Script == "cancel" && len(got) == 1 {
				cancel() // the caller goes away after the first message
			}
		}
		if rerr == io.EOF {
			rerr = nil
		}
		gotTrailer = st.Trailer()
	}
	w.mu.Lock()
	calls := append([]call(nil), p.calls...)
	childCtx := p.childCtx
	w.mu.Unlock()
	var cs []string
	for _, k := range calls {
		cs = append(cs, fmt.Sprintf("%d:%s:5", k.Client, methodIndex(sd, k.Method)))
	}
	w.lastSeen = fmt.Sprintf("req=%s calls=%s st=%s", reqSeen(calls), commaList(cs), e2eStatusTok(rerr))

	if target == 0 {
		if len(calls) != 0 {
			viol("notfound-touched-client", "a name with no client must touch no client", "no child call", fmt.Sprint(len(calls)))
		}
		if status.Code(rerr) != codes.NotFound {
			viol("notfound-wrong-status", "a name with no client must yield NotFound", "NotFound", fmt.Sprint(rerr))
		}
		return nil
	}
	if len(calls) != 1 {
		viol("not-forwarded-once", "the request must be forwarded exactly once", "1 child call", fmt.Sprintf("%d child calls; caller got %v", len(calls), rerr))
		return nil
	}
	k := calls[0]
	if k.Client != target {
		viol("wrong-client", "the request reached another client than the one registered under its name", fmt.Sprint(target), fmt.Sprint(k.Client))
	}
	if k.Method != full {
		viol("wrong-method", "forwarded to a different method", full, k.Method)
	}
	if !proto.Equal(k.Req, want) {
		what := "the request must pass through unaltered"
		if c.Default != nil {
			what = "the default-name interceptor fills in only an empty name; the request passes through otherwise unaltered"
		}
		viol("request-altered", what, fmt.Sprint(want), fmt.Sprint(k.Req))
	}
	if c.Script == "cancel" {
		// the caller left: the child's call context must be cancelled (within a bounded wait)
		select {
		case <-childCtx.Done():
		case <-time.After(3 * time.Second):
			viol("not-cancelled-on-caller-error", "when the caller goes away the child's call must be cancelled", "child context done", "still live after 3s")
		}
		close(p.gate)
		return nil
	}
	for i, m := range got {
		if i >= len(p.resp) || !proto.Equal(m, p.resp[i]) {
			viol("messages-altered", "responses must pass through unaltered and in order", fmt.Sprintf("%d child messages", len(p.resp)), fmt.Sprintf("message %d differs or is extra", i))
			break
		}
	}
	if len(got) != len(p.resp) {
		viol("messages-altered", "all the child's responses must be delivered", fmt.Sprint(len(p.resp)), fmt.Sprint(len(got)))
	}
	if !sameStatus(rerr, p.final) {
		viol("status-altered", "the child's status must pass through unaltered", fmt.Sprint(p.final), fmt.Sprint(rerr))
	}
	if md.IsStreamingServer() {
		// unary forwarders do not relay metadata (the generated client call takes no call options)
		if c.Script != "trailers-only" && (!mdHas(gotHeader, "h", "9") || !mdHas(gotHeader, "x-bin", "v")) {
			viol("header-altered", "the child's stream header must reach the caller", fmt.Sprint(p.header), fmt.Sprint(gotHeader))
		}
		if !mdHas(gotTrailer, "t", "4") {
			viol("trailer-altered", "the child's stream trailer must reach the caller", fmt.Sprint(p.trailer), fmt.Sprint(gotTrailer))
		}
	}
	return nil
}

func runE2ECases(f lib.Flags, res *lib.Result) {
	mon := res.Monitor("grpc-end-to-end", "every generated router registered on one real grpc.Server (bufconn), children = real grpc connections to generic script-playing servers, caller = real grpc connection; per service x method x {registered name ok, second client error, trailers-only error (streams), unknown name, caller cancels mid-stream (streams), quiet child (streams): the child sends its header and parks, the caller must get the header while it is parked}: exactly one child call on the right client with an equal request; responses, status, stream header and trailer unaltered; NotFound touches no client; caller cancellation reaches the child")
	w, err := newE2EWorld()
	if err != nil {
		mon.Error = err.Error()
		return
	}
	defer w.close()
	rng := lib.NewRand(f.Seed + 4)
	reps := f.N(1, 6)
	for _, e := range tables {
		sd, err := methodsOf(e)
		if err != nil {
			mon.Error = err.Error()
			return
		}
		for i := 0; i < sd.Methods().Len(); i++ {
			md := sd.Methods().Get(i)
			if md.IsStreamingClient() {
				continue
			}
			type sc struct {
				name, script string
				msgs         int
			}
			scripts := []sc{{"x", "ok", 2}, {"y", "error", 1}, {"zz", "ok", 1}}
			if md.IsStreamingServer() {
				scripts = append(scripts, sc{"y", "trailers-only", 0}, sc{"x", "cancel", 3}, sc{"y", "ok", 0}, sc{"x", "quiet", 1})
			}
			for r := 0; r < reps; r++ {
				for _, s := range scripts {
					if s.script == "quiet" && w.heldBack >= 3 {
						mon.Count("quiet: skipped after 3 confirmed held-back headers")
						continue
					}
					c := e2eCase{"e2e", e.Pkg, e.Router, string(md.Name()), s.name, s.script, s.msgs + r, rng.Int63() >> 12, nil, false}
					var rerr error
					panicked, msg := lib.Catch(func() { rerr = w.runE2E(mon, e, c) })
					if panicked {
						mon.Violate("C12/"+e.id()+"/"+c.Method+"/grpc/panic", "panic", c, "no panic", msg)
					} else if rerr != nil {
						mon.Error = rerr.Error()
						return
					}
					mon.Eval(e.id()+"/"+c.Method+"/"+s.name+"/"+s.script, true, nil)
					mon.Count(s.script + ":" + map[bool]string{true: "stream", false: "unary"}[md.IsStreamingServer()])
				}
			}
		}
	}
}
