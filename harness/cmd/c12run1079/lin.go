package main

// K4 for the general interleaving model (Lin.lean): threads running programs of Add/Remove/Has/Get on
// one pkg/router Router, forced through a schedule of macro steps. Park points: before every
// operation (the harness itself), the verif yield points router.get.afterMiss / router.get.beforeInsert,
// and the entry of the onChange callback (it runs on the operation's goroutine right after the lock
// section, so holding it there is exactly "lock section done, callback not yet delivered").

import (
	"fmt"
	"sort"
	"strconv"
	"strings"
	"sync"
	"time"

	"google.golang.org/grpc/codes"
	"google.golang.org/grpc/status"

	"github.com/smart-core-os/sc-golang/internal/verifhook"
	"github.com/smart-core-os/sc-golang/pkg/router"
	"github.com/smart-core-os/sc-golang/verifharness/lib"
)

type linCase struct {
	Kind  string `json:"kind"` // "lin"
	Fb    string `json:"fallback"`
	Fac   string `json:"factory"`
	Reg0  string `json:"reg0"`
	Progs string `json:"programs"` // threads separated by |, ops by ,
	Sched string `json:"schedule"` // macro steps; empty = pick at random (seed) until every thread has finished
	Seed  int64  `json:"sched_seed"`
}

type linObs struct {
	answer   string // in the driver's format
	sched    []int  // the schedule as executed
	results  [][]string
	log      []string // delivered changes
	reg      map[string]string
	finished bool
	nfb      int // calls the fallback / the factory received
	nfac     int
}

// blockedErr: a released thread neither parked nor finished within the time limit.
type blockedErr struct {
	released int      // the thread that was released (-1: initial parking)
	where    []string // park point of every thread when the time ran out
	sched    []int    // schedule executed so far (the last entry is the step that did not complete)
	progs    [][]string
	doing    []int // index of the operation each thread is executing
}

func (b *blockedErr) Error() string {
	return fmt.Sprintf("no thread parked or finished within 20s (released=%d where=%v)", b.released, b.where)
}

// behindCallback: some OTHER thread is parked at the entry of its onChange callback (its lock section is
// done, its change not yet delivered) while the released thread cannot move.
func (b *blockedErr) behindCallback() (int, bool) {
	for t, w := range b.where {
		if t != b.released && w == "callback" {
			return t, true
		}
	}
	return 0, false
}

func (b *blockedErr) opOf(t int) string {
	if t < 0 || t >= len(b.progs) || b.doing[t] >= len(b.progs[t]) {
		return "?"
	}
	return b.progs[t][b.doing[t]]
}

// monitorBlocked: change callbacks run with no lock held, so a thread parked in its callback must not stop
// any other thread. Returns whether a violation was recorded.
func monitorBlocked(mon *lib.Monitor, c linCase, b *blockedErr) bool {
	holder, ok := b.behindCallback()
	if !ok {
		return false
	}
	in := c
	in.Sched = commaList(intsToStrings(b.sched))
	ho, bo := b.opOf(holder), b.opOf(b.released)
	mon.Violate("C12/pkg-router/concurrent/"+opNames[strings.Split(ho, ":")[0]]+"/blocks-others-during-callback",
		"change callbacks run with no lock held: while one thread is inside its onChange callback every other thread's operation must still complete", in,
		fmt.Sprintf("thread %d completes %s while thread %d is inside the onChange callback of %s", b.released, bo, holder, ho),
		fmt.Sprintf("thread %d did not complete %s within 20s (park points: %v)", b.released, bo, b.where))
	return true
}

// runLinCase executes the case. If c.Sched is empty a schedule is drawn while running.
func runLinCase(c linCase) (linObs, error) {
	var obs linObs
	var progs [][]string
	for _, p := range strings.Split(c.Progs, "|") {
		progs = append(progs, splitList(p, ","))
	}
	nt := len(progs)
	var mu sync.Mutex
	var log []string
	nfb, nfac := 0, 0
	mk := func(id int) any { return id }
	show := func(x any) string {
		if x == nil {
			return "-"
		}
		return fmt.Sprint(x)
	}
	type event struct {
		tid   int
		point string // "op" parked before an operation, "done" program finished, else a park point
	}
	events := make(chan event, 8*nt+8)
	release := make([]chan struct{}, nt)
	for i := range release {
		release[i] = make(chan struct{})
	}
	var gmu sync.Mutex
	byGo := map[int64]int{}
	tidOf := func() (int, bool) {
		gmu.Lock()
		defer gmu.Unlock()
		t, ok := byGo[verifhook.GoID()]
		return t, ok
	}
	opts := []router.Option{router.WithOnChange(func(ch router.Change) {
		if t, ok := tidOf(); ok {
			events <- event{t, "callback"}
			<-release[t]
		}
		a := "M"
		if ch.Auto {
			a = "A"
		}
		mu.Lock()
		log = append(log, tilde(ch.Name)+":"+show(ch.Old)+":"+show(ch.New)+":"+a)
		mu.Unlock()
	})}
	if f := factoryKind(c.Fb, 2000, mk, &nfb); f != nil {
		opts = append(opts, router.WithFallback(f))
	}
	if f := factoryKind(c.Fac, 1000, mk, &nfac); f != nil {
		opts = append(opts, router.WithFactory(f))
	}
	orderOptions(opts, c.Fb+"/"+c.Fac+"/"+c.Progs)
	r := router.NewRouter(opts...)
	pool := map[string]bool{}
	for _, e := range splitList(c.Reg0, ",") {
		p := strings.Split(e, ":")
		id, _ := strconv.Atoi(p[1])
		r.Add(unTilde(p[0]), id)
		pool[unTilde(p[0])] = true
	}
	mu.Lock()
	log = nil
	mu.Unlock()
	verifhook.Set(func(point string) {
		if !strings.HasPrefix(point, "router.get.") {
			return
		}
		if t, ok := tidOf(); ok {
			events <- event{t, strings.TrimPrefix(point, "router.get.")}
			<-release[t]
		}
	})
	defer verifhook.Set(nil)

	results := make([][]string, nt)
	where := make([]string, nt) // current park point of each thread
	releasedNow := -1
	for t := 0; t < nt; t++ {
		for _, o := range progs[t] {
			pool[unTilde(strings.Split(o, ":")[1])] = true
		}
		go func(t int) {
			gmu.Lock()
			byGo[verifhook.GoID()] = t
			gmu.Unlock()
			for _, o := range progs[t] {
				events <- event{t, "op"}
				<-release[t]
				p := strings.Split(o, ":")
				n := unTilde(p[1])
				var res string
				switch p[0] {
				case "a":
					id, _ := strconv.Atoi(p[2])
					res = "p" + show(r.Add(n, id))
				case "r":
					res = "p" + show(r.Remove(n))
				case "h":
					if r.Has(n) {
						res = "bT"
					} else {
						res = "bF"
					}
				case "g":
					cl, err := r.Get(n)
					switch {
					case err == nil:
						res = "g" + show(cl)
					case status.Code(err) == codes.NotFound && cl == nil:
						res = "nf"
					default:
						res = "?" + err.Error()
					}
				}
				mu.Lock()
				results[t] = append(results[t], res)
				mu.Unlock()
			}
			events <- event{t, "done"}
		}(t)
	}
	wait := func() (event, error) {
		select {
		case ev := <-events:
			where[ev.tid] = ev.point
			return ev, nil
		case <-time.After(20 * time.Second):
			mu.Lock()
			doing := make([]int, nt)
			for t := range doing {
				doing[t] = len(results[t])
			}
			mu.Unlock()
			return event{}, &blockedErr{released: releasedNow, where: append([]string(nil), where...), sched: append([]int(nil), obs.sched...), progs: progs, doing: doing}
		}
	}
	// every thread first parks before its first op (or finishes at once)
	for i := 0; i < nt; i++ {
		if _, err := wait(); err != nil {
			return obs, err
		}
	}
	live := func() []int {
		var l []int
		for t := 0; t < nt; t++ {
			if where[t] != "done" {
				l = append(l, t)
			}
		}
		return l
	}
	step := func(t int) error {
		if where[t] == "done" {
			return nil // stutter
		}
		releasedNow = t
		release[t] <- struct{}{}
		ev, err := wait()
		if err != nil {
			return err
		}
		if ev.tid != t {
			return fmt.Errorf("thread %d moved while %d was released", ev.tid, t)
		}
		return nil
	}
	if c.Sched != "" {
		for _, s := range splitList(c.Sched, ",") {
			t, err := strconv.Atoi(s)
			if err != nil || t < 0 || t >= nt {
				return obs, fmt.Errorf("bad schedule %q", c.Sched)
			}
			obs.sched = append(obs.sched, t)
			if err := step(t); err != nil {
				return obs, err
			}
		}
	} else {
		rng := lib.NewRand(c.Seed)
		for l := live(); len(l) > 0; l = live() {
			t := l[rng.Intn(len(l))]
			obs.sched = append(obs.sched, t)
			if err := step(t); err != nil {
				return obs, err
			}
		}
	}
	// observation
	mu.Lock()
	var ths []string
	for t := 0; t < nt; t++ {
		rs := "-"
		if len(results[t]) > 0 {
			rs = strings.Join(results[t], ".")
		}
		pc := map[string]string{"op": "idle", "done": "idle", "callback": "callback", "afterMiss": "afterMiss", "beforeInsert": "beforeInsert"}[where[t]]
		left := len(progs[t]) - len(results[t])
		if where[t] != "op" && where[t] != "done" {
			left-- // the operation in flight is no longer "to start"
		}
		s := rs + "@" + pc
		if left > 0 {
			s += "+" + strconv.Itoa(left)
		}
		ths = append(ths, s)
		obs.results = append(obs.results, append([]string(nil), results[t]...))
	}
	obs.log = append([]string(nil), log...)
	logS := commaList(log)
	mu.Unlock()
	nfbS, nfacS := nfb, nfac
	obs.nfb, obs.nfac = nfb, nfac
	obs.finished = len(live()) == 0
	// drain the threads still parked (after the observation)
	for l := live(); len(l) > 0; l = live() {
		if err := step(l[0]); err != nil {
			return obs, err
		}
	}
	regS := "?"
	if obs.finished {
		var names []string
		for n := range pool {
			names = append(names, n)
		}
		sort.Slice(names, func(i, j int) bool { return nameKey(names[i]) < nameKey(names[j]) })
		var reg []string
		obs.reg = map[string]string{}
		gmu.Lock()
		byGo = map[int64]int{} // reading the registry back must not park
		gmu.Unlock()
		for _, n := range names {
			if r.Has(n) {
				id := show(r.Remove(n))
				reg = append(reg, tilde(n)+":"+id)
				obs.reg[tilde(n)] = id
			}
		}
		regS = commaList(reg)
	}
	obs.answer = fmt.Sprintf("th=%s log=%s reg=%s nfb=%d nfac=%d", strings.Join(ths, "|"), logS, regS, nfbS, nfacS)
	return obs, nil
}

// monitorLin: the property on one executed schedule, by a plain Go map run in the order of the lock
// sections (which the forced schedule makes known).
func monitorLin(mon *lib.Monitor, c linCase, o linObs) {
	in := c
	in.Sched = commaList(intsToStrings(o.sched))
	var progs [][]string
	for _, p := range strings.Split(c.Progs, "|") {
		progs = append(progs, splitList(p, ","))
	}
	reg := map[string]string{}
	for _, e := range splitList(c.Reg0, ",") {
		p := strings.Split(e, ":")
		reg[p[0]] = p[1]
	}
	reg0 := map[string]string{}
	for k, v := range reg {
		reg0[k] = v
	}
	type tstate struct {
		op    int
		phase string // "", "afterMiss", "beforeInsert", "callback"
		cand  string
		pend  string // result to return after the callback
	}
	ts := make([]tstate, len(progs))
	want := make([][]string, len(progs))
	nfb, nfac := 0, 0
	var commits []string
	optS := func(v string, ok bool) string {
		if !ok {
			return "-"
		}
		return v
	}
	for _, t := range o.sched {
		s := &ts[t]
		if s.op >= len(progs[t]) {
			continue
		}
		p := strings.Split(progs[t][s.op], ":")
		n := p[1]
		old, had := reg[n]
		finish := func(res string) { want[t] = append(want[t], res); s.op++; s.phase = "" }
		switch s.phase {
		case "":
			switch p[0] {
			case "a":
				reg[n] = p[2]
				commits = append(commits, fmt.Sprintf("%s:%s:%s:M", n, optS(old, had), p[2]))
				s.phase, s.pend = "callback", "p"+optS(old, had)
			case "r":
				if had {
					delete(reg, n)
					commits = append(commits, fmt.Sprintf("%s:%s:-:M", n, old))
					s.phase, s.pend = "callback", "p"+old
				} else {
					finish("p-")
				}
			case "h":
				if had {
					finish("bT")
				} else {
					finish("bF")
				}
			case "g":
				if had {
					finish("g" + old)
				} else {
					s.phase = "afterMiss"
				}
			}
		case "afterMiss":
			done := false
			if c.Fb != "none" {
				id, ok := oracleSupplies(c.Fb, 2000, unTilde(n), nfb)
				nfb++
				if ok {
					finish("g" + strconv.Itoa(id))
					done = true
				}
			}
			if !done {
				ok := false
				id := 0
				if c.Fac != "none" {
					id, ok = oracleSupplies(c.Fac, 1000, unTilde(n), nfac)
					nfac++
				}
				if ok {
					s.phase, s.cand = "beforeInsert", strconv.Itoa(id)
				} else {
					finish("nf")
				}
			}
		case "beforeInsert":
			if had {
				finish("g" + old)
			} else {
				reg[n] = s.cand
				commits = append(commits, fmt.Sprintf("%s:-:%s:A", n, s.cand))
				s.phase, s.pend = "callback", "g"+s.cand
			}
		case "callback":
			finish(s.pend)
		}
	}
	if !o.finished {
		return
	}
	// (1) outcomes and final registry = sequential map in lock-section order
	for t := range progs {
		if strings.Join(want[t], ".") != strings.Join(o.results[t], ".") {
			mon.Violate("C12/pkg-router/concurrent/not-linearizable", "the results of concurrent Add/Remove/Has/Get must be those of a map executing the lock sections one after the other", in,
				fmt.Sprintf("thread %d: %s", t, strings.Join(want[t], ".")), strings.Join(o.results[t], "."))
			return
		}
	}
	for k, v := range reg {
		if o.reg[k] != v {
			mon.Violate("C12/pkg-router/concurrent/final-registry", "final registry differs from the sequential map", in, fmt.Sprint(reg), fmt.Sprint(o.reg))
			return
		}
	}
	if len(o.reg) != len(reg) {
		mon.Violate("C12/pkg-router/concurrent/final-registry", "final registry differs from the sequential map", in, fmt.Sprint(reg), fmt.Sprint(o.reg))
		return
	}
	// (1b) "created once by the factory": the fallback and the factory are called by Gets that missed the
	// registry only, at most once each per Get (exactly as often as the map run in lock-section order says)
	gets := 0
	for _, p := range progs {
		for _, o := range p {
			if strings.HasPrefix(o, "g:") {
				gets++
			}
		}
	}
	if o.nfac > gets || o.nfb > gets {
		mon.Violate("C12/pkg-router/concurrent/factory-called-more-than-once-per-get", "the factory and the fallback are called at most once per Get", in,
			fmt.Sprintf("at most %d calls each (%d Gets)", gets, gets), fmt.Sprintf("fallback %d, factory %d", o.nfb, o.nfac))
		return
	}
	if o.nfac != nfac || o.nfb != nfb {
		mon.Violate("C12/pkg-router/concurrent/factory-call-count", "only a Get that missed the registry calls the fallback, and the factory only when the fallback supplied nothing; once each", in,
			fmt.Sprintf("fallback %d, factory %d", nfb, nfac), fmt.Sprintf("fallback %d, factory %d", o.nfb, o.nfac))
		return
	}
	// (2) every transition reported exactly once
	a, b := append([]string(nil), commits...), append([]string(nil), o.log...)
	sort.Strings(a)
	sort.Strings(b)
	if strings.Join(a, ",") != strings.Join(b, ",") {
		mon.Violate("C12/pkg-router/concurrent/onchange-transitions", "change callbacks must report exactly the transitions (each once, exact Old/New)", in, strings.Join(commits, ","), strings.Join(o.log, ","))
		return
	}
	// (3) a listener replaying what it was told must end with the registry
	view := map[string]string{}
	for k, v := range reg0 {
		view[k] = v
	}
	for _, l := range o.log {
		p := strings.Split(l, ":")
		if p[2] == "-" {
			delete(view, p[0])
		} else {
			view[p[0]] = p[2]
		}
	}
	same := len(view) == len(reg)
	for k, v := range reg {
		if view[k] != v {
			same = false
		}
	}
	if !same {
		mon.Violate("C12/pkg-router/concurrent/onchange-delivery-order", "change callbacks are delivered after the lock is released, so a later transition can be reported before an earlier one: a listener replaying the reported changes ends with a registry that is not the real one", in,
			"replay(delivered changes) = registry "+fmt.Sprint(reg), "replay gives "+fmt.Sprint(view)+"; delivered "+strings.Join(o.log, ","))
	}
}

func intsToStrings(xs []int) []string {
	var out []string
	for _, x := range xs {
		out = append(out, strconv.Itoa(x))
	}
	return out
}

func randProg(rng interface{ Intn(int) int }, max int) string {
	n := 1 + rng.Intn(max)
	names := []string{"n", "n", "n", "m", "a1", "~"}
	var ops []string
	for i := 0; i < n; i++ {
		nm := names[rng.Intn(len(names))]
		switch rng.Intn(7) {
		case 0, 1:
			ops = append(ops, fmt.Sprintf("a:%s:%d", nm, 1+rng.Intn(9)))
		case 2, 3:
			ops = append(ops, "r:"+nm)
		case 4:
			ops = append(ops, "h:"+nm)
		default:
			ops = append(ops, "g:"+nm)
		}
	}
	return strings.Join(ops, ",")
}

func runLin(f lib.Flags, res *lib.Result, drv *lib.Driver) {
	tie := res.Tie("concurrent-registry", "K4", "2-4 threads each running a program of 1-4 Add/Remove/Has/Get operations on one pkg/router Router (names incl. empty and unusual ones, initial registry, fallback/factory kinds), forced through a schedule of macro steps (park points: before each operation, router.get.afterMiss, router.get.beforeInsert, entry of the onChange callback = lock section done but change not yet delivered); fixed witness schedules first, then schedules drawn at random until all threads finish; per-thread results, delivered onChange log, final registry (Has/Remove) and factory call counts compared with the Lean model Lin.lean run on the executed schedule; distinct = (set-up, programs, executed schedule)")
	mon := res.Monitor("registry-linearizable", "on every executed schedule, with a plain Go map run in the order of the lock sections: thread results and final registry equal the sequential map's; the delivered changes are exactly the committed transitions (as a multiset); replaying the delivered changes over the initial registry gives the final registry")
	rng := lib.NewRand(f.Seed + 5)
	var cases []linCase
	cases = append(cases,
		linCase{"lin", "none", "none", "-", "a:n:1|a:n:2", "0,1,1,0", 0},
		linCase{"lin", "none", "none", "-", "a:n:1|a:n:2", "0,0,1,1", 0},
		linCase{"lin", "none", "none", "n:5", "r:n|a:n:2", "0,1,1,0", 0},
		linCase{"lin", "none", "new", "-", "g:n,r:n|a:n:1,h:n", "0,0,1,1,0,1,0,0", 0},
		linCase{"lin", "none", "new", "-", "g:n|r:n|g:n", "0,0,0,1,0,2,2,2,2,1", 0},
	)
	n := f.N(1200, 30000)
	kinds := []string{"none", "new", "err", "nil", "both", "pfx", "odd"}
	for i := 0; i < n; i++ {
		nt := 2 + rng.Intn(3)
		var ps []string
		for t := 0; t < nt; t++ {
			ps = append(ps, randProg(rng, 4))
		}
		reg0 := "-"
		if rng.Intn(3) == 0 {
			reg0 = "n:5"
		}
		cases = append(cases, linCase{"lin", facKinds[rng.Intn(len(facKinds))], kinds[rng.Intn(len(kinds))], reg0, strings.Join(ps, "|"), "", rng.Int63() >> 12})
	}
	var lines, answers []string
	var ins []linCase
	for _, c := range cases {
		o, err := runLinCase(c)
		if err != nil {
			if be, ok := err.(*blockedErr); ok {
				monitorBlocked(mon, c, be)
			}
			tie.Fail(err)
			return
		}
		monitorLin(mon, c, o)
		in := c
		in.Sched = commaList(intsToStrings(o.sched))
		mon.Eval(fmt.Sprint(in), true, nil)
		ins = append(ins, in)
		answers = append(answers, o.answer)
		lines = append(lines, fmt.Sprintf("lin %s %s %s %s %s", c.Fb, c.Fac, c.Reg0, c.Progs, in.Sched))
	}
	ans, err := drv.Batch(lines)
	if err != nil {
		tie.Fail(err)
		return
	}
	for i, c := range ins {
		m := ans[i]
		if strings.Contains(answers[i], " reg=? ") { // threads were still in flight: the registry is not read back
			fs := strings.Fields(m)
			for j, x := range fs {
				if strings.HasPrefix(x, "reg=") {
					fs[j] = "reg=?"
				}
			}
			m = strings.Join(fs, " ")
		}
		tie.Record(fmt.Sprint(c), true, c, m, answers[i])
		tie.Count(fmt.Sprintf("threads=%d", strings.Count(c.Progs, "|")+1))
		if strings.Contains(ans[i], ":A") {
			tie.Count("auto-change")
		}
	}
}
