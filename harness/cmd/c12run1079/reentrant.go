package main

// Change callbacks that re-enter the router (model: Reentrant.lean, driver op `rre`).
//
// router.Add / Remove / Get call onChange after their lock section with no lock held, on the goroutine of
// the operation, so a callback may call Has / Get / Add / Remove on the same router. The family below
// drives registry histories with a callback from a closed family (shared with the Lean driver) that does
// so, nested up to a given depth, under a watchdog: an operation that never returns is an outcome
// ("blocked"), never a hang of the harness.

import (
	"fmt"
	"sort"
	"strconv"
	"strings"
	"sync"
	"time"

	"github.com/smart-core-os/sc-golang/pkg/router"
	"github.com/smart-core-os/sc-golang/verifharness/lib"
)

type reCase struct {
	Kind   string `json:"kind"` // "reentrant"
	Pkg    string `json:"pkg"`
	Router string `json:"router"`
	Fb     string `json:"fallback"`
	Fac    string `json:"factory"`
	Cb     string `json:"callback"` // has get rm add sib mix undo: what the callback does with the router
	Depth  int    `json:"depth"`    // callbacks nested deeper than this only observe
	Ops    string `json:"ops"`
	Typed  bool   `json:"typed_accessors"`
}

var cbKinds = []string{"has", "get", "rm", "add", "sib", "mix", "undo"}

// cbOps: the operations the callback of the given kind performs at nesting depth d when told the change
// (name token, old/new client id or "-", auto). The definition of the input, shared by the run on the real
// router, the plain-Go oracle and (as `callbackOf`) the Lean driver.
func cbOps(kind string, d int, name, old, new string, auto bool) []string {
	switch kind {
	case "has":
		return []string{"h:" + name}
	case "get":
		return []string{"g:" + name}
	case "rm":
		return []string{"r:" + name}
	case "add":
		return []string{fmt.Sprintf("a:%s:%d", name, 70+d)}
	case "sib":
		return []string{"g:s", "h:" + name}
	case "mix":
		return []string{"h:" + name, fmt.Sprintf("a:m:%d", 50+d), "r:m", "g:" + name}
	case "undo":
		switch {
		case new != "-":
			if auto {
				return nil
			}
			return []string{"r:" + name}
		case old != "-":
			return []string{"a:" + name + ":" + old}
		}
		return nil
	}
	panic("unknown callback kind " + kind)
}

// runReCase executes the case on the real router. blocked is non-empty when the history did not finish
// within the timeout: the stack of operations in flight (outermost first).
func runReCase(e entry, c reCase, timeout time.Duration) (answer string, blocked []string) {
	g := newRig(e, c.Fb, c.Fac, true)
	g.typed = c.Typed
	var mu sync.Mutex
	var trace, stack []string
	depth := 0
	var herr error
	exec := func(o string) {
		mu.Lock()
		idx := len(trace)
		trace = append(trace, o+">?")
		stack = append(stack, o)
		mu.Unlock()
		res, err := g.doOp(o)
		mu.Lock()
		if err != nil && herr == nil {
			herr = err
		}
		trace[idx] = o + ">" + res
		stack = stack[:len(stack)-1]
		mu.Unlock()
	}
	g.cb = func(ch router.Change) {
		if depth >= c.Depth {
			return
		}
		d := depth
		depth++
		for _, o := range cbOps(c.Cb, d, tilde(ch.Name), g.idOf(ch.Old), g.idOf(ch.New), ch.Auto) {
			exec(o)
		}
		depth--
	}
	done := make(chan string, 1)
	go func() {
		panicked, msg := lib.Catch(func() {
			for _, o := range splitList(c.Ops, ",") {
				exec(o)
			}
		})
		if panicked {
			done <- "panic:" + strings.ReplaceAll(msg, " ", "_")
			return
		}
		mu.Lock()
		tr := commaList(trace)
		mu.Unlock()
		g.cb = nil // reading the registry back must not re-enter
		done <- "tr=" + tr + " " + g.stateString()
	}()
	select {
	case a := <-done:
		if herr != nil {
			return "harness-error:" + herr.Error(), nil
		}
		return a, nil
	case <-time.After(timeout):
		mu.Lock()
		defer mu.Unlock()
		blocked = append([]string(nil), stack...)
		return "blocked:" + strings.Join(blocked, "/"), blocked
	}
}

// reOracle: the expected trace, log and registry by a plain Go map (independent of the Lean model).
func reOracle(c reCase) string {
	reg := map[string]int{}
	nfb, nfac := 0, 0
	var trace, log []string
	show := func(id int, ok bool) string {
		if !ok {
			return "-"
		}
		return strconv.Itoa(id)
	}
	var exec func(o string, depth int)
	exec = func(o string, depth int) {
		idx := len(trace)
		trace = append(trace, "")
		p := strings.Split(o, ":")
		nt := p[1]
		n := unTilde(nt)
		old, had := reg[n]
		res := ""
		changed, chNew, chAuto := false, "-", false
		switch p[0] {
		case "a":
			id, _ := strconv.Atoi(p[2])
			reg[n] = id
			res = "p" + show(old, had)
			changed, chNew = true, p[2]
		case "r":
			res = "p" + show(old, had)
			if had {
				delete(reg, n)
				changed = true
			}
		case "h":
			res = "bF"
			if had {
				res = "bT"
			}
		case "g":
			switch {
			case had:
				res = "g" + strconv.Itoa(old)
			default:
				res = "nf"
				found := false
				if c.Fb != "none" {
					id, ok := oracleSupplies(c.Fb, 2000, n, nfb)
					nfb++
					if ok {
						res, found = "g"+strconv.Itoa(id), true
					}
				}
				if !found && c.Fac != "none" {
					id, ok := oracleSupplies(c.Fac, 1000, n, nfac)
					nfac++
					if ok {
						reg[n] = id
						res = "g" + strconv.Itoa(id)
						changed, chNew, chAuto = true, strconv.Itoa(id), true
					}
				}
			}
		}
		trace[idx] = o + ">" + res
		if !changed {
			return
		}
		oldS := show(old, had)
		if chAuto {
			oldS = "-"
		}
		a := "M"
		if chAuto {
			a = "A"
		}
		log = append(log, nt+":"+oldS+":"+chNew+":"+a)
		if depth < c.Depth {
			for _, o2 := range cbOps(c.Cb, depth, nt, oldS, chNew, chAuto) {
				exec(o2, depth+1)
			}
		}
	}
	for _, o := range splitList(c.Ops, ",") {
		exec(o, 0)
	}
	var keys, names []string
	for n := range reg {
		keys = append(keys, n)
	}
	sort.Slice(keys, func(i, j int) bool { return nameKey(keys[i]) < nameKey(keys[j]) })
	for _, n := range keys {
		names = append(names, tilde(n)+":"+strconv.Itoa(reg[n]))
	}
	return fmt.Sprintf("tr=%s log=%s reg=%s nfb=%d nfac=%d", commaList(trace), commaList(log), commaList(names), nfb, nfac)
}

var opNames = map[string]string{"a": "Add", "r": "Remove", "h": "Has", "g": "Get"}

// checkReCase runs the case and evaluates the monitor; returns the code's answer.
func checkReCase(mon *lib.Monitor, e entry, c reCase, confirmed *bool) string {
	a, blocked := runReCase(e, c, 3*time.Second)
	if blocked != nil && !*confirmed {
		// self-confirming: a deadlock is deterministic here (one goroutine); a stall of the machine is not
		a2, blocked2 := runReCase(e, c, 12*time.Second)
		if blocked2 == nil {
			mon.Count("stalled-once-then-finished")
			a, blocked = a2, nil
		} else {
			a, blocked = a2, blocked2
			*confirmed = true
		}
	}
	if blocked != nil {
		inner := opNames[strings.Split(blocked[len(blocked)-1], ":")[0]]
		if len(blocked) == 1 {
			mon.Violate("C12/pkg-router/"+inner+"/never-returns", "a registry operation must return", c, "the history finishes", "blocked in "+strings.Join(blocked, " > "))
			return a
		}
		outer := opNames[strings.Split(blocked[len(blocked)-2], ":")[0]]
		mon.Violate("C12/pkg-router/"+outer+"/callback-reentry-blocked",
			"change callbacks run with no lock held: a callback that calls the router again ("+inner+") must not block, and the operation that reported the change must return", c,
			reOracle(c), outer+" never returns: its onChange callback is blocked in "+inner+" (operations in flight: "+strings.Join(blocked, " > ")+")")
		return a
	}
	if strings.HasPrefix(a, "panic:") {
		mon.Violate("C12/pkg-router/reentrant/panic", "registry operation panicked", c, "no panic", a)
		return a
	}
	want := reOracle(c)
	if want != a {
		class := "behaviour"
		wf, af := strings.Fields(want), strings.Fields(a)
		if len(wf) == len(af) {
			for i := range wf {
				if wf[i] != af[i] {
					class = map[string]string{"tr": "results", "log": "onchange-log", "reg": "final-registry", "nfb": "fallback-calls", "nfac": "factory-calls"}[strings.SplitN(wf[i], "=", 2)[0]]
					break
				}
			}
		}
		mon.Violate("C12/pkg-router/reentrant/"+class, "operations performed inside a change callback must see the registry as a map with the reported change applied (the trace of all operations, nested ones included, is a sequential map history)", c, want, a)
	}
	return a
}

func runReentrant(f lib.Flags, res *lib.Result, drv *lib.Driver) {
	tie := res.Tie("reentrant-callbacks", "K1", "registry histories (0-5 ops, name pool incl. empty and unusual names) x fallback kind x factory kind x callback kind (has/get/rm/add/sib/mix/undo: the onChange callback calls Has/Get/Remove/Add on the same router, for the reported name, a sibling or both) x nesting depth 0-3, executed under a watchdog on generated routers chosen round-robin (every other round through the typed accessors); the trace of all operations with their results in lock-section order (nested ones included), the onChange log, the final registry and the factory call counts are compared with the Lean model runRe; distinct = (fallback, factory, callback, depth, ops)")
	mon := res.Monitor("reentrant-callbacks", "same executions: every operation returns (watchdog 3 s, a blocked case is re-run with 12 s and reported only if it blocks again); trace, log and registry equal those of a plain Go map on which the callback's operations are applied right after the operation that reported the change")
	rng := lib.NewRand(f.Seed + 11)
	n := f.N(700, 40000)
	fixed := []reCase{
		{Ops: "a:x:1,a:x:2,r:x,r:x,h:x", Fb: "none", Fac: "none", Cb: "has", Depth: 1},
		{Ops: "a:x:1", Fb: "none", Fac: "none", Cb: "get", Depth: 1},
		{Ops: "g:x", Fb: "none", Fac: "new", Cb: "has", Depth: 1},
		{Ops: "a:x:1,r:x", Fb: "none", Fac: "new", Cb: "get", Depth: 2},
		{Ops: "a:x:1", Fb: "none", Fac: "none", Cb: "undo", Depth: 3},
		{Ops: "a:~:1", Fb: "none", Fac: "none", Cb: "mix", Depth: 2},
		{Ops: "a:x:1,r:x", Fb: "pfx", Fac: "odd", Cb: "sib", Depth: 2},
	}
	var cases []reCase
	var lines, answers []string
	confirmed, nblocked := false, 0
	for i := 0; i < n; i++ {
		var c reCase
		if i < len(fixed) {
			c = fixed[i]
		} else {
			c = reCase{Fb: facKinds[rng.Intn(len(facKinds))], Fac: facKinds[rng.Intn(len(facKinds))], Cb: cbKinds[rng.Intn(len(cbKinds))], Depth: rng.Intn(4), Ops: randOpsGet(rng, 5)}
		}
		e := tables[i%len(tables)]
		c.Kind, c.Pkg, c.Router = "reentrant", e.Pkg, e.Router
		c.Typed = (i/len(tables))%2 == 1
		a := checkReCase(mon, e, c, &confirmed)
		mon.Eval(fmt.Sprintf("%s/%s/%s/%d/%s", c.Fb, c.Fac, c.Cb, c.Depth, c.Ops), c.Ops != "-" && c.Depth > 0, nil)
		tie.Count("cb=" + c.Cb)
		tie.Count(fmt.Sprintf("depth=%d", c.Depth))
		cases = append(cases, c)
		answers = append(answers, a)
		lines = append(lines, fmt.Sprintf("rre %s %s %s %d %s", c.Fb, c.Fac, c.Cb, c.Depth, c.Ops))
		if strings.HasPrefix(a, "blocked:") {
			if nblocked++; nblocked >= 3 {
				break // every further blocked case would wait for the watchdog as well
			}
		}
	}
	ans, err := drv.Batch(lines)
	if err != nil {
		tie.Fail(err)
		return
	}
	for i, c := range cases {
		tie.Record(fmt.Sprintf("%s/%s/%s/%d/%s", c.Fb, c.Fac, c.Cb, c.Depth, c.Ops), c.Ops != "-" && c.Depth > 0, c, ans[i], answers[i])
		if nested := strings.Count(ans[i], ">") - len(splitList(c.Ops, ",")); nested > 0 {
			tie.Count("with-nested-operations")
		}
	}
}
