package main

import (
	"fmt"
	"os"
	"os/exec"
	"path/filepath"
	"strings"

	"github.com/smart-core-os/sc-golang/verifharness/lib"
)

func harnessDir() string {
	if wd, err := os.Getwd(); err == nil {
		if _, err := os.Stat(filepath.Join(wd, "cmd", "c12", "main.go")); err == nil {
			return wd
		}
	}
	return "/verif/harness"
}

func goEnv() []string {
	env := os.Environ()
	set := func(k, v string) {
		for i, e := range env {
			if strings.HasPrefix(e, k+"=") {
				env[i] = k + "=" + v
				return
			}
		}
		env = append(env, k+"="+v)
	}
	set("GOFLAGS", "-mod=mod")
	set("GOPROXY", "off")
	set("GOSUMDB", "off")
	set("GOTOOLCHAIN", "local")
	if os.Getenv("CGO_ENABLED") == "" {
		set("CGO_ENABLED", "0")
	}
	return env
}

// modfileArgs returns the -modfile flag needed to build against a scratch worktree (VERIF_REPO).
func modfileArgs(h string, tmp string) ([]string, error) {
	repo := lib.RepoRoot()
	if repo == "/repo" {
		return nil, nil
	}
	mod, err := os.ReadFile(filepath.Join(h, "go.mod"))
	if err != nil {
		return nil, err
	}
	base := filepath.Join(tmp, "alt")
	if err := os.WriteFile(base+".mod", []byte(strings.ReplaceAll(string(mod), "=> /repo", "=> "+repo)), 0o644); err != nil {
		return nil, err
	}
	sum, _ := os.ReadFile(filepath.Join(repo, "go.sum"))
	extra, _ := os.ReadFile(filepath.Join(h, "go.sum.extra"))
	if err := os.WriteFile(base+".sum", append(sum, extra...), 0o644); err != nil {
		return nil, err
	}
	return []string{"-modfile=" + base + ".mod"}, nil
}

// selfBuildAndExec regenerates the router table from the working tree, builds this package again
// with it (in a private copy of the sources, so concurrent runs cannot interfere) and runs the result
// with the same arguments.
func selfBuildAndExec() int {
	h := harnessDir()
	routers, wraps, err := scanRepo(lib.RepoRoot())
	if err != nil {
		fmt.Fprintln(os.Stderr, "c12: scanning the repository failed:", err)
		return 3
	}
	tmp, err := os.MkdirTemp("", "c12build")
	if err != nil {
		fmt.Fprintln(os.Stderr, err)
		return 3
	}
	defer os.RemoveAll(tmp)
	pkgDir := filepath.Join(h, "cmd", fmt.Sprintf("c12run%d", os.Getpid()))
	if err := os.MkdirAll(pkgDir, 0o755); err != nil {
		fmt.Fprintln(os.Stderr, err)
		return 3
	}
	defer os.RemoveAll(pkgDir)
	srcs, _ := filepath.Glob(filepath.Join(h, "cmd", "c12", "*.go"))
	for _, s := range srcs {
		if filepath.Base(s) == "tables_gen.go" {
			continue
		}
		b, err := os.ReadFile(s)
		if err != nil {
			fmt.Fprintln(os.Stderr, err)
			return 3
		}
		if err := os.WriteFile(filepath.Join(pkgDir, filepath.Base(s)), b, 0o644); err != nil {
			fmt.Fprintln(os.Stderr, err)
			return 3
		}
	}
	if err := os.WriteFile(filepath.Join(pkgDir, "tables_gen.go"), []byte(genTables(routers, wraps)), 0o644); err != nil {
		fmt.Fprintln(os.Stderr, err)
		return 3
	}
	bin := filepath.Join(tmp, "c12inner")
	mf, err := modfileArgs(h, tmp)
	if err != nil {
		fmt.Fprintln(os.Stderr, err)
		return 3
	}
	args := append([]string{"build"}, mf...)
	args = append(args, "-tags", "verif,c12tables", "-o", bin, "./cmd/"+filepath.Base(pkgDir))
	cmd := exec.Command("go", args...)
	cmd.Dir = h
	cmd.Env = goEnv()
	if out, err := cmd.CombinedOutput(); err != nil {
		// the generated routers/wrappers (or this harness) no longer compile against the tree
		fmt.Fprintf(os.Stderr, "c12: building the table-driven harness failed: %v\n%s\n", err, out)
		return 4
	}
	os.RemoveAll(pkgDir)
	run := exec.Command(bin, os.Args[1:]...)
	run.Stdin, run.Stdout, run.Stderr = os.Stdin, os.Stdout, os.Stderr
	run.Env = os.Environ()
	if err := run.Run(); err != nil {
		if ee, ok := err.(*exec.ExitError); ok {
			return ee.ExitCode()
		}
		fmt.Fprintln(os.Stderr, "c12:", err)
		return 3
	}
	return 0
}
