//go:build !c12tables

package main

// Without the c12tables tag the binary has no router table: it regenerates tables_gen.go from the
// repository's working tree, rebuilds itself with the tag and re-executes (see selfbuild.go).
