package main

import (
	"fmt"
	"sort"
	"strconv"
	"strings"
	"sync"
	"time"

	"google.golang.org/grpc/codes"
	"google.golang.org/grpc/status"

	"github.com/smart-core-os/sc-golang/internal/verifhook"
	"github.com/smart-core-os/sc-golang/pkg/router"
	"github.com/smart-core-os/sc-golang/verifharness/lib"
)

// concCase: concurrent Gets on pkg/router under a forced schedule (replay input).
// Sched is a list of thread ids; the i-th occurrence of a thread id runs that thread's i-th macro step:
//
//	1st: start .. yield router.get.afterMiss (or completion)        = model step  lookup
//	2nd: .. yield router.get.beforeInsert (or completion)           = model steps fallback, factory
//	3rd: .. completion                                              = model steps insert, notify
type concCase struct {
	Kind  string `json:"kind"` // "conc"
	Fb    string `json:"fallback"`
	Fac   string `json:"factory"`
	Reg0  string `json:"reg0"`
	Names string `json:"names"`
	Sched string `json:"schedule"`
}

type concCtl struct {
	mu     sync.Mutex
	byGo   map[int64]int
	parked []chan struct{} // per thread: closed/sent to release
	events chan concEvent
}

type concEvent struct {
	tid   int
	point string // "" = finished
}

// runConcCase runs the schedule on the real router; returns the answer in the driver's format.
func runConcCase(c concCase) (string, error) {
	names := splitList(c.Names, ",")
	for i := range names {
		names[i] = unTilde(names[i])
	}
	var sched []int
	for _, s := range splitList(c.Sched, ",") {
		t, err := strconv.Atoi(s)
		if err != nil || t < 0 || t >= len(names) {
			return "", fmt.Errorf("bad schedule %q", c.Sched)
		}
		sched = append(sched, t)
	}
	var mu sync.Mutex
	var log []string
	nfb, nfac := 0, 0
	mk := func(id int) any { return id }
	show := func(x any) string {
		if x == nil {
			return "-"
		}
		return fmt.Sprint(x)
	}
	lockedCalls := func(p *int) *int { return p }
	_ = lockedCalls
	opts := []router.Option{router.WithOnChange(func(ch router.Change) {
		a := "M"
		if ch.Auto {
			a = "A"
		}
		mu.Lock()
		log = append(log, tilde(ch.Name)+":"+show(ch.Old)+":"+show(ch.New)+":"+a)
		mu.Unlock()
	})}
	// the schedule serialises the threads, so the plain counters are race free
	if f := factoryKind(c.Fb, 2000, mk, &nfb); f != nil {
		opts = append(opts, router.WithFallback(f))
	}
	if f := factoryKind(c.Fac, 1000, mk, &nfac); f != nil {
		opts = append(opts, router.WithFactory(f))
	}
	orderOptions(opts, c.Fb+"/"+c.Fac+"/"+c.Names)
	r := router.NewRouter(opts...)
	pool := map[string]bool{}
	for _, e := range splitList(c.Reg0, ",") {
		p := strings.Split(e, ":")
		id, _ := strconv.Atoi(p[1])
		r.Add(unTilde(p[0]), id)
		pool[unTilde(p[0])] = true
	}
	mu.Lock()
	log = nil // the listener's view starts now (model: empty log)
	mu.Unlock()

	ctl := &concCtl{byGo: map[int64]int{}, events: make(chan concEvent, 4*len(names)+4)}
	release := make([]chan struct{}, len(names))
	for i := range release {
		release[i] = make(chan struct{})
	}
	verifhook.Set(func(point string) {
		if !strings.HasPrefix(point, "router.get.") {
			return
		}
		ctl.mu.Lock()
		tid, ok := ctl.byGo[verifhook.GoID()]
		ctl.mu.Unlock()
		if !ok {
			return
		}
		ctl.events <- concEvent{tid, point}
		<-release[tid]
	})
	defer verifhook.Set(nil)

	results := make([]string, len(names))
	state := make([]int, len(names)) // 0 not started, 1 parked, 2 finished
	for i := range results {
		results[i] = "@lookup"
	}
	wait := func(tid int) error {
		select {
		case ev := <-ctl.events:
			if ev.tid != tid {
				return fmt.Errorf("event from thread %d while running %d", ev.tid, tid)
			}
			if ev.point == "" {
				state[tid] = 2
			} else {
				state[tid] = 1
				results[tid] = "@" + ev.point
			}
			return nil
		case <-time.After(10 * time.Second):
			return fmt.Errorf("thread %d neither parked nor finished", tid)
		}
	}
	start := func(tid int) {
		pool[names[tid]] = true
		go func() {
			ctl.mu.Lock()
			ctl.byGo[verifhook.GoID()] = tid
			ctl.mu.Unlock()
			cl, err := r.Get(names[tid])
			mu.Lock()
			if err != nil {
				if status.Code(err) == codes.NotFound && cl == nil {
					results[tid] = "nf"
				} else {
					results[tid] = "?" + err.Error()
				}
			} else {
				results[tid] = "g" + show(cl)
			}
			mu.Unlock()
			ctl.events <- concEvent{tid, ""}
		}()
	}
	var firstErr error
	for _, t := range sched {
		switch state[t] {
		case 0:
			start(t)
		case 1:
			release[t] <- struct{}{}
		case 2:
			continue // stutter
		}
		if err := wait(t); err != nil {
			firstErr = err
			break
		}
	}
	// observation point: the model's configuration after the schedule
	mu.Lock()
	ths := make([]string, len(names))
	for i := range names {
		switch state[i] {
		case 0:
			ths[i] = "@lookup"
		case 1:
			ths[i] = results[i]
		default:
			ths[i] = results[i]
		}
	}
	logS := commaList(log)
	mu.Unlock()
	nfbS, nfacS := nfb, nfac
	// let every parked thread finish (not part of the observation)
	for t := range names {
		for state[t] == 1 {
			release[t] <- struct{}{}
			if err := wait(t); err != nil {
				if firstErr == nil {
					firstErr = err
				}
				break
			}
		}
	}
	if firstErr != nil {
		return "", firstErr
	}
	var keys []string
	for n := range pool {
		keys = append(keys, n)
	}
	sort.Strings(keys)
	_ = keys
	return fmt.Sprintf("th=%s log=%s nfb=%d nfac=%d", commaList(ths), logS, nfbS, nfacS), nil
}

// fineSchedule expands macro steps to the model's atomic steps (stutter steps make this exact).
func fineSchedule(sched string) string {
	seen := map[string]int{}
	var out []string
	for _, t := range splitList(sched, ",") {
		seen[t]++
		switch seen[t] {
		case 1:
			out = append(out, t)
		default:
			out = append(out, t, t)
		}
	}
	return commaList(out)
}

// canonModelConc maps the model's answer to what is observable through the hooks: a thread parked at
// afterMiss is at pc fallback; one parked at beforeInsert is at pc insert; the registry is not compared
// mid-schedule (it is compared through the threads' results and the log).
func canonModelConc(ans string) string {
	fs := strings.Fields(ans)
	var keep []string
	for _, f := range fs {
		switch {
		case strings.HasPrefix(f, "th="):
			ths := strings.Split(strings.TrimPrefix(f, "th="), ",")
			for i, t := range ths {
				switch {
				case t == "@fallback":
					ths[i] = "@router.get.afterMiss"
				case strings.HasPrefix(t, "@insert"):
					ths[i] = "@router.get.beforeInsert"
				}
			}
			keep = append(keep, "th="+strings.Join(ths, ","))
		case strings.HasPrefix(f, "reg="):
		default:
			keep = append(keep, f)
		}
	}
	return strings.Join(keep, " ")
}

// monitorConc: the property on one schedule — at most one Auto change per name, and every finished
// Get that did not use the fallback returned the client named by that change / by the initial registry.
func monitorConc(mon *lib.Monitor, c concCase, answer string) {
	fs := strings.Fields(answer)
	var ths, log []string
	for _, f := range fs {
		if strings.HasPrefix(f, "th=") {
			ths = splitList(strings.TrimPrefix(f, "th="), ",")
		}
		if strings.HasPrefix(f, "log=") {
			log = splitList(strings.TrimPrefix(f, "log="), ",")
		}
	}
	names := splitList(c.Names, ",")
	committed := map[string]string{}
	for _, e := range splitList(c.Reg0, ",") {
		p := strings.Split(e, ":")
		committed[p[0]] = p[1]
	}
	autos := map[string]int{}
	for _, l := range log {
		p := strings.Split(l, ":")
		if len(p) != 4 {
			continue
		}
		if p[3] == "A" {
			autos[p[0]]++
			if _, had := committed[p[0]]; had {
				mon.Violate("C12/router.Get/concurrent/auto-change-over-existing", "an Auto change was reported for a name that already had a client", c, "no Auto change for "+p[0], l)
			}
			if autos[p[0]] > 1 {
				mon.Violate("C12/router.Get/concurrent/double-commit", "concurrent first Gets must commit a single factory client (one Auto change)", c, "one Auto change for "+p[0], strings.Join(log, ","))
				continue
			}
			committed[p[0]] = p[2]
		}
	}
	for i, t := range ths {
		if i >= len(names) || !strings.HasPrefix(t, "g") {
			continue
		}
		id, _ := strconv.Atoi(t[1:])
		if id >= 2000 {
			continue // supplied by the fallback: not remembered
		}
		if want, ok := committed[names[i]]; ok && want != t[1:] {
			mon.Violate("C12/router.Get/concurrent/returned-uncommitted-client", "every Get must return the committed client", c, "client "+want+" for "+names[i], t)
		}
	}
}

func permSchedules(n, steps int) []string {
	var out []string
	var rec func(cur []string, left []int)
	rec = func(cur []string, left []int) {
		done := true
		for t, l := range left {
			if l > 0 {
				done = false
				left[t]--
				rec(append(cur, strconv.Itoa(t)), left)
				left[t]++
			}
		}
		if done {
			out = append(out, strings.Join(cur, ","))
		}
	}
	left := make([]int, n)
	for i := range left {
		left[i] = steps
	}
	rec(nil, left)
	return out
}

func runConc(f lib.Flags, res *lib.Result, drv *lib.Driver) {
	tie := res.Tie("concurrent-get", "K4", "threads each calling router.Get, parked at the verif yield points router.get.afterMiss / router.get.beforeInsert and released in a given order, so a model schedule runs on the real code; ALL interleavings of 2 threads x 3 macro steps (20) for every (fallback, factory) kind pair and 3 name/registry set-ups, all 1680 interleavings of 3 threads for the main set-ups, plus random (also truncated) schedules of 2-4 threads; thread results / park points, onChange log and factory call counts compared with the Lean interleaving model after the schedule; distinct = (set-up, schedule)")
	mon := res.Monitor("single-commit", "on every executed schedule: at most one Auto change per name, none for a name already registered, and every finished Get not served by the fallback returned the committed client")
	rng := lib.NewRand(f.Seed + 2)
	var cases []concCase
	setups := []struct{ reg0, names string }{{"-", "a,a"}, {"-", "a,b"}, {"a:1", "a,a"}}
	kinds := []string{"none", "new", "err", "nil", "both", "pfx", "odd"}
	two := permSchedules(2, 3)
	for _, su := range setups {
		for _, fb := range kinds {
			for _, fac := range kinds {
				if !f.Thorough() && fb != "none" && fac != "new" && fac != "odd" {
					continue
				}
				for _, s := range two {
					cases = append(cases, concCase{"conc", fb, fac, su.reg0, su.names, s})
				}
			}
		}
	}
	three := permSchedules(3, 3)
	for _, su := range []struct{ reg0, names, fb, fac string }{{"-", "a,a,a", "none", "new"}, {"-", "a,a,b", "none", "odd"}, {"-", "a,a,a", "pfx", "new"}} {
		for i, s := range three {
			if !f.Thorough() && i%7 != int(f.Seed%7+7)%7 {
				continue
			}
			cases = append(cases, concCase{"conc", su.fb, su.fac, su.reg0, su.names, s})
		}
	}
	nr := f.N(300, 30000)
	for i := 0; i < nr; i++ {
		nt := 2 + rng.Intn(3)
		var names []string
		for t := 0; t < nt; t++ {
			names = append(names, []string{"a", "a", "a", "b", "~", "n1", "a1", "a2", "n6"}[rng.Intn(9)])
		}
		var s []string
		for t := 0; t < nt; t++ {
			for k := 0; k < 3; k++ {
				s = append(s, strconv.Itoa(t))
			}
		}
		rng.Shuffle(len(s), func(a, b int) { s[a], s[b] = s[b], s[a] })
		s = s[:len(s)-rng.Intn(len(s)/2+1)] // possibly truncated: threads left parked
		reg0 := "-"
		if rng.Intn(4) == 0 {
			reg0 = "a:1"
		}
		cases = append(cases, concCase{"conc", facKinds[rng.Intn(len(facKinds))], kinds[1+rng.Intn(len(kinds)-1)], reg0, strings.Join(names, ","), strings.Join(s, ",")})
	}
	var lines, answers []string
	for _, c := range cases {
		a, err := runConcCase(c)
		if err != nil {
			tie.Fail(err)
			return
		}
		monitorConc(mon, c, a)
		mon.Eval(fmt.Sprint(c), true, nil)
		answers = append(answers, a)
		lines = append(lines, fmt.Sprintf("conc %s %s %s %s %s", c.Fb, c.Fac, c.Reg0, c.Names, fineSchedule(c.Sched)))
	}
	ans, err := drv.Batch(lines)
	if err != nil {
		tie.Fail(err)
		return
	}
	for i, c := range cases {
		m := canonModelConc(ans[i])
		tie.Record(fmt.Sprint(c), true, c, m, answers[i])
		if strings.Count(m, ":A") > 0 {
			tie.Count("auto-change")
		}
		if strings.Contains(m, "@router") {
			tie.Count("observed-mid-flight")
		}
		tie.Count(fmt.Sprintf("threads=%d", len(splitList(c.Names, ","))))
	}
}
