package main

// Source scan of /repo/pkg/trait (go/parser + go/ast only): every generated router type and wrapper.
// Used by (1) the Go table generator (tables_gen.go, rebuilt from the working tree on every run) and
// (2) the K3 facts translator (lean/ScVerif/Generated/C12Facts.lean).

import (
	"fmt"
	"go/ast"
	"go/parser"
	"go/token"
	"os"
	"path/filepath"
	"sort"
	"strconv"
	"strings"
)

const repoModule = "github.com/smart-core-os/sc-golang"

type fwdInfo struct {
	Name       string
	Streaming  bool
	ReadsName  bool
	ChildCalls []string
}

type routerInfo struct {
	Dir        string // e.g. onoffpb
	File       string // base file name
	Pkg        string // Go package name
	Router     string // router type name
	SvcImport  string // import path of the package declaring the service ("" = same package)
	GoSvc      string // from the embedded Unimplemented<GoSvc>Server
	Registers  string // from Register: <x>.Register<Registers>Server(server, r)
	RegImport  string
	ClientType string // from HoldsType: client.(<x>.<ClientType>)
	NewFunc    string
	FactoryFn  string
	Methods    []fwdInfo
	AllMethods map[string]bool // every method declared on the router type
}

type wrapInfo struct {
	Dir       string
	File      string
	Pkg       string
	Func      string // Wrap<Underlying>
	Wrapper   string // returned type
	SvcImport string
	ServerSvc string // parameter type <x>.<ServerSvc>Server
	DescSvc   string // <x>.<DescSvc>_ServiceDesc passed to wrap.ServerToClient
	ClientSvc string // <x>.New<ClientSvc>Client
}

func (r routerInfo) importPath() string { return repoModule + "/pkg/trait/" + r.Dir }
func (w wrapInfo) importPath() string   { return repoModule + "/pkg/trait/" + w.Dir }

// svcKey identifies a service by (Go import path of the package declaring it, Go service name).
func svcKey(imp, self, goSvc string) string {
	if imp == "" {
		imp = self
	}
	return imp + "." + goSvc
}

type fileImports map[string]string // local name -> import path

func importsOf(f *ast.File) fileImports {
	m := fileImports{}
	for _, is := range f.Imports {
		p, _ := strconv.Unquote(is.Path.Value)
		name := filepath.Base(p)
		if is.Name != nil {
			name = is.Name.Name
		}
		m[name] = p
	}
	return m
}

// qual splits a type/func reference `x.Name` or `Name` into (import path or "", Name).
func (im fileImports) qual(e ast.Expr) (string, string, bool) {
	switch t := e.(type) {
	case *ast.Ident:
		return "", t.Name, true
	case *ast.SelectorExpr:
		if x, ok := t.X.(*ast.Ident); ok {
			if p, ok := im[x.Name]; ok {
				return p, t.Sel.Name, true
			}
		}
	case *ast.StarExpr:
		return im.qual(t.X)
	}
	return "", "", false
}

func recvType(fd *ast.FuncDecl) string {
	if fd.Recv == nil || len(fd.Recv.List) != 1 {
		return ""
	}
	t := fd.Recv.List[0].Type
	if s, ok := t.(*ast.StarExpr); ok {
		t = s.X
	}
	if id, ok := t.(*ast.Ident); ok {
		return id.Name
	}
	return ""
}

func isErrorType(e ast.Expr) bool {
	id, ok := e.(*ast.Ident)
	return ok && id.Name == "error"
}

func fieldCount(fl *ast.FieldList) int {
	if fl == nil {
		return 0
	}
	n := 0
	for _, f := range fl.List {
		if len(f.Names) == 0 {
			n++
		} else {
			n += len(f.Names)
		}
	}
	return n
}

func paramNames(fl *ast.FieldList) []string {
	var out []string
	if fl == nil {
		return out
	}
	for _, f := range fl.List {
		if len(f.Names) == 0 {
			out = append(out, "_")
		}
		for _, n := range f.Names {
			out = append(out, n.Name)
		}
	}
	return out
}

func paramTypes(fl *ast.FieldList) []ast.Expr {
	var out []ast.Expr
	if fl == nil {
		return out
	}
	for _, f := range fl.List {
		k := len(f.Names)
		if k == 0 {
			k = 1
		}
		for i := 0; i < k; i++ {
			out = append(out, f.Type)
		}
	}
	return out
}

// forwarderShape recognises the two RPC method signatures of a grpc server interface:
//
//	(ctx context.Context, request *T) (*U, error)      unary
//	(request *T, server S) error                       server streaming
func forwarderShape(im fileImports, fd *ast.FuncDecl) (isFwd, streaming bool, reqParam string) {
	ps, rs := paramTypes(fd.Type.Params), paramTypes(fd.Type.Results)
	names := paramNames(fd.Type.Params)
	if len(ps) != 2 {
		return
	}
	if len(rs) == 2 && isErrorType(rs[1]) {
		if p, n, ok := im.qual(ps[0]); ok && p == "context" && n == "Context" {
			if _, isPtr := ps[1].(*ast.StarExpr); isPtr {
				if _, isPtr2 := rs[0].(*ast.StarExpr); isPtr2 {
					return true, false, names[1]
				}
			}
		}
	}
	if len(rs) == 1 && isErrorType(rs[0]) {
		if _, isPtr := ps[0].(*ast.StarExpr); isPtr {
			if _, _, ok := im.qual(ps[1]); ok {
				if _, isPtr2 := ps[1].(*ast.StarExpr); !isPtr2 {
					return true, true, names[0]
				}
			}
		}
	}
	return
}

func scanForwarder(im fileImports, fd *ast.FuncDecl, streaming bool, reqParam string) fwdInfo {
	fi := fwdInfo{Name: fd.Name.Name, Streaming: streaming}
	recv := ""
	if len(fd.Recv.List[0].Names) == 1 {
		recv = fd.Recv.List[0].Names[0].Name
	}
	childVar := ""
	if fd.Body == nil {
		return fi
	}
	// child, err := r.Get<...>(request.Name)
	ast.Inspect(fd.Body, func(n ast.Node) bool {
		as, ok := n.(*ast.AssignStmt)
		if !ok || childVar != "" || len(as.Rhs) != 1 || len(as.Lhs) < 1 {
			return true
		}
		call, ok := as.Rhs[0].(*ast.CallExpr)
		if !ok || len(call.Args) != 1 {
			return true
		}
		sel, ok := call.Fun.(*ast.SelectorExpr)
		if !ok || !strings.HasPrefix(sel.Sel.Name, "Get") {
			return true
		}
		if x, ok := sel.X.(*ast.Ident); !ok || x.Name != recv {
			return true
		}
		arg, ok := call.Args[0].(*ast.SelectorExpr)
		if !ok || arg.Sel.Name != "Name" {
			return true
		}
		if x, ok := arg.X.(*ast.Ident); !ok || x.Name != reqParam {
			return true
		}
		if id, ok := as.Lhs[0].(*ast.Ident); ok {
			childVar = id.Name
			fi.ReadsName = true
		}
		return true
	})
	if childVar != "" {
		ast.Inspect(fd.Body, func(n ast.Node) bool {
			call, ok := n.(*ast.CallExpr)
			if !ok {
				return true
			}
			if sel, ok := call.Fun.(*ast.SelectorExpr); ok {
				if x, ok := sel.X.(*ast.Ident); ok && x.Name == childVar {
					fi.ChildCalls = append(fi.ChildCalls, sel.Sel.Name)
				}
			}
			return true
		})
	}
	return fi
}

func scanRepo(root string) ([]routerInfo, []wrapInfo, error) {
	dirs, err := filepath.Glob(filepath.Join(root, "pkg", "trait", "*"))
	if err != nil {
		return nil, nil, err
	}
	sort.Strings(dirs)
	var routers []routerInfo
	var wraps []wrapInfo
	fset := token.NewFileSet()
	for _, d := range dirs {
		st, err := os.Stat(d)
		if err != nil || !st.IsDir() {
			continue
		}
		files, _ := filepath.Glob(filepath.Join(d, "*.go"))
		sort.Strings(files)
		// the package's non-test files: router types are recognised by structure, not by file name
		type parsed struct {
			name string
			f    *ast.File
		}
		var pfs []parsed
		for _, fn := range files {
			if strings.HasSuffix(fn, "_test.go") {
				continue
			}
			f, err := parser.ParseFile(fset, fn, nil, parser.SkipObjectResolution)
			if err != nil {
				return nil, nil, fmt.Errorf("%s: %v", fn, err)
			}
			pfs = append(pfs, parsed{filepath.Base(fn), f})
		}
		dir := filepath.Base(d)
		// pass 1: router struct types (embed Unimplemented<Svc>Server and router.Router) and wrappers
		rts := map[string]*routerInfo{}
		var order []string
		for _, pf := range pfs {
			im := importsOf(pf.f)
			for _, decl := range pf.f.Decls {
				gd, ok := decl.(*ast.GenDecl)
				if !ok || gd.Tok != token.TYPE {
					continue
				}
				for _, sp := range gd.Specs {
					ts := sp.(*ast.TypeSpec)
					stt, ok := ts.Type.(*ast.StructType)
					if !ok {
						continue
					}
					var unimp, unimpImp string
					hasRouter := false
					for _, fld := range stt.Fields.List {
						if len(fld.Names) != 0 {
							continue
						}
						p, n, ok := im.qual(fld.Type)
						if !ok {
							continue
						}
						if strings.HasPrefix(n, "Unimplemented") && strings.HasSuffix(n, "Server") {
							unimp = strings.TrimSuffix(strings.TrimPrefix(n, "Unimplemented"), "Server")
							unimpImp = p
						}
						if p == repoModule+"/pkg/router" && n == "Router" {
							hasRouter = true
						}
					}
					if unimp != "" && hasRouter {
						rts[ts.Name.Name] = &routerInfo{Dir: dir, File: pf.name, Pkg: pf.f.Name.Name, Router: ts.Name.Name,
							SvcImport: unimpImp, GoSvc: unimp}
						order = append(order, ts.Name.Name)
					}
				}
			}
		}
		// pass 2: functions
		for _, pf := range pfs {
			im := importsOf(pf.f)
			for _, decl := range pf.f.Decls {
				fd, ok := decl.(*ast.FuncDecl)
				if !ok {
					continue
				}
				if fd.Recv == nil {
					// New<Router>(opts ...router.Option) *<Router>
					if rs := paramTypes(fd.Type.Results); len(rs) == 1 {
						if _, n, ok := im.qual(rs[0]); ok {
							if ri, ok := rts[n]; ok && fd.Name.Name == "New"+n {
								ri.NewFunc = fd.Name.Name
							}
						}
					}
					// With<Client>Factory(f func(name string) (<Client>, error)) router.Option
					if strings.HasPrefix(fd.Name.Name, "With") && strings.HasSuffix(fd.Name.Name, "Factory") {
						ps := paramTypes(fd.Type.Params)
						if len(ps) == 1 {
							if ft, ok := ps[0].(*ast.FuncType); ok {
								frs := paramTypes(ft.Results)
								if len(frs) == 2 {
									if p, n, ok := im.qual(frs[0]); ok {
										for _, name := range order {
											ri := rts[name]
											if ri.GoSvc+"Client" == n && ri.SvcImport == p {
												ri.FactoryFn = fd.Name.Name
											}
										}
									}
								}
							}
						}
					}
					// Wrap<U>(server <x>.<Svc>Server) *<U>Wrapper
					if strings.HasPrefix(fd.Name.Name, "Wrap") && fd.Body != nil {
						ps, rs := paramTypes(fd.Type.Params), paramTypes(fd.Type.Results)
						if len(ps) == 1 && len(rs) == 1 {
							p, n, ok1 := im.qual(ps[0])
							_, rn, ok2 := im.qual(rs[0])
							if ok1 && ok2 && strings.HasSuffix(n, "Server") && strings.HasSuffix(rn, "Wrapper") {
								wi := wrapInfo{Dir: dir, File: pf.name, Pkg: pf.f.Name.Name, Func: fd.Name.Name, Wrapper: rn,
									SvcImport: p, ServerSvc: strings.TrimSuffix(n, "Server")}
								ast.Inspect(fd.Body, func(nd ast.Node) bool {
									call, ok := nd.(*ast.CallExpr)
									if !ok {
										return true
									}
									cp, cn, ok := im.qual(call.Fun)
									if !ok {
										return true
									}
									if cp == repoModule+"/pkg/wrap" && cn == "ServerToClient" && len(call.Args) == 2 {
										if dp, dn, ok := im.qual(call.Args[0]); ok && dp == p && strings.HasSuffix(dn, "_ServiceDesc") {
											wi.DescSvc = strings.TrimSuffix(dn, "_ServiceDesc")
										}
									}
									if cp == p && strings.HasPrefix(cn, "New") && strings.HasSuffix(cn, "Client") && len(call.Args) == 1 {
										wi.ClientSvc = strings.TrimSuffix(strings.TrimPrefix(cn, "New"), "Client")
									}
									return true
								})
								wraps = append(wraps, wi)
							}
						}
					}
					continue
				}
				ri, ok := rts[recvType(fd)]
				if !ok {
					continue
				}
				if ri.AllMethods == nil {
					ri.AllMethods = map[string]bool{}
				}
				ri.AllMethods[fd.Name.Name] = true
				switch fd.Name.Name {
				case "Register":
					if fd.Body != nil {
						ast.Inspect(fd.Body, func(nd ast.Node) bool {
							if call, ok := nd.(*ast.CallExpr); ok {
								if p, n, ok := im.qual(call.Fun); ok && strings.HasPrefix(n, "Register") && strings.HasSuffix(n, "Server") {
									ri.Registers = strings.TrimSuffix(strings.TrimPrefix(n, "Register"), "Server")
									ri.RegImport = p
								}
							}
							return true
						})
					}
				case "HoldsType":
					if fd.Body != nil {
						ast.Inspect(fd.Body, func(nd ast.Node) bool {
							if ta, ok := nd.(*ast.TypeAssertExpr); ok && ta.Type != nil {
								if _, n, ok := im.qual(ta.Type); ok {
									ri.ClientType = n
								}
							}
							return true
						})
					}
				default:
					if isFwd, streaming, req := forwarderShape(im, fd); isFwd {
						ri.Methods = append(ri.Methods, scanForwarder(im, fd, streaming, req))
					}
				}
			}
		}
		for _, name := range order {
			routers = append(routers, *rts[name])
		}
	}
	sort.SliceStable(wraps, func(i, j int) bool {
		if wraps[i].Dir != wraps[j].Dir {
			return wraps[i].Dir < wraps[j].Dir
		}
		return wraps[i].Func < wraps[j].Func
	})
	return routers, wraps, nil
}

// genTables renders tables_gen.go for the scanned routers and wrappers.
func genTables(routers []routerInfo, wraps []wrapInfo) string {
	var b strings.Builder
	pkgAlias := map[string]string{}
	var pkgOrder []string
	alias := func(p string) string {
		if a, ok := pkgAlias[p]; ok {
			return a
		}
		a := fmt.Sprintf("p%d", len(pkgAlias))
		pkgAlias[p] = a
		pkgOrder = append(pkgOrder, p)
		return a
	}
	var body strings.Builder
	for _, r := range routers {
		if r.NewFunc == "" {
			continue
		}
		self := alias(r.importPath())
		svc := self
		if r.SvcImport != "" {
			svc = alias(r.SvcImport)
		}
		fmt.Fprintf(&body, "\t\t{Pkg: %q, Router: %q, GoSvc: %q, SvcImport: %q,\n", r.Dir, r.Router, r.GoSvc, orSelf(r.SvcImport, r.importPath()))
		fmt.Fprintf(&body, "\t\t\tNew: func(opts ...router.Option) routerLike { return %s.%s(opts...) },\n", self, r.NewFunc)
		fmt.Fprintf(&body, "\t\t\tNewClient: func(cc grpc.ClientConnInterface) any { return %s.New%sClient(cc) },\n", svc, r.GoSvc)
		if r.FactoryFn != "" {
			fmt.Fprintf(&body, "\t\t\tWithFactory: func(f func(string) (any, error)) router.Option {\n")
			fmt.Fprintf(&body, "\t\t\t\treturn %s.%s(func(n string) (%s.%sClient, error) {\n", self, r.FactoryFn, svc, r.GoSvc)
			fmt.Fprintf(&body, "\t\t\t\t\tc, err := f(n)\n\t\t\t\t\tif c == nil {\n\t\t\t\t\t\treturn nil, err\n\t\t\t\t\t}\n\t\t\t\t\treturn c.(%s.%sClient), err\n\t\t\t\t})\n\t\t\t},\n", svc, r.GoSvc)
		}
		ct := r.GoSvc + "Client"
		if r.AllMethods["Add"+ct] && r.AllMethods["Remove"+ct] && r.AllMethods["Get"+ct] {
			fmt.Fprintf(&body, "\t\t\tAddTyped: func(r routerLike, n string, c any) any {\n\t\t\t\tif old := r.(*%s.%s).Add%s(n, c.(%s.%s)); old != nil {\n\t\t\t\t\treturn old\n\t\t\t\t}\n\t\t\t\treturn nil\n\t\t\t},\n", self, r.Router, ct, svc, ct)
			fmt.Fprintf(&body, "\t\t\tRemoveTyped: func(r routerLike, n string) any {\n\t\t\t\tif old := r.(*%s.%s).Remove%s(n); old != nil {\n\t\t\t\t\treturn old\n\t\t\t\t}\n\t\t\t\treturn nil\n\t\t\t},\n", self, r.Router, ct)
			fmt.Fprintf(&body, "\t\t\tGetTyped: func(r routerLike, n string) (any, error) {\n\t\t\t\tc, err := r.(*%s.%s).Get%s(n)\n\t\t\t\tif c == nil {\n\t\t\t\t\treturn nil, err\n\t\t\t\t}\n\t\t\t\treturn c, err\n\t\t\t},\n", self, r.Router, ct)
		}
		for _, w := range wraps {
			if w.Dir == r.Dir && w.ServerSvc == r.GoSvc && w.SvcImport == r.SvcImport {
				fmt.Fprintf(&body, "\t\t\tWrap: func(s any) wrapLike { return %s.%s(s.(%s.%sServer)) },\n", self, w.Func, svc, w.ServerSvc)
				break
			}
		}
		fmt.Fprintf(&body, "\t\t},\n")
	}
	b.WriteString("//go:build c12tables\n\n// Code generated by harness/cmd/c12 from the working tree of the repository on every run. DO NOT EDIT.\n\npackage main\n\nimport (\n")
	b.WriteString("\tgrpc \"google.golang.org/grpc\"\n\trouter \"" + repoModule + "/pkg/router\"\n")
	for _, p := range pkgOrder {
		fmt.Fprintf(&b, "\t%s %q\n", pkgAlias[p], p)
	}
	b.WriteString(")\n\nfunc init() {\n\ttablesBuilt = true\n\ttables = []entry{\n")
	b.WriteString(body.String())
	b.WriteString("\t}\n}\n")
	return b.String()
}

func orSelf(a, self string) string {
	if a == "" {
		return self
	}
	return a
}
