package main

import (
	"context"
	"fmt"
	"reflect"

	"google.golang.org/grpc/codes"
	"google.golang.org/grpc/status"
	"google.golang.org/protobuf/reflect/protoreflect"

	"github.com/smart-core-os/sc-golang/verifharness/lib"
)

// runWrappers: the generated *_wrap.pb.go beyond their shape — for every wrapper in the table:
// Unwrap / UnwrapServer give back the very server that was wrapped, UnwrapService gives a connection
// and THE ServiceDesc of that service, the wrapper is accepted as a client by the router of its
// service (HoldsType / Add), and a call on its connection reaches the wrapped server.
func runWrappers(f lib.Flags, res *lib.Result) {
	mon := res.Monitor("wrappers", "every generated Wrap<X> in the table (rebuilt from the working tree): w := Wrap(server) with server = a router of the same service; w.Unwrap() and (by reflection) w.UnwrapServer() are that server; w.UnwrapService() returns a non-nil connection and a ServiceDesc equal in name, handler type and method/stream names to the one the router registers; router.HoldsType(w) and Add(name, w) accept it; Invoke on the connection with an unknown name returns the wrapped router's NotFound")
	for _, e := range tables {
		if e.Wrap == nil {
			continue
		}
		sig := func(class string) string { return "C12/" + e.id() + "+wrapper/unwrap/" + class }
		in := map[string]any{"kind": "wrapper", "pkg": e.Pkg, "router": e.Router}
		panicked, msg := lib.Catch(func() {
			srv := e.New()
			w := e.Wrap(srv)
			if w.Unwrap() != any(srv) {
				mon.Violate(sig("unwrap-identity"), "Unwrap() must return the wrapped server", in, "the wrapped server", fmt.Sprintf("%T", w.Unwrap()))
			}
			m := reflect.ValueOf(w).MethodByName("UnwrapServer")
			if !m.IsValid() || m.Type().NumIn() != 0 || m.Type().NumOut() != 1 {
				mon.Violate(sig("unwrapserver-missing"), "the wrapper must have UnwrapServer()", in, "method UnwrapServer() <Server>", "absent")
			} else if got := m.Call(nil)[0].Interface(); got != any(srv) {
				mon.Violate(sig("unwrapserver-identity"), "UnwrapServer() must return the wrapped server", in, "the wrapped server", fmt.Sprintf("%T", got))
			}
			conn, desc := w.UnwrapService()
			reg := &captureRegistrar{}
			srv.Register(reg)
			if conn == nil {
				mon.Violate(sig("conn-nil"), "UnwrapService must return the connection", in, "non-nil", "nil")
				return
			}
			same := desc.ServiceName == reg.desc.ServiceName && desc.HandlerType == reg.desc.HandlerType &&
				len(desc.Methods) == len(reg.desc.Methods) && len(desc.Streams) == len(reg.desc.Streams) && desc.Metadata == reg.desc.Metadata
			if same {
				for i := range desc.Methods {
					same = same && desc.Methods[i].MethodName == reg.desc.Methods[i].MethodName
				}
				for i := range desc.Streams {
					same = same && desc.Streams[i].StreamName == reg.desc.Streams[i].StreamName && desc.Streams[i].ServerStreams == reg.desc.Streams[i].ServerStreams
				}
			}
			if !same {
				mon.Violate(sig("servicedesc"), "UnwrapService must return the ServiceDesc of the wrapped service", in, reg.desc.ServiceName, desc.ServiceName)
			}
			if !srv.HoldsType(w) {
				mon.Violate(sig("not-a-client"), "the wrapper must be usable as a client of its service's router", in, "HoldsType true", "false")
			} else {
				outer := e.New()
				outer.Add("w", w)
				if got, err := outer.Get("w"); err != nil || got != any(w) {
					mon.Violate(sig("not-a-client"), "the wrapper must be storable in its service's router", in, "the wrapper", fmt.Sprint(got, err))
				}
			}
			sd, err := serviceOf(reg.desc)
			if err != nil {
				mon.Error = err.Error()
				return
			}
			for i := 0; i < sd.Methods().Len(); i++ {
				md := sd.Methods().Get(i)
				if md.IsStreamingServer() || md.IsStreamingClient() {
					continue
				}
				req, _ := newMessage(md.Input().FullName())
				setName(req, "nobody")
				reply, _ := newMessage(md.Output().FullName())
				err := conn.Invoke(context.Background(), "/"+string(sd.FullName())+"/"+string(md.Name()), req, reply)
				if status.Code(err) != codes.NotFound {
					mon.Violate("C12/"+e.id()+"+wrapper/"+string(md.Name())+"/not-reaching-server", "a call on the wrapper's connection must reach the wrapped server (here: its NotFound)", in, "NotFound from the wrapped router", fmt.Sprint(err))
				}
				mon.Count("unary methods through wrapper")
			}
			_ = protoreflect.Name("")
		})
		if panicked {
			mon.Violate(sig("panic"), "wrapper helper panicked", in, "no panic", msg)
		}
		mon.Eval(e.id(), true, nil)
	}
}
