package main

import (
	"fmt"
	"math/rand"
	"sort"
	"strconv"
	"strings"

	"github.com/smart-core-os/sc-golang/verifharness/lib"
)

// regCase: one registry history (replay input).
type regCase struct {
	Kind   string `json:"kind"` // "registry"
	Pkg    string `json:"pkg"`
	Router string `json:"router"`
	Fb     string `json:"fallback"`
	Fac    string `json:"factory"`
	Ops    string `json:"ops"`
	Typed  bool   `json:"typed_accessors"`
}

func runRegCase(e entry, c regCase) string {
	g := newRig(e, c.Fb, c.Fac, true)
	g.typed = c.Typed
	if err := g.applyOps(c.Ops); err != nil {
		return "harness-error:" + err.Error()
	}
	return "res=" + commaList(g.results) + " " + g.stateString()
}

// monitorReg: the registry is a map — evaluated with a plain Go map.
func monitorReg(mon *lib.Monitor, e entry, c regCase, answer string) {
	sig := func(class string) string { return "C12/pkg-router/registry/" + class } // the code site is pkg/router, whatever generated router wraps it
	reg := map[string]int{}
	nfb, nfac := 0, 0
	var exp, log []string
	show := func(id int, ok bool) string {
		if !ok {
			return "-"
		}
		return strconv.Itoa(id)
	}
	for _, o := range splitList(c.Ops, ",") {
		p := strings.Split(o, ":")
		n := unTilde(p[1])
		old, had := reg[n]
		switch p[0] {
		case "a":
			id, _ := strconv.Atoi(p[2])
			reg[n] = id
			exp = append(exp, "p"+show(old, had))
			log = append(log, fmt.Sprintf("%s:%s:%d:M", tilde(n), show(old, had), id))
		case "r":
			delete(reg, n)
			exp = append(exp, "p"+show(old, had))
			if had {
				log = append(log, fmt.Sprintf("%s:%d:-:M", tilde(n), old))
			}
		case "h":
			if had {
				exp = append(exp, "bT")
			} else {
				exp = append(exp, "bF")
			}
		case "g":
			if had {
				exp = append(exp, "g"+strconv.Itoa(old))
				continue
			}
			done := false
			if c.Fb != "none" {
				id, ok := oracleSupplies(c.Fb, 2000, n, nfb)
				nfb++
				if ok {
					exp = append(exp, "g"+strconv.Itoa(id))
					done = true
				}
			}
			if !done && c.Fac != "none" {
				id, ok := oracleSupplies(c.Fac, 1000, n, nfac)
				nfac++
				if ok {
					reg[n] = id
					exp = append(exp, "g"+strconv.Itoa(id))
					log = append(log, fmt.Sprintf("%s:-:%d:A", tilde(n), id))
					done = true
				}
			}
			if !done {
				exp = append(exp, "nf")
			}
		}
	}
	var keys, names []string
	for n := range reg {
		keys = append(keys, n)
	}
	sort.Slice(keys, func(i, j int) bool { return nameKey(keys[i]) < nameKey(keys[j]) })
	for _, n := range keys {
		names = append(names, tilde(n)+":"+strconv.Itoa(reg[n]))
	}
	want := fmt.Sprintf("res=%s log=%s reg=%s nfb=%d nfac=%d", commaList(exp), commaList(log), commaList(names), nfb, nfac)
	if want == answer {
		return
	}
	wf, af := strings.Fields(want), strings.Fields(answer)
	class := "behaviour"
	if len(wf) == len(af) {
		for i := range wf {
			if wf[i] != af[i] {
				class = strings.SplitN(wf[i], "=", 2)[0]
				break
			}
		}
	}
	names2 := map[string]string{"res": "results", "log": "onchange-log", "reg": "final-registry", "nfb": "fallback-calls", "nfac": "factory-calls"}
	if v, ok := names2[class]; ok {
		class = v
	}
	mon.Violate(sig(class), "the registry must behave as a map (Add returns previous, Remove the removed, Has/Get agree, onChange = exact transitions, factory client committed once)", c, want, answer)
}

func sortStrings(xs []string) {
	for i := 1; i < len(xs); i++ {
		for j := i; j > 0 && xs[j] < xs[j-1]; j-- {
			xs[j], xs[j-1] = xs[j-1], xs[j]
		}
	}
}

func runRegistry(f lib.Flags, res *lib.Result, drv *lib.Driver) {
	tie := res.Tie("registry", "K1", "random histories of Add/Remove/Has/Get (0-12 ops, a pool of 17 names: ordinary ones, the empty name, and unusual ones (blank, leading/trailing blank, case variants X/x Ab/aB/ab, containing / or NUL, non-ASCII, 5000 characters), client ids 1-9) x fallback kind x factory kind (none/new/err/nil/both/pfx/odd, factories installed through the generated With<Client>Factory), executed on generated routers chosen round-robin from the table (so on pkg/router through every generated Add/HoldsType override, and every other round through the generated typed Add<Client>/Remove<Client>/Get<Client>); results, onChange log, final registry (read back through Has/Remove) and factory call counts compared with the Lean model; distinct = (fallback, factory, ops)")
	mon := res.Monitor("registry-map", "same histories against a plain Go map with the documented resolution order")
	rng := lib.NewRand(f.Seed + 1)
	n := f.N(1500, 150000)
	var cases []regCase
	var lines, answers []string
	// small fixed cases first
	fixed := []regCase{
		{Ops: "a:x:1,a:x:2,r:x,r:x,h:x", Fb: "none", Fac: "none"},
		{Ops: "g:x,g:x,h:x,r:x,g:x", Fb: "none", Fac: "new"},
		{Ops: "g:x,h:x,g:ab,h:ab", Fb: "pfx", Fac: "none"},
		{Ops: "g:x,g:x,g:x", Fb: "err", Fac: "odd"},
		{Ops: "g:~,a:~:3,g:~,r:~", Fb: "none", Fac: "both"},
	}
	for i := 0; i < n; i++ {
		var c regCase
		if i < len(fixed) {
			c = fixed[i]
		} else {
			c = regCase{Fb: facKinds[rng.Intn(len(facKinds))], Fac: facKinds[rng.Intn(len(facKinds))], Ops: randOpsGet(rng, 12)}
		}
		e := tables[i%len(tables)]
		c.Kind, c.Pkg, c.Router = "registry", e.Pkg, e.Router
		c.Typed = (i/len(tables))%2 == 1
		var a string
		panicked, msg := lib.Catch(func() { a = runRegCase(e, c) })
		if panicked {
			a = "panic:" + strings.ReplaceAll(msg, " ", "_")
			mon.Violate("C12/"+e.id()+"/registry/panic", "registry operation panicked", c, "no panic", msg)
		} else {
			monitorReg(mon, e, c, a)
		}
		mon.Eval(c.Fb+"/"+c.Fac+"/"+c.Ops, c.Ops != "-", nil)
		tie.Count("fb=" + c.Fb)
		tie.Count("fac=" + c.Fac)
		if c.Typed {
			tie.Count("typed-accessors")
		}
		cases = append(cases, c)
		answers = append(answers, a)
		lines = append(lines, fmt.Sprintf("reg %s %s %s", c.Fb, c.Fac, c.Ops))
	}
	ans, err := drv.Batch(lines)
	if err != nil {
		tie.Fail(err)
		return
	}
	for i, c := range cases {
		tie.Record(c.Fb+"/"+c.Fac+"/"+c.Ops, c.Ops != "-", c, ans[i], answers[i])
		if strings.Contains(ans[i], ":A") {
			tie.Count("auto-change")
		}
		if strings.Contains(strings.Fields(ans[i])[0]+",", "nf,") {
			tie.Count("notfound")
		}
	}
}

// randOpsGet: histories biased towards Get (the interesting operation with factories).
func randOpsGet(rng *rand.Rand, max int) string {
	n := rng.Intn(max + 1)
	var ops []string
	for i := 0; i < n; i++ {
		nm := namePool[rng.Intn(len(namePool))]
		switch rng.Intn(8) {
		case 0, 1:
			ops = append(ops, fmt.Sprintf("a:%s:%d", nm, 1+rng.Intn(9)))
		case 2, 3:
			ops = append(ops, "r:"+nm)
		case 4, 5, 6:
			ops = append(ops, "g:"+nm)
		default:
			ops = append(ops, "h:"+nm)
		}
	}
	return commaList(ops)
}
