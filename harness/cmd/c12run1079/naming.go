package main

// Tie of the generators' naming decisions (cmd/protoc-gen-router/main.go, cmd/protoc-gen-wrapper/main.go:
// generateFile) with the Lean model Naming.lean: where a service's router / wrapper is emitted and what
// the declared type is called, for the real proto files and for synthetic descriptors that put a proto
// file in unusual places (a directory that already ends in pb, underscores, the catch-all `traits`
// directory, package stems repeated in the service name in another letter case ...).

import (
	"bytes"
	"fmt"
	"os/exec"
	"path"
	"path/filepath"
	"strings"

	"google.golang.org/protobuf/proto"
	"google.golang.org/protobuf/types/descriptorpb"
	"google.golang.org/protobuf/types/pluginpb"

	"github.com/smart-core-os/sc-golang/verifharness/lib"
)

type namingCase struct {
	Kind    string `json:"kind"` // "naming"
	Proto   string `json:"proto_file"`
	Dir     string `json:"go_package_dir"`
	File    string `json:"proto_base"`
	Service string `json:"service"`
	Synth   bool   `json:"synthetic"`
}

type genFile struct{ name, content string }

// execPlugin runs a built plugin; the emitted files in emission order.
func execPlugin(bin string, req *pluginpb.CodeGeneratorRequest) ([]genFile, error) {
	in, err := proto.Marshal(req)
	if err != nil {
		return nil, err
	}
	cmd := exec.Command(bin)
	cmd.Stdin = bytes.NewReader(in)
	var stdout, stderr bytes.Buffer
	cmd.Stdout, cmd.Stderr = &stdout, &stderr
	if err := cmd.Run(); err != nil {
		return nil, fmt.Errorf("running %s: %v\n%s", filepath.Base(bin), err, stderr.String())
	}
	var resp pluginpb.CodeGeneratorResponse
	if err := proto.Unmarshal(stdout.Bytes(), &resp); err != nil {
		return nil, err
	}
	if resp.Error != nil {
		return nil, fmt.Errorf("%s: %s", filepath.Base(bin), resp.GetError())
	}
	var out []genFile
	for _, f := range resp.File {
		out = append(out, genFile{f.GetName(), f.GetContent()})
	}
	return out, nil
}

var synthDirs = []string{"traits", "electricpb", "foo_bar", "foo_barpb", "pb", "x_pb", "Traits", "my_traits", "apb", "p_b", "onoff", "on_offpb"}
var synthFiles = []string{"on_off", "thing", "pb", "a_b_c", "unit_pb", "traits"}
var synthServices = []string{"OnOffApi", "ONOFFINFO", "Onoff", "ThingApi", "FooBarHistory", "FOOBARpbApi", "Api", "PbApi", "ABCApi", "XPbApi", "MyTraitsApi", "UnitApi"}

func synthFile(i int, dir, file string) *descriptorpb.FileDescriptorProto {
	pkg := fmt.Sprintf("synth.c%d", i)
	str := descriptorpb.FieldDescriptorProto_TYPE_STRING
	opt := descriptorpb.FieldDescriptorProto_LABEL_OPTIONAL
	fd := &descriptorpb.FileDescriptorProto{
		Name:    proto.String(fmt.Sprintf("synth/c%d/%s/%s.proto", i, dir, file)),
		Package: proto.String(pkg),
		Syntax:  proto.String("proto3"),
		Options: &descriptorpb.FileOptions{GoPackage: proto.String("example.com/synth/c" + fmt.Sprint(i) + "/" + dir)},
		MessageType: []*descriptorpb.DescriptorProto{
			{Name: proto.String("Req"), Field: []*descriptorpb.FieldDescriptorProto{{Name: proto.String("name"), JsonName: proto.String("name"), Number: proto.Int32(1), Type: &str, Label: &opt}}},
			{Name: proto.String("Res")},
		},
	}
	for _, s := range synthServicesFor(dir, file) {
		fd.Service = append(fd.Service, &descriptorpb.ServiceDescriptorProto{
			Name: proto.String(s),
			Method: []*descriptorpb.MethodDescriptorProto{
				{Name: proto.String("GetIt"), InputType: proto.String("." + pkg + ".Req"), OutputType: proto.String("." + pkg + ".Res")},
				{Name: proto.String("PullIt"), InputType: proto.String("." + pkg + ".Req"), OutputType: proto.String("." + pkg + ".Res"), ServerStreaming: proto.Bool(true)},
			},
		})
	}
	return fd
}

// synthServicesFor leaves out a service whose whole name is the package stem: its local name would be
// empty, for which protoc-gen-wrapper panics (ident("")[:1]) — no such service exists in the API, and an
// empty type-name stem is outside what the property is about (observation, reported in the distribution).
func synthServicesFor(dir, file string) []string {
	src := dir
	if src == "traits" {
		src = file
	}
	stem := strings.TrimSuffix(strings.ReplaceAll(src, "_", ""), "pb")
	var out []string
	for _, s := range synthServices {
		if strings.EqualFold(s, stem) {
			continue
		}
		out = append(out, s)
	}
	return out
}

// declaredType: the first type a generated file declares.
func declaredType(name, content string) string {
	nf, err := normalise(filepath.Base(filepath.Dir(name)), name, content)
	if err != nil {
		return "?unparsable"
	}
	if i := strings.Index(nf.Key, ":type "); i >= 0 {
		return nf.Key[i+len(":type "):]
	}
	return "?" + strings.ReplaceAll(nf.Key, " ", "_")
}

func runNaming(res *lib.Result, drv *lib.Driver, tmp string, realReq *pluginpb.CodeGeneratorRequest) {
	tie := res.Tie("generator-naming", "K1", "the built protoc-gen-router and protoc-gen-wrapper are run on (a) the compiled descriptors of every proto file named by a go:generate line and (b) synthetic descriptors: every combination of Go package directory in {traits, electricpb, foo_bar, foo_barpb, pb, x_pb, Traits, my_traits, apb, p_b, onoff, on_offpb} x proto file base in {on_off, thing, pb, a_b_c, unit_pb, traits}, each with 12 services whose names repeat the package stem in various letter cases or not at all; per service the path of the emitted router and wrapper file and the type each declares (services matched to outputs by emission order), compared with the Lean emitRouter / emitWrapper; distinct = (directory, file base, service)")
	mon := res.Monitor("generator-naming", "plain-Go statement on the outputs for the real proto files (the current API descriptors): a service's router and wrapper are emitted into the same directory pkg/trait/<pkg>/ with the same file stem; <pkg> ends in pb exactly once more than nothing (no underscore; a directory that already is such a package is kept); the declared types are <name>Router / <Name>Wrapper (the wrapper's first letter upper-cased) for one <name> that is a suffix of the service's Go name")
	var cases []namingCase
	req := &pluginpb.CodeGeneratorRequest{}
	req.FileToGenerate = append(req.FileToGenerate, realReq.FileToGenerate...)
	req.ProtoFile = append(req.ProtoFile, realReq.ProtoFile...)
	synth := map[string]bool{}
	i := 0
	for _, d := range synthDirs {
		for _, f := range synthFiles {
			fd := synthFile(i, d, f)
			i++
			req.ProtoFile = append(req.ProtoFile, fd)
			req.FileToGenerate = append(req.FileToGenerate, fd.GetName())
			synth[fd.GetName()] = true
			if len(synthServicesFor(d, f)) != len(synthServices) {
				tie.Count("left out: service named exactly like the package stem (protoc-gen-wrapper panics on the empty local name)")
			}
		}
	}
	// the plugins walk the request's proto files in order and emit one file per service of every file to generate
	toGen := map[string]bool{}
	for _, p := range req.FileToGenerate {
		toGen[p] = true
	}
	for _, fd := range req.ProtoFile {
		if !toGen[fd.GetName()] {
			continue
		}
		gp := fd.GetOptions().GetGoPackage()
		if k := strings.Index(gp, ";"); k >= 0 {
			gp = gp[:k]
		}
		for _, sv := range fd.Service {
			cases = append(cases, namingCase{"naming", fd.GetName(), path.Base(gp), strings.TrimSuffix(path.Base(fd.GetName()), ".proto"), sv.GetName(), synth[fd.GetName()]})
		}
	}
	outs := map[string][]genFile{}
	for _, plugin := range []string{"protoc-gen-router", "protoc-gen-wrapper"} {
		o, err := execPlugin(filepath.Join(tmp, plugin), req)
		if err != nil {
			tie.Fail(err)
			return
		}
		if len(o) != len(cases) {
			tie.Fail(fmt.Errorf("%s emitted %d files for %d services", plugin, len(o), len(cases)))
			return
		}
		outs[plugin] = o
	}
	lines := make([]string, len(cases))
	for k, c := range cases {
		lines[k] = fmt.Sprintf("gen %s %s %s", c.Dir, c.File, c.Service)
	}
	var ans []string
	if drv != nil {
		var err error
		if ans, err = drv.Batch(lines); err != nil {
			tie.Fail(err)
			return
		}
	}
	for k, c := range cases {
		r, w := outs["protoc-gen-router"][k], outs["protoc-gen-wrapper"][k]
		rt, wt := declaredType(r.name, r.content), declaredType(w.name, w.content)
		code := fmt.Sprintf("%s %s %s %s", r.name, rt, w.name, wt)
		key := c.Dir + "/" + c.File + "/" + c.Service
		if drv != nil {
			tie.Record(key, true, c, ans[k], code)
		}
		if c.Synth {
			tie.Count("synthetic")
		} else {
			tie.Count("real")
		}
		// monitor: only what the generators do with the CURRENT API descriptors is the property's business;
		// the synthetic descriptors serve the correspondence between the model and the generators
		if c.Synth {
			continue
		}
		mon.Eval(key, true, nil)
		viol := func(class, what, exp, obs string) {
			mon.Violate("C12/generators/naming/"+class, what, c, exp, obs)
		}
		rd, wd := path.Dir(r.name), path.Dir(w.name)
		pkg := path.Base(rd)
		if rd != wd || path.Dir(rd) != "pkg/trait" {
			viol("router-and-wrapper-apart", "a service's router and wrapper are emitted side by side under pkg/trait/<pkg>/", "one directory pkg/trait/<pkg>", rd+" and "+wd)
			continue
		}
		rs, ws := strings.TrimSuffix(path.Base(r.name), "_router.pb.go"), strings.TrimSuffix(path.Base(w.name), "_wrap.pb.go")
		if rs != ws || rs == path.Base(r.name) || ws == path.Base(w.name) {
			viol("file-stem", "router and wrapper files share their stem: <stem>_router.pb.go, <stem>_wrap.pb.go", "same stem", path.Base(r.name)+" and "+path.Base(w.name))
		}
		src := c.Dir
		if src == "traits" {
			src = c.File
		}
		src = strings.ReplaceAll(src, "_", "")
		wantPkg := src
		if !strings.HasSuffix(src, "pb") {
			wantPkg = src + "pb"
		}
		if pkg != wantPkg {
			viol("package", "the package is the proto file's Go package directory (for the catch-all `traits`: the file's base name) without underscores, with `pb` appended unless it is there already", wantPkg, pkg)
		}
		name := strings.TrimSuffix(rt, "Router")
		capName := name
		if name != "" {
			capName = strings.ToUpper(name[:1]) + name[1:]
		}
		if name == rt || wt != capName+"Wrapper" || !strings.HasSuffix(c.Service, name) || strings.ToLower(name) != rs {
			viol("type-names", "the declared types are <name>Router and <Name>Wrapper (first letter upper-cased) for one <name> that is a suffix of the service's Go name, and the file stem is its lower case", "<name>Router / <Name>Wrapper / lower(<name>)", rt+" / "+wt+" / "+rs)
		}
	}
}
