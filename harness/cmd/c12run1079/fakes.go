package main

import (
	"context"
	"fmt"
	"io"
	"math/rand"
	"runtime"
	"strconv"
	"strings"
	"sync"
	"time"

	"google.golang.org/grpc"
	"google.golang.org/grpc/codes"
	"google.golang.org/grpc/metadata"
	"google.golang.org/grpc/status"
	"google.golang.org/protobuf/proto"
	"google.golang.org/protobuf/reflect/protoreflect"
	"google.golang.org/protobuf/reflect/protoregistry"
)

type ctxKey struct{}

// call is one call observed by a fake child connection.
type call struct {
	Client int
	Method string // full method, "/pkg.Service/Method"
	Req    proto.Message
	CtxOK  bool // the caller's context values are visible to the child
	Ctx    context.Context
}

// childPlan is what the fake children do when called (one plan per driven call).
type childPlan struct {
	// unary
	Resp proto.Message
	Err  error
	// server streaming
	OpenErr   error
	HeaderErr error
	Header    metadata.MD
	Msgs      []proto.Message
	Final     error // io.EOF or a status error
	Trailer   metadata.MD
	// a DEVICE behind a wrapped server (wrapchild.go): what it does on the context of the handler that called it
	Staged        metadata.MD   // grpc.SetHeader(ctx, ·) when the call arrives (staged, not sent)
	StagedTrailer metadata.MD   // grpc.SetTrailer(ctx, ·) when the call arrives
	USent         metadata.MD   // unary: grpc.SendHeader(ctx, ·) before answering
	Reuse         bool          // stream: every message handed out is overwritten once the handler has passed it on (at the next Recv)
	Scribble      proto.Message // what a reused message is overwritten with
	Yield         bool          // stream: yield the processor before each Recv returns (the receiver gets to its receive first)
	// a device that PARKS until the call's context ends (the caller goes away while the handler is running)
	ParkAt   string        // "": never; "h": inside Header() (nothing sent yet); "r<k>": inside the Recv after k messages; "u": unary, after staging / sending its header
	Parked   chan struct{} // closed when the device parks
	Left     chan struct{} // closed when the device has left the park
	LeftBy   string        // "ctx": its context ended; "timeout": nobody cancelled it
	parkOnce sync.Once
}

// park blocks until the call's context has ended and returns what a gRPC client stream returns then.
func (p *childPlan) park(ctx context.Context) (err error) {
	err = status.Error(codes.Internal, "parked twice")
	p.parkOnce.Do(func() {
		close(p.Parked)
		defer close(p.Left)
		select {
		case <-ctx.Done():
			p.LeftBy = "ctx"
			err = status.FromContextError(ctx.Err()).Err()
		case <-time.After(8 * time.Second):
			p.LeftBy = "timeout"
			err = status.Error(codes.Internal, "the device was never cancelled")
		}
	})
	return err
}

// stage does what a handler does with its context when the call arrives.
func (p *childPlan) stage(ctx context.Context) {
	if p.Staged != nil {
		_ = grpc.SetHeader(ctx, p.Staged)
	}
	if p.StagedTrailer != nil {
		_ = grpc.SetTrailer(ctx, p.StagedTrailer)
	}
}

type recorder struct {
	mu     sync.Mutex
	calls  []call
	plan   *childPlan
	recvs  int
	events []string // calls on the child's client stream and on the caller's server stream, in order
}

// event appends one call to the order log: o open, ch Header(), H SendHeader, h SetHeader, r Recv, s Send,
// ct Trailer(), T SetTrailer.
func (r *recorder) event(e string) {
	if r == nil {
		return
	}
	r.mu.Lock()
	r.events = append(r.events, e)
	r.mu.Unlock()
}

func (r *recorder) record(c call) {
	r.mu.Lock()
	r.calls = append(r.calls, c)
	r.mu.Unlock()
}

// endCtx is a context the harness ends by hand: as cancelled, or as past its deadline.
type endCtx struct {
	context.Context
	done chan struct{}
	mu   sync.Mutex
	err  error
}

func newEndCtx(parent context.Context) *endCtx {
	return &endCtx{Context: parent, done: make(chan struct{})}
}
func (c *endCtx) Done() <-chan struct{} { return c.done }
func (c *endCtx) Err() error {
	c.mu.Lock()
	defer c.mu.Unlock()
	return c.err
}
func (c *endCtx) end(err error) {
	c.mu.Lock()
	defer c.mu.Unlock()
	if c.err == nil {
		c.err = err
		close(c.done)
	}
}

// fakeConn is the grpc.ClientConnInterface behind one fake client (one per registered name).
type fakeConn struct {
	id  int
	rec *recorder
}

func (c *fakeConn) Invoke(ctx context.Context, method string, args, reply any, _ ...grpc.CallOption) error {
	req, _ := args.(proto.Message)
	var cl proto.Message
	if req != nil {
		cl = proto.Clone(req)
	}
	c.rec.record(call{Client: c.id, Method: method, Req: cl, CtxOK: ctx.Value(ctxKey{}) == "marker", Ctx: ctx})
	p := c.rec.plan
	if p == nil {
		return status.Error(codes.Internal, "no plan")
	}
	p.stage(ctx)
	if p.USent != nil {
		_ = grpc.SendHeader(ctx, p.USent)
	}
	if p.ParkAt == "u" {
		return p.park(ctx)
	}
	if p.Err != nil {
		return p.Err
	}
	if p.Resp != nil {
		if m, ok := reply.(proto.Message); ok {
			proto.Reset(m)
			if m.ProtoReflect().Descriptor().FullName() == p.Resp.ProtoReflect().Descriptor().FullName() {
				proto.Merge(m, p.Resp)
			}
		}
	}
	return nil
}

func (c *fakeConn) NewStream(ctx context.Context, _ *grpc.StreamDesc, method string, _ ...grpc.CallOption) (grpc.ClientStream, error) {
	p := c.rec.plan
	cs := &fakeClientStream{conn: c, ctx: ctx, method: method, plan: p}
	if p == nil {
		return nil, status.Error(codes.Internal, "no plan")
	}
	return cs, nil
}

type fakeClientStream struct {
	conn   *fakeConn
	ctx    context.Context
	method string
	plan   *childPlan
	next   int
	sent   bool
	handed []proto.Message // the handler's own messages this stream has filled in so far
}

func (s *fakeClientStream) Header() (metadata.MD, error) {
	s.conn.rec.event("ch")
	if s.plan.ParkAt == "h" {
		return nil, s.plan.park(s.ctx)
	}
	if s.plan.HeaderErr != nil {
		return nil, s.plan.HeaderErr
	}
	return s.plan.Header, nil
}
func (s *fakeClientStream) Trailer() metadata.MD {
	s.conn.rec.event("ct")
	return s.plan.Trailer
}
func (s *fakeClientStream) CloseSend() error         { return s.plan.OpenErr } // the call fails after the request was sent
func (s *fakeClientStream) Context() context.Context { return s.ctx }
func (s *fakeClientStream) SendMsg(m any) error {
	req, _ := m.(proto.Message)
	var cl proto.Message
	if req != nil {
		cl = proto.Clone(req)
	}
	s.conn.rec.record(call{Client: s.conn.id, Method: s.method, Req: cl, CtxOK: s.ctx.Value(ctxKey{}) == "marker", Ctx: s.ctx})
	s.conn.rec.event("o")
	s.plan.stage(s.ctx)
	return nil
}
func (s *fakeClientStream) RecvMsg(m any) error {
	s.conn.rec.mu.Lock()
	s.conn.rec.recvs++
	s.conn.rec.events = append(s.conn.rec.events, "r")
	s.conn.rec.mu.Unlock()
	if s.plan.Reuse {
		// the handler has passed the previous message on (its Send has returned): the message is the handler's
		// again, and this handler uses it for something else
		for _, old := range s.handed {
			proto.Reset(old)
			if s.plan.Scribble != nil {
				proto.Merge(old, s.plan.Scribble)
			}
		}
		s.handed = nil
	}
	if s.plan.Yield {
		runtime.Gosched()
	}
	if s.plan.ParkAt == "r"+strconv.Itoa(s.next) {
		return s.plan.park(s.ctx)
	}
	if s.next < len(s.plan.Msgs) {
		msg := s.plan.Msgs[s.next]
		s.next++
		if pm, ok := m.(proto.Message); ok {
			proto.Reset(pm)
			proto.Merge(pm, msg)
			s.handed = append(s.handed, pm)
		}
		return nil
	}
	if s.plan.Final == nil {
		return io.EOF
	}
	return s.plan.Final
}

// fakeServerStream is the caller's side of a server-streaming RPC.
type fakeServerStream struct {
	ctx           context.Context
	req           proto.Message
	gotReq        bool
	sendHeaderErr error
	failAt        int // -1: never
	sendErr       error

	headerCalled bool
	header       metadata.MD
	setHeader    []metadata.MD
	sent         []proto.Message
	sends        int
	trailerSet   bool
	trailer      metadata.MD
	rec          *recorder // shared order log (may be nil)
	transport    string    // how RecvMsg fills the handler's message: "" / "mg" merge (pkg/wrap), "ow" overwrite (grpc codec), "f<tok>" fail, "of<tok>" overwrite then fail
	recvErr      error     // the error of a failing transport
}

func (s *fakeServerStream) SetHeader(md metadata.MD) error {
	s.rec.event("h")
	s.setHeader = append(s.setHeader, md)
	return nil
}
func (s *fakeServerStream) SendHeader(md metadata.MD) error {
	s.rec.event("H")
	s.headerCalled = true
	s.header = md
	return s.sendHeaderErr
}
func (s *fakeServerStream) SetTrailer(md metadata.MD) {
	s.rec.event("T")
	s.trailerSet = true
	s.trailer = md
}
func (s *fakeServerStream) Context() context.Context { return s.ctx }
func (s *fakeServerStream) SendMsg(m any) error {
	s.rec.event("s")
	i := s.sends
	s.sends++
	if i == s.failAt {
		return s.sendErr
	}
	if pm, ok := m.(proto.Message); ok {
		s.sent = append(s.sent, proto.Clone(pm))
	}
	return nil
}
func (s *fakeServerStream) RecvMsg(m any) error {
	if s.gotReq {
		return io.EOF
	}
	s.gotReq = true
	return transportRecv(s.transport, s.recvErr, s.req, m)
}

// transportRecv is what a ServerStream.RecvMsg(m) does with the handler's message m when the client sent
// wire: grpc's codec decodes INTO m after resetting it (proto.Unmarshal), pkg/wrap's in-process stream
// merges, either may fail.
func transportRecv(kind string, failure error, wire proto.Message, m any) error {
	pm, ok := m.(proto.Message)
	if !ok {
		return status.Error(codes.Internal, "not a proto message")
	}
	switch {
	case kind == "" || kind == "mg":
		proto.Merge(pm, wire)
		return nil
	case kind == "ow" || strings.HasPrefix(kind, "of"):
		// (partial: some messages of the odd-type pool are proto2 with required fields)
		b, err := proto.MarshalOptions{AllowPartial: true}.Marshal(wire)
		if err != nil {
			return err
		}
		if err := (proto.UnmarshalOptions{AllowPartial: true}).Unmarshal(b, pm); err != nil {
			return err
		}
		if kind == "ow" {
			return nil
		}
		return failure
	case strings.HasPrefix(kind, "f"):
		return failure
	}
	return status.Error(codes.Internal, "unknown transport "+kind)
}

// captureRegistrar receives what a router's Register hands to a grpc server.
type captureRegistrar struct {
	desc *grpc.ServiceDesc
	impl any
}

func (c *captureRegistrar) RegisterService(desc *grpc.ServiceDesc, impl any) {
	c.desc, c.impl = desc, impl
}

// ---------------------------------------------------------------------------------------------
// tokens <-> real values

func tokErr(tok int, rng *rand.Rand) error {
	cs := []codes.Code{codes.Canceled, codes.Unknown, codes.InvalidArgument, codes.DeadlineExceeded, codes.NotFound,
		codes.AlreadyExists, codes.PermissionDenied, codes.ResourceExhausted, codes.FailedPrecondition, codes.Aborted,
		codes.OutOfRange, codes.Unimplemented, codes.Internal, codes.Unavailable, codes.DataLoss, codes.Unauthenticated}
	return status.Error(cs[rng.Intn(len(cs))], "tok"+strconv.Itoa(tok))
}

// errTok canonicalises an error returned to the caller: `-` nil, a child token, 5 for the router's
// own NotFound(name), else a description (which can never equal a model answer).
func errTok(err error, name string) string {
	if err == nil {
		return "-"
	}
	if err == io.EOF {
		return "?eof"
	}
	st, ok := status.FromError(err)
	if !ok {
		return "?" + strings.ReplaceAll(err.Error(), " ", "_")
	}
	if strings.HasPrefix(st.Message(), "tok") {
		if _, e := strconv.Atoi(st.Message()[3:]); e == nil {
			return st.Message()[3:]
		}
	}
	if st.Code() == codes.NotFound && st.Message() == name {
		return "5"
	}
	return "?" + st.Code().String() + ":" + strings.ReplaceAll(st.Message(), " ", "_")
}

func tokMD(key string, tok int) metadata.MD {
	return metadata.MD{key: []string{strconv.Itoa(tok)}, "x-extra": []string{"a", "b"}}
}

func mdTok(md metadata.MD, key string) string {
	if md == nil {
		return "nil"
	}
	v := md[key]
	if len(v) == 1 && len(md) == 2 && len(md["x-extra"]) == 2 && md["x-extra"][0] == "a" && md["x-extra"][1] == "b" {
		return v[0]
	}
	return "?" + strings.ReplaceAll(fmt.Sprint(md), " ", "_")
}

// ---------------------------------------------------------------------------------------------
// random messages

func newMessage(name protoreflect.FullName) (proto.Message, error) {
	mt, err := protoregistry.GlobalTypes.FindMessageByName(name)
	if err != nil {
		return nil, err
	}
	return mt.New().Interface(), nil
}

func randScalar(rng *rand.Rand, fd protoreflect.FieldDescriptor) (protoreflect.Value, bool) {
	switch fd.Kind() {
	case protoreflect.BoolKind:
		return protoreflect.ValueOfBool(true), true
	case protoreflect.Int32Kind, protoreflect.Sint32Kind, protoreflect.Sfixed32Kind:
		return protoreflect.ValueOfInt32(int32(rng.Intn(2000) - 1000)), true
	case protoreflect.Int64Kind, protoreflect.Sint64Kind, protoreflect.Sfixed64Kind:
		return protoreflect.ValueOfInt64(int64(rng.Intn(2000000) - 1000000)), true
	case protoreflect.Uint32Kind, protoreflect.Fixed32Kind:
		return protoreflect.ValueOfUint32(uint32(rng.Intn(100000))), true
	case protoreflect.Uint64Kind, protoreflect.Fixed64Kind:
		return protoreflect.ValueOfUint64(uint64(rng.Intn(100000))), true
	case protoreflect.FloatKind:
		return protoreflect.ValueOfFloat32(float32(rng.Intn(1000)) / 4), true
	case protoreflect.DoubleKind:
		return protoreflect.ValueOfFloat64(float64(rng.Intn(1000)) / 8), true
	case protoreflect.StringKind:
		return protoreflect.ValueOfString(fmt.Sprintf("s%d", rng.Intn(100000))), true
	case protoreflect.BytesKind:
		return protoreflect.ValueOfBytes([]byte{byte(rng.Intn(256)), byte(rng.Intn(256))}), true
	case protoreflect.EnumKind:
		vs := fd.Enum().Values()
		return protoreflect.ValueOfEnum(vs.Get(rng.Intn(vs.Len())).Number()), true
	}
	return protoreflect.Value{}, false
}

// fillRandom populates m with random content (depth-bounded); the field `name` at top level is left alone.
func fillRandom(rng *rand.Rand, m protoreflect.Message, depth int, top bool) {
	fds := m.Descriptor().Fields()
	for i := 0; i < fds.Len(); i++ {
		fd := fds.Get(i)
		if top && fd.TextName() == "name" {
			continue
		}
		if rng.Intn(10) < 3 {
			continue
		}
		switch {
		case fd.IsMap():
			if depth <= 0 {
				continue
			}
			kv, ok := randScalar(rng, fd.MapKey())
			if !ok {
				continue
			}
			mp := m.Mutable(fd).Map()
			if fd.MapValue().Message() != nil {
				v := mp.NewValue()
				fillRandom(rng, v.Message(), depth-1, false)
				mp.Set(kv.MapKey(), v)
			} else if v, ok := randScalar(rng, fd.MapValue()); ok {
				mp.Set(kv.MapKey(), v)
			}
		case fd.IsList():
			l := m.Mutable(fd).List()
			n := 1 + rng.Intn(2)
			for j := 0; j < n; j++ {
				if fd.Message() != nil {
					if depth <= 0 {
						break
					}
					v := l.NewElement()
					fillRandom(rng, v.Message(), depth-1, false)
					l.Append(v)
				} else if v, ok := randScalar(rng, fd); ok {
					l.Append(v)
				}
			}
		case fd.Message() != nil:
			if depth <= 0 {
				continue
			}
			fillRandom(rng, m.Mutable(fd).Message(), depth-1, false)
		default:
			if v, ok := randScalar(rng, fd); ok {
				m.Set(fd, v)
			}
		}
	}
}

func randomMessage(rng *rand.Rand, name protoreflect.FullName) (proto.Message, error) {
	m, err := newMessage(name)
	if err != nil {
		return nil, err
	}
	fillRandom(rng, m.ProtoReflect(), 2, true)
	return m, nil
}

// setName sets the string field `name` (if the message has one); reports whether it has.
func setName(m proto.Message, name string) bool {
	fd := m.ProtoReflect().Descriptor().Fields().ByTextName("name")
	if fd == nil || fd.Kind() != protoreflect.StringKind || fd.IsList() {
		return false
	}
	m.ProtoReflect().Set(fd, protoreflect.ValueOfString(name))
	return true
}
