// Harness for C12 (routers deliver each request to the client registered under its name).
//
// The binary built by ./check carries no router table (Go cannot look functions up by name at run
// time): on every invocation it scans <repo>/pkg/trait with go/ast, writes a table of every router
// constructor / client constructor / wrapper, rebuilds itself with that table and re-executes. So what
// is driven always follows the working tree: a new, removed or renamed service changes the table.
package main

import (
	"fmt"
	"os"

	"google.golang.org/grpc"

	"github.com/smart-core-os/sc-golang/pkg/router"
	"github.com/smart-core-os/sc-golang/verifharness/lib"
)

type routerLike interface {
	router.Router
	Register(server grpc.ServiceRegistrar)
}

type wrapLike interface {
	UnwrapService() (grpc.ClientConnInterface, grpc.ServiceDesc)
	Unwrap() any
}

type entry struct {
	Pkg, Router, GoSvc, SvcImport string
	New                           func(opts ...router.Option) routerLike
	NewClient                     func(cc grpc.ClientConnInterface) any
	WithFactory                   func(f func(string) (any, error)) router.Option
	Wrap                          func(server any) wrapLike
	AddTyped                      func(r routerLike, name string, client any) any
	RemoveTyped                   func(r routerLike, name string) any
	GetTyped                      func(r routerLike, name string) (any, error)
}

func (e entry) id() string { return e.Pkg + "." + e.Router }

var (
	tables      []entry
	tablesBuilt bool
)

func main() {
	if !tablesBuilt {
		os.Exit(selfBuildAndExec())
	}
	f := lib.ParseFlags()
	if f.Facts != "" {
		if err := writeFacts(f.Facts); err != nil {
			lib.Fatal(err)
		}
		return
	}
	if f.Replay != "" {
		os.Exit(replay(f))
	}
	res := lib.NewResult("C12", f)
	drv, err := lib.StartDriver(f.Driver)
	if err != nil {
		lib.Fatal(err)
	}
	defer drv.Close()
	res.Extra["routers"] = len(tables)
	runRegen(f, res, drv)
	runForward(f, res, drv)
	runE2ECases(f, res)
	runWrappers(f, res)
	runWrapChild(f, res, drv)
	runRegistry(f, res, drv)
	runOptions(f, res, drv)
	runReentrant(f, res, drv)
	runConc(f, res, drv)
	runLin(f, res, drv)
	runStress(f, res)
	runName(f, res, drv)
	runServed(f, res, drv)
	if err := res.Write(f.Out); err != nil {
		lib.Fatal(err)
	}
	fmt.Fprintf(os.Stderr, "c12: %d routers driven\n", len(tables))
}
