#!/usr/bin/env python3
"""
Run the registered checks against the seeded changes kept under /verif/seeded/<id>/.

  tools/seeded.py [--tier quick|thorough] [id ...]

For each seeded change: create a scratch worktree of /repo's HEAD under /tmp, `git apply` the
patch there, run `VERIF_REPO=<worktree> ./check <property> <tier>` (so /repo itself is never
touched and nothing is written to /verif/evidence), record whether a VIOLATION was reported,
remove the worktree. Writes /verif/seeded/RESULTS.json and prints a table.
"""
import json, os, subprocess, sys, shutil, time

ROOT = os.path.dirname(os.path.dirname(os.path.abspath(__file__)))
SEEDED = os.path.join(ROOT, "seeded")


def sh(cmd, **kw):
    p = subprocess.run(cmd, stdout=subprocess.PIPE, stderr=subprocess.STDOUT, text=True, **kw)
    return p.returncode, p.stdout


def merge_results(rp, results):
    """read-update-write of the shared results file under a lock, written atomically (several owners run this tool at once)"""
    import fcntl
    with open(rp + ".lock", "w") as lk:
        fcntl.flock(lk, fcntl.LOCK_EX)
        old = {}
        if os.path.exists(rp):
            try:
                old = json.load(open(rp))
            except ValueError:
                old = {}
        old.update(results)
        tmp = rp + ".tmp%d" % os.getpid()
        with open(tmp, "w") as f:
            json.dump(old, f, indent=1, sort_keys=True)
        os.replace(tmp, rp)


def main():
    args = sys.argv[1:]
    tier = "quick"
    if args[:1] == ["--tier"]:
        tier = args[1]
        args = args[2:]
    ids = args or sorted(d for d in os.listdir(SEEDED) if os.path.isdir(os.path.join(SEEDED, d)))
    results = {}
    for sid in ids:
        d = os.path.join(SEEDED, sid)
        meta = json.load(open(os.path.join(d, "meta.json")))
        if meta.get("retired"):
            continue
        prop = meta["property"]
        wt = "/tmp/seeded-wt-%s-%d" % (sid, os.getpid())
        sh(["git", "-C", "/repo", "worktree", "remove", "--force", wt])
        rc, out = sh(["git", "-C", "/repo", "worktree", "add", "--detach", wt, "HEAD"])
        if rc != 0:
            results[sid] = {"property": prop, "error": "worktree: " + out[-300:]}
            continue
        try:
            rc, out = sh(["git", "-C", wt, "apply", os.path.join(d, "patch.diff")])
            if rc != 0:
                rc, out = sh(["git", "-C", wt, "apply", "--3way", os.path.join(d, "patch.diff")])
            if rc != 0:
                results[sid] = {"property": prop, "error": "patch does not apply: " + out[-300:]}
                continue
            props = meta.get("check_properties", [prop])
            res = {"property": prop, "checks": {}}
            for p in props:
                t0 = time.time()
                env = dict(os.environ, VERIF_REPO=wt)
                rc, out = sh([os.path.join(ROOT, "check"), p, tier], cwd=ROOT, env=env)
                vio = [l for l in out.splitlines() if l.startswith("VIOLATION")]
                res["checks"][p] = {"exit": rc, "violations": vio[:5], "concrete": any("no-failing-input-found" not in l for l in vio),
                                    "wall_s": round(time.time() - t0, 1), "tail": out[-600:] if rc not in (0, 1) else ""}
            res["caught"] = any(c["exit"] == 1 and c["violations"] for c in res["checks"].values())
            results[sid] = res
            print("# %s %s" % (sid, "CAUGHT" if res["caught"] else "MISSED"), file=sys.stderr, flush=True)
        finally:
            sh(["git", "-C", "/repo", "worktree", "remove", "--force", wt])
            shutil.rmtree(wt, ignore_errors=True)
    rp = os.path.join(SEEDED, "RESULTS.json")
    merge_results(rp, results)
    for sid, r in sorted(results.items()):
        if "error" in r:
            print("%-28s %-4s ERROR %s" % (sid, r["property"], r["error"]))
        else:
            print("%-28s %-4s %s  %s" % (sid, r["property"], "CAUGHT" if r["caught"] else "MISSED",
                  "; ".join("%s exit=%d concrete=%s %.0fs" % (p, c["exit"], c["concrete"], c["wall_s"]) for p, c in r["checks"].items())))


if __name__ == "__main__":
    main()
