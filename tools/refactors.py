#!/usr/bin/env python3
"""
tools/refactors.py [id ...]
Run the registered checks against the behaviour-preserving refactors kept under /verif/refactors/<id>/
(patch.diff + meta.json {"property": "Cxx"}): apply each in a scratch worktree of /repo's HEAD and run
`VERIF_REPO=<worktree> ./check <property> quick`. A refactor must NOT raise an alarm (exit 0).
Writes /verif/refactors/RESULTS.json.
"""
import json, os, subprocess, sys, shutil, time
ROOT = os.path.dirname(os.path.dirname(os.path.abspath(__file__)))
REF = os.path.join(ROOT, "refactors")


def sh(cmd, **kw):
    p = subprocess.run(cmd, stdout=subprocess.PIPE, stderr=subprocess.STDOUT, text=True, **kw)
    return p.returncode, p.stdout


def merge_results(rp, results):
    """read-update-write of the shared results file under a lock, written atomically (several owners run this tool at once)"""
    import fcntl
    with open(rp + ".lock", "w") as lk:
        fcntl.flock(lk, fcntl.LOCK_EX)
        old = {}
        if os.path.exists(rp):
            try:
                old = json.load(open(rp))
            except ValueError:
                old = {}
        old.update(results)
        tmp = rp + ".tmp%d" % os.getpid()
        with open(tmp, "w") as f:
            json.dump(old, f, indent=1, sort_keys=True)
        os.replace(tmp, rp)


def main():
    ids = sys.argv[1:] or sorted(d for d in os.listdir(REF) if os.path.isdir(os.path.join(REF, d)))
    results = {}
    for rid in ids:
        d = os.path.join(REF, rid)
        meta = json.load(open(os.path.join(d, "meta.json")))
        if meta.get("retired"):
            continue
        wt = "/tmp/refac-wt-%s-%d" % (rid, os.getpid())
        sh(["git", "-C", "/repo", "worktree", "add", "--detach", wt, "HEAD"])
        try:
            rc, out = sh(["git", "-C", wt, "apply", os.path.join(d, "patch.diff")])
            if rc != 0:
                rc, out = sh(["git", "-C", wt, "apply", "--3way", os.path.join(d, "patch.diff")])
            if rc != 0:
                results[rid] = {"property": meta["property"], "error": "patch does not apply: " + out[-200:]}
                continue
            res = {"property": meta["property"], "checks": {}}
            for p in meta.get("check_properties", [meta["property"]]):
                t0 = time.time()
                rc, out = sh([os.path.join(ROOT, "check"), p, "quick"], cwd=ROOT, env=dict(os.environ, VERIF_REPO=wt))
                res["checks"][p] = {"exit": rc, "lines": [l[:300] for l in out.splitlines() if l.startswith(("VIOLATION", "BROKEN"))][:4],
                                    "wall_s": round(time.time() - t0, 1)}
            res["quiet"] = all(c["exit"] == 0 for c in res["checks"].values())
            results[rid] = res
        finally:
            sh(["git", "-C", "/repo", "worktree", "remove", "--force", wt])
            shutil.rmtree(wt, ignore_errors=True)
    rp = os.path.join(REF, "RESULTS.json")
    merge_results(rp, results)
    for rid, r in sorted(results.items()):
        if "error" in r:
            print("%-12s %-4s ERROR %s" % (rid, r["property"], r["error"]))
        else:
            print("%-12s %-4s %s %s" % (rid, r["property"], "quiet" if r["quiet"] else "ALARM",
                  "; ".join("%s exit=%d %s" % (p, c["exit"], " | ".join(c["lines"])[:200]) for p, c in r["checks"].items())))


if __name__ == "__main__":
    main()
