#!/bin/sh
# tools/stale.sh : list kept seeded changes / refactors whose patch no longer applies to /repo HEAD
cd "$(dirname "$0")/.."
for d in seeded/*/ refactors/*/; do
  [ -f "$d/patch.diff" ] || continue
  grep -q '"retired"' "$d/meta.json" 2>/dev/null && continue
  git -C /repo apply --check "$PWD/$d/patch.diff" 2>/dev/null || echo "STALE $d"
done
