#!/usr/bin/env python3
"""Regenerate /verif/MANIFEST.json from props/Cxx.json (fields under "manifest") so that the manifest
always lists exactly the checks that are integrated. Properties without "manifest.claimed": true are
listed under not_applicable with their reason."""
import json, os, glob
ROOT = os.path.dirname(os.path.dirname(os.path.abspath(__file__)))
props = {}
for line in open(os.path.join(ROOT, "properties.jsonl")):
    p = json.loads(line)
    props[p["id"]] = p
hooks_commits = json.load(open(os.path.join(ROOT, "tools", "hook_commits.json")))
checks, na, served = [], [], []
for pid in sorted(props):
    f = os.path.join(ROOT, "props", pid + ".json")
    cfg = json.load(open(f)) if os.path.exists(f) else {}
    m = cfg.get("manifest", {})
    if m.get("claimed"):
        served.append(pid)
        checks.append({
            "property_id": pid,
            "quick_cmd": "./check %s quick" % pid,
            "thorough_cmd": "./check %s thorough" % pid,
            "evidence_file": "/verif/evidence/%s.json" % pid,
            "replay_cmd_template": "./check replay {path}",
            "engine": "lean4-proof+correspondence",
            "technique": m["technique"],
            "level_claimed": {"category": m.get("category", "proof"), "text": m["text"], "design_ref": "DESIGN.md section 3 " + pid + " and section 9"},
            "level_note": m["level_note"],
        })
    else:
        na.append({"property_id": pid, "reason": m.get("reason", "check not integrated yet (work in progress); not claimed")})
man = {
    "version": 1,
    "setup_cmd": "./setup.sh",
    "hooks": {
        "guard": "verif",
        "enable": "go build -tags verif (the harness module /verif/harness replaces github.com/smart-core-os/sc-golang with /repo); hooks are internal/verifhook yield points and verif-tagged export files",
        "baseline_off_cmd": "cd /repo && go test -mod=mod -vet=off -count=1 -timeout 25m ./...",
        "source_commits": hooks_commits,
        "add_only": True,
    },
    "engines": [{
        "name": "lean4-proof+correspondence", "path": "/verif/check", "serves_properties": served,
        "kind_free_text": "Lean 4 theorems about an executable model (lean/ScVerif/Cxx), tied to /repo on every run by differential execution of the compiled Lean driver against the real Go code (harness/cmd/cxx, ties K1 random / K2 exhaustive / K3 regenerated facts / K4 forced schedules), plus a direct monitor of the property on the real code that yields concrete replays"}],
    "checks": checks,
    "not_applicable": na,
    "notes": "See DESIGN.md. Known findings (genuine defects recorded, not repaired) are in known_findings/<id>.json; fixed ones are 'fix:' commits in /repo listed there as status=fixed.",
}
json.dump(man, open(os.path.join(ROOT, "MANIFEST.json"), "w"), indent=1)
print("claimed:", " ".join(served))
print("not claimed:", " ".join(x["property_id"] for x in na))
