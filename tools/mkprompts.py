#!/usr/bin/env python3
"""
tools/mkprompts.py <wave-tag> <first-number> [extra-requirement-file]
Write, for every property, the two files a fresh *mutation* sub-agent is given (and nothing else of /verif):
  /tmp/props-<tag>/Cxx.txt         the property's text (statement, quantifier, why tests cannot settle it, anchors)
                                   and one line per change already kept for it (from seeded/Cxx-*/notes.md), so that a
                                   new wave differs from the earlier ones in mechanism and place
  /tmp/props-<tag>/PROMPT-Cxx.txt  the task: three changes numbered first..first+2, written to /tmp/mut-<tag>-Cxx-out/<n>/
The prompt text is the one used for waves 3-6 (DESIGN.md 10.1) with the wave's diversity requirement appended.
"""
import json, os, re, sys

ROOT = os.path.dirname(os.path.dirname(os.path.abspath(__file__)))

PROMPT = """You are a Go engineer helping to evaluate a verification tool by seeding realistic defects into a library. Work ONLY in your own scratch git worktree; never edit /repo itself, never use `git stash` (it is shared between worktrees: use `git diff > file; git checkout -- .; git apply file`) and never read or write anything under /verif (that directory is off limits: do not list it, read it or grep it).

Repository: /repo (Go library "sc-golang" for Smart Core: in-memory observable resource store pkg/resource with Value/Collection, field masks, CAS, change streams; internal/minibus event bus; gRPC trait models under pkg/trait, routers pkg/router, in-process wrappers pkg/wrap, pkg/group, pkg/cmp, pkg/time).

Setup (every shell call needs the env; it does not persist; every shell call prints a conda warning line first - ignore it):
  export GOFLAGS=-mod=mod GOPROXY=off GOSUMDB=off GOTOOLCHAIN=local
  git -C /repo worktree add --detach /tmp/mut-@TAG@-@PID@-wt HEAD
  cd /tmp/mut-@TAG@-@PID@-wt            # work here
No network. The test suite: `go build ./... && go test -vet=off -count=1 ./...` (about 10-20 s, longer while the machine is loaded; a couple of lightpb tween tests are timing-flaky under load - re-run once if only those fail).

Read the property you are to break: /tmp/props-@TAG@/@PID@.txt (statement, quantifier, anchors, and a list of changes earlier engineers already produced - yours must differ from those in mechanism AND location).

Task: produce THREE independent changes (numbered @N1@, @N2@ and @N3@) to the library's non-test source, each of which
  (a) BREAKS the property as stated (some clause of its statement becomes false for some input / operation sequence / schedule),
  (b) still compiles, and the complete existing test suite still passes, unedited,
  (c) looks like a plausible commit by a maintainer (a "simplification", "optimisation", "refactor", an off-by-one, a swapped order, a lost clone, a lock narrowed, a condition slightly wrong) - not sabotage that ordinary use would expose at once,
  (d) needs something SPECIFIC to manifest: a particular interleaving, a fault or cancel at a particular point, a multi-step sequence of operations, an unusual input or option combination, or two cooperating sites that each look fine alone. Prefer code paths and option combinations that are less obvious; spread the three changes over different functions/files among the anchors (and their callers/callees) of the property.
@EXTRA@
Each change is independent (applies alone to HEAD). Do not touch *_test.go files, generated *.pb.go files are allowed only if the property is about them. Do not change behaviour unrelated to the property. Files guarded by `//go:build verif` and calls to `verifhook.Yield(...)` are inert test instrumentation: leave them in place and unchanged (you may use the hooks in a demonstration if you want: build tag `verif`, package internal/verifhook).

For each change n in {@N1@,@N2@,@N3@} write, under /tmp/mut-@TAG@-@PID@-out/<n>/ :
  patch.diff     `git diff` of the change against HEAD (only the library change, not the demonstration)
  demo_test.go   a Go test file demonstrating the breakage: it PASSES on unchanged HEAD and FAILS with the patch applied. Its first comment lines must be exactly of the form
                     // place in: pkg/resource
                 (the package directory, relative to the repo root, into which the file is copied as zz_seeded_demo_test.go; use the package's own name in the `package` clause, so that unexported identifiers are usable) and, only if the race detector is needed,
                     // run with: -race
                 The demonstration must be deterministic or very nearly so (>= 95% failure with the patch, 100% pass without it), finish within 60 s, and must not rely on sleeping for luck: force the interleaving with channels, contexts, blocking subscribers, interceptor callbacks that signal/park, or the verifhook yield points.
  notes.md       what was changed and why it looks innocent; which clause of the property it breaks; a paragraph starting "Needs to manifest:" describing precisely what is needed to expose it (sequence, interleaving, options, inputs); why the existing tests do not see it.

Verify each yourself before finishing: on clean HEAD the demonstration passes; with the patch: `go build ./...` ok, the full suite passes, the demonstration fails. (Copy the demo into the package dir as zz_seeded_demo_test.go for these runs and remove it afterwards; `git diff > file; git checkout -- .` between changes.)

When done: `git -C /repo worktree remove --force /tmp/mut-@TAG@-@PID@-wt` and remove any other scratch files except /tmp/mut-@TAG@-@PID@-out. Your final message: for each change one paragraph (file/function, what it breaks, what it needs to manifest, verification results). If you could not produce a change that meets (a)-(d), say so rather than delivering a weak one.
"""

DEFAULT_EXTRA = """Diversity requirement for this wave (many changes already exist per property, see the list): of your three changes, (i) at least ONE must be in code OUTSIDE the anchor files on which the property nevertheless depends (a caller or callee of the anchored functions, a constructor/option-plumbing function, a trait-level adapter or server that uses the anchored code, or generated code) such that the property's statement still becomes false; (ii) if the property admits concurrency, cancellation or faults at all, at least ONE must need a precise interleaving / cancel / fault point to manifest (force it deterministically in the demonstration); (iii) at least ONE must need an unusual-but-legal input or option COMBINATION (three or more conditions that must hold together). Avoid re-using a mechanism family from the list (e.g. if "lost clone" or "append on caller's slice" or "lock released early" was already used, pick another family)."""


def main():
    tag, first = sys.argv[1], int(sys.argv[2])
    extra = open(sys.argv[3]).read().strip() if len(sys.argv) > 3 else DEFAULT_EXTRA
    out = "/tmp/props-%s" % tag
    os.makedirs(out, exist_ok=True)
    for line in open(os.path.join(ROOT, "properties.jsonl")):
        p = json.loads(line)
        pid = p["id"]
        txt = ["PROPERTY %s: %s" % (pid, p["title"]), "", "Statement:", p["statement"], "",
               "Quantifier (what it must hold for):", str(p["quantifier"]), "",
               "Why tests cannot settle it:", p["why_tests_cant"], "",
               "Anchors (where it lives in the code):", json.dumps(p["anchors"], indent=1), "", "",
               "Changes ALREADY PRODUCED by earlier engineers for this property (do something different in mechanism and location):"]
        ids = sorted((d for d in os.listdir(os.path.join(ROOT, "seeded")) if d.startswith(pid + "-")),
                     key=lambda s: int(s.split("-")[1]))
        for sid in ids:
            np_ = os.path.join(ROOT, "seeded", sid, "notes.md")
            if os.path.exists(np_):
                t = re.sub(r"\s+", " ", open(np_).read()).strip()
                txt.append("- " + t[:300])
        open(os.path.join(out, pid + ".txt"), "w").write("\n".join(txt) + "\n")
        pr = (PROMPT.replace("@EXTRA@", extra).replace("@TAG@", tag).replace("@PID@", pid)
              .replace("@N1@", str(first)).replace("@N2@", str(first + 1)).replace("@N3@", str(first + 2)))
        open(os.path.join(out, "PROMPT-%s.txt" % pid), "w").write(pr)
    print("wrote", out)


if __name__ == "__main__":
    main()
