#!/usr/bin/env python3
"""tools/status_table.py : print the per-property status table (markdown) from evidence/*.json and known_findings/*.json"""
import json, glob, os
ROOT = os.path.dirname(os.path.dirname(os.path.abspath(__file__)))
print("| id | obligations discharged | ties (kind: cases in the last run) | known findings | fixed entries | last run |")
print("|---|---|---|---|---|---|")
tot = 0
for p in sorted(glob.glob(os.path.join(ROOT, "props", "C*.json"))):
    pid = os.path.basename(p)[:-5]
    ev = json.load(open(os.path.join(ROOT, "evidence", pid + ".json")))
    kf = json.load(open(os.path.join(ROOT, "known_findings", pid + ".json")))
    kf = kf if isinstance(kf, list) else kf.get("findings", kf.get("entries", []))
    known = sum(1 for e in kf if e.get("status") == "known")
    fixed = sum(1 for e in kf if e.get("status") == "fixed")
    c = ev["coverage"]
    tot += c["discharged"]
    ties = ", ".join("%s[%s]: %d" % (t["name"], t["kind"], t["evaluations"]) for t in c.get("ties", []))
    print("| %s | %d/%d | %s | %d | %d | %s %.0f s |" % (pid, c["discharged"], c["obligations"], ties, known, fixed, ev["tier"], ev["wall_s"]))
print("\ntotal obligations discharged: %d" % tot)
