#!/usr/bin/env python3
"""
tools/import_ref.py <Cxx> [n ...]
Verify a sub-agent's behaviour-preserving refactor from /tmp/ref-<Cxx>-out/<n>/ (patch.diff, notes.md) in a
fresh scratch worktree of /repo (HEAD): the patch applies, `go build ./...` and `go build -tags verif ./...`
succeed and the existing suite passes. Keep it under /verif/refactors/<Cxx>-<n>/ only if all hold.
(Behaviour preservation itself is argued in notes.md and reviewed by the lead when a check alarms on it.)
"""
import json, os, shutil, subprocess, sys

ENV = dict(os.environ, GOFLAGS="-mod=mod", GOPROXY="off", GOSUMDB="off", GOTOOLCHAIN="local")


def sh(cmd, cwd=None, timeout=1500):
    p = subprocess.run(cmd, cwd=cwd, env=ENV, stdout=subprocess.PIPE, stderr=subprocess.STDOUT, text=True, timeout=timeout)
    return p.returncode, p.stdout


def main():
    pid = sys.argv[1]
    src = os.environ.get("REF_SRC", "/tmp/ref-%s-out") % pid
    ns = sys.argv[2:] or sorted(d for d in os.listdir(src) if os.path.isdir(os.path.join(src, d)))
    for n in ns:
        d = os.path.join(src, n)
        rid = "%s-%s" % (pid, n)
        wt = "/tmp/impref-wt-%s" % rid
        sh(["git", "-C", "/repo", "worktree", "remove", "--force", wt])
        sh(["git", "-C", "/repo", "worktree", "add", "--detach", wt, "HEAD"])
        res = {"id": rid}
        try:
            rc, out = sh(["git", "-C", wt, "apply", os.path.join(d, "patch.diff")])
            if rc != 0:
                rc, out = sh(["git", "-C", wt, "apply", "--3way", os.path.join(d, "patch.diff")])
                res["three_way"] = rc == 0
            if rc != 0:
                res["error"] = "patch does not apply: " + out[-300:]
                print(rid, json.dumps(res)); continue
            rcb, _ = sh(["go", "build", "./..."], cwd=wt)
            rcv, outv = sh(["go", "build", "-tags", "verif", "./..."], cwd=wt)
            rcs, outs = sh(["go", "test", "-vet=off", "-count=1", "./..."], cwd=wt)
            if rcs != 0:
                rcs, outs = sh(["go", "test", "-vet=off", "-count=1", "./..."], cwd=wt)
            res.update(build="ok" if rcb == 0 else "FAIL", build_verif="ok" if rcv == 0 else "FAIL: " + outv[-300:],
                       suite="pass" if rcs == 0 else "FAIL: " + "\n".join(l for l in outs.splitlines() if "FAIL" in l)[:300])
            ok = rcb == 0 and rcv == 0 and rcs == 0
            res["verified"] = ok
            if ok:
                tgt = os.path.join("/verif/refactors", rid)
                os.makedirs(tgt, exist_ok=True)
                sh(["git", "-C", wt, "add", "-A"])
                rc, diff = sh(["git", "-C", wt, "diff", "--cached"])
                open(os.path.join(tgt, "patch.diff"), "w").write(diff)
                if os.path.exists(os.path.join(d, "notes.md")):
                    shutil.copy(os.path.join(d, "notes.md"), os.path.join(tgt, "notes.md"))
                rc, head = sh(["git", "-C", "/repo", "rev-parse", "--short", "HEAD"])
                json.dump({"property": pid, "kind": "behaviour-preserving refactor", "against_repo_commit": head.strip(),
                           "source": "independent sub-agent given only the property text and a scratch worktree",
                           "verified_by_lead": {"build": "ok", "build_tags_verif": "ok", "existing_suite": "pass"}},
                          open(os.path.join(tgt, "meta.json"), "w"), indent=1)
            print(rid, json.dumps(res))
        finally:
            sh(["git", "-C", "/repo", "worktree", "remove", "--force", wt])
            shutil.rmtree(wt, ignore_errors=True)


if __name__ == "__main__":
    main()
