#!/usr/bin/env python3
"""
tools/mkround.py <round-no> <first-seed-no> <last-seed-no> [extras.json]
Write /verif/round<round-no>/Cxx.md (the task of each property's owner for that round) from the first-pass results of
the newest wave in seeded/RESULTS.json: which of the new changes the owning quick check missed (with the first lines of
the change's notes.md) and which it caught. extras.json maps a property id to extra task text (defect repairs, growth).
"""
import json, os, re, sys

ROOT = os.path.dirname(os.path.dirname(os.path.abspath(__file__)))
rnd, lo, hi = sys.argv[1], int(sys.argv[2]), int(sys.argv[3])
extras = json.load(open(sys.argv[4])) if len(sys.argv) > 4 else {}
res = json.load(open(os.path.join(ROOT, "seeded", "RESULTS.json")))
out = os.path.join(ROOT, "round" + rnd)
os.makedirs(out, exist_ok=True)
for i in range(1, 21):
    pid = "C%02d" % i
    missed, caught, absent = [], [], []
    for n in range(lo, hi + 1):
        sid = "%s-%d" % (pid, n)
        d = os.path.join(ROOT, "seeded", sid)
        if not os.path.isdir(d):
            absent.append(sid); continue
        r = res.get(sid, {})
        own = r.get("checks", {}).get(pid, {})
        notes = re.sub(r"\s+", " ", open(os.path.join(d, "notes.md")).read()).strip()[:900]
        if own.get("exit") == 1 and own.get("violations"):
            caught.append(sid + ("" if own.get("concrete") else " (only as no-failing-input-found: make it concrete)"))
        else:
            missed.append("- **%s**: %s" % (sid, notes))
    t = ["# Round %s (last) task for the owner of %s" % (rnd, pid), "",
         "Read /verif/ROUND4_BRIEF.md first (binding; same rules and ownership; rounds 4-%d are integrated and committed; DESIGN.md section 10, esp. 10.7, summarises them). "
         "Wave-7 seeded changes are /verif/seeded/%s-%d … -%d (patch.diff, demo_test.go, notes.md)%s. Re-run one with `cd /verif && python3 tools/seeded.py %s-%d`; "
         "afterwards re-run ALL of yours (`python3 tools/seeded.py $(ls seeded | grep '^%s-')`) and all your refactors (`python3 tools/refactors.py $(ls refactors | grep '^%s-')`). "
         "Never `pkill`/`kill` by pattern (another owner's runs match too); never `git stash/checkout/reset/clean`." % (int(rnd) - 1, pid, lo, hi, (" (not produced: " + ", ".join(absent) + ")") if absent else "", pid, lo, pid, pid), ""]
    if missed:
        t += ["MISSED by your quick check at first pass (close the CLASS, never the patch; a concrete replay is wanted):"] + missed + [""]
    else:
        t += ["All wave-7 changes of your property were caught at first pass.", ""]
    if caught:
        t += ["CAUGHT at first pass: " + ", ".join(caught) + ".", ""]
    if pid in extras:
        t += ["ALSO (do this FIRST if it is a repair of /repo, within the first 20 minutes, so that stale patches can be re-ported in time):", extras[pid], ""]
    t += ["NOTE: other owners may commit `fix:` repairs to /repo during the first 25 minutes of this round (lightpb MemoryDevice.UpdateBrightness honours update_mask; electricpb deleteMode also refuses the active mode under another spelling of its id; pkg/cmp time.go no longer panics on dynamicpb children; possibly Collection.Update/Add testing the empty id before the id interceptor). "
          "After about 30 minutes run `git -C /repo log --oneline -6`, re-run your quick check on /repo, and if a tie breaks because your model or oracle mirrored the old behaviour, adapt it (model the fixed code). The lead re-ports stale kept patches; if `tools/seeded.py` reports 'patch does not apply' for one of yours, skip it.", ""]
    t += ["Then, if time remains, keep growing the proof (ROUND4_BRIEF.md task 2) from your own latest 'not covered' list. This is the LAST round of the session (about 70 minutes): "
          "leave your check green, fast (quick ≤ ~40 s on a calm machine) and quiet on every refactor; prefer robustness over new features in the last 25 minutes; "
          "update the manifest block of props/%s.json so that it is accurate." % pid, ""]
    open(os.path.join(out, pid + ".md"), "w").write("\n".join(t))
print("wrote", out)
