#!/bin/sh
# tools/regress.sh [parallelism]: run every kept seeded change and refactor against its checks, one worker per property
# (the per-property lock in ./check serialises runs of one property anyway); logs in out/regress/.
cd "$(dirname "$0")/.."
P=${1:-8}
mkdir -p out/regress
for i in $(seq -w 1 20); do echo C$i; done | xargs -P $P -I{} sh -c 'python3 tools/seeded.py $(ls seeded | grep "^{}-") > out/regress/seeded-{}.log 2>&1; python3 tools/refactors.py $(ls refactors | grep "^{}-") > out/regress/refactors-{}.log 2>&1'
echo "seeded: caught $(cat out/regress/seeded-*.log | grep -c " CAUGHT ") missed $(cat out/regress/seeded-*.log | grep -c " MISSED ") error $(cat out/regress/seeded-*.log | grep -c " ERROR ")"
cat out/regress/seeded-*.log | grep " MISSED \| ERROR "
echo "refactors: $(cat out/regress/refactors-*.log | grep -ci "quiet") quiet, alarms: $(cat out/regress/refactors-*.log | grep -ci "alarm")"
cat out/regress/refactors-*.log | grep -i "alarm\|error"
