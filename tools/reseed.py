#!/usr/bin/env python3
"""
tools/reseed.py <seeded-or-refactor-id> <worktree>
Re-port a kept change onto /repo's current HEAD. <worktree> is a scratch worktree of /repo HEAD in which the
ported change has been applied by hand (uncommitted). For a seeded change (seeded/<id>): verify that the
demonstration passes on HEAD without the change and fails with it, that it builds and that the existing suite
passes; for a refactor (refactors/<id>): builds (also -tags verif) and the suite passes. Then rewrite
patch.diff from the worktree and record the port in meta.json.
"""
import json, os, re, shutil, subprocess, sys

ENV = dict(os.environ, GOFLAGS="-mod=mod", GOPROXY="off", GOSUMDB="off", GOTOOLCHAIN="local")
ROOT = os.path.dirname(os.path.dirname(os.path.abspath(__file__)))


def sh(cmd, cwd=None, timeout=1500):
    p = subprocess.run(cmd, cwd=cwd, env=ENV, stdout=subprocess.PIPE, stderr=subprocess.STDOUT, text=True, timeout=timeout)
    return p.returncode, p.stdout


def main():
    sid, wt = sys.argv[1], os.path.abspath(sys.argv[2])
    note = sys.argv[3] if len(sys.argv) > 3 else ""
    seeded = os.path.isdir(os.path.join(ROOT, "seeded", sid))
    d = os.path.join(ROOT, "seeded" if seeded else "refactors", sid)
    sh(["git", "-C", wt, "add", "-A"])
    rc, diff = sh(["git", "-C", wt, "diff", "--cached"])
    if not diff.strip():
        print(sid, "no change in worktree"); sys.exit(1)
    rcb, outb = sh(["go", "build", "./..."], cwd=wt)
    rcv, outv = sh(["go", "build", "-tags", "verif", "./..."], cwd=wt)
    rcs, outs = sh(["go", "test", "-vet=off", "-count=1", "./..."], cwd=wt)
    if rcs != 0:
        rcs, outs = sh(["go", "test", "-vet=off", "-count=1", "./..."], cwd=wt)
    res = {"build": rcb == 0, "build_verif": rcv == 0, "suite": rcs == 0}
    ok = rcb == 0 and rcv == 0 and rcs == 0
    if seeded:
        demo = open(os.path.join(d, "demo_test.go")).read()
        pkg = re.search(r"place in:\s*(\S+)", demo).group(1).strip().rstrip("/")
        extra = []
        if "//go:build verif" in demo:
            extra += ["-tags", "verif"]
        if re.search(r"run with:\s*-race", demo):
            extra += ["-race"]
            ENV["CGO_ENABLED"] = "1"
        dst = os.path.join(wt, pkg, "zz_seeded_demo_test.go")
        shutil.copy(os.path.join(d, "demo_test.go"), dst)
        rc1, out1 = sh(["go", "test", "-vet=off", "-count=1"] + extra + ["./" + pkg], cwd=wt)
        # without the change: stash the diff away by reverse-applying it
        p = subprocess.run(["git", "-C", wt, "apply", "-R", "--index"], input=diff, text=True, env=ENV,
                           stdout=subprocess.PIPE, stderr=subprocess.STDOUT)
        rc0, out0 = sh(["go", "test", "-vet=off", "-count=1"] + extra + ["./" + pkg], cwd=wt)
        subprocess.run(["git", "-C", wt, "apply", "--index"], input=diff, text=True, env=ENV)
        os.remove(dst)
        res.update(demo_without="pass" if rc0 == 0 else "FAIL", demo_with="fail" if rc1 != 0 else "PASS", reverse_applied=p.returncode == 0)
        ok = ok and rc0 == 0 and rc1 != 0 and p.returncode == 0
    print(sid, json.dumps(res), "OK" if ok else "NOT OK")
    if not ok:
        sys.exit(1)
    open(os.path.join(d, "patch.diff"), "w").write(diff)
    mp = os.path.join(d, "meta.json")
    meta = json.load(open(mp))
    rc, head = sh(["git", "-C", "/repo", "rev-parse", "--short", "HEAD"])
    meta["ported_to_repo_commit"] = head.strip()
    if note:
        meta["port_note"] = note
    json.dump(meta, open(mp, "w"), indent=1)


if __name__ == "__main__":
    main()
