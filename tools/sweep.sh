#!/bin/sh
# tools/sweep.sh <tier> <seed>...   run every registered check for the given seeds; print one line per run
# (development aid; results are not evidence)
tier=$1; shift
cd "$(dirname "$0")/.."
for s in "$@"; do
  for f in props/C*.json; do
    p=$(basename $f .json)
    out=$(VERIF_SEED=$s ./check $p $tier 2>&1); rc=$?
    echo "seed=$s $p rc=$rc $(echo "$out" | grep -c '^VIOLATION') violations; $(echo "$out" | grep -E '^check' | sed 's/.*; //')"
    [ $rc -ne 0 ] && echo "$out" | grep -E 'VIOLATION|BROKEN' | cut -c1-400
  done
done
