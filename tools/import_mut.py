#!/usr/bin/env python3
"""
tools/import_mut.py <Cxx> [n ...]
Verify a sub-agent's seeded change from /tmp/mut-<Cxx>-out/<n>/ in a fresh scratch worktree of /repo
(HEAD): (a) without the patch the demonstration passes; (b) with the patch: it builds, the existing
test suite passes, the demonstration fails. Keep it under /verif/seeded/<Cxx>-<n>/ only if all hold.
"""
import json, os, re, shutil, subprocess, sys

ENV = dict(os.environ, GOFLAGS="-mod=mod", GOPROXY="off", GOSUMDB="off", GOTOOLCHAIN="local")


def sh(cmd, cwd=None, timeout=1500):
    p = subprocess.run(cmd, cwd=cwd, env=ENV, stdout=subprocess.PIPE, stderr=subprocess.STDOUT, text=True, timeout=timeout)
    return p.returncode, p.stdout


def main():
    pid = sys.argv[1]
    src = os.environ.get("MUT_SRC", "/tmp/mut-%s-out") % pid
    ns = sys.argv[2:] or sorted(d for d in os.listdir(src) if os.path.isdir(os.path.join(src, d)))
    for n in ns:
        d = os.path.join(src, n)
        sid = "%s-%s" % (pid, n)
        wt = "/tmp/imp-wt-%s" % sid
        sh(["git", "-C", "/repo", "worktree", "remove", "--force", wt])
        rc, out = sh(["git", "-C", "/repo", "worktree", "add", "--detach", wt, "HEAD"])
        res = {"property": pid, "id": sid}
        try:
            demo = open(os.path.join(d, "demo_test.go")).read()
            m = re.search(r"place in:\s*(\S+)", demo)
            pkg = m.group(1).strip().rstrip("/") if m else None
            if not pkg:
                print(sid, "no 'place in' line"); continue
            extra = []
            if "//go:build verif" in demo:
                extra += ["-tags", "verif"]
            if re.search(r"run with:\s*-race", demo):
                extra += ["-race"]
                ENV["CGO_ENABLED"] = "1"
            dst = os.path.join(wt, pkg, "zz_seeded_demo_test.go")
            shutil.copy(os.path.join(d, "demo_test.go"), dst)
            rc0, out0 = sh(["go", "test", "-vet=off", "-count=1"] + extra + ["./" + pkg], cwd=wt)
            res["demo_without_patch"] = "pass" if rc0 == 0 else "FAIL"
            rc, out = sh(["git", "-C", wt, "apply", os.path.join(d, "patch.diff")])
            if rc != 0:
                rc, out = sh(["git", "-C", wt, "apply", "--3way", os.path.join(d, "patch.diff")])
            if rc != 0:
                res["error"] = "patch does not apply to HEAD: " + out[-300:]
                print(sid, res); continue
            rc1, out1 = sh(["go", "test", "-vet=off", "-count=1"] + extra + ["./" + pkg], cwd=wt)
            res["demo_with_patch"] = "fail" if rc1 != 0 else "PASS"
            os.remove(dst)
            rcb, outb = sh(["go", "build", "./..."], cwd=wt)
            rcs, outs = sh(["go", "test", "-vet=off", "-count=1", "./..."], cwd=wt)
            if rcs != 0:  # one retry: the suite has timing-sensitive tests
                rcs, outs = sh(["go", "test", "-vet=off", "-count=1", "./..."], cwd=wt)
            res["build_with_patch"] = "ok" if rcb == 0 else "FAIL"
            res["suite_with_patch"] = "pass" if rcs == 0 else "FAIL: " + "\n".join(l for l in outs.splitlines() if "FAIL" in l)[:300]
            ok = rc0 == 0 and rc1 != 0 and rcb == 0 and rcs == 0
            res["verified"] = ok
            if ok:
                tgt = os.path.join("/verif/seeded", sid)
                os.makedirs(tgt, exist_ok=True)
                # regenerate the patch against current HEAD so that it applies cleanly later
                sh(["git", "-C", wt, "add", "-A"])
                rc, diff = sh(["git", "-C", wt, "diff", "--cached"])
                open(os.path.join(tgt, "patch.diff"), "w").write(diff)
                shutil.copy(os.path.join(d, "demo_test.go"), os.path.join(tgt, "demo_test.go"))
                notes = open(os.path.join(d, "notes.md")).read() if os.path.exists(os.path.join(d, "notes.md")) else ""
                open(os.path.join(tgt, "notes.md"), "w").write(notes)
                rc, head = sh(["git", "-C", "/repo", "rev-parse", "--short", "HEAD"])
                meta = {"property": pid, "breaks": pid, "demo_package": pkg, "against_repo_commit": head.strip(),
                        "needs_to_manifest": (re.search(r"(?is)needs?[^\n]*\n?(.{0,400})", notes) or [None, ""])[0][:500] if notes else "",
                        "verified_by_lead": {"demo_without_patch": "pass", "demo_with_patch": "fail", "build_with_patch": "ok", "existing_suite_with_patch": "pass",
                                             "commands": ["git apply patch.diff", "go build ./...", "go test -vet=off -count=1 ./...", "go test -vet=off -count=1 " + " ".join(extra) + " ./" + pkg + " (with demo_test.go copied in)"]},
                        "source": "independent sub-agent given only the property text and a scratch worktree"}
                json.dump(meta, open(os.path.join(tgt, "meta.json"), "w"), indent=1)
            print(sid, json.dumps(res))
        finally:
            sh(["git", "-C", "/repo", "worktree", "remove", "--force", wt])
            shutil.rmtree(wt, ignore_errors=True)


if __name__ == "__main__":
    main()
