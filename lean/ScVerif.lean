-- Root of the `ScVerif` library.  Every property's `Props` module is imported here so that a plain
-- `lake build` checks every theorem.
import ScVerif.Base.Line
