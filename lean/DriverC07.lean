import ScVerif.C07.Drv
def main : IO Unit := ScVerif.Line.runDriverS ScVerif.C07.DrvState.start ScVerif.C07.handle
