import ScVerif.C07.Drv
def main : IO Unit := ScVerif.Line.runDriver ScVerif.C07.handle
