import ScVerif.C08.Drv
def main : IO Unit := ScVerif.Line.runDriver ScVerif.C08.handle
