import ScVerif.C06.Drv
def main : IO Unit := ScVerif.Line.runDriverS ([] : ScVerif.C05.Schema) ScVerif.C06.handleS
