import ScVerif.C06.Drv
def main : IO Unit := ScVerif.Line.runDriver ScVerif.C06.handle
