import ScVerif.C14.Drv
def main : IO Unit := ScVerif.Line.runDriverS ScVerif.C14.Acc.init ScVerif.C14.handle
