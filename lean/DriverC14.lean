import ScVerif.C14.Drv
def main : IO Unit := ScVerif.Line.runDriverS ({} : ScVerif.C14.DrvState) ScVerif.C14.handleAll
