import ScVerif.C14.Drv
def main : IO Unit := ScVerif.Line.runDriver ScVerif.C14.handle
