import ScVerif.C18.Drv
def main : IO Unit := ScVerif.Line.runDriver ScVerif.C18.handle
