import ScVerif.C01.Drv
def main : IO Unit := ScVerif.Line.runDriverS ScVerif.C01.DrvState.none ScVerif.C01.handleS
