import ScVerif.C01.Drv
def main : IO Unit := ScVerif.Line.runDriver ScVerif.C01.handle
