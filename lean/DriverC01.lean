import ScVerif.C01.NestedDrv
def main : IO Unit := ScVerif.Line.runDriverS ({} : ScVerif.C01.NSt) ScVerif.C01.handleN
