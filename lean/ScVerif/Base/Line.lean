/-
Line protocol shared by every driver executable.

One request per line on stdin, one canonical answer per line on stdout.  Tokens are separated by
single spaces; a driver's `handle` receives the tokens.  Nothing here is property specific and
nothing here is proved about: it is I/O glue (part of the trusted base of the correspondence check).
-/
namespace ScVerif.Line

def tokens (line : String) : List String :=
  (line.trimAscii.toString.splitOn " ").filter (· ≠ "")

/-- Parse a decimal integer with optional leading `-`.  Rejects anything else. -/
def parseInt? (s : String) : Option Int := s.toInt?

def parseNat? (s : String) : Option Nat := s.toNat?

def showBool (b : Bool) : String := if b then "true" else "false"

def parseBool? (s : String) : Option Bool :=
  if s = "true" || s = "1" || s = "T" then some true
  else if s = "false" || s = "0" || s = "F" then some false
  else none

def showIntList (xs : List Int) : String :=
  "[" ++ ",".intercalate (xs.map toString) ++ "]"

/-- Parse `a,b,c` (possibly empty string or `-` meaning the empty list) into integers. -/
def parseIntList? (s : String) : Option (List Int) :=
  if s = "-" || s = "" then some []
  else (s.splitOn ",").mapM parseInt?

partial def loop (h : IO.FS.Stream) (out : IO.FS.Stream) (handle : List String → String) : IO Unit := do
  let line ← h.getLine
  if line.isEmpty then
    out.flush
    return ()
  if line.startsWith "#flush" then
    out.flush
    loop h out handle
  else
    out.putStrLn (handle (tokens line))
    loop h out handle

/-- Standard `main` of a driver: answer every line with `handle`. -/
def runDriver (handle : List String → String) : IO Unit := do
  let stdin ← IO.getStdin
  let stdout ← IO.getStdout
  loop stdin stdout handle

/-- Stateful variant: the handler threads a state through the lines. -/
partial def loopS {σ : Type} (h : IO.FS.Stream) (out : IO.FS.Stream)
    (handle : σ → List String → σ × String) (s : σ) : IO Unit := do
  let line ← h.getLine
  if line.isEmpty then
    out.flush
    return ()
  if line.startsWith "#flush" then
    out.flush
    loopS h out handle s
  else
    let (s', ans) := handle s (tokens line)
    out.putStrLn ans
    loopS h out handle s'

def runDriverS {σ : Type} (init : σ) (handle : σ → List String → σ × String) : IO Unit := do
  let stdin ← IO.getStdin
  let stdout ← IO.getStdout
  loopS stdin stdout handle init

end ScVerif.Line
