/-!
# C02 — model of concurrent writers on a `resource.Value` / `resource.Collection`

The model follows `/repo/pkg/resource/{atomic,collection,value,opt}.go` (as of fix 41c35d0; the later 4fcd11c only
changes which event type `Collection.Update` publishes after the commit, which is C03's subject):

* `GetAndUpdate` = `read` (RLock; first `get`) ▸ `change` (no lock; `WriteRequest.changeFn`) ▸
  `commit` (Lock; second `get`; `proto.Equal`; `Aborted` or `save`).  `Value.set` and
  `Collection.Update` return after the commit (the publication that follows is C03's subject).
* `Collection.Update`'s `GetFn`: expect-absent, not-found, create-if-absent with the provisional
  `created` message; on the re-validation read of the create path existence is re-checked (the fix).
* `Collection.Delete` = `read` (RLock) ▸ up to five attempts, each `check` (no lock) ▸ `Lock`; compare the
  item *pointer* with the one read; retry with the item just seen, or delete.
* `Value.set` has its own `GetFn` (`r.value`, possibly nil, never an error) and its own `SaveFn`
  (`r.value = message; r.changeTime = request.updateTime(r.clock)`); `Collection.Update`'s `SaveFn` stores a
  fresh `*item` with `changeTime = writeRequest.updateTime(c.clock)`.  The stamp is modelled (`Config.stamp`)
  together with the clock it is read from (`Env.clock`, read through the step counter `Config.tick`) and
  `WithWriteTime`: the stamp is NOT a version (a frozen or coarse clock, or equal write times, repeat it).
* `WithGenIDIfAbsent` with an empty id: `Collection.genID` runs inside the first `get` (RLock held, `rngMu`
  held): up to ten candidates are drawn from the rng (`Env.cand`, read through the counter `Config.rng`),
  the first one that is not stored is the id of this call from then on (the closure variable `id`).

One step of a thread is exactly one lock-delimited section (or the lock-free change function).
Messages are abstract: any type with decidable equality (`proto.Equal`) and a distinguished `empty`
message (`msg.ProtoReflect().New()`).  Stored items carry a `Ref` (a fresh number per `save`): Go
pointer identity of `*item`, which is what `Delete` compares.

Ghost state (not in the code; only to state the theorems): the commit log, and per operation the
log length at invocation, at its linearization point, and at its response.
-/
namespace ScVerif.C02

/- Ids, refs (item pointer identities) and thread ids are natural numbers. -/

/-- gRPC status codes the write path produces itself, plus whatever an expected-check callback returns. -/
inductive Err
  | aborted | alreadyExists | failedPrecondition | notFound | unavailable
  | other (n : Nat)
  deriving DecidableEq, Repr

/-- Abstract messages: `proto.Equal` is decidable equality, `empty` is a freshly allocated message. -/
class Msg (M : Type) where
  empty : M

def setAt {α : Type} (f : Nat → α) (i : Nat) (v : α) : Nat → α := fun j => if j = i then v else f j

@[simp] theorem setAt_same {α : Type} (f : Nat → α) (i : Nat) (v : α) : setAt f i v i = v := by
  simp [setAt]

theorem setAt_other {α : Type} (f : Nat → α) {i j : Nat} (v : α) (h : j ≠ i) : setAt f i v j = f j := by
  simp [setAt, h]

/-- `Value.Set` / `Collection.Update` / `Collection.Add` with the options that matter under concurrency. -/
structure UpdOp (M : Type) where
  id : Nat
  /-- `Value.set`: `get` is `r.value` (possibly nil), never an error; the flags below are unused. -/
  isValue : Bool
  expectAbsent : Bool
  createIfAbsent : Bool
  /-- `WithExpectedValue` -/
  expect : Option M
  /-- `WithExpectedCheck`; sees the old value as Go passes it (nil or a message) -/
  check : Option M → Option Err
  /-- `interceptBefore ▸ masked merge ▸ interceptAfter` as a function of the old value -/
  f : Option M → M
  /-- `WithWriteTime` -/
  writeTime : Option Nat := none
  /-- empty id + `WithGenIDIfAbsent`: `id` is chosen by `Collection.genID` during the first read; in a
  program the `id` field of such a call is meaningless, in a record it is the generated id -/
  genId : Bool := false

/-- `Collection.Delete`. -/
structure DelOp (M : Type) where
  id : Nat
  allowMissing : Bool
  expect : Option M
  check : M → Option Err

inductive Op (M : Type)
  | upd (u : UpdOp M)
  | del (d : DelOp M)

abbrev Res (M : Type) := Except Err (Option M)

instance instDecEqRes {M : Type} [DecidableEq M] : DecidableEq (Res M) := fun a b =>
  match a, b with
  | .ok x, .ok y =>
    if h : x = y then isTrue (by rw [h]) else isFalse (by intro h'; injection h' with h'; exact h h')
  | .error x, .error y =>
    if h : x = y then isTrue (by rw [h]) else isFalse (by intro h'; injection h' with h'; exact h h')
  | .ok _, .error _ => isFalse (by intro h; cases h)
  | .error _, .ok _ => isFalse (by intro h; cases h)

variable {M : Type} [DecidableEq M] [Msg M]

/-- `WriteRequest.changeFn` (opt.go): expected value, expected check, then the merge pipeline. -/
def UpdOp.change (u : UpdOp M) (old : Option M) : Except Err M :=
  if u.expect.isSome ∧ old ≠ u.expect then .error .failedPrecondition
  else match u.check old with
    | some e => .error e
    | none => .ok (u.f old)

/-- The checks `Collection.Delete` runs on the item it read (check first, then expected value). -/
def DelOp.pre (d : DelOp M) (b : M) : Option Err :=
  match d.check b with
  | some e => some e
  | none => if d.expect.isSome ∧ some b ≠ d.expect then some .failedPrecondition else none

/-! ## Sequential specification: a map `Id → Option M`, one step per call -/

abbrev SStore (M : Type) := Nat → Option M

/-- The old value a write sees, or the error that refuses it. -/
def specRead (u : UpdOp M) (cur : Option M) : Except Err (Option M) :=
  if u.isValue then .ok cur
  else match cur with
    | some b => if u.expectAbsent then .error .alreadyExists else .ok (some b)
    | none => if u.createIfAbsent then .ok (some Msg.empty) else .error .notFound

def specUpd (u : UpdOp M) (s : SStore M) : Res M × SStore M :=
  match specRead u (s u.id) with
  | .error e => (.error e, s)
  | .ok old =>
    match u.change old with
    | .error e => (.error e, s)
    | .ok new => (.ok (some new), setAt s u.id (some new))

def specDel (d : DelOp M) (s : SStore M) : Res M × SStore M :=
  match s d.id with
  | none => if d.allowMissing then (.ok none, s) else (.error .notFound, s)
  | some b =>
    match d.pre b with
    | some e => (.error e, s)
    | none => (.ok (some b), setAt s d.id none)

def specStep (op : Op M) (s : SStore M) : Res M × SStore M :=
  match op with
  | .upd u => specUpd u s
  | .del d => specDel d s

/-! ## The concurrent model -/

abbrev Store (M : Type) := Nat → Option (Nat × M)

def absS (s : Store M) : SStore M := fun i => (s i).map (·.2)

/-- First `get` of `Collection.Update` / `Value.set` (under RLock): value read and the `created` flag. -/
def readUpd (u : UpdOp M) (cur : Option (Nat × M)) : Except Err (Option M × Bool) :=
  if u.isValue then .ok (cur.map (·.2), false)
  else match cur with
    | some (_, b) => if u.expectAbsent then .error .alreadyExists else .ok (some b, false)
    | none => if u.createIfAbsent then .ok (some Msg.empty, true) else .error .notFound

/-- Second `get` (under Lock); its error is ignored by `GetAndUpdate`, so an error reads as nil.
`fixed = false` is the code before 41c35d0, where the create path returned `created` unconditionally. -/
def secondGet (fixed : Bool) (u : UpdOp M) (created : Bool) (cur : Option (Nat × M)) : Option M :=
  if u.isValue then cur.map (·.2)
  else if created then
    (if fixed then
      match cur with
      | some (_, b) => if u.expectAbsent then none else some b
      | none => some Msg.empty
     else some Msg.empty)
  else match cur with
    | some (_, b) => if u.expectAbsent then none else some b
    | none => if u.createIfAbsent then some Msg.empty else none

inductive Pc (M : Type)
  | idle
  | uChange (u : UpdOp M) (rd : Option M) (created : Bool)
  | uCommit (u : UpdOp M) (rd : Option M) (created : Bool) (new : M)
  | dTry (d : DelOp M) (seen : Option (Nat × M)) (attempt : Nat)

/-- How a finished call is accounted for (ghost). -/
inductive Kind
  /-- took effect: it owns the commit-log entry at its linearization index -/
  | committed
  /-- the sequential specification itself refuses it (or it is a no-op) at its linearization index -/
  | refused
  /-- lost a race: `Aborted` / `Unavailable` -/
  | raced
  deriving DecidableEq, Repr

/-- Record of a finished call.  `inv`, `lin`, `resp` are commit-log lengths (ghost logical time):
at invocation, at the linearization point, at response. -/
structure Rec (M : Type) where
  op : Op M
  res : Res M
  kind : Kind
  inv : Nat
  lin : Nat
  resp : Nat

structure Thread (M : Type) where
  prog : List (Op M)
  pc : Pc M
  done : List (Rec M)
  invAt : Nat
  readAt : Nat

/-- Commit-log entry (ghost): which call of which thread took effect. -/
structure Entry (M : Type) where
  tid : Nat
  idx : Nat
  op : Op M
  /-- the change time stamped by this commit (unused for Delete) -/
  time : Nat := 0

/-- What the model is parametric in besides the programs: the clock (`resource.Clock`, instant shown at the
`k`-th step; the constructor read instant 0) and the id generator (`cand n i` = candidate decoded from the
`n`-th `rng.Read`, which was the `i`-th try of its `genID` call, i.e. `6+i` bytes long). -/
structure Env where
  clock : Nat → Nat
  cand : Nat → Nat → Nat

/-- A linearization event (ghost): call `idx` of thread `tid`, what it reported, and its linearization index
(a commit-log position: committed calls ARE the log entry at that position, refused calls are linearized
just before it). -/
structure Ev (M : Type) where
  tid : Nat
  idx : Nat
  op : Op M
  res : Res M
  lin : Nat
  committed : Bool

structure Config (M : Type) where
  store : Store M
  nextRef : Nat
  log : List (Entry M)
  threads : Nat → Thread M
  /-- `Value.changeTime` / `item.changeTime` per id -/
  stamp : Nat → Nat
  /-- steps executed so far: the instant the clock shows -/
  tick : Nat
  /-- `rng.Read` calls made so far -/
  rng : Nat
  /-- ghost: the refused calls finished so far, by linearization index, in the order they finished -/
  refusedAt : Nat → List (Ev M) := fun _ => []

def replay (s₀ : SStore M) (log : List (Entry M)) : SStore M :=
  log.foldl (fun s e => (specStep e.op s).2) s₀

def Thread.finish (th : Thread M) (op : Op M) (res : Res M) (kind : Kind) (lin resp : Nat) : Thread M :=
  { th with pc := .idle, done := th.done ++ [⟨op, res, kind, th.invAt, lin, resp⟩] }

def Config.setThread (c : Config M) (t : Nat) (th : Thread M) : Config M :=
  { c with threads := setAt c.threads t th }

/-- `GenerateUniqueId` (id.go) as `Collection.genID` calls it: `fuel` tries left, this is try `i`;
returns the id (none = attempts exhausted) and the rng position afterwards. -/
def genID (cand : Nat → Nat → Nat) (present : Nat → Bool) : (fuel : Nat) → (i : Nat) → (rng : Nat) → Option Nat × Nat
  | 0, _, rng => (none, rng)
  | n + 1, i, rng =>
    if present (cand rng i) then genID cand present n (i + 1) (rng + 1) else (some (cand rng i), rng + 1)

/-- "handle empty ids, generating them": the call with its id filled in (none: generation failed, Aborted). -/
def resolveId (env : Env) (c : Config M) (u : UpdOp M) : Option (UpdOp M) × Nat :=
  if u.genId then
    match genID env.cand (fun i => (c.store i).isSome) 10 0 c.rng with
    | (some i, r) => (some { u with id := i }, r)
    | (none, r) => (none, r)
  else (some u, c.rng)

/-- invoke + first locked section -/
def stepIdle (env : Env) (c : Config M) (t : Nat) (th : Thread M) : Config M :=
  match th.prog with
  | [] => c
  | .upd u₀ :: rest =>
    let now := c.log.length
    let th := { th with prog := rest, invAt := now, readAt := now }
    match resolveId env c u₀ with
    | (none, r) =>
      ({ c with rng := r }).setThread t (th.finish (.upd u₀) (.error .aborted) .raced now now)
    | (some u, r) =>
      let c := { c with rng := r }
      match readUpd u (c.store u.id) with
      | .error e => c.setThread t (th.finish (.upd u) (.error e) .refused now now)
      | .ok (rd, created) => c.setThread t { th with pc := .uChange u rd created }
  | .del d :: rest =>
    let now := c.log.length
    c.setThread t { th with prog := rest, invAt := now, readAt := now, pc := .dTry d (c.store d.id) 0 }

/-- the change function, no lock held -/
def stepChange (c : Config M) (t : Nat) (th : Thread M) (u : UpdOp M) (rd : Option M) (created : Bool) :
    Config M :=
  match u.change rd with
  | .error e => c.setThread t (th.finish (.upd u) (.error e) .refused th.readAt c.log.length)
  | .ok new => c.setThread t { th with pc := .uCommit u rd created new }

/-- `WriteRequest.updateTime` -/
def UpdOp.updateTime (u : UpdOp M) (env : Env) (tick : Nat) : Nat :=
  match u.writeTime with
  | some w => w
  | none => env.clock tick

/-- re-validation and save under the write lock (`SaveFn`: the value and its change time) -/
def stepCommit (fixed : Bool) (env : Env) (c : Config M) (t : Nat) (th : Thread M) (u : UpdOp M) (rd : Option M)
    (created : Bool) (new : M) : Config M :=
  let now := c.log.length
  if rd ≠ secondGet fixed u created (c.store u.id) then
    c.setThread t (th.finish (.upd u) (.error .aborted) .raced now now)
  else
    { c with
      store := setAt c.store u.id (some (c.nextRef, new))
      nextRef := c.nextRef + 1
      log := c.log ++ [⟨t, th.done.length, .upd u, u.updateTime env c.tick⟩]
      threads := setAt c.threads t (th.finish (.upd u) (.ok (some new)) .committed now (now + 1))
      stamp := setAt c.stamp u.id (u.updateTime env c.tick) }

/-- one attempt of `Collection.Delete`: checks on the item last seen, then the locked section -/
def stepDel (c : Config M) (t : Nat) (th : Thread M) (d : DelOp M) (seen : Option (Nat × M)) (attempt : Nat) :
    Config M :=
  let now := c.log.length
  match seen with
  | none =>
    c.setThread t (th.finish (.del d) (if d.allowMissing then .ok none else .error .notFound) .refused th.readAt now)
  | some (r, b) =>
    match d.pre b with
    | some e => c.setThread t (th.finish (.del d) (.error e) .refused th.readAt now)
    | none =>
      if (c.store d.id).map (·.1) ≠ some r then
        -- someone changed the item: retry with what is stored now, at most 5 attempts in all
        if attempt + 1 < 5 then
          c.setThread t { th with pc := .dTry d (c.store d.id) (attempt + 1), readAt := now }
        else
          c.setThread t (th.finish (.del d) (.error .unavailable) .raced now now)
      else
        { c with
          store := setAt c.store d.id none
          nextRef := c.nextRef
          log := c.log ++ [⟨t, th.done.length, .del d, 0⟩]
          threads := setAt c.threads t (th.finish (.del d) (.ok (some b)) .committed now (now + 1)) }

/-- One atomic step of thread `t`. Every step is enabled: locks are only held inside a step. -/
def stepCore (fixed : Bool) (env : Env) (c : Config M) (t : Nat) : Config M :=
  let th := c.threads t
  match th.pc with
  | .idle => stepIdle env c t th
  | .uChange u rd created => stepChange c t th u rd created
  | .uCommit u rd created new => stepCommit fixed env c t th u rd created new
  | .dTry d seen attempt => stepDel c t th d seen attempt

/-- ghost bookkeeping: if the step finished a call that the specification itself refuses, file its event
under its linearization index -/
def noteRefused (c c' : Config M) (t : Nat) : Nat → List (Ev M) :=
  match (c'.threads t).done.drop (c.threads t).done.length with
  | [r] =>
    if r.kind = .refused then
      setAt c.refusedAt r.lin (c.refusedAt r.lin ++ [⟨t, (c.threads t).done.length, r.op, r.res, r.lin, false⟩])
    else c.refusedAt
  | _ => c.refusedAt

def step (fixed : Bool) (env : Env) (c : Config M) (t : Nat) : Config M :=
  { stepCore fixed env c t with tick := c.tick + 1, refusedAt := noteRefused c (stepCore fixed env c t) t }

def run (fixed : Bool) (env : Env) (c : Config M) (sched : List Nat) : Config M :=
  sched.foldl (step fixed env) c

/-- Initial configuration: contents `s₀`, thread `t` runs `progs t`. -/
def initCfg (s₀ : SStore M) (progs : Nat → List (Op M)) : Config M :=
  { store := fun i => (s₀ i).map (fun b => (0, b))
    nextRef := 1
    log := []
    threads := fun t => ⟨progs t, .idle, [], 0, 0⟩
    stamp := fun _ => 0
    tick := 1
    rng := 0
    refusedAt := fun _ => [] }

end ScVerif.C02
