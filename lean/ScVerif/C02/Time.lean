import ScVerif.C02.Lin
/-!
# C02 — real time at the granularity of single steps (ghost instrumentation and its invariant)

The records of `Model.lean` measure time in commit-log lengths, which cannot tell apart two calls that were
invoked, refused and answered while the log did not grow.  Here every step of a run is additionally stamped with
the step counter (`Config.tick`, the instant the injected clock shows): `Times.invT t n` is the step at which call
`n` of thread `t` was invoked (its first locked section), `Times.respT t n` the step at which it responded, and
`Times.lenAt k` the length of the commit log when step `k` began.  `trun` is `run` with that bookkeeping on the
side (`trun_fst`: the configuration it computes is exactly the one `run` computes).

`TInv` links the two notions of time: `r.inv = lenAt (invT)`, `r.resp = lenAt (respT + 1)`, the log only grows,
and the refused calls filed under one linearization index are listed in the order they responded.
-/
set_option linter.unusedSectionVars false
set_option linter.unusedVariables false
namespace ScVerif.C02

variable {M : Type} [DecidableEq M] [Msg M]

/-- ghost: step-level clock readings -/
structure Times where
  invT : Nat → Nat → Nat := fun _ _ => 0
  respT : Nat → Nat → Nat := fun _ _ => 0
  lenAt : Nat → Nat := fun _ => 0

def set2 (f : Nat → Nat → Nat) (t n v : Nat) : Nat → Nat → Nat :=
  fun t' n' => if t' = t ∧ n' = n then v else f t' n'

/-- the thread is between its first read and its response -/
def inFlight (th : Thread M) : Bool :=
  match th.pc with
  | .idle => false
  | _ => true

/-- the thread's next step invokes a call -/
def starts (th : Thread M) : Bool :=
  match th.pc, th.prog with
  | .idle, _ :: _ => true
  | _, _ => false

/-- bookkeeping for the step that thread `t` takes from `c` (at instant `c.tick`) -/
def tstep (fixed : Bool) (env : Env) (c : Config M) (g : Times) (t : Nat) : Times :=
  let n := (c.threads t).done.length
  { invT := if starts (c.threads t) = true then set2 g.invT t n c.tick else g.invT
    respT := if n < ((stepCore fixed env c t).threads t).done.length then set2 g.respT t n c.tick else g.respT
    lenAt := setAt g.lenAt (c.tick + 1) (stepCore fixed env c t).log.length }

def trun (fixed : Bool) (env : Env) : Config M → Times → List Nat → Config M × Times
  | c, g, [] => (c, g)
  | c, g, t :: rest => trun fixed env (step fixed env c t) (tstep fixed env c g t) rest

theorem trun_fst (fixed : Bool) (env : Env) (c : Config M) (g : Times) (sched : List Nat) :
    (trun fixed env c g sched).1 = run fixed env c sched := by
  induction sched generalizing c g with
  | nil => rfl
  | cons t rest ih => exact ih _ _

/-! ### What one step does to the stepping thread, and to nobody else -/

theorem stepCore_others (fixed : Bool) (env : Env) (c : Config M) (t t' : Nat) (h : t' ≠ t) :
    (stepCore fixed env c t).threads t' = c.threads t' := by
  unfold stepCore
  simp only []
  cases (c.threads t).pc with
  | idle =>
    simp only []
    unfold stepIdle
    cases (c.threads t).prog with
    | nil => rfl
    | cons op rest =>
      cases op with
      | upd u₀ =>
        simp only []
        cases resolveId env c u₀ with
        | mk ou r =>
        cases ou with
        | none => simp [Config.setThread, setAt, h]
        | some u =>
          simp only []
          cases readUpd u (c.store u.id) with
          | error e => simp [Config.setThread, setAt, h]
          | ok p => simp [Config.setThread, setAt, h]
      | del d => simp [Config.setThread, setAt, h]
  | uChange u rd created =>
    simp only []
    unfold stepChange
    split <;> simp [Config.setThread, setAt, h]
  | uCommit u rd created new =>
    simp only []
    unfold stepCommit
    simp only []
    split <;> simp [Config.setThread, setAt, h]
  | dTry d seen attempt =>
    simp only []
    unfold stepDel
    simp only []
    cases seen with
    | none => simp [Config.setThread, setAt, h]
    | some p =>
      obtain ⟨r, b⟩ := p
      simp only []
      cases d.pre b with
      | some e => simp [Config.setThread, setAt, h]
      | none =>
        simp only []
        split
        · split <;> simp [Config.setThread, setAt, h]
        · simp [setAt, h]

inductive TStep (c c' : Config M) (t : Nat) : Prop
  | noop (hs : starts (c.threads t) = false) (hf : inFlight (c.threads t) = false)
      (hth : c'.threads t = c.threads t) (hl : c'.log = c.log)
  | invoke (hs : starts (c.threads t) = true) (hd : (c'.threads t).done = (c.threads t).done)
      (hf' : inFlight (c'.threads t) = true) (hinv : (c'.threads t).invAt = c.log.length) (hl : c'.log = c.log)
  | invokeFin (hs : starts (c.threads t) = true) (r : Rec M)
      (hd : (c'.threads t).done = (c.threads t).done ++ [r]) (hf' : inFlight (c'.threads t) = false)
      (hri : r.inv = c.log.length) (hrr : r.resp = c.log.length) (hl : c'.log = c.log)
  | inner (hf : inFlight (c.threads t) = true) (hd : (c'.threads t).done = (c.threads t).done)
      (hf' : inFlight (c'.threads t) = true) (hinv : (c'.threads t).invAt = (c.threads t).invAt)
      (hl : c'.log = c.log)
  | finish (hf : inFlight (c.threads t) = true) (r : Rec M)
      (hd : (c'.threads t).done = (c.threads t).done ++ [r]) (hf' : inFlight (c'.threads t) = false)
      (hri : r.inv = (c.threads t).invAt) (hrr : r.resp = c'.log.length) (hl : c.log.length ≤ c'.log.length)

theorem setThread_self (c : Config M) (t : Nat) (th' : Thread M) : (c.setThread t th').threads t = th' := by
  simp [Config.setThread, setAt]

theorem stepCore_tstep (fixed : Bool) (env : Env) (c : Config M) (t : Nat) :
    TStep c (stepCore fixed env c t) t := by
  unfold stepCore
  simp only []
  cases hpc : (c.threads t).pc with
  | idle =>
    simp only []
    unfold stepIdle
    cases hprog : (c.threads t).prog with
    | nil => exact .noop (by simp [starts, hpc, hprog]) (by simp [inFlight, hpc]) rfl rfl
    | cons op rest =>
      have hs : starts (c.threads t) = true := by simp [starts, hpc, hprog]
      cases op with
      | upd u₀ =>
        simp only []
        cases resolveId env c u₀ with
        | mk ou r =>
        cases ou with
        | none =>
          refine .invokeFin hs ⟨.upd u₀, .error .aborted, .raced, c.log.length, c.log.length, c.log.length⟩
            ?_ ?_ rfl rfl rfl
          · simp [Config.setThread, setAt, Thread.finish]
          · simp [Config.setThread, setAt, Thread.finish, inFlight]
        | some u =>
          simp only []
          cases readUpd u (c.store u.id) with
          | error e =>
            refine .invokeFin hs ⟨.upd u, .error e, .refused, c.log.length, c.log.length, c.log.length⟩
              ?_ ?_ rfl rfl rfl
            · simp [Config.setThread, setAt, Thread.finish]
            · simp [Config.setThread, setAt, Thread.finish, inFlight]
          | ok p =>
            refine .invoke hs ?_ ?_ ?_ rfl
            · simp [Config.setThread, setAt]
            · simp [Config.setThread, setAt, inFlight]
            · simp [Config.setThread, setAt]
      | del d =>
        refine .invoke hs ?_ ?_ ?_ rfl
        · simp [Config.setThread, setAt]
        · simp [Config.setThread, setAt, inFlight]
        · simp [Config.setThread, setAt]
  | uChange u rd created =>
    have hf : inFlight (c.threads t) = true := by simp [inFlight, hpc]
    simp only []
    unfold stepChange
    split
    · next e _ =>
      refine .finish hf ⟨.upd u, .error e, .refused, (c.threads t).invAt, (c.threads t).readAt, c.log.length⟩
        ?_ ?_ rfl rfl (Nat.le_refl _)
      · simp [Config.setThread, setAt, Thread.finish]
      · simp [Config.setThread, setAt, Thread.finish, inFlight]
    · refine .inner hf ?_ ?_ ?_ rfl
      · simp [Config.setThread, setAt]
      · simp [Config.setThread, setAt, inFlight]
      · simp [Config.setThread, setAt]
  | uCommit u rd created new =>
    have hf : inFlight (c.threads t) = true := by simp [inFlight, hpc]
    simp only []
    unfold stepCommit
    simp only []
    split
    · refine .finish hf ⟨.upd u, .error .aborted, .raced, (c.threads t).invAt, c.log.length, c.log.length⟩
        ?_ ?_ rfl rfl (Nat.le_refl _)
      · simp [Config.setThread, setAt, Thread.finish]
      · simp [Config.setThread, setAt, Thread.finish, inFlight]
    · refine .finish hf ⟨.upd u, .ok (some new), .committed, (c.threads t).invAt, c.log.length, c.log.length + 1⟩
        ?_ ?_ rfl ?_ ?_
      · simp [setAt, Thread.finish]
      · simp [setAt, Thread.finish, inFlight]
      · simp
      · simp
  | dTry d seen attempt =>
    have hf : inFlight (c.threads t) = true := by simp [inFlight, hpc]
    simp only []
    unfold stepDel
    simp only []
    cases seen with
    | none =>
      refine .finish hf ⟨.del d, (if d.allowMissing then .ok none else .error .notFound), .refused,
        (c.threads t).invAt, (c.threads t).readAt, c.log.length⟩ ?_ ?_ rfl rfl (Nat.le_refl _)
      · simp [Config.setThread, setAt, Thread.finish]
      · simp [Config.setThread, setAt, Thread.finish, inFlight]
    | some p =>
      obtain ⟨r, b⟩ := p
      simp only []
      cases d.pre b with
      | some e =>
        refine .finish hf ⟨.del d, .error e, .refused, (c.threads t).invAt, (c.threads t).readAt, c.log.length⟩
          ?_ ?_ rfl rfl (Nat.le_refl _)
        · simp [Config.setThread, setAt, Thread.finish]
        · simp [Config.setThread, setAt, Thread.finish, inFlight]
      | none =>
        simp only []
        split
        · split
          · refine .inner hf ?_ ?_ ?_ rfl
            · simp [Config.setThread, setAt]
            · simp [Config.setThread, setAt, inFlight]
            · simp [Config.setThread, setAt]
          · refine .finish hf ⟨.del d, .error .unavailable, .raced, (c.threads t).invAt, c.log.length, c.log.length⟩
              ?_ ?_ rfl rfl (Nat.le_refl _)
            · simp [Config.setThread, setAt, Thread.finish]
            · simp [Config.setThread, setAt, Thread.finish, inFlight]
        · refine .finish hf ⟨.del d, .ok (some b), .committed, (c.threads t).invAt, c.log.length, c.log.length + 1⟩
            ?_ ?_ rfl ?_ ?_
          · simp [setAt, Thread.finish]
          · simp [setAt, Thread.finish, inFlight]
          · simp
          · simp

/-! ### The invariant linking step time and log time -/

structure TInv (c : Config M) (g : Times) : Prop where
  now : g.lenAt c.tick = c.log.length
  mono : ∀ k k', k ≤ k' → k' ≤ c.tick → g.lenAt k ≤ g.lenAt k'
  fin : ∀ t n r, (c.threads t).done[n]? = some r →
    g.invT t n ≤ g.respT t n ∧ g.respT t n < c.tick ∧
    r.inv = g.lenAt (g.invT t n) ∧ r.resp = g.lenAt (g.respT t n + 1)
  fly : ∀ t, inFlight (c.threads t) = true →
    g.invT t (c.threads t).done.length < c.tick ∧
    (c.threads t).invAt = g.lenAt (g.invT t (c.threads t).done.length)
  ord : ∀ k, (c.refusedAt k).Pairwise (fun x y => g.respT x.tid x.idx < g.respT y.tid y.idx)

theorem TInv.init (s₀ : SStore M) (progs : Nat → List (Op M)) : TInv (initCfg s₀ progs) {} := by
  refine ⟨rfl, fun _ _ _ _ => Nat.le_refl _, ?_, ?_, ?_⟩
  · intro t n r h; simp [initCfg] at h
  · intro t h; simp [initCfg, inFlight] at h
  · intro k; simp [initCfg]

theorem set2_same (f : Nat → Nat → Nat) (t n v : Nat) : set2 f t n v t n = v := by simp [set2]

theorem set2_other (f : Nat → Nat → Nat) {t n t' n' : Nat} (v : Nat) (h : ¬ (t' = t ∧ n' = n)) :
    set2 f t n v t' n' = f t' n' := by simp [set2, h]

theorem getElem?_snoc_cases {α : Type} {l : List α} {r r' : α} {n : Nat} (h : (l ++ [r])[n]? = some r') :
    l[n]? = some r' ∨ (n = l.length ∧ r' = r) := by
  by_cases hlt : n < l.length
  · rw [List.getElem?_append_left hlt] at h; exact Or.inl h
  · have hge : l.length ≤ n := by omega
    rw [List.getElem?_append_right hge] at h
    have h0 : n - l.length = 0 := by
      rcases Nat.eq_zero_or_pos (n - l.length) with h0 | h0
      · exact h0
      · rw [List.getElem?_eq_none (by simp; omega)] at h; cases h
    rw [h0] at h
    simp at h
    exact Or.inr ⟨by omega, h.symm⟩

theorem TInv.step {c : Config M} {g : Times} (h : TInv c g) (hl : LInv c) (fixed : Bool) (env : Env) (t : Nat) :
    TInv (step fixed env c t) (tstep fixed env c g t) := by
  have hs := stepCore_tstep fixed env c t
  have hoth := stepCore_others fixed env c t
  -- the log does not shrink
  have hlog : c.log.length ≤ (stepCore fixed env c t).log.length := by
    cases hs with
    | noop _ _ _ hl' => rw [hl']; exact Nat.le_refl _
    | invoke _ _ _ _ hl' => rw [hl']; exact Nat.le_refl _
    | invokeFin _ _ _ _ _ _ hl' => rw [hl']; exact Nat.le_refl _
    | inner _ _ _ _ hl' => rw [hl']; exact Nat.le_refl _
    | finish _ _ _ _ _ _ hl' => exact hl'
  -- old clock readings are kept
  have hlen : ∀ k, k ≤ c.tick → (tstep fixed env c g t).lenAt k = g.lenAt k := by
    intro k hk
    simp only [tstep]
    exact setAt_other _ _ (by omega)
  have hlenNew : (tstep fixed env c g t).lenAt (c.tick + 1) = (stepCore fixed env c t).log.length := by
    simp [tstep]
  -- stamps of other threads are untouched
  have hinvO : ∀ t' n, t' ≠ t → (tstep fixed env c g t).invT t' n = g.invT t' n := by
    intro t' n ht
    simp only [tstep]
    split
    · exact set2_other _ _ (by intro hh; exact ht hh.1)
    · rfl
  have hrespO : ∀ t' n, t' ≠ t → (tstep fixed env c g t).respT t' n = g.respT t' n := by
    intro t' n ht
    simp only [tstep]
    split
    · exact set2_other _ _ (by intro hh; exact ht hh.1)
    · rfl
  -- stamps of earlier calls of the stepping thread are untouched
  have hinvE : ∀ n, n ≠ (c.threads t).done.length → (tstep fixed env c g t).invT t n = g.invT t n := by
    intro n hn
    simp only [tstep]
    split
    · exact set2_other _ _ (by intro hh; exact hn hh.2)
    · rfl
  have hrespE : ∀ n, n ≠ (c.threads t).done.length → (tstep fixed env c g t).respT t n = g.respT t n := by
    intro n hn
    simp only [tstep]
    split
    · exact set2_other _ _ (by intro hh; exact hn hh.2)
    · rfl
  -- a record that was there before keeps its explanation
  have keepOld : ∀ t' n r, (c.threads t').done[n]? = some r →
      (tstep fixed env c g t).invT t' n = g.invT t' n → (tstep fixed env c g t).respT t' n = g.respT t' n →
      (tstep fixed env c g t).invT t' n ≤ (tstep fixed env c g t).respT t' n ∧
      (tstep fixed env c g t).respT t' n < c.tick + 1 ∧
      r.inv = (tstep fixed env c g t).lenAt ((tstep fixed env c g t).invT t' n) ∧
      r.resp = (tstep fixed env c g t).lenAt ((tstep fixed env c g t).respT t' n + 1) := by
    intro t' n r hr hi hrs
    obtain ⟨h1, h2, h3, h4⟩ := h.fin t' n r hr
    rw [hi, hrs, hlen _ (by omega), hlen _ (by omega)]
    exact ⟨h1, by omega, h3, h4⟩
  have oldIdx : ∀ {t' n : Nat} {r : Rec M}, (c.threads t').done[n]? = some r → n < (c.threads t').done.length :=
    fun hr => (List.getElem?_eq_some_iff.mp hr).1
  refine ⟨?_, ?_, ?_, ?_, ?_⟩
  · -- now
    show (tstep fixed env c g t).lenAt (c.tick + 1) = (stepCore fixed env c t).log.length
    exact hlenNew
  · -- mono
    intro k k' hkk hk'
    replace hk' : k' ≤ c.tick + 1 := hk'
    by_cases hnew : k' = c.tick + 1
    · subst hnew
      rw [hlenNew]
      by_cases hk : k = c.tick + 1
      · subst hk; rw [hlenNew]; exact Nat.le_refl _
      · rw [hlen k (by omega)]
        have := h.mono k c.tick (by omega) (Nat.le_refl _)
        rw [h.now] at this
        omega
    · rw [hlen k (by omega), hlen k' (by omega)]
      exact h.mono k k' hkk (by omega)
  · -- fin
    intro t' n r hr
    replace hr : ((stepCore fixed env c t).threads t').done[n]? = some r := hr
    show _ ∧ _ < c.tick + 1 ∧ _
    by_cases ht : t' = t
    · subst ht
      cases hs with
      | noop _ _ hth _ =>
        rw [hth] at hr
        exact keepOld _ n r hr (hinvE n (by have := oldIdx hr; omega)) (hrespE n (by have := oldIdx hr; omega))
      | invoke _ hd _ _ _ =>
        rw [hd] at hr
        exact keepOld _ n r hr (hinvE n (by have := oldIdx hr; omega)) (hrespE n (by have := oldIdx hr; omega))
      | inner _ hd _ _ _ =>
        rw [hd] at hr
        exact keepOld _ n r hr (hinvE n (by have := oldIdx hr; omega)) (hrespE n (by have := oldIdx hr; omega))
      | invokeFin hst r₀ hd _ hri hrr hl' =>
        rw [hd] at hr
        rcases getElem?_snoc_cases hr with hold | ⟨hn, hrr'⟩
        · exact keepOld _ n r hold (hinvE n (by have := oldIdx hold; omega)) (hrespE n (by have := oldIdx hold; omega))
        · subst hn hrr'
          have hi : (tstep fixed env c g t').invT t' (c.threads t').done.length = c.tick := by
            simp only [tstep, hst, if_true]; exact set2_same _ _ _ _
          have hrs : (tstep fixed env c g t').respT t' (c.threads t').done.length = c.tick := by
            simp only [tstep, hd, List.length_append, List.length_cons, List.length_nil]
            rw [if_pos (by omega)]; exact set2_same _ _ _ _
          rw [hi, hrs, hlen _ (Nat.le_refl _), hlenNew, hl', hri, hrr, h.now]
          exact ⟨Nat.le_refl _, by omega, rfl, rfl⟩
      | finish hf r₀ hd _ hri hrr _ =>
        rw [hd] at hr
        rcases getElem?_snoc_cases hr with hold | ⟨hn, hrr'⟩
        · exact keepOld _ n r hold (hinvE n (by have := oldIdx hold; omega)) (hrespE n (by have := oldIdx hold; omega))
        · subst hn hrr'
          have hns : starts (c.threads t') = false := by
            unfold inFlight at hf
            unfold starts
            cases hpc : (c.threads t').pc <;> simp [hpc] at hf ⊢
          have hi : (tstep fixed env c g t').invT t' (c.threads t').done.length
              = g.invT t' (c.threads t').done.length := by
            simp only [tstep, hns]; rfl
          have hrs : (tstep fixed env c g t').respT t' (c.threads t').done.length = c.tick := by
            simp only [tstep, hd, List.length_append, List.length_cons, List.length_nil]
            rw [if_pos (by omega)]; exact set2_same _ _ _ _
          obtain ⟨f1, f2⟩ := h.fly t' hf
          rw [hi, hrs, hlen _ (by omega), hlenNew, hri, hrr]
          exact ⟨by omega, by omega, f2, rfl⟩
    · rw [hoth t' ht] at hr
      exact keepOld t' n r hr (hinvO t' n ht) (hrespO t' n ht)
  · -- fly
    intro t' hf'
    replace hf' : inFlight ((stepCore fixed env c t).threads t') = true := hf'
    show (tstep fixed env c g t).invT t' ((stepCore fixed env c t).threads t').done.length < c.tick + 1 ∧
      ((stepCore fixed env c t).threads t').invAt
        = (tstep fixed env c g t).lenAt ((tstep fixed env c g t).invT t' ((stepCore fixed env c t).threads t').done.length)
    by_cases ht : t' = t
    · subst ht
      cases hs with
      | noop _ hf hth _ => rw [hth, hf] at hf'; cases hf'
      | invokeFin _ _ _ hf'' _ _ _ => rw [hf''] at hf'; cases hf'
      | finish _ _ _ hf'' _ _ _ => rw [hf''] at hf'; cases hf'
      | invoke hst hd _ hinv _ =>
        have hi : (tstep fixed env c g t').invT t' (c.threads t').done.length = c.tick := by
          simp only [tstep, hst, if_true]; exact set2_same _ _ _ _
        rw [hd, hi, hlen _ (Nat.le_refl _), hinv, h.now]
        exact ⟨by omega, rfl⟩
      | inner hf hd _ hinv _ =>
        have hns : starts (c.threads t') = false := by
          unfold inFlight at hf
          unfold starts
          cases hpc : (c.threads t').pc <;> simp [hpc] at hf ⊢
        have hi : (tstep fixed env c g t').invT t' (c.threads t').done.length
            = g.invT t' (c.threads t').done.length := by
          simp only [tstep, hns]; rfl
        obtain ⟨f1, f2⟩ := h.fly t' hf
        rw [hd, hi, hlen _ (by omega), hinv]
        exact ⟨by omega, f2⟩
    · rw [hoth t' ht] at hf' ⊢
      obtain ⟨f1, f2⟩ := h.fly t' hf'
      rw [hinvO t' _ ht, hlen _ (by omega)]
      exact ⟨by omega, f2⟩
  · -- ord
    intro k
    show ((noteRefused c (stepCore fixed env c t) t) k).Pairwise _
    -- entries already filed are finished calls: their response stamp is old and is kept
    have oldEv : ∀ k' ev, ev ∈ c.refusedAt k' →
        (tstep fixed env c g t).respT ev.tid ev.idx = g.respT ev.tid ev.idx ∧ g.respT ev.tid ev.idx < c.tick := by
      intro k' ev hev
      obtain ⟨_, _, r, hr, _⟩ := hl.sound k' ev hev
      have hidx := oldIdx hr
      refine ⟨?_, (h.fin _ _ r hr).2.1⟩
      by_cases ht : ev.tid = t
      · rw [ht] at hidx ⊢; exact hrespE _ (by omega)
      · exact hrespO _ _ ht
    have keepBlock : ∀ k', (c.refusedAt k').Pairwise
        (fun x y => (tstep fixed env c g t).respT x.tid x.idx < (tstep fixed env c g t).respT y.tid y.idx) := by
      intro k'
      refine (h.ord k').imp_of_mem ?_
      intro x y hx hy hxy
      rw [(oldEv k' x hx).1, (oldEv k' y hy).1]; exact hxy
    have same : (c.threads t).done = ((stepCore fixed env c t).threads t).done →
        ((noteRefused c (stepCore fixed env c t) t) k).Pairwise
          (fun x y => (tstep fixed env c g t).respT x.tid x.idx < (tstep fixed env c g t).respT y.tid y.idx) := by
      intro hd
      rw [noteRefused_none hd.symm]; exact keepBlock k
    have grown : ∀ r₀, ((stepCore fixed env c t).threads t).done = (c.threads t).done ++ [r₀] →
        ((noteRefused c (stepCore fixed env c t) t) k).Pairwise
          (fun x y => (tstep fixed env c g t).respT x.tid x.idx < (tstep fixed env c g t).respT y.tid y.idx) := by
      intro r₀ hd
      rw [noteRefused_fin hd]
      split
      · simp only [setAt]
        split
        · rw [List.pairwise_append]
          refine ⟨keepBlock _, List.pairwise_singleton _ _, ?_⟩
          intro x hx y hy
          simp only [List.mem_singleton] at hy
          subst hy
          have hrs : (tstep fixed env c g t).respT t (c.threads t).done.length = c.tick := by
            simp only [tstep, hd, List.length_append, List.length_cons, List.length_nil]
            rw [if_pos (by omega)]; exact set2_same _ _ _ _
          show _ < (tstep fixed env c g t).respT t (c.threads t).done.length
          rw [hrs, (oldEv _ x hx).1]
          exact (oldEv _ x hx).2
        · exact keepBlock k
      · exact keepBlock k
    cases hs with
    | noop _ _ hth _ => exact same (by rw [hth])
    | invoke _ hd _ _ _ => exact same hd.symm
    | inner _ hd _ _ _ => exact same hd.symm
    | invokeFin _ r₀ hd _ _ _ _ => exact grown r₀ hd
    | finish _ r₀ hd _ _ _ _ => exact grown r₀ hd

/-! ### Ordering the explicit sequence by an arbitrary relation -/

theorem pairwise_linUpto_of (s₀ : SStore M) (log : List (Entry M)) (arr : Nat → List (Ev M))
    (R : Ev M → Ev M → Prop)
    (harr : ∀ k ev, ev ∈ arr k → ev.lin = k ∧ ev.committed = false)
    (hin : ∀ k, (arr k).Pairwise R)
    (hlt : ∀ x y, x.lin < y.lin → R x y)
    (hrc : ∀ x y, x.lin = y.lin → x.committed = false → y.committed = true → R x y) :
    ∀ n, (linUpto s₀ log arr n).Pairwise R := by
  intro n
  induction n with
  | zero => simp [linUpto]
  | succ n ih =>
    have hlin := (pairwise_linUpto s₀ log arr harr n).2
    have hcom : ∀ ev, ev ∈ (match log[n]? with | some e => [comEv s₀ log n e] | none => []) →
        ev.lin = n ∧ ev.committed = true := by
      intro ev hev
      cases hget : log[n]? with
      | none => rw [hget] at hev; simp at hev
      | some e => rw [hget] at hev; simp only [List.mem_singleton] at hev; rw [hev]; exact ⟨rfl, rfl⟩
    simp only [linUpto]
    rw [List.pairwise_append, List.pairwise_append]
    refine ⟨⟨ih, hin n, ?_⟩, ?_, ?_⟩
    · intro a ha b hb
      have := hlin a ha
      have := (harr n b hb).1
      exact hlt a b (by omega)
    · cases log[n]? with
      | none => exact List.Pairwise.nil
      | some e => exact List.pairwise_singleton _ _
    · intro a ha b hb
      obtain ⟨hbl, hbc⟩ := hcom b hb
      rcases List.mem_append.mp ha with ha | ha
      · have := hlin a ha
        exact hlt a b (by omega)
      · obtain ⟨hal, hac⟩ := harr n a ha
        exact hrc a b (by omega) hac hbc

theorem pairwise_linSeq_of (s₀ : SStore M) (log : List (Entry M)) (arr : Nat → List (Ev M))
    (R : Ev M → Ev M → Prop)
    (harr : ∀ k ev, ev ∈ arr k → ev.lin = k ∧ ev.committed = false)
    (hin : ∀ k, (arr k).Pairwise R)
    (hlt : ∀ x y, x.lin < y.lin → R x y)
    (hrc : ∀ x y, x.lin = y.lin → x.committed = false → y.committed = true → R x y) :
    (linSeq s₀ log arr).Pairwise R := by
  unfold linSeq
  rw [List.pairwise_append]
  refine ⟨pairwise_linUpto_of s₀ log arr R harr hin hlt hrc _, hin _, ?_⟩
  intro a ha b hb
  have := (pairwise_linUpto s₀ log arr harr log.length).2 a ha
  have := (harr log.length b hb).1
  exact hlt a b (by omega)

theorem TInv.run {c : Config M} {g : Times} (h : TInv c g) (hl : LInv c) (fixed : Bool) (env : Env)
    (sched : List Nat) : TInv (trun fixed env c g sched).1 (trun fixed env c g sched).2 := by
  induction sched generalizing c g with
  | nil => exact h
  | cons t rest ih => exact ih (h.step hl fixed env t) (hl.step fixed env t)

end ScVerif.C02
