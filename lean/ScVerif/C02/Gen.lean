import ScVerif.C02.Time
/-!
# C02 — a generated id was free when it was handed out (invariant over all schedules)

`Collection.genID` runs inside the first locked read of the call: the candidate it returns is not stored at that
instant.  `GInv` keeps that fact attached to the call — while it is in flight and in its record once it has
finished (unless it reported Aborted, which has no effect) — in terms of the commit log: the id is absent from the
replay of the log prefix of length `inv`.
-/
set_option linter.unusedSectionVars false
set_option linter.unusedVariables false
namespace ScVerif.C02

variable {M : Type} [DecidableEq M] [Msg M]

/-- the write an in-flight thread is executing, with its id resolved -/
def pcUpd : Pc M → Option (UpdOp M)
  | .uChange u _ _ => some u
  | .uCommit u _ _ _ => some u
  | _ => none

theorem genID_free (cand : Nat → Nat → Nat) (present : Nat → Bool) :
    ∀ (fuel i rng x r : Nat), genID cand present fuel i rng = (some x, r) → present x = false := by
  intro fuel
  induction fuel with
  | zero => intro i rng x r h; simp [genID] at h
  | succ n ih =>
    intro i rng x r h
    simp only [genID] at h
    split at h
    · exact ih _ _ _ _ h
    · next hp =>
      simp only [Prod.mk.injEq, Option.some.injEq] at h
      rw [← h.1]; simpa using hp

theorem resolveId_free {env : Env} {c : Config M} {u₀ u : UpdOp M} {r : Nat}
    (h : resolveId env c u₀ = (some u, r)) (hg : u.genId = true) : c.store u.id = none := by
  unfold resolveId at h
  by_cases hg₀ : u₀.genId
  · simp only [hg₀, if_true] at h
    split at h
    · next i r' hgen =>
      simp only [Prod.mk.injEq, Option.some.injEq] at h
      have := genID_free _ _ _ _ _ _ _ hgen
      rw [← h.1]
      simp only [] at this ⊢
      cases hc : c.store i with
      | none => rfl
      | some p => rw [hc] at this; simp at this
    · cases h
  · simp only [hg₀] at h
    simp only [Bool.false_eq_true, if_false, Prod.mk.injEq, Option.some.injEq] at h
    rw [← h.1] at hg; exact absurd hg hg₀

/-- what a step does, as far as generated ids are concerned -/
inductive GStep (c c' : Config M) (t : Nat) : Prop
  | noop (hth : c'.threads t = c.threads t) (hl : c'.log = c.log)
  | invoke (hd : (c'.threads t).done = (c.threads t).done) (hinv : (c'.threads t).invAt = c.log.length)
      (hfree : ∀ u, pcUpd (c'.threads t).pc = some u → u.genId = true → c.store u.id = none) (hl : c'.log = c.log)
  | invokeFin (r : Rec M) (hd : (c'.threads t).done = (c.threads t).done ++ [r])
      (hpc : pcUpd (c'.threads t).pc = none) (hri : r.inv = c.log.length)
      (hfree : opGen r.op = true → r.res ≠ .error .aborted → c.store (opId r.op) = none) (hl : c'.log = c.log)
  | inner (hd : (c'.threads t).done = (c.threads t).done) (hinv : (c'.threads t).invAt = (c.threads t).invAt)
      (hpc : pcUpd (c'.threads t).pc = pcUpd (c.threads t).pc) (hl : c'.log = c.log)
  | finish (r : Rec M) (hd : (c'.threads t).done = (c.threads t).done ++ [r])
      (hpc : pcUpd (c'.threads t).pc = none) (hri : r.inv = (c.threads t).invAt)
      (hop : opGen r.op = true → ∃ u, pcUpd (c.threads t).pc = some u ∧ r.op = .upd u)
      (hl : c'.log = c.log ∨ ∃ e, c'.log = c.log ++ [e])

theorem stepCore_gstep (fixed : Bool) (env : Env) (c : Config M) (t : Nat) :
    GStep c (stepCore fixed env c t) t := by
  unfold stepCore
  simp only []
  cases hpc : (c.threads t).pc with
  | idle =>
    simp only []
    unfold stepIdle
    cases hprog : (c.threads t).prog with
    | nil => exact .noop rfl rfl
    | cons op rest =>
      cases op with
      | upd u₀ =>
        simp only []
        cases hres : resolveId env c u₀ with
        | mk ou r =>
        cases ou with
        | none =>
          refine .invokeFin ⟨.upd u₀, .error .aborted, .raced, c.log.length, c.log.length, c.log.length⟩
            ?_ ?_ rfl ?_ rfl
          · simp [Config.setThread, setAt, Thread.finish]
          · simp [Config.setThread, setAt, Thread.finish, pcUpd]
          · intro _ h; exact absurd rfl h
        | some u =>
          simp only []
          cases readUpd u (c.store u.id) with
          | error e =>
            refine .invokeFin ⟨.upd u, .error e, .refused, c.log.length, c.log.length, c.log.length⟩
              ?_ ?_ rfl ?_ rfl
            · simp [Config.setThread, setAt, Thread.finish]
            · simp [Config.setThread, setAt, Thread.finish, pcUpd]
            · intro hg _; exact resolveId_free hres hg
          | ok p =>
            refine .invoke ?_ ?_ ?_ rfl
            · simp [Config.setThread, setAt]
            · simp [Config.setThread, setAt]
            · intro u' hu' hg
              simp [Config.setThread, setAt, pcUpd] at hu'
              subst hu'
              exact resolveId_free hres hg
      | del d =>
        refine .invoke ?_ ?_ ?_ rfl
        · simp [Config.setThread, setAt]
        · simp [Config.setThread, setAt]
        · intro u' hu' _
          simp [Config.setThread, setAt, pcUpd] at hu'
  | uChange u rd created =>
    simp only []
    unfold stepChange
    split
    · next e _ =>
      refine .finish ⟨.upd u, .error e, .refused, (c.threads t).invAt, (c.threads t).readAt, c.log.length⟩
        ?_ ?_ rfl ?_ (Or.inl rfl)
      · simp [Config.setThread, setAt, Thread.finish]
      · simp [Config.setThread, setAt, Thread.finish, pcUpd]
      · intro _; exact ⟨u, by simp [pcUpd, hpc], rfl⟩
    · refine .inner ?_ ?_ ?_ rfl
      · simp [Config.setThread, setAt]
      · simp [Config.setThread, setAt]
      · simp [Config.setThread, setAt, pcUpd, hpc]
  | uCommit u rd created new =>
    simp only []
    unfold stepCommit
    simp only []
    split
    · refine .finish ⟨.upd u, .error .aborted, .raced, (c.threads t).invAt, c.log.length, c.log.length⟩
        ?_ ?_ rfl ?_ (Or.inl rfl)
      · simp [Config.setThread, setAt, Thread.finish]
      · simp [Config.setThread, setAt, Thread.finish, pcUpd]
      · intro _; exact ⟨u, by simp [pcUpd, hpc], rfl⟩
    · refine .finish ⟨.upd u, .ok (some new), .committed, (c.threads t).invAt, c.log.length, c.log.length + 1⟩
        ?_ ?_ rfl ?_ (Or.inr ⟨_, rfl⟩)
      · simp [setAt, Thread.finish]
      · simp [setAt, Thread.finish, pcUpd]
      · intro _; exact ⟨u, by simp [pcUpd, hpc], rfl⟩
  | dTry d seen attempt =>
    simp only []
    unfold stepDel
    simp only []
    cases seen with
    | none =>
      refine .finish ⟨.del d, (if d.allowMissing then .ok none else .error .notFound), .refused,
        (c.threads t).invAt, (c.threads t).readAt, c.log.length⟩ ?_ ?_ rfl ?_ (Or.inl rfl)
      · simp [Config.setThread, setAt, Thread.finish]
      · simp [Config.setThread, setAt, Thread.finish, pcUpd]
      · intro h; simp [opGen] at h
    | some p =>
      obtain ⟨r, b⟩ := p
      simp only []
      cases d.pre b with
      | some e =>
        refine .finish ⟨.del d, .error e, .refused, (c.threads t).invAt, (c.threads t).readAt, c.log.length⟩
          ?_ ?_ rfl ?_ (Or.inl rfl)
        · simp [Config.setThread, setAt, Thread.finish]
        · simp [Config.setThread, setAt, Thread.finish, pcUpd]
        · intro h; simp [opGen] at h
      | none =>
        simp only []
        split
        · split
          · refine .inner ?_ ?_ ?_ rfl
            · simp [Config.setThread, setAt]
            · simp [Config.setThread, setAt]
            · simp [Config.setThread, setAt, pcUpd, hpc]
          · refine .finish ⟨.del d, .error .unavailable, .raced, (c.threads t).invAt, c.log.length, c.log.length⟩
              ?_ ?_ rfl ?_ (Or.inl rfl)
            · simp [Config.setThread, setAt, Thread.finish]
            · simp [Config.setThread, setAt, Thread.finish, pcUpd]
            · intro h; simp [opGen] at h
        · refine .finish ⟨.del d, .ok (some b), .committed, (c.threads t).invAt, c.log.length, c.log.length + 1⟩
            ?_ ?_ rfl ?_ (Or.inr ⟨_, rfl⟩)
          · simp [setAt, Thread.finish]
          · simp [setAt, Thread.finish, pcUpd]
          · intro h; simp [opGen] at h

structure GInv (s₀ : SStore M) (c : Config M) : Prop where
  recs : ∀ (t n : Nat) (r : Rec M), (c.threads t).done[n]? = some r → opGen r.op = true →
    r.res ≠ .error .aborted → (replay s₀ (c.log.take r.inv)) (opId r.op) = none
  fly : ∀ (t : Nat) (u : UpdOp M), pcUpd (c.threads t).pc = some u → u.genId = true →
    (replay s₀ (c.log.take (c.threads t).invAt)) u.id = none

theorem GInv.init (s₀ : SStore M) (progs : Nat → List (Op M)) : GInv s₀ (initCfg s₀ progs) := by
  refine ⟨?_, ?_⟩
  · intro t n r h; simp [initCfg] at h
  · intro t u h; simp [initCfg, pcUpd] at h

theorem GInv.step {s₀ : SStore M} {c : Config M} (h : GInv s₀ c) (hi : Inv s₀ c) (env : Env) (t : Nat) :
    GInv s₀ (step true env c t) := by
  have hs := stepCore_gstep true env c t
  have hoth := stepCore_others true env c t
  have hrinv : ∀ (t' n : Nat) (r : Rec M), (c.threads t').done[n]? = some r → r.inv ≤ c.log.length := by
    intro t' n r hr
    obtain ⟨a, b, d, _⟩ := (hi.thr t').recs n r hr
    omega
  have hflyinv : ∀ (t' : Nat) (u : UpdOp M), pcUpd (c.threads t').pc = some u → (c.threads t').invAt ≤ c.log.length := by
    intro t' u hu
    have hp := (hi.thr t').pc
    unfold PcOK at hp
    cases hpc : (c.threads t').pc with
    | idle => rw [hpc] at hu; simp [pcUpd] at hu
    | dTry d seen attempt => rw [hpc] at hu; simp [pcUpd] at hu
    | uChange u' rd created => rw [hpc] at hp; have := hp.1; have := hp.2.1; omega
    | uCommit u' rd created new => rw [hpc] at hp; have := hp.1; have := hp.2.1; omega
  have hpre : ∀ k, k ≤ c.log.length → (stepCore true env c t).log.take k = c.log.take k := by
    intro k hk
    cases hs with
    | noop _ hl => rw [hl]
    | invoke _ _ _ hl => rw [hl]
    | invokeFin _ _ _ _ _ hl => rw [hl]
    | inner _ _ _ hl => rw [hl]
    | finish _ _ _ _ _ hl =>
      rcases hl with hl | ⟨e, hl⟩
      · rw [hl]
      · rw [hl]; exact take_snoc_of_le hk _
  have hnow : ∀ i, c.store i = none → (replay s₀ (c.log.take c.log.length)) i = none := by
    intro i hi'
    rw [List.take_length, ← hi.store]
    simp [absS, hi']
  have oldRec : ∀ (t' n : Nat) (r : Rec M), (c.threads t').done[n]? = some r → opGen r.op = true → r.res ≠ .error .aborted →
      (replay s₀ ((stepCore true env c t).log.take r.inv)) (opId r.op) = none := by
    intro t' n r hr hg hres
    rw [hpre _ (hrinv t' n r hr)]
    exact h.recs t' n r hr hg hres
  refine ⟨?_, ?_⟩
  · intro t' n r hr hg hres
    replace hr : ((stepCore true env c t).threads t').done[n]? = some r := hr
    show (replay s₀ ((stepCore true env c t).log.take r.inv)) (opId r.op) = none
    by_cases ht : t' = t
    · subst ht
      cases hs with
      | noop hth _ => rw [hth] at hr; exact oldRec _ n r hr hg hres
      | invoke hd _ _ _ => rw [hd] at hr; exact oldRec _ n r hr hg hres
      | inner hd _ _ _ => rw [hd] at hr; exact oldRec _ n r hr hg hres
      | invokeFin r₀ hd _ hri hfree hl =>
        rw [hd] at hr
        rcases getElem?_snoc_cases hr with hold | ⟨_, hrr⟩
        · exact oldRec _ n r hold hg hres
        · subst hrr
          rw [hl, hri]
          exact hnow _ (hfree hg hres)
      | finish r₀ hd _ hri hop _ =>
        rw [hd] at hr
        rcases getElem?_snoc_cases hr with hold | ⟨_, hrr⟩
        · exact oldRec _ n r hold hg hres
        · subst hrr
          obtain ⟨u, hu, hop'⟩ := hop hg
          rw [hri, hpre _ (hflyinv _ u hu), hop']
          rw [hop'] at hg
          exact h.fly _ u hu hg
    · rw [hoth t' ht] at hr
      exact oldRec t' n r hr hg hres
  · intro t' u hu hg
    replace hu : pcUpd ((stepCore true env c t).threads t').pc = some u := hu
    show (replay s₀ ((stepCore true env c t).log.take ((stepCore true env c t).threads t').invAt)) u.id = none
    by_cases ht : t' = t
    · subst ht
      cases hs with
      | noop hth _ =>
        rw [hth] at hu ⊢
        rw [hpre _ (hflyinv _ u hu)]; exact h.fly _ u hu hg
      | invoke _ hinv hfree hl =>
        rw [hinv, hl]
        exact hnow _ (hfree u hu hg)
      | invokeFin _ _ hpc' _ _ _ => rw [hpc'] at hu; cases hu
      | finish _ _ hpc' _ _ _ => rw [hpc'] at hu; cases hu
      | inner _ hinv hpc' _ =>
        rw [hpc'] at hu
        rw [hinv, hpre _ (hflyinv _ u hu)]; exact h.fly _ u hu hg
    · rw [hoth t' ht] at hu ⊢
      rw [hpre _ (hflyinv _ u hu)]; exact h.fly _ u hu hg

theorem GInv.run {s₀ : SStore M} {c : Config M} (h : GInv s₀ c) (hi : Inv s₀ c) (env : Env) (sched : List Nat) :
    GInv s₀ (run true env c sched) := by
  induction sched generalizing c with
  | nil => exact h
  | cons t rest ih => exact ih (h.step hi env t) (hi.step env t)

end ScVerif.C02
