import ScVerif.C02.Send
/-!
# C02 — what a write HANDLER answers with

A trait server's write handler (`countpb.MemoryDevice.UpdateCount`, `ResetCount`, …) makes one `Value.Set` and
answers its client.  The code answers with the message `Set` handed back (`res.(*traits.Count)`), i.e. with the
result the call *reported* (`Send.reported`).  The *answer layer* `arun` puts that on top of the publication
layer: when a call of a thread reports (at its last core step, or — for a committed `Value.Set` — at its
publication step, with other writers' commits in between), the thread's handler files its answer.

`AnswerBy.own` is the code.  `AnswerBy.fresh` is NOT the code: it is the variant in which the handler drops what
`Set` returned and answers with a fresh `Get` made once `Set` has returned (modelled at the earliest possible
moment, inside the very step in which the call reports) — kept as a witness of what that breaks: a writer that
committed between this call's save and its return is included in the answer.
-/
set_option linter.unusedSectionVars false
set_option linter.unusedVariables false
namespace ScVerif.C02

variable {M : Type} [DecidableEq M] [Msg M]

inductive AnswerBy
  | own
  | fresh
  deriving DecidableEq, Repr

/-- the number of calls of thread `t` that have reported (all its finished calls but the one that still owes its
publication) -/
def nrep (pc : PConfig M) (t : Nat) : Nat :=
  (pc.core.threads t).done.length - (if (pc.pending t).isSome then 1 else 0)

/-- the answer of the handler around call `n` of thread `t`, given now -/
def answerOf (how : AnswerBy) (pc : PConfig M) (t n : Nat) : Option (Res M) :=
  match how with
  | .own => reported pc t n
  | .fresh =>
    match reported pc t n, (pc.core.threads t).done[n]? with
    | some (.ok (some _)), some r =>
      (match r.op with
       | .upd u => some (.ok (absS pc.core.store u.id))
       | .del _ => reported pc t n)
    | res, _ => res

structure AConfig (M : Type) where
  p : PConfig M
  /-- per thread: the answers its handlers have given, one per reported call -/
  answers : Nat → List (Res M)

def astep (how : AnswerBy) (fixed : Bool) (env : Env) (a : AConfig M) (tf : Nat × Bool) : AConfig M :=
  { p := pstep false fixed env a.p tf
    answers :=
      if nrep (pstep false fixed env a.p tf) tf.1 = nrep a.p tf.1 + 1 then
        match answerOf how (pstep false fixed env a.p tf) tf.1 (nrep a.p tf.1) with
        | some r => setAt a.answers tf.1 (a.answers tf.1 ++ [r])
        | none => a.answers
      else a.answers }

def arun (how : AnswerBy) (fixed : Bool) (env : Env) (a : AConfig M) (sched : List (Nat × Bool)) : AConfig M :=
  sched.foldl (astep how fixed env) a

def ainit (s₀ : SStore M) (progs : Nat → List (Op M)) : AConfig M := ⟨pinit s₀ progs, fun _ => []⟩

theorem arun_p (how : AnswerBy) (fixed : Bool) (env : Env) (a : AConfig M) (sched : List (Nat × Bool)) :
    (arun how fixed env a sched).p = prun false fixed env a.p sched := by
  induction sched generalizing a with
  | nil => rfl
  | cons tf rest ih =>
    show (arun how fixed env (astep how fixed env a tf) rest).p = _
    rw [ih]; rfl

theorem arun_append (how : AnswerBy) (fixed : Bool) (env : Env) (a : AConfig M) (s₁ s₂ : List (Nat × Bool)) :
    arun how fixed env a (s₁ ++ s₂) = arun how fixed env (arun how fixed env a s₁) s₂ := by
  simp [arun, List.foldl_append]

theorem prun_append (fixed : Bool) (env : Env) (pc : PConfig M) (s₁ s₂ : List (Nat × Bool)) :
    prun false fixed env pc (s₁ ++ s₂) = prun false fixed env (prun false fixed env pc s₁) s₂ := by
  simp [prun, List.foldl_append]

/-! ### A reported result is final -/

theorem reported_congr {pc pc' : PConfig M} {t n : Nat}
    (hd : (pc'.core.threads t).done[n]? = (pc.core.threads t).done[n]?)
    (hp : ((pc'.pending t).isSome ∧ n + 1 = (pc'.core.threads t).done.length) ↔
      ((pc.pending t).isSome ∧ n + 1 = (pc.core.threads t).done.length))
    (hs : (n, true) ∈ pc'.sent t ↔ (n, true) ∈ pc.sent t) : reported pc' t n = reported pc t n := by
  unfold reported
  rw [hd]
  cases h : (pc.core.threads t).done[n]? with
  | none => rfl
  | some r =>
    simp only []
    by_cases h1 : (pc.pending t).isSome ∧ n + 1 = (pc.core.threads t).done.length
    · rw [if_pos h1, if_pos (hp.mpr h1)]
    · rw [if_neg h1, if_neg (fun h' => h1 (hp.mp h'))]
      by_cases h2 : (n, true) ∈ pc.sent t
      · rw [if_pos h2, if_pos (hs.mpr h2)]
      · rw [if_neg h2, if_neg (fun h' => h2 (hs.mp h'))]

theorem reported_none_of_ge {pc : PConfig M} {t n : Nat} (h : nrep pc t ≤ n) : reported pc t n = none := by
  unfold reported
  cases hd : (pc.core.threads t).done[n]? with
  | none => rfl
  | some r =>
    have hlt : n < (pc.core.threads t).done.length := (List.getElem?_eq_some_iff.mp hd).1
    simp only []
    unfold nrep at h
    by_cases hp : (pc.pending t).isSome
    · rw [if_pos ⟨hp, by simp [hp] at h; omega⟩]
    · simp [hp] at h; omega

theorem reported_some_of_lt {pc : PConfig M} {t n : Nat} (h : n < nrep pc t) : ∃ r, reported pc t n = some r := by
  unfold nrep at h
  have hlt : n < (pc.core.threads t).done.length := by omega
  unfold reported
  rw [List.getElem?_eq_getElem hlt]
  simp only []
  by_cases hp : (pc.pending t).isSome
  · simp [hp] at h
    rw [if_neg (by intro h'; omega)]
    split <;> exact ⟨_, rfl⟩
  · rw [if_neg (fun h' => hp h'.1)]
    split <;> exact ⟨_, rfl⟩

/-- what one step of the publication layer does to who has reported what: other threads are untouched; the
stepping thread's count of reported calls stays or grows by one; whatever it had reported stays reported, word
for word. -/
theorem pstep_reporting (fixed : Bool) (env : Env) {pc : PConfig M} (hinv : PInv pc) (tf : Nat × Bool) :
    (∀ t', t' ≠ tf.1 → nrep (pstep false fixed env pc tf) t' = nrep pc t' ∧
      ∀ n, reported (pstep false fixed env pc tf) t' n = reported pc t' n) ∧
    (nrep (pstep false fixed env pc tf) tf.1 = nrep pc tf.1 ∨
      nrep (pstep false fixed env pc tf) tf.1 = nrep pc tf.1 + 1) ∧
    (∀ n, n < nrep pc tf.1 → reported (pstep false fixed env pc tf) tf.1 n = reported pc tf.1 n) := by
  obtain ⟨t, f⟩ := tf
  cases hp : pc.pending t with
  | some p =>
    have hcore : (pstep false fixed env pc (t, f)).core = pc.core := by unfold pstep; rw [hp]; simp
    have hpend : (pstep false fixed env pc (t, f)).pending = setAt pc.pending t none := by unfold pstep; rw [hp]
    have hsent : (pstep false fixed env pc (t, f)).sent =
        setAt pc.sent t (pc.sent t ++ [((pc.core.threads t).done.length - 1, f)]) := by unfold pstep; rw [hp]
    obtain ⟨r, hr, _⟩ := hinv.pend t p hp
    have hlen : 0 < (pc.core.threads t).done.length := by
      have := (List.getElem?_eq_some_iff.mp hr).1; omega
    refine ⟨?_, ?_, ?_⟩
    · intro t' ht
      constructor
      · unfold nrep; rw [hcore, hpend, setAt_other _ _ ht]
      · intro n
        apply reported_congr
        · rw [hcore]
        · rw [hcore, hpend, setAt_other _ _ ht]
        · rw [hsent, setAt_other _ _ ht]
    · right
      unfold nrep
      rw [hcore, hpend, setAt_same, hp]
      simp
      omega
    · intro n hn
      have hn' : n + 1 < (pc.core.threads t).done.length := by
        unfold nrep at hn; rw [hp] at hn; simp at hn; omega
      apply reported_congr
      · rw [hcore]
      · rw [hcore, hpend, setAt_same, hp]
        simp
        omega
      · rw [hsent, setAt_same]
        simp
        omega
  | none =>
    have hcore : (pstep false fixed env pc (t, f)).core = step fixed env pc.core t := by unfold pstep; rw [hp]
    have hpend : (pstep false fixed env pc (t, f)).pending =
        setAt pc.pending t (commitOf pc.core (step fixed env pc.core t) t) := by unfold pstep; rw [hp]
    have hsent : (pstep false fixed env pc (t, f)).sent = pc.sent := by unfold pstep; rw [hp]
    have hds := stepCore_doneStep fixed env pc.core t
    have hthr : (step fixed env pc.core t).threads = (stepCore fixed env pc.core t).threads := rfl
    have hlog : (step fixed env pc.core t).log = (stepCore fixed env pc.core t).log := rfl
    have hother : ∀ t', t' ≠ t →
        ((step fixed env pc.core t).threads t').done = (pc.core.threads t').done := by
      intro t' ht
      rw [hthr]
      cases hds with
      | none hl hd hr => exact hd t'
      | fin r hl hk hd ho hr => exact ho t' ht
      | commit r e hl hk hd ho hr => exact ho t' ht
    refine ⟨?_, ?_, ?_⟩
    · intro t' ht
      constructor
      · unfold nrep; rw [hcore, hpend, setAt_other _ _ ht, hother t' ht]
      · intro n
        apply reported_congr
        · rw [hcore, hother t' ht]
        · rw [hcore, hpend, setAt_other _ _ ht, hother t' ht]
        · rw [hsent]
    · -- the stepping thread: its list of finished calls stays or grows by one
      have hgrow : ((step fixed env pc.core t).threads t).done = (pc.core.threads t).done ∧
            commitOf pc.core (step fixed env pc.core t) t = none ∨
          ∃ r, ((step fixed env pc.core t).threads t).done = (pc.core.threads t).done ++ [r] := by
        rw [hthr]
        cases hds with
        | none hl hd hr =>
          left
          refine ⟨hd t, ?_⟩
          unfold commitOf
          split
          · rw [hlog, hl]; simp
          · rfl
        | fin r hl hk hd ho hr => exact Or.inr ⟨r, hd⟩
        | commit r e hl hk hd ho hr => exact Or.inr ⟨r, hd⟩
      unfold nrep
      rw [hcore, hpend, setAt_same, hp]
      rcases hgrow with ⟨hd, hc⟩ | ⟨r, hd⟩
      · left; rw [hd, hc]
      · rw [hd]
        cases commitOf pc.core (step fixed env pc.core t) t with
        | none => right; simp
        | some p => left; simp
    · intro n hn
      have hn' : n < (pc.core.threads t).done.length := by
        unfold nrep at hn; rw [hp] at hn; simp at hn; exact hn
      have hkeep : ((step fixed env pc.core t).threads t).done[n]? = (pc.core.threads t).done[n]? := by
        rw [hthr]
        cases hds with
        | none hl hd hr => rw [hd t]
        | fin r hl hk hd ho hr => rw [hd, List.getElem?_append_left hn']
        | commit r e hl hk hd ho hr => rw [hd, List.getElem?_append_left hn']
      have hlen : (pc.core.threads t).done.length ≤ ((step fixed env pc.core t).threads t).done.length := by
        rw [hthr]
        cases hds with
        | none hl hd hr => rw [hd t]; exact Nat.le_refl _
        | fin r hl hk hd ho hr => rw [hd]; simp
        | commit r e hl hk hd ho hr => rw [hd]; simp
      have hpendlen : (commitOf pc.core (step fixed env pc.core t) t).isSome →
          (pc.core.threads t).done.length < ((step fixed env pc.core t).threads t).done.length := by
        intro hs
        rw [hthr]
        cases hds with
        | none hl hd hr =>
          exfalso
          unfold commitOf at hs
          split at hs
          · rw [hlog, hl] at hs; simp at hs
          · simp at hs
        | fin r hl hk hd ho hr => rw [hd]; simp
        | commit r e hl hk hd ho hr => rw [hd]; simp
      apply reported_congr
      · rw [hcore]; exact hkeep
      · rw [hcore, hpend, setAt_same, hp]
        constructor
        · intro ⟨h1, h2⟩
          have := hpendlen h1
          dsimp only at h2
          omega
        · intro ⟨h1, _⟩; simp at h1
      · rw [hsent]

theorem PInv.prun (fixed : Bool) (env : Env) {pc : PConfig M} (h : PInv pc) (sched : List (Nat × Bool)) :
    PInv (prun false fixed env pc sched) := by
  induction sched generalizing pc with
  | nil => exact h
  | cons tf rest ih => exact ih (h.step fixed env tf)

/-! ### The answers of the code are the reported results -/

/-- invariant of the answer layer run as the code does (`own`): the answers filed are exactly the results reported
so far, in order -/
def AnsOwn (a : AConfig M) : Prop :=
  ∀ t, a.answers t = (List.range (nrep a.p t)).filterMap (reported a.p t)

theorem AnsOwn.init (s₀ : SStore M) (progs : Nat → List (Op M)) : AnsOwn (ainit s₀ progs) := by
  intro t
  simp [ainit, pinit, nrep, initCfg]

theorem filterMap_range_congr {α : Type} (f g : Nat → Option α) (k : Nat) (h : ∀ n, n < k → f n = g n) :
    (List.range k).filterMap f = (List.range k).filterMap g := by
  induction k with
  | zero => rfl
  | succ k ih =>
    rw [List.range_succ, List.filterMap_append, List.filterMap_append, ih (fun n hn => h n (by omega)),
      List.filterMap_cons, List.filterMap_cons, h k (by omega)]
    simp

theorem AnsOwn.step {a : AConfig M} (h : AnsOwn a) (hinv : PInv a.p) (fixed : Bool) (env : Env)
    (tf : Nat × Bool) : AnsOwn (astep .own fixed env a tf) := by
  obtain ⟨hother, hgrow, hkeep⟩ := pstep_reporting fixed env hinv tf
  intro t
  by_cases ht : t = tf.1
  · subst ht
    show (astep .own fixed env a tf).answers tf.1 =
      (List.range (nrep (pstep false fixed env a.p tf) tf.1)).filterMap (reported (pstep false fixed env a.p tf) tf.1)
    unfold astep
    simp only []
    by_cases hg : nrep (pstep false fixed env a.p tf) tf.1 = nrep a.p tf.1 + 1
    · rw [if_pos hg, hg, List.range_succ, List.filterMap_append]
      obtain ⟨r, hr⟩ := reported_some_of_lt (pc := pstep false fixed env a.p tf) (t := tf.1) (n := nrep a.p tf.1)
        (by omega)
      simp only [answerOf, hr, setAt_same]
      rw [h tf.1, filterMap_range_congr _ _ _ hkeep]
      simp [hr]
    · rw [if_neg hg]
      rcases hgrow with hg' | hg'
      · rw [hg', h tf.1, filterMap_range_congr _ _ _ hkeep]
      · exact absurd hg' hg
  · have hans : (astep .own fixed env a tf).answers t = a.answers t := by
      unfold astep
      simp only []
      split
      · generalize answerOf AnswerBy.own (pstep false fixed env a.p tf) tf.1 (nrep a.p tf.1) = x
        cases x with
        | none => rfl
        | some r => exact setAt_other _ _ ht
      · rfl
    rw [hans, h t]
    show _ = (List.range (nrep (pstep false fixed env a.p tf) t)).filterMap (reported (pstep false fixed env a.p tf) t)
    rw [(hother t ht).1]
    exact filterMap_range_congr _ _ _ (fun n _ => ((hother t ht).2 n).symm)

theorem ansOwn_arun (fixed : Bool) (env : Env) {a : AConfig M} (h : AnsOwn a) (hinv : PInv a.p)
    (sched : List (Nat × Bool)) : AnsOwn (arun .own fixed env a sched) := by
  induction sched generalizing a with
  | nil => exact h
  | cons tf rest ih =>
    exact ih (h.step hinv fixed env tf) (hinv.step fixed env tf)

/-- once a call has reported, what it reported never changes, whatever is scheduled afterwards -/
theorem reported_stable (fixed : Bool) (env : Env) {pc : PConfig M} (hinv : PInv pc) (sched : List (Nat × Bool))
    {t n : Nat} {r : Res M} (h : reported pc t n = some r) :
    reported (prun false fixed env pc sched) t n = some r := by
  induction sched generalizing pc with
  | nil => exact h
  | cons tf rest ih =>
    apply ih (hinv.step fixed env tf)
    obtain ⟨hother, _, hkeep⟩ := pstep_reporting fixed env hinv tf
    have hlt : n < nrep pc t := by
      apply Nat.lt_of_not_le
      intro hge
      rw [reported_none_of_ge hge] at h
      cases h
    by_cases ht : t = tf.1
    · subst ht; rw [hkeep n hlt]; exact h
    · rw [(hother t ht).2 n]; exact h

theorem filterMap_range_getElem? {α : Type} (f : Nat → Option α) (k : Nat) (hsome : ∀ n, n < k → (f n).isSome)
    (hnone : ∀ n, k ≤ n → f n = none) :
    ((List.range k).filterMap f).length = k ∧ ∀ n, ((List.range k).filterMap f)[n]? = f n := by
  induction k generalizing f with
  | zero =>
    refine ⟨rfl, fun n => ?_⟩
    rw [hnone n (Nat.zero_le n)]; rfl
  | succ k ih =>
    -- cut `f` off at `k` for the induction hypothesis
    have ih' := ih (f := fun n => if n < k then f n else none)
      (fun n hn => by simp only [if_pos hn]; exact hsome n (by omega))
      (fun n hn => by simp only [if_neg (Nat.not_lt.mpr hn)])
    have hcut : (List.range k).filterMap (fun n => if n < k then f n else none) = (List.range k).filterMap f :=
      filterMap_range_congr _ _ _ (fun n hn => by simp only [if_pos hn])
    rw [hcut] at ih'
    obtain ⟨v, hv⟩ := Option.isSome_iff_exists.mp (hsome k (by omega))
    rw [List.range_succ, List.filterMap_append]
    have hlast : List.filterMap f [k] = [v] := by simp [hv]
    rw [hlast]
    refine ⟨by simp [ih'.1], fun n => ?_⟩
    by_cases hn : n < k
    · rw [List.getElem?_append_left (by rw [ih'.1]; exact hn), ih'.2 n, if_pos hn]
    · by_cases hk : n = k
      · subst hk
        rw [List.getElem?_append_right (by rw [ih'.1]; exact Nat.le_refl _), ih'.1]
        simp [hv]
      · rw [hnone n (by omega)]
        apply List.getElem?_eq_none
        simp [ih'.1]; omega

end ScVerif.C02
