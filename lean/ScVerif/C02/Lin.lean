import ScVerif.C02.Stamp
/-!
# C02 — the linearization as an explicit sequence (helper definitions and lemmas)

The commit log orders the calls that took effect; a refused call (NotFound, AlreadyExists, FailedPrecondition,
a check's own error, an allow-missing no-op) is linearized at its index `lin`, i.e. just before log entry
`lin`.  `linSeq` spells the whole order out: for k = 0, 1, …: the refused calls of index k, then entry k;
finally the refused calls of index `log.length`.  `seqRun` executes such a sequence on the sequential
specification, one call at a time, checking every reported result.
-/
set_option linter.unusedSectionVars false
set_option linter.unusedVariables false
namespace ScVerif.C02

variable {M : Type} [DecidableEq M] [Msg M]

/-! ### What one step does to the records -/

inductive DoneStep (c c' : Config M) (t : Nat) : Prop
  | none (hl : c'.log = c.log) (hd : ∀ t', (c'.threads t').done = (c.threads t').done)
      (hr : c'.refusedAt = c.refusedAt)
  | fin (r : Rec M) (hl : c'.log = c.log) (hk : r.kind ≠ .committed)
      (hd : (c'.threads t).done = (c.threads t).done ++ [r])
      (ho : ∀ t', t' ≠ t → (c'.threads t').done = (c.threads t').done)
      (hr : c'.refusedAt = c.refusedAt)
  | commit (r : Rec M) (e : Entry M) (hl : c'.log = c.log ++ [e]) (hk : r.kind = .committed)
      (hd : (c'.threads t).done = (c.threads t).done ++ [r])
      (ho : ∀ t', t' ≠ t → (c'.threads t').done = (c.threads t').done)
      (hr : c'.refusedAt = c.refusedAt)

theorem setThread_done_same (c : Config M) (t : Nat) (th' : Thread M) (h : th'.done = (c.threads t).done) :
    ∀ t', ((c.setThread t th').threads t').done = (c.threads t').done := by
  intro t'
  simp only [Config.setThread, setAt]
  split
  · next heq => subst heq; exact h
  · rfl

theorem setThread_done_other (c : Config M) (t : Nat) (th' : Thread M) :
    ∀ t', t' ≠ t → ((c.setThread t th').threads t').done = (c.threads t').done := by
  intro t' h
  simp [Config.setThread, setAt, h]

theorem setThread_done_self (c : Config M) (t : Nat) (th' : Thread M) :
    ((c.setThread t th').threads t).done = th'.done := by
  simp [Config.setThread, setAt]

theorem DoneStep.ofFinish (c : Config M) (t : Nat) (th : Thread M) (hth : th.done = (c.threads t).done)
    (op : Op M) (res : Res M) (kind : Kind) (lin resp : Nat) (hk : kind ≠ .committed) :
    DoneStep c (c.setThread t (th.finish op res kind lin resp)) t := by
  refine .fin ⟨op, res, kind, th.invAt, lin, resp⟩ rfl hk ?_ (setThread_done_other c t _) rfl
  rw [setThread_done_self]
  simp [Thread.finish, hth]

theorem DoneStep.ofPc (c : Config M) (t : Nat) (th' : Thread M) (h : th'.done = (c.threads t).done) :
    DoneStep c (c.setThread t th') t :=
  .none rfl (setThread_done_same c t th' h) rfl

theorem stepCore_doneStep (fixed : Bool) (env : Env) (c : Config M) (t : Nat) :
    DoneStep c (stepCore fixed env c t) t := by
  unfold stepCore
  simp only []
  cases (c.threads t).pc with
  | idle =>
    simp only []
    unfold stepIdle
    cases (c.threads t).prog with
    | nil => exact .none rfl (fun _ => rfl) rfl
    | cons op rest =>
      cases op with
      | upd u₀ =>
        simp only []
        cases resolveId env c u₀ with
        | mk ou r =>
        cases ou with
        | none =>
          have := DoneStep.ofFinish { c with rng := r } t
            { c.threads t with prog := rest, invAt := c.log.length, readAt := c.log.length } rfl
            (.upd u₀) (.error .aborted) .raced c.log.length c.log.length (by simp)
          cases this with
          | none hl hd hr => exact .none hl hd hr
          | fin r' hl hk hd ho hr => exact .fin r' hl hk hd ho hr
          | commit r' e hl hk hd ho hr => exact .commit r' e hl hk hd ho hr
        | some u =>
          simp only []
          cases readUpd u (c.store u.id) with
          | error e =>
            have := DoneStep.ofFinish { c with rng := r } t
              { c.threads t with prog := rest, invAt := c.log.length, readAt := c.log.length } rfl
              (.upd u) (.error e) .refused c.log.length c.log.length (by simp)
            cases this with
            | none hl hd hr => exact .none hl hd hr
            | fin r' hl hk hd ho hr => exact .fin r' hl hk hd ho hr
            | commit r' e hl hk hd ho hr => exact .commit r' e hl hk hd ho hr
          | ok p =>
            have := DoneStep.ofPc { c with rng := r } t
              { c.threads t with prog := rest, invAt := c.log.length, readAt := c.log.length,
                                 pc := .uChange u p.1 p.2 } rfl
            cases this with
            | none hl hd hr => exact .none hl hd hr
            | fin r' hl hk hd ho hr => exact .fin r' hl hk hd ho hr
            | commit r' e hl hk hd ho hr => exact .commit r' e hl hk hd ho hr
      | del d => exact DoneStep.ofPc c t _ rfl
  | uChange u rd created =>
    simp only []
    unfold stepChange
    split
    · exact DoneStep.ofFinish c t _ rfl _ _ _ _ _ (by simp)
    · exact DoneStep.ofPc c t _ rfl
  | uCommit u rd created new =>
    simp only []
    unfold stepCommit
    simp only []
    split
    · exact DoneStep.ofFinish c t _ rfl _ _ _ _ _ (by simp)
    · refine .commit ⟨.upd u, .ok (some new), .committed, (c.threads t).invAt, c.log.length, c.log.length + 1⟩ _ rfl rfl ?_ ?_ rfl
      · simp [setAt, Thread.finish]
      · intro t' h; simp [setAt, h]
  | dTry d seen attempt =>
    simp only []
    unfold stepDel
    simp only []
    cases seen with
    | none => exact DoneStep.ofFinish c t _ rfl _ _ _ _ _ (by simp)
    | some p =>
      obtain ⟨r, b⟩ := p
      simp only []
      cases d.pre b with
      | some e => exact DoneStep.ofFinish c t _ rfl _ _ _ _ _ (by simp)
      | none =>
        simp only []
        split
        · split
          · exact DoneStep.ofPc c t _ rfl
          · exact DoneStep.ofFinish c t _ rfl _ _ _ _ _ (by simp)
        · refine .commit ⟨.del d, .ok (some b), .committed, (c.threads t).invAt, c.log.length, c.log.length + 1⟩ _ rfl rfl ?_ ?_ rfl
          · simp [setAt, Thread.finish]
          · intro t' h; simp [setAt, h]

/-! ### The ghost bookkeeping of refused calls is exact -/

/-- the event stands for a finished, refused call with linearization index `k` -/
def EvSound (threads : Nat → Thread M) (k : Nat) (ev : Ev M) : Prop :=
  ev.lin = k ∧ ev.committed = false ∧
    ∃ r : Rec M, (threads ev.tid).done[ev.idx]? = some r ∧ r.kind = .refused ∧ r.lin = k ∧ r.op = ev.op ∧ r.res = ev.res

structure LInv (c : Config M) : Prop where
  sound : ∀ k ev, ev ∈ c.refusedAt k → EvSound c.threads k ev
  complete : ∀ t n r, (c.threads t).done[n]? = some r → r.kind = .refused →
    (⟨t, n, r.op, r.res, r.lin, false⟩ : Ev M) ∈ c.refusedAt r.lin
  nodup : ∀ k, ((c.refusedAt k).map (fun ev => (ev.tid, ev.idx))).Nodup

theorem LInv.init (s₀ : SStore M) (progs : Nat → List (Op M)) : LInv (initCfg s₀ progs) := by
  refine ⟨?_, ?_, ?_⟩
  · intro k ev h; simp [initCfg] at h
  · intro t n r h; simp [initCfg] at h
  · intro k; simp [initCfg]

theorem noteRefused_none {c c' : Config M} {t : Nat} (hd : (c'.threads t).done = (c.threads t).done) :
    noteRefused c c' t = c.refusedAt := by
  unfold noteRefused
  rw [hd, List.drop_length]

theorem noteRefused_fin {c c' : Config M} {t : Nat} {r : Rec M}
    (hd : (c'.threads t).done = (c.threads t).done ++ [r]) :
    noteRefused c c' t =
      if r.kind = .refused then
        setAt c.refusedAt r.lin (c.refusedAt r.lin ++ [⟨t, (c.threads t).done.length, r.op, r.res, r.lin, false⟩])
      else c.refusedAt := by
  unfold noteRefused
  rw [hd, List.drop_left]

/-- records are only ever appended -/
theorem done_persist {c c' : Config M} {t : Nat} (hs : DoneStep c c' t) {t' n : Nat} {r' : Rec M}
    (h : (c.threads t').done[n]? = some r') : (c'.threads t').done[n]? = some r' := by
  have hlt : n < (c.threads t').done.length := (List.getElem?_eq_some_iff.mp h).1
  cases hs with
  | none hl hd hr => rw [hd]; exact h
  | fin r hl hk hd ho hr =>
    by_cases ht : t' = t
    · subst ht; rw [hd, List.getElem?_append_left hlt]; exact h
    · rw [ho t' ht]; exact h
  | commit r e hl hk hd ho hr =>
    by_cases ht : t' = t
    · subst ht; rw [hd, List.getElem?_append_left hlt]; exact h
    · rw [ho t' ht]; exact h

/-- a record of the new configuration is an old one or the one just appended -/
theorem done_new {c c' : Config M} {t : Nat} {r : Rec M}
    (hd : (c'.threads t).done = (c.threads t).done ++ [r])
    (ho : ∀ t', t' ≠ t → (c'.threads t').done = (c.threads t').done) {t' n : Nat} {r' : Rec M}
    (h : (c'.threads t').done[n]? = some r') :
    (c.threads t').done[n]? = some r' ∨ (t' = t ∧ n = (c.threads t).done.length ∧ r' = r) := by
  by_cases ht : t' = t
  · subst ht
    rw [hd] at h
    by_cases hlt : n < (c.threads t').done.length
    · rw [List.getElem?_append_left hlt] at h; exact Or.inl h
    · have hge : (c.threads t').done.length ≤ n := by omega
      rw [List.getElem?_append_right hge] at h
      have h0 : n - (c.threads t').done.length = 0 := by
        rcases Nat.eq_zero_or_pos (n - (c.threads t').done.length) with h0 | h0
        · exact h0
        · rw [List.getElem?_eq_none (by simp; omega)] at h; cases h
      rw [h0] at h
      simp at h
      exact Or.inr ⟨rfl, by omega, h.symm⟩
  · rw [ho t' ht] at h; exact Or.inl h

theorem LInv.keep {c c' : Config M} {t : Nat} (h : LInv c) (hs : DoneStep c c' t)
    (hnew : ∀ (t' n : Nat) (r' : Rec M), (c'.threads t').done[n]? = some r' → r'.kind = .refused →
      (c.threads t').done[n]? = some r')
    (tk : Nat) : LInv { c' with tick := tk, refusedAt := c.refusedAt } := by
  refine ⟨?_, ?_, h.nodup⟩
  · intro k ev hev
    obtain ⟨h1, h2, r, hr, h3⟩ := h.sound k ev hev
    exact ⟨h1, h2, r, done_persist hs hr, h3⟩
  · intro t' n r' hr' hk'
    exact h.complete t' n r' (hnew t' n r' hr' hk') hk'

theorem LInv.step {c : Config M} (h : LInv c) (fixed : Bool) (env : Env) (t : Nat) :
    LInv (step fixed env c t) := by
  have hs := stepCore_doneStep fixed env c t
  unfold ScVerif.C02.step
  cases hs with
  | none hl hd hr =>
    rw [noteRefused_none (hd t)]
    exact h.keep (t := t) (.none hl hd hr) (fun t' n r' hr' _ => by rw [hd t'] at hr'; exact hr') _
  | commit r e hl hk hd ho hr =>
    rw [noteRefused_fin hd, if_neg (by rw [hk]; simp)]
    refine h.keep (.commit r e hl hk hd ho hr) ?_ _
    intro t' n r' hr' hk'
    rcases done_new hd ho hr' with hold | ⟨_, _, hrr⟩
    · exact hold
    · rw [hrr, hk] at hk'; cases hk'
  | fin r hl hk hd ho hr =>
    rw [noteRefused_fin hd]
    by_cases hkr : r.kind = .refused
    · rw [if_pos hkr]
      have hs' : DoneStep c (stepCore fixed env c t) t := .fin r hl hk hd ho hr
      refine ⟨?_, ?_, ?_⟩
      · intro k ev hev
        simp only [setAt] at hev
        have old : ∀ k', ev ∈ c.refusedAt k' → EvSound (stepCore fixed env c t).threads k' ev := by
          intro k' hev'
          obtain ⟨h1, h2, r₀, hr₀, h3⟩ := h.sound k' ev hev'
          exact ⟨h1, h2, r₀, done_persist hs' hr₀, h3⟩
        show EvSound (stepCore fixed env c t).threads k ev
        split at hev
        · next hk' =>
          rcases List.mem_append.mp hev with hev | hev
          · rw [hk']; exact old _ hev
          · simp only [List.mem_singleton] at hev
            subst hev
            refine ⟨hk'.symm, rfl, r, ?_, hkr, hk'.symm, rfl, rfl⟩
            show ((stepCore fixed env c t).threads t).done[(c.threads t).done.length]? = some r
            rw [hd]; simp
        · exact old _ hev
      · intro t' n r' hr' hk'
        show _ ∈ setAt c.refusedAt r.lin _ r'.lin
        rcases done_new hd ho hr' with hold | ⟨ht, hn, hrr⟩
        · have hmem := h.complete t' n r' hold hk'
          simp only [setAt]
          split
          · next heq => rw [← heq]; exact List.mem_append_left _ hmem
          · exact hmem
        · subst ht hn hrr
          simp [setAt]
      · intro k
        show ((setAt c.refusedAt r.lin _ k).map _).Nodup
        simp only [setAt]
        split
        · next heq =>
          rw [List.map_append, List.nodup_append]
          refine ⟨h.nodup r.lin, by simp, ?_⟩
          intro a ha b hb
          simp only [List.map_cons, List.map_nil, List.mem_singleton] at hb
          subst hb
          intro hab
          subst hab
          obtain ⟨ev, hev, hpair⟩ := List.mem_map.mp ha
          obtain ⟨_, _, r₀, hr₀, _⟩ := h.sound r.lin ev hev
          simp only [Prod.mk.injEq] at hpair
          rw [hpair.1, hpair.2] at hr₀
          rw [List.getElem?_eq_none (Nat.le_refl _)] at hr₀
          cases hr₀
        · exact h.nodup k
    · rw [if_neg hkr]
      refine h.keep (.fin r hl hk hd ho hr) ?_ _
      intro t' n r' hr' hk'
      rcases done_new hd ho hr' with hold | ⟨_, _, hrr⟩
      · exact hold
      · rw [hrr] at hk'; exact absurd hk' hkr

/-! ### The sequence, and its execution on the sequential specification -/

/-- Execute the calls one at a time on the specification; `none` as soon as a reported result is not the one the
specification gives. -/
def seqRun (s : SStore M) : List (Ev M) → Option (SStore M)
  | [] => some s
  | ev :: rest => if (specStep ev.op s).1 = ev.res then seqRun (specStep ev.op s).2 rest else none

theorem seqRun_append (s : SStore M) (l₁ l₂ : List (Ev M)) :
    seqRun s (l₁ ++ l₂) = (seqRun s l₁).bind (fun s' => seqRun s' l₂) := by
  induction l₁ generalizing s with
  | nil => rfl
  | cons ev rest ih =>
    simp only [List.cons_append, seqRun]
    split
    · exact ih _
    · rfl

/-- a block of calls that the specification refuses without effect leaves the state alone, in any order -/
theorem seqRun_refused (s : SStore M) (l : List (Ev M))
    (h : ∀ ev, ev ∈ l → specStep ev.op s = (ev.res, s)) : seqRun s l = some s := by
  induction l with
  | nil => rfl
  | cons ev rest ih =>
    have hev := h ev List.mem_cons_self
    simp only [seqRun, hev, if_true]
    exact ih (fun ev' h' => h ev' (List.mem_cons_of_mem _ h'))

/-- the event of log entry `k`: what the specification reports for it on the contents just before it -/
def comEv (s₀ : SStore M) (log : List (Entry M)) (k : Nat) (e : Entry M) : Ev M :=
  ⟨e.tid, e.idx, e.op, (specStep e.op (replay s₀ (log.take k))).1, k, true⟩

/-- blocks 0 … n-1: the refused calls of index k (as arranged by `arr`), then log entry k -/
def linUpto (s₀ : SStore M) (log : List (Entry M)) (arr : Nat → List (Ev M)) : Nat → List (Ev M)
  | 0 => []
  | n + 1 => linUpto s₀ log arr n ++ arr n ++ (match log[n]? with
      | some e => [comEv s₀ log n e]
      | none => [])

def linSeq (s₀ : SStore M) (log : List (Entry M)) (arr : Nat → List (Ev M)) : List (Ev M) :=
  linUpto s₀ log arr log.length ++ arr log.length

theorem seqRun_linUpto (s₀ : SStore M) (log : List (Entry M)) (arr : Nat → List (Ev M))
    (harr : ∀ k ev, k ≤ log.length → ev ∈ arr k →
      specStep ev.op (replay s₀ (log.take k)) = (ev.res, replay s₀ (log.take k))) :
    ∀ n, n ≤ log.length → seqRun s₀ (linUpto s₀ log arr n) = some (replay s₀ (log.take n)) := by
  intro n
  induction n with
  | zero => intro _; simp [linUpto, seqRun, replay]
  | succ n ih =>
    intro hn
    have hlt : n < log.length := by omega
    have hget : log[n]? = some log[n] := List.getElem?_eq_getElem hlt
    simp only [linUpto, hget]
    rw [seqRun_append, seqRun_append, ih (by omega)]
    simp only [Option.bind_some]
    rw [seqRun_refused _ _ (fun ev hev => harr n ev (by omega) hev)]
    simp only [Option.bind_some, seqRun, comEv, if_true]
    rw [take_succ_of_getElem? hget, replay_snoc]

theorem seqRun_linSeq (s₀ : SStore M) (log : List (Entry M)) (arr : Nat → List (Ev M))
    (harr : ∀ k ev, k ≤ log.length → ev ∈ arr k →
      specStep ev.op (replay s₀ (log.take k)) = (ev.res, replay s₀ (log.take k))) :
    seqRun s₀ (linSeq s₀ log arr) = some (replay s₀ log) := by
  unfold linSeq
  rw [seqRun_append, seqRun_linUpto s₀ log arr harr _ (Nat.le_refl _)]
  simp only [Option.bind_some, List.take_length]
  have := seqRun_refused (replay s₀ log) (arr log.length)
    (fun ev hev => by have := harr log.length ev (Nat.le_refl _) hev; rwa [List.take_length] at this)
  exact this

theorem mem_linUpto {s₀ : SStore M} {log : List (Entry M)} {arr : Nat → List (Ev M)} {ev : Ev M} :
    ∀ n, ev ∈ linUpto s₀ log arr n ↔
      ∃ k, k < n ∧ (ev ∈ arr k ∨ ∃ e, log[k]? = some e ∧ ev = comEv s₀ log k e) := by
  intro n
  induction n with
  | zero => simp [linUpto]
  | succ n ih =>
    simp only [linUpto, List.mem_append, ih]
    constructor
    · rintro ((⟨k, hk, h⟩ | h) | h)
      · exact ⟨k, by omega, h⟩
      · exact ⟨n, by omega, Or.inl h⟩
      · cases hget : log[n]? with
        | none => rw [hget] at h; simp at h
        | some e =>
          rw [hget] at h
          simp only [List.mem_singleton] at h
          exact ⟨n, by omega, Or.inr ⟨e, hget, h⟩⟩
    · rintro ⟨k, hk, h⟩
      by_cases hkn : k < n
      · exact Or.inl (Or.inl ⟨k, hkn, h⟩)
      · have : k = n := by omega
        subst this
        rcases h with h | ⟨e, he, hev⟩
        · exact Or.inl (Or.inr h)
        · rw [he]; exact Or.inr (by simp [hev])

theorem mem_linSeq {s₀ : SStore M} {log : List (Entry M)} {arr : Nat → List (Ev M)} {ev : Ev M} :
    ev ∈ linSeq s₀ log arr ↔
      (∃ k, k ≤ log.length ∧ ev ∈ arr k) ∨ (∃ k e, log[k]? = some e ∧ ev = comEv s₀ log k e) := by
  unfold linSeq
  rw [List.mem_append, mem_linUpto]
  constructor
  · rintro (⟨k, hk, h | h⟩ | h)
    · exact Or.inl ⟨k, by omega, h⟩
    · obtain ⟨e, he, hev⟩ := h; exact Or.inr ⟨k, e, he, hev⟩
    · exact Or.inl ⟨log.length, Nat.le_refl _, h⟩
  · rintro (⟨k, hk, h⟩ | ⟨k, e, he, hev⟩)
    · by_cases hlt : k < log.length
      · exact Or.inl ⟨k, hlt, Or.inl h⟩
      · have : k = log.length := by omega
        subst this; exact Or.inr h
    · exact Or.inl ⟨k, (List.getElem?_eq_some_iff.mp he).1, Or.inr ⟨e, he, hev⟩⟩

/-- the order of the sequence: by linearization index, a committed call after the refused ones of its index -/
def LinOrd (x y : Ev M) : Prop := x.lin ≤ y.lin ∧ (x.committed = true → x.lin < y.lin)

theorem pairwise_refused_block {k : Nat} {l : List (Ev M)}
    (h : ∀ ev, ev ∈ l → ev.lin = k ∧ ev.committed = false) : l.Pairwise LinOrd := by
  induction l with
  | nil => exact List.Pairwise.nil
  | cons a rest ih =>
    refine List.Pairwise.cons ?_ (ih (fun ev hev => h ev (List.mem_cons_of_mem _ hev)))
    intro b hb
    have ha := h a List.mem_cons_self
    have hb' := h b (List.mem_cons_of_mem _ hb)
    refine ⟨by rw [ha.1, hb'.1]; exact Nat.le_refl _, ?_⟩
    intro hc; rw [ha.2] at hc; cases hc

theorem pairwise_linUpto (s₀ : SStore M) (log : List (Entry M)) (arr : Nat → List (Ev M))
    (harr : ∀ k ev, ev ∈ arr k → ev.lin = k ∧ ev.committed = false) :
    ∀ n, (linUpto s₀ log arr n).Pairwise LinOrd ∧ ∀ ev, ev ∈ linUpto s₀ log arr n → ev.lin < n := by
  intro n
  induction n with
  | zero => simp [linUpto]
  | succ n ih =>
    obtain ⟨ih1, ih2⟩ := ih
    have hblock : ∀ ev, ev ∈ arr n → ev.lin = n ∧ ev.committed = false := harr n
    have hcom : ∀ ev, ev ∈ (match log[n]? with | some e => [comEv s₀ log n e] | none => []) → ev.lin = n := by
      intro ev hev
      cases hget : log[n]? with
      | none => rw [hget] at hev; simp at hev
      | some e => rw [hget] at hev; simp only [List.mem_singleton] at hev; rw [hev]; rfl
    constructor
    · simp only [linUpto]
      rw [List.pairwise_append, List.pairwise_append]
      refine ⟨⟨ih1, pairwise_refused_block hblock, ?_⟩, ?_, ?_⟩
      · intro a ha b hb
        have := ih2 a ha
        have hb' := (hblock b hb).1
        exact ⟨by omega, fun _ => by omega⟩
      · cases hget : log[n]? with
        | none => exact List.Pairwise.nil
        | some e => exact List.pairwise_singleton _ _
      · intro a ha b hb
        have hbl := hcom b hb
        rcases List.mem_append.mp ha with ha | ha
        · have := ih2 a ha
          exact ⟨by omega, fun _ => by omega⟩
        · have ha' := hblock a ha
          refine ⟨by omega, ?_⟩
          intro hc; rw [ha'.2] at hc; cases hc
    · intro ev hev
      simp only [linUpto, List.mem_append] at hev
      rcases hev with (hev | hev) | hev
      · have := ih2 ev hev; omega
      · have := (hblock ev hev).1; omega
      · have := hcom ev hev; omega

theorem pairwise_linSeq (s₀ : SStore M) (log : List (Entry M)) (arr : Nat → List (Ev M))
    (harr : ∀ k ev, ev ∈ arr k → ev.lin = k ∧ ev.committed = false) :
    (linSeq s₀ log arr).Pairwise LinOrd := by
  unfold linSeq
  obtain ⟨h1, h2⟩ := pairwise_linUpto s₀ log arr harr log.length
  rw [List.pairwise_append]
  refine ⟨h1, pairwise_refused_block (harr log.length), ?_⟩
  intro a ha b hb
  have := h2 a ha
  have hb' := (harr log.length b hb).1
  exact ⟨by omega, fun _ => by omega⟩

/-- two events of one block and one kind are different calls -/
def BlockDistinct (x y : Ev M) : Prop :=
  x.lin = y.lin → x.committed = y.committed → (x.tid, x.idx) ≠ (y.tid, y.idx)

theorem distinct_linUpto (s₀ : SStore M) (log : List (Entry M)) (arr : Nat → List (Ev M))
    (harr : ∀ k ev, ev ∈ arr k → ev.lin = k ∧ ev.committed = false)
    (hnd : ∀ k, ((arr k).map (fun ev => (ev.tid, ev.idx))).Nodup) :
    ∀ n, (linUpto s₀ log arr n).Pairwise BlockDistinct := by
  intro n
  induction n with
  | zero => simp [linUpto]
  | succ n ih =>
    have hlt := (pairwise_linUpto s₀ log arr harr n).2
    have hblock : ∀ ev, ev ∈ arr n → ev.lin = n ∧ ev.committed = false := harr n
    simp only [linUpto]
    rw [List.pairwise_append, List.pairwise_append]
    refine ⟨⟨ih, ?_, ?_⟩, ?_, ?_⟩
    · have := hnd n
      rw [List.Nodup, List.pairwise_map] at this
      exact this.imp (fun hne _ _ => hne)
    · intro a ha b hb hl _
      have := hlt a ha
      have := (hblock b hb).1
      omega
    · cases log[n]? with
      | none => exact List.Pairwise.nil
      | some e => exact List.pairwise_singleton _ _
    · intro a ha b hb hl hc
      cases hget : log[n]? with
      | none => rw [hget] at hb; simp at hb
      | some e =>
        rw [hget] at hb
        simp only [List.mem_singleton] at hb
        subst hb
        rcases List.mem_append.mp ha with ha | ha
        · have := hlt a ha
          simp only [comEv] at hl
          omega
        · have := (hblock a ha).2
          rw [this] at hc
          simp [comEv] at hc

theorem distinct_linSeq (s₀ : SStore M) (log : List (Entry M)) (arr : Nat → List (Ev M))
    (harr : ∀ k ev, ev ∈ arr k → ev.lin = k ∧ ev.committed = false)
    (hnd : ∀ k, ((arr k).map (fun ev => (ev.tid, ev.idx))).Nodup) :
    (linSeq s₀ log arr).Pairwise BlockDistinct := by
  unfold linSeq
  rw [List.pairwise_append]
  refine ⟨distinct_linUpto s₀ log arr harr hnd _, ?_, ?_⟩
  · have := hnd log.length
    rw [List.Nodup, List.pairwise_map] at this
    exact this.imp (fun hne _ _ => hne)
  · intro a ha b hb hl _
    have := (pairwise_linUpto s₀ log arr harr log.length).2 a ha
    have := (harr log.length b hb).1
    omega

theorem LInv.run {c : Config M} (h : LInv c) (fixed : Bool) (env : Env) (sched : List Nat) :
    LInv (run fixed env c sched) := by
  induction sched generalizing c with
  | nil => exact h
  | cons t rest ih => exact ih (h.step fixed env t)

end ScVerif.C02
