import ScVerif.C02.Props
/-!
# C02 — property theorems about the library's own guarded writers

"A write with an expected value or check succeeds only if the stored value satisfied it at the instant of the
write … and a Delete never removes a version its precondition did not see."  Two users of the write path inside the
library rely on exactly that, and their obligations are stated here on the model of the write path — for ARBITRARY
initial contents, programs of the other threads, environments and schedules:

* the SWEEP of expired hails (`hailpb.Model.gc`, run by `CreateHail`): `List`, then per hail its expiry test
  accepted a `Delete(allow missing, expected value = the listed copy)`.  Whatever other writers do between the
  `List` and the `Delete` — and inside the `Delete`'s own read / lock window, which makes it retry — a hail the sweep
  removes is removed in the listed version: every predicate the listed copy satisfied (being expired) holds of the
  version removed (`C02_guarded_delete_removes_the_listed_version`; for the sweep as a program — every Delete of the
  thread guarded by an expired copy — `C02_sweep_removes_only_expired_hails`).  The witness
  `C02_unguarded_sweep_removes_a_fresh_version` shows what the same sweep does when its precondition does not look
  at the stored version (a check that is constantly satisfied): it removes a version another writer stored after
  the `List` — NOT the code.
* ACKNOWLEDGEMENTS of a publication (`publicationpb.ModelServer.AcknowledgePublication`): a check-guarded masked
  `Update` whose check refuses a version that is already acknowledged and which stores an acknowledged version.  Of
  two such calls on one id that both report success, the later one is preceded, after the earlier one, by another
  committed write to that id (a re-publication, a Delete): two acknowledgements of one version never both succeed
  (`C02_guarded_writes_exclude_each_other`).
-/
namespace ScVerif.C02

variable {M : Type} [DecidableEq M] [Msg M]

/-- **A Delete with an expected value removes that very version.**  A Delete that was given the expected value
`v` (the sweep: the copy its `List` returned, on which it took its expiry decision) and reports that it removed
`b`: then `b = v`, `v` is what the id held at the instant of the removal, and so every predicate of the listed
copy — "expired" — holds of the version removed.  ∀ programs of the other writers, environments, schedules. -/
theorem C02_guarded_delete_removes_the_listed_version (env : Env) (s₀ : SStore M) (progs : Nat → List (Op M))
    (sched : List Nat) :
    let c : Config M := run true env (initCfg s₀ progs) sched
    ∀ (t n : Nat) (r : Rec M) (d : DelOp M) (v b : M), (c.threads t).done[n]? = some r → r.op = .del d →
      d.expect = some v → r.res = .ok (some b) →
      b = v ∧ (replay s₀ (c.log.take r.lin)) d.id = some v ∧ (replay s₀ (c.log.take (r.lin + 1))) d.id = none ∧
      ∀ expired : M → Prop, expired v → expired b := by
  intro c t n r d v b hr hop hex hres
  have h := (Inv.init s₀ progs).run env sched
  obtain ⟨h1, h2, h3⟩ := del_of_ok h hr hop hres
  have hb : b = v := by
    unfold DelOp.pre at h2
    cases hck : d.check b with
    | some e => rw [hck] at h2; cases h2
    | none =>
      rw [hck, hex] at h2
      by_cases hbv : b = v
      · exact hbv
      · have : (some v).isSome = true ∧ some b ≠ some v := ⟨rfl, fun hh => hbv (Option.some.inj hh)⟩
        simp [this] at h2
  subst hb
  exact ⟨rfl, h1, h3, fun _ hp => hp⟩

/-- **The sweep removes only expired hails.**  Thread `t` runs the sweep (after the `Add` of `CreateHail`, or after
anything else): every Delete of ITS program carries an expected value — the copy its `List` returned — and that copy
is expired.  Then every hail thread `t` reports removed — under any schedule, against any programs of the other
threads — was removed in an expired version, which is what the id held at that instant.  (The program of the
thread is what the harness hands the model for an observed execution of `CreateHail`: tie `hail-sweep`.) -/
theorem C02_sweep_removes_only_expired_hails (env : Env) (s₀ : SStore M) (progs : Nat → List (Op M))
    (sched : List Nat) (expired : M → Prop) (t : Nat)
    (hsweep : ∀ d : DelOp M, Op.del d ∈ progs t → ∃ v, d.expect = some v ∧ expired v) :
    let c : Config M := run true env (initCfg s₀ progs) sched
    ∀ (n : Nat) (r : Rec M) (d : DelOp M) (b : M), (c.threads t).done[n]? = some r → r.op = .del d →
      r.res = .ok (some b) → expired b ∧ (replay s₀ (c.log.take r.lin)) d.id = some b := by
  intro c n r d b hr hop hres
  have hmem : Op.del d ∈ progs t := by
    have hacc := acc_run env s₀ progs sched t
    have h1 : r ∈ (c.threads t).done := List.mem_of_getElem? hr
    have h2 : forget r.op ∈ (((c.threads t).done.map (·.op) ++ pcOps (c.threads t).pc ++ (c.threads t).prog).map forget) := by
      apply List.mem_map_of_mem
      apply List.mem_append_left
      apply List.mem_append_left
      exact List.mem_map_of_mem h1
    rw [hacc, hop] at h2
    obtain ⟨op', hop', hf⟩ := List.mem_map.mp h2
    cases op' with
    | upd u =>
      exfalso
      unfold forget at hf
      by_cases hg : u.genId = true
      · simp [hg] at hf
      · simp [hg] at hf
    | del d' =>
      have : d' = d := by
        unfold forget at hf
        injection hf
      rw [← this]; exact hop'
  obtain ⟨v, hex, hv⟩ := hsweep d hmem
  obtain ⟨hb, hcell, _, _⟩ := C02_guarded_delete_removes_the_listed_version env s₀ progs sched t n r d v b hr hop hex hres
  subst hb
  exact ⟨hv, hcell⟩

/-- **Guarded writes exclude each other.**  Let `acked` be any predicate on messages (the receipt is ACCEPTED or
REJECTED).  Call 1 stores a message that satisfies it (whatever it read); call 2 — on the same id — carries a
check that refuses every stored message satisfying it.  If both report
success and call 1 is linearized first, some OTHER committed call on that id lies strictly between them in the
commit order.  So two acknowledgements of one version never both succeed: the second is refused, or lost a race.
∀ programs, environments, schedules. -/
theorem C02_guarded_writes_exclude_each_other (env : Env) (s₀ : SStore M) (progs : Nat → List (Op M))
    (sched : List Nat) (acked : M → Prop) :
    let c : Config M := run true env (initCfg s₀ progs) sched
    ∀ (t₁ n₁ : Nat) (r₁ : Rec M) (t₂ n₂ : Nat) (r₂ : Rec M) (u₁ u₂ : UpdOp M) (v₁ v₂ : M),
      (c.threads t₁).done[n₁]? = some r₁ → (c.threads t₂).done[n₂]? = some r₂ →
      r₁.op = .upd u₁ → r₂.op = .upd u₂ → u₁.id = u₂.id →
      (∀ old, acked (u₁.f old)) → (∀ b, acked b → u₂.check (some b) ≠ none) →
      r₁.res = .ok (some v₁) → r₂.res = .ok (some v₂) → r₁.lin < r₂.lin →
      ∃ (k : Nat) (e : Entry M), r₁.lin < k ∧ k < r₂.lin ∧ c.log[k]? = some e ∧ opId e.op = u₂.id := by
  intro c t₁ n₁ r₁ t₂ n₂ r₂ u₁ u₂ v₁ v₂ h1 h2 ho1 ho2 hid hw hck hr1 hr2 hlt
  have h := (Inv.init s₀ progs).run env sched
  obtain ⟨old₁, _, _, _, hv₁, hst₁⟩ := cas_of_ok h h1 ho1 hr1
  obtain ⟨old₂, hrd₂, _, hc₂, _, _⟩ := cas_of_ok h h2 ho2 hr2
  have hbound : r₂.lin ≤ c.log.length := by
    have hh : r₂.inv ≤ r₂.lin ∧ r₂.lin ≤ r₂.resp ∧ r₂.resp ≤ c.log.length ∧ _ := (h.thr t₂).recs n₂ r₂ h2
    omega
  apply Classical.byContradiction
  intro hno
  have hq : ∀ k e, r₁.lin + 1 ≤ k → k < r₂.lin → c.log[k]? = some e → opId e.op ≠ u₂.id := by
    intro k e hk1 hk2 he hid'
    exact hno ⟨k, e, by omega, hk2, he, hid'⟩
  have hcell := replay_quiet s₀ c.log u₂.id (r₁.lin + 1) r₂.lin (by omega) hbound hq
  rw [← hid, hst₁] at hcell
  rw [← hid] at hrd₂
  rw [hcell] at hrd₂
  have hack : acked v₁ := by rw [hv₁]; exact hw old₁
  have hold : old₂ = some v₁ := by
    unfold specRead at hrd₂
    by_cases hv : u₂.isValue = true
    · simp [hv] at hrd₂; exact hrd₂.symm
    · by_cases hea : u₂.expectAbsent = true
      · simp [hv, hea] at hrd₂
      · simp [hv, hea] at hrd₂; exact hrd₂.symm
  rw [hold] at hc₂
  exact hck v₁ hack hc₂

/-! ### Witness (NOT the code): a sweep whose precondition does not look at the stored version -/

/-- the hail 4 is `1` (expired) at first; thread 0 is the sweep's Delete of hail 4 with a check that is constantly
satisfied (the expiry test evaluated on the listed copy instead of on the message it is handed), thread 1 a
re-dispatch that stores `7` (not expired) -/
def unguardedSweep : Config Int :=
  run true env₀ (initCfg (fun i => if i = 4 then some 1 else none)
      (fun t =>
        if t = 0 then [.del ⟨4, true, none, fun _ => none⟩]
        else if t = 1 then [.upd { id := 4, isValue := false, expectAbsent := false, createIfAbsent := false,
                                   expect := none, check := fun _ => none, f := fun _ => 7 }]
        else []))
    [0, 1, 1, 1, 0, 0]

/-- **An unguarded sweep removes a version it never judged**: the re-dispatch reports success and its hail is gone. -/
theorem C02_unguarded_sweep_removes_a_fresh_version :
    (unguardedSweep.threads 1).done.map (·.res) = [.ok (some 7)] ∧
    (unguardedSweep.threads 0).done.map (·.res) = [.ok (some 7)] ∧
    absS unguardedSweep.store 4 = none := by
  decide

/-- the sweep of the code on the same schedule (expected value = the listed copy `1`): refused, the hail stays -/
example :
    let c : Config Int := run true env₀ (initCfg (fun i => if i = 4 then some 1 else none)
      (fun t =>
        if t = 0 then [.del ⟨4, true, some 1, fun _ => none⟩]
        else if t = 1 then [.upd { id := 4, isValue := false, expectAbsent := false, createIfAbsent := false,
                                   expect := none, check := fun _ => none, f := fun _ => 7 }]
        else []))
      [0, 1, 1, 1, 0, 0]
    (c.threads 0).done.map (·.res) = [.error .failedPrecondition] ∧ absS c.store 4 = some 7 := by
  decide

/-- non-vacuity of `C02_guarded_delete_removes_the_listed_version`: an undisturbed sweep removes the listed hail -/
example :
    let c : Config Int := run true env₀ (initCfg (fun i => if i = 4 then some 1 else none)
      (fun t => if t = 0 then [.del ⟨4, true, some 1, fun _ => none⟩] else [])) [0, 0]
    (c.threads 0).done.map (·.res) = [.ok (some 1)] ∧ absS c.store 4 = none := by
  decide

/-- an acknowledgement with the receipt `r` (a message is its receipt: 0 none, 2 ACCEPTED, 3 REJECTED) -/
def ackOp (r : Int) : Op Int :=
  .upd { id := 5, isValue := false, expectAbsent := false, createIfAbsent := false, expect := none,
         check := fun old => if old.getD 0 ≥ 2 then some .failedPrecondition else none, f := fun _ => r }

/-- non-vacuity of `C02_guarded_writes_exclude_each_other`: two acknowledgements (the check refuses a message ≥ 2,
the write stores 2 / 3) interleaved read-read-commit-commit: the first succeeds, the second loses the race; run one
after the other, the second is refused by its check -/
example :
    let progs : Nat → List (Op Int) := fun t => if t = 0 then [ackOp 2] else if t = 1 then [ackOp 3] else []
    let c₁ : Config Int := run true env₀ (initCfg (fun i => if i = 5 then some 0 else none) progs) [0, 1, 0, 1, 0, 1]
    let c₂ : Config Int := run true env₀ (initCfg (fun i => if i = 5 then some 0 else none) progs) [0, 0, 0, 1, 1, 1]
    (c₁.threads 0).done.map (·.res) = [.ok (some 2)] ∧ (c₁.threads 1).done.map (·.res) = [.error .aborted] ∧
    (c₂.threads 0).done.map (·.res) = [.ok (some 2)] ∧ (c₂.threads 1).done.map (·.res) = [.error .failedPrecondition] := by
  decide

end ScVerif.C02
