import ScVerif.C02.Step
/-!
# C02 — consequences of the invariant used by the property theorems (helper lemmas only)
-/
set_option linter.unusedSectionVars false
set_option linter.unusedVariables false
namespace ScVerif.C02

variable {M : Type} [DecidableEq M] [Msg M]

/-! ### Program-order accounting (holds for the unfixed code too) -/

def pcOps : Pc M → List (Op M)
  | .idle => []
  | .uChange u _ _ => [.upd u]
  | .uCommit u _ _ _ => [.upd u]
  | .dTry d _ _ => [.del d]

/-- A call as the program text has it: the id of a generate-id call is not known before it runs. -/
def forget : Op M → Op M
  | .upd u => if u.genId then .upd { u with id := 0 } else .upd u
  | .del d => .del d

theorem forget_of_not_gen {op : Op M} (h : opGen op = false) : forget op = op := by
  cases op with
  | upd u => simp only [opGen] at h; simp [forget, h]
  | del d => rfl

theorem opGen_forget (op : Op M) : opGen (forget op) = opGen op := by
  cases op with
  | upd u =>
    by_cases h : u.genId
    · simp [forget, opGen, h]
    · simp [forget, opGen, h]
  | del d => rfl

theorem forget_resolve {env : Env} {c : Config M} {u₀ u : UpdOp M} {r : Nat}
    (h : resolveId env c u₀ = (some u, r)) : forget (.upd u) = forget (.upd u₀) := by
  unfold resolveId at h
  by_cases hg : u₀.genId
  · simp only [hg, if_true] at h
    split at h
    · cases h; simp [forget, hg]
    · cases h
  · simp only [hg] at h
    cases h; rfl

def AccT (prog : List (Op M)) (th : Thread M) : Prop :=
  (th.done.map (·.op) ++ pcOps th.pc ++ th.prog).map forget = prog.map forget

theorem AccT.finish {prog : List (Op M)} {th : Thread M} {op : Op M} (res kind lin resp)
    (h : (th.done.map (·.op) ++ [op] ++ th.prog).map forget = prog.map forget) :
    AccT prog (th.finish op res kind lin resp) := by
  simp only [AccT, Thread.finish, pcOps, List.map_append, List.map_cons, List.map_nil, List.append_nil] at h ⊢
  exact h

theorem acc_step (fixed : Bool) (env : Env) (progs : Nat → List (Op M)) {c : Config M}
    (h : ∀ t, AccT (progs t) (c.threads t)) (t : Nat) : ∀ t', AccT (progs t') ((step fixed env c t).threads t') := by
  intro t'
  have ht := h t
  unfold AccT at ht
  -- every step only rewrites the stepping thread's slot
  have key : ∀ th', AccT (progs t) th' → AccT (progs t') (setAt c.threads t th' t') := by
    intro th' hth'
    simp only [setAt]
    split
    · next heq => subst heq; exact hth'
    · exact h t'
  show AccT (progs t') ((stepCore fixed env c t).threads t')
  unfold stepCore
  simp only []
  cases hpc : (c.threads t).pc with
  | idle =>
    rw [hpc] at ht
    simp only [pcOps, List.append_nil] at ht
    unfold stepIdle
    cases hprog : (c.threads t).prog with
    | nil => exact h t'
    | cons op rest =>
      rw [hprog] at ht
      cases op with
      | upd u₀ =>
        simp only []
        cases hres : resolveId env c u₀ with
        | mk ou r =>
        cases ou with
        | none =>
          simp only [Config.setThread]
          apply key
          apply AccT.finish
          simpa using ht
        | some u =>
          have hf := forget_resolve hres
          simp only []
          cases readUpd u (c.store u.id) with
          | error e =>
            simp only [Config.setThread]
            apply key
            apply AccT.finish
            rw [← ht]
            simp [hf]
          | ok p =>
            obtain ⟨rd, created⟩ := p
            simp only [Config.setThread]
            apply key
            simp only [AccT, pcOps]
            rw [← ht]
            simp [hf]
      | del d =>
        simp only [Config.setThread]
        apply key
        simp only [AccT, pcOps]
        simpa using ht
  | uChange u rd created =>
    simp only []
    rw [hpc] at ht
    simp only [pcOps] at ht
    unfold stepChange
    split
    · simp only [Config.setThread]
      apply key
      apply AccT.finish
      exact ht
    · simp only [Config.setThread]
      apply key
      simp only [AccT, pcOps]
      exact ht
  | uCommit u rd created new =>
    simp only []
    rw [hpc] at ht
    simp only [pcOps] at ht
    unfold stepCommit
    simp only []
    split
    · simp only [Config.setThread]
      apply key
      apply AccT.finish
      exact ht
    · simp only []
      apply key
      apply AccT.finish
      exact ht
  | dTry d seen attempt =>
    simp only []
    rw [hpc] at ht
    simp only [pcOps] at ht
    unfold stepDel
    simp only []
    cases seen with
    | none =>
      simp only [Config.setThread]
      apply key
      apply AccT.finish
      exact ht
    | some p =>
      obtain ⟨r, b⟩ := p
      simp only []
      cases d.pre b with
      | some e =>
        simp only [Config.setThread]
        apply key
        apply AccT.finish
        exact ht
      | none =>
        simp only []
        split
        · split
          · simp only [Config.setThread]
            apply key
            simp only [AccT, pcOps]
            exact ht
          · simp only [Config.setThread]
            apply key
            apply AccT.finish
            exact ht
        · simp only []
          apply key
          apply AccT.finish
          exact ht

theorem acc_run' (fixed : Bool) (env : Env) (progs : Nat → List (Op M)) (c : Config M) (sched : List Nat)
    (h : ∀ t, AccT (progs t) (c.threads t)) : ∀ t, AccT (progs t) ((run fixed env c sched).threads t) := by
  induction sched generalizing c with
  | nil => exact h
  | cons t rest ih => exact ih (step fixed env c t) (acc_step fixed env progs h t)

theorem acc_run (env : Env) (s₀ : SStore M) (progs : Nat → List (Op M)) (sched : List Nat) (t : Nat) :
    (((run true env (initCfg s₀ progs) sched).threads t).done.map (·.op)
      ++ pcOps ((run true env (initCfg s₀ progs) sched).threads t).pc
      ++ ((run true env (initCfg s₀ progs) sched).threads t).prog).map forget = (progs t).map forget := by
  apply acc_run' true env progs (initCfg s₀ progs) sched
  intro t
  simp [AccT, initCfg, pcOps]

/-! ### Reading the invariant -/

theorem kind_of_ok {s₀ : SStore M} {log : List (Entry M)} {t n : Nat} {r : Rec M} {v : M}
    (h : RecOK s₀ log t n r) (hres : r.res = .ok (some v)) : r.kind = .committed := by
  obtain ⟨_, _, _, h4⟩ := h
  cases hk : r.kind with
  | committed => rfl
  | refused =>
    rw [hk] at h4
    simp only [] at h4
    rcases h4.2 with h5 | ⟨e, h5⟩ <;> rw [hres] at h5 <;> cases h5
  | raced =>
    rw [hk] at h4
    simp only [] at h4
    rcases h4 with ⟨h5, _⟩ | ⟨h5, _⟩ <;> rw [hres] at h5 <;> cases h5

theorem committed_of_ok {s₀ : SStore M} {log : List (Entry M)} {t n : Nat} {r : Rec M} {v : M}
    (h : RecOK s₀ log t n r) (hres : r.res = .ok (some v)) :
    (∃ tm, log[r.lin]? = some ⟨t, n, r.op, tm⟩) ∧ r.lin < r.resp ∧
      (specStep r.op (replay s₀ (log.take r.lin))).1 = r.res := by
  have hk := kind_of_ok h hres
  obtain ⟨_, _, _, h4⟩ := h
  rw [hk] at h4
  exact ⟨h4.1, h4.2.1, h4.2.2.1⟩

theorem owner_of_entry {s₀ : SStore M} {c : Config M} (h : Inv s₀ c) {k : Nat} {e : Entry M}
    (he : c.log[k]? = some e) :
    ∃ r v, (c.threads e.tid).done[e.idx]? = some r ∧ r.lin = k ∧ r.op = e.op ∧ r.res = .ok (some v) := by
  obtain ⟨r, hr, hkind, hlin⟩ := h.owned k e he
  obtain ⟨_, _, _, h4⟩ := (h.thr e.tid).recs e.idx r hr
  rw [hkind] at h4
  obtain ⟨⟨tm, ha⟩, _, _, v, hv⟩ := h4
  rw [hlin, he] at ha
  refine ⟨r, v, hr, hlin, ?_, hv⟩
  have := Option.some.inj ha
  rw [this]

theorem once_of_ok {s₀ : SStore M} {c : Config M} (h : Inv s₀ c) {t n : Nat} {r : Rec M} {v : M}
    (hr : (c.threads t).done[n]? = some r) (hres : r.res = .ok (some v)) :
    (∃ tm, c.log[r.lin]? = some ⟨t, n, r.op, tm⟩) ∧ ∀ k e, c.log[k]? = some e → e.tid = t → e.idx = n → k = r.lin := by
  have hc := committed_of_ok ((h.thr t).recs n r hr) hres
  refine ⟨hc.1, ?_⟩
  intro k e he ht hn
  obtain ⟨r', _, hr', hlin, _, _⟩ := owner_of_entry h he
  rw [ht, hn, hr] at hr'
  cases hr'
  exact hlin.symm

theorem take_succ_of_getElem? {α : Type} {l : List α} {k : Nat} {e : α} (h : l[k]? = some e) :
    l.take (k + 1) = l.take k ++ [e] := by
  rw [List.take_add_one, h]; rfl

theorem specUpd_ok_inv {u : UpdOp M} {s : SStore M} {v : M} (h : (specUpd u s).1 = .ok (some v)) :
    ∃ old, specRead u (s u.id) = .ok old ∧ (u.expect.isSome → old = u.expect) ∧ u.check old = none ∧
      v = u.f old ∧ (specUpd u s).2 = setAt s u.id (some v) := by
  unfold specUpd at h ⊢
  cases hr : specRead u (s u.id) with
  | error e => rw [hr] at h; cases h
  | ok old =>
    rw [hr] at h
    simp only [] at h ⊢
    refine ⟨old, rfl, ?_⟩
    unfold UpdOp.change at h ⊢
    by_cases hexp : u.expect.isSome ∧ old ≠ u.expect
    · rw [if_pos hexp] at h; cases h
    · rw [if_neg hexp] at h ⊢
      cases hck : u.check old with
      | some e => rw [hck] at h; cases h
      | none =>
        rw [hck] at h
        simp only [] at h ⊢
        have hv : u.f old = v := by
          injection h with h; injection h
        refine ⟨?_, by first | rfl | trivial, hv.symm, by rw [hv]⟩
        intro hs
        by_cases ho : old = u.expect
        · exact ho
        · exact absurd ⟨hs, ho⟩ hexp

theorem cas_of_ok {s₀ : SStore M} {c : Config M} (h : Inv s₀ c) {t n : Nat} {r : Rec M} {u : UpdOp M} {v : M}
    (hr : (c.threads t).done[n]? = some r) (hop : r.op = .upd u) (hres : r.res = .ok (some v)) :
    ∃ old, specRead u ((replay s₀ (c.log.take r.lin)) u.id) = .ok old ∧
      (u.expect.isSome → old = u.expect) ∧ u.check old = none ∧ v = u.f old ∧
      (replay s₀ (c.log.take (r.lin + 1))) u.id = some v := by
  obtain ⟨⟨tm, hlog⟩, _, hspec⟩ := committed_of_ok ((h.thr t).recs n r hr) hres
  rw [hop, hres] at hspec
  obtain ⟨old, h1, h2, h3, h4, h5⟩ := specUpd_ok_inv (u := u) hspec
  refine ⟨old, h1, h2, h3, h4, ?_⟩
  rw [take_succ_of_getElem? hlog, replay_snoc, hop]
  show (specUpd u _).2 u.id = some v
  rw [h5]; simp

theorem specDel_ok_inv {d : DelOp M} {s : SStore M} {b : M} (h : (specDel d s).1 = .ok (some b)) :
    s d.id = some b ∧ d.pre b = none ∧ (specDel d s).2 = setAt s d.id none := by
  unfold specDel at h ⊢
  cases hs : s d.id with
  | none =>
    rw [hs] at h
    by_cases ham : d.allowMissing <;> simp [ham] at h
  | some b' =>
    rw [hs] at h
    simp only [] at h ⊢
    cases hp : d.pre b' with
    | some e => rw [hp] at h; cases h
    | none =>
      rw [hp] at h
      simp only [] at h ⊢
      have : b' = b := by injection h with h; injection h
      subst this
      exact ⟨by first | rfl | trivial, hp, by first | rfl | trivial⟩

theorem del_of_ok {s₀ : SStore M} {c : Config M} (h : Inv s₀ c) {t n : Nat} {r : Rec M} {d : DelOp M} {b : M}
    (hr : (c.threads t).done[n]? = some r) (hop : r.op = .del d) (hres : r.res = .ok (some b)) :
    (replay s₀ (c.log.take r.lin)) d.id = some b ∧ d.pre b = none ∧
      (replay s₀ (c.log.take (r.lin + 1))) d.id = none := by
  obtain ⟨⟨tm, hlog⟩, _, hspec⟩ := committed_of_ok ((h.thr t).recs n r hr) hres
  rw [hop, hres] at hspec
  obtain ⟨h1, h2, h3⟩ := specDel_ok_inv (d := d) hspec
  refine ⟨h1, h2, ?_⟩
  rw [take_succ_of_getElem? hlog, replay_snoc, hop]
  show (specDel d _).2 d.id = none
  rw [h3]; simp

/-! ### Presence persists until a Delete -/

theorem specStep_other (op : Op M) (s : SStore M) {i : Nat} (h : opId op ≠ i) : (specStep op s).2 i = s i := by
  cases op with
  | upd u =>
    simp only [opId] at h
    simp only [specStep, specUpd]
    cases specRead u (s u.id) with
    | error e => rfl
    | ok old =>
      simp only []
      cases u.change old with
      | error e => rfl
      | ok new => simp only []; exact setAt_other _ _ (Ne.symm h)
  | del d =>
    simp only [opId] at h
    simp only [specStep, specDel]
    cases s d.id with
    | none => by_cases ham : d.allowMissing <;> simp [ham]
    | some b =>
      simp only []
      cases d.pre b with
      | some e => rfl
      | none => simp only []; exact setAt_other _ _ (Ne.symm h)

theorem specStep_keeps (op : Op M) (s : SStore M) {i : Nat} (hs : (s i).isSome = true)
    (hnd : ∀ d, op = .del d → d.id ≠ i) : ((specStep op s).2 i).isSome = true := by
  by_cases hid : opId op = i
  · cases op with
    | upd u =>
      simp only [opId] at hid
      simp only [specStep, specUpd]
      cases specRead u (s u.id) with
      | error e => exact hs
      | ok old =>
        simp only []
        cases u.change old with
        | error e => exact hs
        | ok new => simp only []; rw [← hid]; simp
    | del d => exact absurd hid (hnd d rfl)
  · rw [specStep_other op s hid]; exact hs

theorem present_persists (s₀ : SStore M) (log : List (Entry M)) (i a : Nat) :
    ∀ b, a ≤ b → b ≤ log.length → ((replay s₀ (log.take a)) i).isSome = true →
      (∀ k e d, a ≤ k → k < b → log[k]? = some e → e.op = .del d → d.id ≠ i) →
      ((replay s₀ (log.take b)) i).isSome = true := by
  intro b
  induction b with
  | zero =>
    intro hab _ hs _
    have : a = 0 := by omega
    subst this; exact hs
  | succ b ih =>
    intro hab hb hs hnd
    by_cases heq : a = b + 1
    · subst heq; exact hs
    · have hlt : b < log.length := by omega
      have hget : log[b]? = some log[b] := List.getElem?_eq_getElem hlt
      rw [take_succ_of_getElem? hget, replay_snoc]
      apply specStep_keeps
      · exact ih (by omega) (by omega) hs (fun k e d h1 h2 => hnd k e d h1 (by omega))
      · intro d hd
        exact hnd b log[b] d (by omega) (by omega) hget hd

/-- commits on other ids do not touch the cell of `i` -/
theorem replay_quiet (s₀ : SStore M) (log : List (Entry M)) (i a : Nat) :
    ∀ b, a ≤ b → b ≤ log.length →
      (∀ k e, a ≤ k → k < b → log[k]? = some e → opId e.op ≠ i) →
      (replay s₀ (log.take b)) i = (replay s₀ (log.take a)) i := by
  intro b
  induction b with
  | zero =>
    intro hab _ _
    have : a = 0 := by omega
    subst this; rfl
  | succ b ih =>
    intro hab hb hq
    by_cases heq : a = b + 1
    · subst heq; rfl
    · have hlt : b < log.length := by omega
      have hget : log[b]? = some log[b] := List.getElem?_eq_getElem hlt
      rw [take_succ_of_getElem? hget, replay_snoc]
      rw [specStep_other _ _ (hq b log[b] (by omega) (by omega) hget)]
      exact ih (by omega) (by omega) (fun k e h1 h2 => hq k e h1 (by omega))

/-- the specification's verdict on a call depends only on the cell of its id -/
theorem specStep_res_congr (op : Op M) {s₁ s₂ : SStore M} (h : s₁ (opId op) = s₂ (opId op)) :
    (specStep op s₁).1 = (specStep op s₂).1 := by
  cases op with
  | upd u =>
    simp only [opId] at h
    simp only [specStep, specUpd, h]
    cases specRead u (s₂ u.id) with
    | error e => rfl
    | ok old =>
      simp only []
      cases u.change old <;> rfl
  | del d =>
    simp only [opId] at h
    simp only [specStep, specDel, h]
    cases s₂ d.id with
    | none => by_cases ham : d.allowMissing <;> simp [ham]
    | some b =>
      simp only []
      cases d.pre b <;> rfl

theorem add_exclusive {s₀ : SStore M} {c : Config M} (h : Inv s₀ c)
    {t₁ n₁ t₂ n₂ : Nat} {r₁ r₂ : Rec M} {u₁ u₂ : UpdOp M} {v₁ v₂ : M}
    (h1 : (c.threads t₁).done[n₁]? = some r₁) (h2 : (c.threads t₂).done[n₂]? = some r₂)
    (ho1 : r₁.op = .upd u₁) (ho2 : r₂.op = .upd u₂) (hid : u₁.id = u₂.id)
    (hea : u₂.expectAbsent = true) (hv : u₂.isValue = false)
    (hr1 : r₁.res = .ok (some v₁)) (hr2 : r₂.res = .ok (some v₂)) (hlt : r₁.lin < r₂.lin) :
    ∃ k e d, r₁.lin < k ∧ k < r₂.lin ∧ c.log[k]? = some e ∧ e.op = .del d ∧ d.id = u₂.id := by
  obtain ⟨_, _, _, _, _, hafter⟩ := cas_of_ok h h1 ho1 hr1
  obtain ⟨old, hread, _⟩ := cas_of_ok h h2 ho2 hr2
  have hlen : r₂.lin ≤ c.log.length := by
    obtain ⟨_, a2, a3, _⟩ := (h.thr t₂).recs n₂ r₂ h2
    omega
  -- the second Add read "absent"
  have habsent : (replay s₀ (c.log.take r₂.lin)) u₂.id = none := by
    unfold specRead at hread
    simp only [hv, Bool.false_eq_true, if_false] at hread
    cases hc : (replay s₀ (c.log.take r₂.lin)) u₂.id with
    | none => rfl
    | some b => rw [hc] at hread; simp [hea] at hread
  apply Classical.byContradiction
  intro hno
  have hp := present_persists s₀ c.log u₂.id (r₁.lin + 1) r₂.lin (by omega) hlen
    (by rw [← hid, hafter]; rfl)
    (by
      intro k e d hk1 hk2 hke hed hdi
      exact hno ⟨k, e, d, by omega, hk2, hke, hed, hdi⟩)
  rw [habsent] at hp
  cases hp

/-! ### Integer counters -/

instance instMsgInt : Msg Int := ⟨0⟩

/-- unconditional read-modify-write `old ↦ old + δ` on id `i` (an `interceptBefore` that adds δ) -/
def incOp (i : Nat) (δ : Int) : Op Int :=
  .upd { id := i, isValue := false, expectAbsent := false, createIfAbsent := false, expect := none,
         check := fun _ => none, f := fun old => old.getD 0 + δ }

def incDelta : Op Int → Int
  | .upd u => u.f (some 0)
  | .del _ => 0

theorem replay_incs (s₀ : SStore Int) (log : List (Entry Int)) (i : Nat)
    (hall : ∀ e, e ∈ log → opId e.op = i → ∃ δ, e.op = incOp i δ) :
    replay s₀ log i
      = (s₀ i).map (fun v₀ => v₀ + ((log.filter (fun e => opId e.op == i)).map (fun e => incDelta e.op)).sum) := by
  induction log generalizing s₀ with
  | nil => cases h : s₀ i <;> simp [replay, h]
  | cons e l ih =>
    have hrep : replay s₀ (e :: l) = replay (specStep e.op s₀).2 l := by simp [replay]
    rw [hrep]
    by_cases hid : opId e.op = i
    · obtain ⟨δ, hδ⟩ := hall e (List.mem_cons_self) hid
      have hstep : (specStep e.op s₀).2 i = (s₀ i).map (· + δ) := by
        rw [hδ]
        cases h0 : s₀ i with
        | none => simp [specStep, specUpd, specRead, incOp, h0]
        | some v₀ => simp [specStep, specUpd, specRead, incOp, h0, UpdOp.change]
      rw [ih _ (fun e' he' => hall e' (List.mem_cons_of_mem _ he')), hstep]
      have hd : incDelta e.op = δ := by rw [hδ]; simp [incDelta, incOp]
      simp only [List.filter_cons, hid, beq_self_eq_true, if_true, List.map_cons, List.sum_cons, hd]
      cases s₀ i with
      | none => rfl
      | some v₀ =>
        simp only [Option.map_some]
        congr 1
        omega
    · have hstep : (specStep e.op s₀).2 i = s₀ i := specStep_other _ _ hid
      rw [ih _ (fun e' he' => hall e' (List.mem_cons_of_mem _ he')), hstep]
      have : (opId e.op == i) = false := by simpa using hid
      simp only [List.filter_cons, this, Bool.false_eq_true, if_false]

end ScVerif.C02
