import ScVerif.C02.Answer
import ScVerif.C02.PropsSend
/-!
# C02 — property theorems about the ANSWERS of write handlers

"All results are explainable by some one-at-a-time order": the results are what the clients are told.  A write
handler of a trait server (`countpb.MemoryDevice.UpdateCount` / `ResetCount` and every handler of that shape)
answers with the message `Value.Set` handed back.  The answer layer (`Answer.lean`, `arun`) files an answer per
call at the step in which the call reports — for a committed `Value.Set` that is its publication step, i.e. after
ANY number of commits of other writers (a subscriber with backpressure that is slow to receive holds a writer there
as long as it likes).

* the answers of the code are, call by call, the results the publication layer reports — the very results
  `C02_linearizable_under_failed_publications` explains by a sequential order — and a result, once reported,
  is final: nothing scheduled afterwards changes it (∀ programs, environments, schedules, time-out patterns);
* witness (NOT the code): a handler that answers with a fresh read made after `Set` returned tells two clients
  that each added 1 to a count of 0 "2" and "2" — no sequential order of two fetch-and-adds answers that —
  although the stored count is right.
-/
namespace ScVerif.C02

variable {M : Type} [DecidableEq M] [Msg M]

/-- **A reported result is final.**  Whatever a call has reported (the result of its last core step, or — once
its publication was made — the result of its commit, or `Unknown` for a publication that timed out) is what it
reports for ever: no step of any thread, no commit of another writer, no later publication or time-out changes
it. -/
theorem C02_reported_result_is_final (env : Env) (s₀ : SStore M) (progs : Nat → List (Op M))
    (psched more : List (Nat × Bool)) (t n : Nat) (r : Res M) :
    reported (prun false true env (pinit s₀ progs) psched) t n = some r →
    reported (prun false true env (pinit s₀ progs) (psched ++ more)) t n = some r := by
  intro h
  rw [prun_append]
  exact reported_stable true env ((PInv.init s₀ progs).prun true env psched) more h

/-- **The handlers' answers are the reported results.**  Run with handlers that answer the way the code does
(with what `Set` / `Update` / `Delete` handed back), under any schedule of core steps, publications and time-outs:
every thread has given exactly one answer per call that has reported, in program order, and the `n`-th answer IS
the result the publication layer reports for call `n` — the result of the call's own commit (its own log entry),
whatever other writers committed between its save and its return.  The core configuration underneath is the
publication layer's, so `C02_linearizable_under_failed_publications` is a statement about these answers. -/
theorem C02_handler_answers_are_the_reported_results (env : Env) (s₀ : SStore M) (progs : Nat → List (Op M))
    (psched : List (Nat × Bool)) (t : Nat) :
    let a : AConfig M := arun .own true env (ainit s₀ progs) psched
    a.p = prun false true env (pinit s₀ progs) psched ∧
    (a.answers t).length = nrep a.p t ∧
    ∀ n, (a.answers t)[n]? = reported a.p t n := by
  intro a
  have hp : a.p = prun false true env (pinit s₀ progs) psched := arun_p .own true env (ainit s₀ progs) psched
  have hans : a.answers t = (List.range (nrep a.p t)).filterMap (reported a.p t) :=
    ansOwn_arun true env (AnsOwn.init s₀ progs) (PInv.init s₀ progs) psched t
  have h := filterMap_range_getElem? (reported a.p t) (nrep a.p t)
    (fun n hn => by obtain ⟨r, hr⟩ := reported_some_of_lt (pc := a.p) (t := t) hn; rw [hr]; rfl)
    (fun n hn => reported_none_of_ge hn)
  rw [← hans] at h
  exact ⟨hp, h.1, h.2⟩

/-- **An answer, once given, is never revised** (the two theorems above together): the `n`-th answer of thread
`t` after a schedule is still its `n`-th answer after any continuation. -/
theorem C02_handler_answers_are_final (env : Env) (s₀ : SStore M) (progs : Nat → List (Op M))
    (psched more : List (Nat × Bool)) (t n : Nat) (r : Res M) :
    ((arun .own true env (ainit s₀ progs) psched).answers t)[n]? = some r →
    ((arun .own true env (ainit s₀ progs) (psched ++ more)).answers t)[n]? = some r := by
  intro h
  have h1 := (C02_handler_answers_are_the_reported_results env s₀ progs psched t).2.2 n
  have h2 := (C02_handler_answers_are_the_reported_results env s₀ progs (psched ++ more) t).2.2 n
  rw [arun_p] at h1 h2
  rw [h2]
  exact C02_reported_result_is_final env s₀ progs psched more t n r (h1 ▸ h)

/-! ### Witness: answering with a fresh read (NOT the code) is not linearizable -/

/-- two clients of one count (the Value, id 9, starting at 0), each a fetch-and-add of 1 -/
def ticketProgs : Nat → List (Op Int) := fun t => if t = 0 ∨ t = 1 then [vinc 1] else []

def ticketInit : SStore Int := fun i => if i = 9 then some 0 else none

/-- A reads, changes, saves (1) and is held in front of its publication; B reads (1), changes, saves (2),
publishes and answers; then A publishes and answers -/
def ticketSched : List (Nat × Bool) :=
  [(0, false), (0, false), (0, false), (1, false), (1, false), (1, false), (1, false), (0, false)]

def ticketRun (how : AnswerBy) : AConfig Int := arun how true env₀ (ainit ticketInit ticketProgs) ticketSched

/-- **Answering with a fresh read breaks linearizability of the answers**: both clients are told 2, although one
at a time — in either order, the two calls are the same — the first fetch-and-add of 1 on a count of 0 answers 1
and the second answers 2; the stored count (2) and the commit log are right, so nothing but the answers shows it. -/
theorem C02_fresh_read_answers_are_not_linearizable :
    (ticketRun .fresh).answers 0 = [.ok (some 2)] ∧ (ticketRun .fresh).answers 1 = [.ok (some 2)] ∧
    absS (ticketRun .fresh).p.core.store 9 = some 2 ∧
    (ticketRun .fresh).p.core.log.map (·.tid) = [0, 1] ∧
    (specStep (vinc 1) ticketInit).1 = .ok (some 1) ∧
    (specStep (vinc 1) (specStep (vinc 1) ticketInit).2).1 = .ok (some 2) := by
  decide

/-- the code as it is, on the same schedule: the client whose write is first in the log is told 1, the other 2 -/
example :
    (ticketRun .own).answers 0 = [.ok (some 1)] ∧ (ticketRun .own).answers 1 = [.ok (some 2)] ∧
    absS (ticketRun .own).p.core.store 9 = some 2 := by
  decide

/-- the hypothesis of `C02_handler_answers_are_final` is met half-way: B has answered while A is still held -/
example :
    ((arun .own true env₀ (ainit ticketInit ticketProgs) (ticketSched.take 7)).answers 1)[0]? = some (.ok (some 2)) ∧
    (arun .own true env₀ (ainit ticketInit ticketProgs) (ticketSched.take 7)).answers 0 = [] ∧
    nrep (arun .own true env₀ (ainit ticketInit ticketProgs) (ticketSched.take 7)).p 0 = 0 := by
  decide

end ScVerif.C02
