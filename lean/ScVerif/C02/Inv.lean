import ScVerif.C02.Model
/-!
# C02 — the invariant behind commit-order linearization, and its preservation by every step

`Inv s₀ c`: replaying the commit log on the sequential specification from the initial contents `s₀`
yields the current contents; every finished call is explained at its linearization index; every
in-flight call carries what it needs to be explained later; every log entry is owned by exactly one
finished, success-reporting call.
-/
set_option linter.unusedSectionVars false
namespace ScVerif.C02

variable {M : Type} [DecidableEq M] [Msg M]

theorem replay_append (s₀ : SStore M) (l₁ l₂ : List (Entry M)) :
    replay s₀ (l₁ ++ l₂) = replay (replay s₀ l₁) l₂ := by
  simp [replay, List.foldl_append]

theorem replay_snoc (s₀ : SStore M) (l : List (Entry M)) (e : Entry M) :
    replay s₀ (l ++ [e]) = (specStep e.op (replay s₀ l)).2 := by
  simp [replay, List.foldl_append]

theorem take_snoc_of_le {α : Type} {l : List α} {k : Nat} (h : k ≤ l.length) (e : α) :
    (l ++ [e]).take k = l.take k := by
  rw [List.take_append_of_le_length h]

theorem getElem?_snoc_of_lt {α : Type} {l : List α} {k : Nat} (h : k < l.length) (e : α) :
    (l ++ [e])[k]? = l[k]? := by
  rw [List.getElem?_append_left h]

theorem absS_setAt (s : Store M) (i : Nat) (v : Option (Nat × M)) :
    absS (setAt s i v) = setAt (absS s) i (v.map (·.2)) := by
  funext j
  simp only [absS, setAt]
  split <;> rfl

def opId : Op M → Nat
  | .upd u => u.id
  | .del d => d.id

/-- `ks` are `n` distinct positions of the commit log inside `[a, b)`, each holding a commit on id `i`. -/
def RivalCommits (log : List (Entry M)) (i a b n : Nat) (ks : List Nat) : Prop :=
  ks.length = n ∧ ks.Pairwise (· < ·) ∧
  ∀ k, k ∈ ks → a ≤ k ∧ k < b ∧ ∃ e, log[k]? = some e ∧ opId e.op = i

/-- no commit on id `i` at or after position `a` -/
def Quiet (log : List (Entry M)) (i a : Nat) : Prop :=
  ∀ k e, a ≤ k → log[k]? = some e → opId e.op ≠ i

def opGen : Op M → Bool
  | .upd u => u.genId
  | .del _ => false

/-- A finished call is explained by the commit log. -/
def RecOK (s₀ : SStore M) (log : List (Entry M)) (t : Nat) (n : Nat) (r : Rec M) : Prop :=
  r.inv ≤ r.lin ∧ r.lin ≤ r.resp ∧ r.resp ≤ log.length ∧
  match r.kind with
  | .committed =>
      (∃ tm, log[r.lin]? = some ⟨t, n, r.op, tm⟩) ∧ r.lin < r.resp ∧
      (specStep r.op (replay s₀ (log.take r.lin))).1 = r.res ∧ ∃ v, r.res = .ok (some v)
  | .refused =>
      specStep r.op (replay s₀ (log.take r.lin)) = (r.res, replay s₀ (log.take r.lin)) ∧
      (r.res = .ok none ∨ ∃ e, r.res = .error e)
  | .raced =>
      -- lost a race: a commit on the same id landed inside this call's interval (five distinct ones for a Delete
      -- that gave up); the only other source of Aborted is an id generator that ran out of attempts
      (r.res = .error .aborted ∧ (opGen r.op = true ∨ ∃ ks, RivalCommits log (opId r.op) r.inv r.resp 1 ks)) ∨
      (r.res = .error .unavailable ∧ ∃ ks, RivalCommits log (opId r.op) r.inv r.resp 5 ks)

/-- What the read of an in-flight update established (at log length `k`). -/
def ReadView (s₀ : SStore M) (log : List (Entry M)) (k : Nat) (u : UpdOp M) (rd : Option M) (created : Bool) :
    Prop :=
  specRead u ((replay s₀ (log.take k)) u.id) = .ok rd ∧
  (created = true → rd = some Msg.empty ∧ u.createIfAbsent = true ∧ u.isValue = false) ∧
  (u.isValue = false → rd.isSome = true)

def PcOK (s₀ : SStore M) (log : List (Entry M)) (store : Store M) (nextRef : Nat) (th : Thread M) : Prop :=
  match th.pc with
  | .idle => True
  | .uChange u rd created =>
      th.invAt ≤ th.readAt ∧ th.readAt ≤ log.length ∧ ReadView s₀ log th.readAt u rd created ∧
      (Quiet log u.id th.readAt → secondGet true u created (store u.id) = rd)
  | .uCommit u rd created new =>
      th.invAt ≤ th.readAt ∧ th.readAt ≤ log.length ∧ ReadView s₀ log th.readAt u rd created ∧
      u.change rd = .ok new ∧
      (Quiet log u.id th.readAt → secondGet true u created (store u.id) = rd)
  | .dTry d seen attempt =>
      th.invAt ≤ th.readAt ∧ th.readAt ≤ log.length ∧ attempt < 5 ∧
      (replay s₀ (log.take th.readAt)) d.id = seen.map (·.2) ∧
      (∀ r b, seen = some (r, b) → r < nextRef ∧ ∀ b', store d.id = some (r, b') → b' = b) ∧
      (Quiet log d.id th.readAt → store d.id = seen) ∧
      ∃ ks, RivalCommits log d.id th.invAt th.readAt attempt ks

structure ThreadOK (s₀ : SStore M) (log : List (Entry M)) (store : Store M) (nextRef : Nat) (t : Nat)
    (th : Thread M) : Prop where
  recs : ∀ n r, th.done[n]? = some r → RecOK s₀ log t n r
  pc : PcOK s₀ log store nextRef th

structure Inv (s₀ : SStore M) (c : Config M) : Prop where
  store : absS c.store = replay s₀ c.log
  refs : ∀ i r b, c.store i = some (r, b) → r < c.nextRef
  thr : ∀ t, ThreadOK s₀ c.log c.store c.nextRef t (c.threads t)
  owned : ∀ (k : Nat) (e : Entry M), c.log[k]? = some e →
    ∃ r : Rec M, (c.threads e.tid).done[e.idx]? = some r ∧ r.kind = .committed ∧ r.lin = k

/-! ### Monotonicity: what other threads' commits preserve -/

theorem RivalCommits.mono {log : List (Entry M)} {i a b n : Nat} {ks : List Nat}
    (h : RivalCommits log i a b n ks) (hb : b ≤ log.length) (e : Entry M) :
    RivalCommits (log ++ [e]) i a b n ks := by
  obtain ⟨h1, h2, h3⟩ := h
  refine ⟨h1, h2, ?_⟩
  intro k hk
  obtain ⟨ha, hb', e', he', hid⟩ := h3 k hk
  exact ⟨ha, hb', e', by rw [getElem?_snoc_of_lt (by omega)]; exact he', hid⟩

theorem Quiet.of_snoc {log : List (Entry M)} {i a : Nat} {e : Entry M} (h : Quiet (log ++ [e]) i a)
    (ha : a ≤ log.length) : Quiet log i a ∧ opId e.op ≠ i := by
  constructor
  · intro k e' hk he'
    have hlt : k < log.length := (List.getElem?_eq_some_iff.mp he').1
    exact h k e' hk (by rw [getElem?_snoc_of_lt hlt]; exact he')
  · exact h log.length e ha (by simp)

/-- a position at or after `a` holding a commit on `i`, if the log is not quiet there -/
theorem exists_of_not_quiet {log : List (Entry M)} {i a : Nat} (h : ¬ Quiet log i a) :
    ∃ k e, a ≤ k ∧ k < log.length ∧ log[k]? = some e ∧ opId e.op = i := by
  apply Classical.byContradiction
  intro hno
  apply h
  intro k e hk he hid
  exact hno ⟨k, e, hk, (List.getElem?_eq_some_iff.mp he).1, he, hid⟩

/-- one more rival commit, later than all the ones counted so far -/
theorem RivalCommits.snoc {log : List (Entry M)} {i a b n : Nat} {ks : List Nat}
    (h : RivalCommits log i a b n ks) {k : Nat} {e : Entry M} (hbk : b ≤ k) (hk : k < log.length)
    (he : log[k]? = some e) (hid : opId e.op = i) (hab : a ≤ b) :
    RivalCommits log i a log.length (n + 1) (ks ++ [k]) := by
  obtain ⟨h1, h2, h3⟩ := h
  refine ⟨by simp [h1], ?_, ?_⟩
  · rw [List.pairwise_append]
    refine ⟨h2, List.pairwise_singleton _ _, ?_⟩
    intro x hx y hy
    simp only [List.mem_singleton] at hy
    subst hy
    have := (h3 x hx).2.1
    omega
  · intro x hx
    rcases List.mem_append.mp hx with hx | hx
    · obtain ⟨ha, hb', e', he', hid'⟩ := h3 x hx
      exact ⟨ha, by omega, e', he', hid'⟩
    · simp only [List.mem_singleton] at hx
      subst hx
      exact ⟨by omega, hk, e, he, hid⟩

theorem RecOK.mono {s₀ : SStore M} {log : List (Entry M)} {t n} {r : Rec M} (h : RecOK s₀ log t n r)
    (e : Entry M) : RecOK s₀ (log ++ [e]) t n r := by
  obtain ⟨h1, h2, h3, h4⟩ := h
  refine ⟨h1, h2, by simp; omega, ?_⟩
  have hk : r.lin ≤ log.length := by omega
  cases hkind : r.kind <;> simp only [hkind] at h4 ⊢
  · obtain ⟨⟨tm, ha⟩, hb, hc, hd⟩ := h4
    refine ⟨⟨tm, ?_⟩, hb, ?_, hd⟩
    · rw [getElem?_snoc_of_lt (by omega)]; exact ha
    · rw [take_snoc_of_le hk]; exact hc
  · rw [take_snoc_of_le hk]; exact h4
  · rcases h4 with ⟨hr, hg | ⟨ks, hks⟩⟩ | ⟨hr, ks, hks⟩
    · exact Or.inl ⟨hr, Or.inl hg⟩
    · exact Or.inl ⟨hr, Or.inr ⟨ks, hks.mono h3 e⟩⟩
    · exact Or.inr ⟨hr, ks, hks.mono h3 e⟩

theorem PcOK.mono {s₀ : SStore M} {log : List (Entry M)} {store store' : Store M} {nr nr' : Nat}
    {th : Thread M} (h : PcOK s₀ log store nr th) (e : Entry M) (hnr : nr ≤ nr')
    (hst : ∀ j r b, store' j = some (r, b) → store j = some (r, b) ∨ nr ≤ r)
    (hoth : ∀ j, j ≠ opId e.op → store' j = store j) :
    PcOK s₀ (log ++ [e]) store' nr' th := by
  unfold PcOK at h ⊢
  cases hpc : th.pc <;> simp only [hpc] at h ⊢
  · obtain ⟨h1, h2, h3, hq⟩ := h
    refine ⟨h1, by simp; omega, ?_, ?_⟩
    · unfold ReadView at h3 ⊢
      rw [take_snoc_of_le h2]; exact h3
    · intro hquiet
      obtain ⟨hq', hne⟩ := hquiet.of_snoc h2
      rw [hoth _ (Ne.symm hne)]; exact hq hq'
  · obtain ⟨h1, h2, h3, h4, hq⟩ := h
    refine ⟨h1, by simp; omega, ?_, h4, ?_⟩
    · unfold ReadView at h3 ⊢
      rw [take_snoc_of_le h2]; exact h3
    · intro hquiet
      obtain ⟨hq', hne⟩ := hquiet.of_snoc h2
      rw [hoth _ (Ne.symm hne)]; exact hq hq'
  · obtain ⟨h1, h2, h3, h4, h5, hq, ks, hks⟩ := h
    refine ⟨h1, by simp; omega, h3, ?_, ?_, ?_, ks, hks.mono h2 e⟩
    · rw [take_snoc_of_le h2]; exact h4
    · intro r b hs
      obtain ⟨h6, h7⟩ := h5 r b hs
      refine ⟨by omega, ?_⟩
      intro b' hb'
      rcases hst _ _ _ hb' with h8 | h8
      · exact h7 b' h8
      · omega
    · intro hquiet
      obtain ⟨hq', hne⟩ := hquiet.of_snoc h2
      rw [hoth _ (Ne.symm hne)]; exact hq hq'

theorem ThreadOK.mono {s₀ : SStore M} {log : List (Entry M)} {store store' : Store M} {nr nr' : Nat}
    {t : Nat} {th : Thread M} (h : ThreadOK s₀ log store nr t th) (e : Entry M) (hnr : nr ≤ nr')
    (hst : ∀ j r b, store' j = some (r, b) → store j = some (r, b) ∨ nr ≤ r)
    (hoth : ∀ j, j ≠ opId e.op → store' j = store j) :
    ThreadOK s₀ (log ++ [e]) store' nr' t th :=
  ⟨fun n r hr => (h.recs n r hr).mono e, h.pc.mono e hnr hst hoth⟩

/-! ### Frame lemma for steps that only touch the stepping thread -/

theorem Inv.setThread {s₀ : SStore M} {c : Config M} (h : Inv s₀ c) (t : Nat) (th' : Thread M)
    (hth : ThreadOK s₀ c.log c.store c.nextRef t th')
    (hdone : ∃ l, th'.done = (c.threads t).done ++ l) : Inv s₀ (c.setThread t th') := by
  refine ⟨h.store, h.refs, ?_, ?_⟩
  · intro t'
    simp only [Config.setThread, setAt]
    split
    · next heq => subst heq; exact hth
    · exact h.thr t'
  · intro k e he
    obtain ⟨r, hr, hk⟩ := h.owned k e he
    refine ⟨r, ?_, hk⟩
    simp only [Config.setThread, setAt]
    split
    · next heq =>
      obtain ⟨l, hl⟩ := hdone
      rw [hl, ← heq]
      rw [List.getElem?_append_left]
      · exact hr
      · exact (List.getElem?_eq_some_iff.mp hr).1
    · exact hr

/-- Appending a finished-call record keeps the old records explained. -/
theorem recs_snoc {s₀ : SStore M} {log : List (Entry M)} {t : Nat} {done : List (Rec M)} {r : Rec M}
    (hold : ∀ n r', done[n]? = some r' → RecOK s₀ log t n r')
    (hnew : RecOK s₀ log t done.length r) :
    ∀ n r', (done ++ [r])[n]? = some r' → RecOK s₀ log t n r' := by
  intro n r' hn
  by_cases hlt : n < done.length
  · rw [List.getElem?_append_left hlt] at hn
    exact hold n r' hn
  · have hge : done.length ≤ n := by omega
    rw [List.getElem?_append_right hge] at hn
    have : n - done.length = 0 := by
      rcases Nat.eq_zero_or_pos (n - done.length) with h0 | h0
      · exact h0
      · rw [List.getElem?_eq_none (by simp; omega)] at hn; cases hn
    rw [this] at hn
    simp at hn
    subst hn
    have : n = done.length := by omega
    subst this
    exact hnew

/-! ### Specification facts used at the commit points -/

theorem specUpd_of_read {u : UpdOp M} {s : SStore M} {rd : Option M} {new : M}
    (hr : specRead u (s u.id) = .ok rd) (hc : u.change rd = .ok new) :
    specUpd u s = (.ok (some new), setAt s u.id (some new)) := by
  simp [specUpd, hr, hc]

theorem specUpd_refused_read {u : UpdOp M} {s : SStore M} {e : Err}
    (hr : specRead u (s u.id) = .error e) : specUpd u s = (.error e, s) := by
  simp [specUpd, hr]

theorem specUpd_refused_change {u : UpdOp M} {s : SStore M} {rd : Option M} {e : Err}
    (hr : specRead u (s u.id) = .ok rd) (hc : u.change rd = .error e) : specUpd u s = (.error e, s) := by
  simp [specUpd, hr, hc]

/-- The first read of the model is the specification's read of the abstract contents. -/
theorem readUpd_spec (u : UpdOp M) (cur : Option (Nat × M)) :
    (readUpd u cur).map (·.1) = specRead u (cur.map (·.2)) := by
  unfold readUpd specRead
  cases cur with
  | none => by_cases h1 : u.isValue <;> by_cases h2 : u.createIfAbsent <;> simp [h1, h2, Except.map]
  | some p =>
    obtain ⟨r, b⟩ := p
    by_cases h1 : u.isValue <;> by_cases h2 : u.expectAbsent <;> simp [h1, h2, Except.map]

theorem readUpd_ok {u : UpdOp M} {cur : Option (Nat × M)} {rd : Option M} {created : Bool}
    (h : readUpd u cur = .ok (rd, created)) :
    specRead u (cur.map (·.2)) = .ok rd ∧
    (created = true → rd = some Msg.empty ∧ u.createIfAbsent = true ∧ u.isValue = false) ∧
    (u.isValue = false → rd.isSome = true) := by
  unfold readUpd at h
  unfold specRead
  cases cur with
  | none =>
    by_cases h1 : u.isValue <;> by_cases h2 : u.createIfAbsent <;> simp [h1, h2] at h ⊢
    · obtain ⟨rfl, rfl⟩ := h; simp
    · obtain ⟨rfl, rfl⟩ := h; simp
    · obtain ⟨rfl, rfl⟩ := h; simp
  | some p =>
    obtain ⟨r, b⟩ := p
    by_cases h1 : u.isValue <;> by_cases h2 : u.expectAbsent <;> simp [h1, h2] at h ⊢
    · obtain ⟨rfl, rfl⟩ := h; simp
    · obtain ⟨rfl, rfl⟩ := h; simp
    · obtain ⟨rfl, rfl⟩ := h; simp

theorem readUpd_err {u : UpdOp M} {cur : Option (Nat × M)} {e : Err}
    (h : readUpd u cur = .error e) : specRead u (cur.map (·.2)) = .error e := by
  have := readUpd_spec u cur
  rw [h] at this
  simpa [Except.map] using this.symm

/-- Re-reading an unchanged cell gives the value of the first read: no spurious Aborted. -/
theorem secondGet_of_readUpd {u : UpdOp M} {cur : Option (Nat × M)} {rd : Option M} {created : Bool}
    (h : readUpd u cur = .ok (rd, created)) : secondGet true u created cur = rd := by
  unfold readUpd at h
  unfold secondGet
  cases cur with
  | none =>
    by_cases h1 : u.isValue <;> by_cases h2 : u.createIfAbsent <;> simp [h1, h2] at h ⊢
    · obtain ⟨rfl, rfl⟩ := h; simp
    · obtain ⟨rfl, rfl⟩ := h; simp
    · obtain ⟨rfl, rfl⟩ := h; simp
  | some p =>
    obtain ⟨r, b⟩ := p
    by_cases h1 : u.isValue <;> by_cases h2 : u.expectAbsent <;> simp [h1, h2] at h ⊢
    · obtain ⟨rfl, rfl⟩ := h; simp
    · obtain ⟨rfl, rfl⟩ := h; simp
    · obtain ⟨rfl, rfl⟩ := h; simp

/-- Key lemma of the optimistic protocol (fixed code): if the re-validation read equals the value the
change was computed from, then that value is what the specification reads from the current contents. -/
theorem secondGet_sound {u : UpdOp M} {rd : Option M} {created : Bool} {cur : Option (Nat × M)}
    (hcr : created = true → rd = some Msg.empty ∧ u.createIfAbsent = true ∧ u.isValue = false)
    (hsome : u.isValue = false → rd.isSome = true)
    (heq : rd = secondGet true u created cur) :
    specRead u (cur.map (·.2)) = .ok rd := by
  unfold secondGet at heq
  unfold specRead
  by_cases h1 : u.isValue
  · simp [h1] at heq ⊢; exact heq.symm
  · have h1' : u.isValue = false := by simpa using h1
    have hs := hsome h1'
    simp only [h1', Bool.false_eq_true, if_false] at heq ⊢
    cases created with
    | true =>
      obtain ⟨hrd, hcia, _⟩ := hcr rfl
      simp only [if_true] at heq
      cases cur with
      | none => simp [hcia, hrd]
      | some p =>
        obtain ⟨r, b⟩ := p
        by_cases h2 : u.expectAbsent
        · simp [h2] at heq; rw [heq] at hs; simp at hs
        · simp [h2] at heq ⊢; exact heq.symm
    | false =>
      simp only [Bool.false_eq_true, if_false] at heq
      cases cur with
      | none =>
        by_cases h3 : u.createIfAbsent
        · simp [h3] at heq ⊢; exact heq.symm
        · simp [h3] at heq; rw [heq] at hs; simp at hs
      | some p =>
        obtain ⟨r, b⟩ := p
        by_cases h2 : u.expectAbsent
        · simp [h2] at heq; rw [heq] at hs; simp at hs
        · simp [h2] at heq ⊢; exact heq.symm

end ScVerif.C02
