import ScVerif.C02.Gen
/-!
# C02 — property theorems

Property (fixed text): "When several goroutines write the same Value or Collection concurrently, every
call that reports success takes effect exactly once and all results are explainable by some
one-at-a-time order consistent with real time; a call that loses a race reports Aborted,
AlreadyExists, FailedPrecondition, NotFound or Unavailable and has no effect. In particular a write
with an expected value or check succeeds only if the stored value satisfied it at the instant of the
write, read-modify-write interceptors never lose an increment, two concurrent Adds of one id never
both succeed, and a Delete never removes a version its precondition did not see."

All theorems are about `run true env (initCfg s₀ progs) sched`: the model of the code as it is now
(with fix 41c35d0), for ARBITRARY initial contents `s₀`, thread programs `progs` (any number of
threads, any operations, arbitrary check / interceptor functions, any message type with decidable
equality, any `WithWriteTime`, calls with generated ids), ARBITRARY environments `env` (the clock —
frozen, coarse, running backwards — and the id generator — even one that repeats itself) and ARBITRARY
schedules `sched`.  Only property theorems and non-vacuity examples live here.

Ghost logical time is the length of the commit log: `inv ≤ lin ≤ resp` says the linearization point of
a call lies between its invocation and its response; if call A responds before call B is invoked
(real time) then `A.resp ≤ B.inv` because the log only grows (`C02_real_time`).
-/
namespace ScVerif.C02

variable {M : Type} [DecidableEq M] [Msg M]

/-- **Commit-order linearization.**  The current contents are the replay, on the sequential map
specification, of the committed calls in commit order; and every finished call `r` (the `n`-th call of
thread `t`) is explained at its linearization index `r.lin`, which lies within the call:
* reported success with effect: it owns log entry `r.lin` and its result is the specification's result
  on the contents just before that entry;
* refused (NotFound / AlreadyExists / FailedPrecondition / a check's own error / allow-missing no-op):
  the specification refuses it too, with the same result and no effect, on the contents at `r.lin`
  (the instant of the value it read);
* lost a race: the result is Aborted or Unavailable (and it owns no log entry: `C02_losers_have_no_effect`),
  and the race was real: a commit on the same id landed inside this call's interval (five distinct ones for
  Unavailable; `RivalCommits log i a b n ks`: `ks` are `n` increasing log positions in `[a, b)` holding commits
  on id `i`); the only other Aborted is an id generator that ran out of attempts. -/
theorem C02_commit_order_linearizes (env : Env) (s₀ : SStore M) (progs : Nat → List (Op M)) (sched : List Nat) :
    let c : Config M := run true env (initCfg s₀ progs) sched
    absS c.store = replay s₀ c.log ∧
    ∀ (t n : Nat) (r : Rec M), (c.threads t).done[n]? = some r →
      r.inv ≤ r.lin ∧ r.lin ≤ r.resp ∧ r.resp ≤ c.log.length ∧
      match r.kind with
      | .committed =>
          (∃ tm, c.log[r.lin]? = some ⟨t, n, r.op, tm⟩) ∧ r.lin < r.resp ∧
          (specStep r.op (replay s₀ (c.log.take r.lin))).1 = r.res ∧ ∃ v, r.res = .ok (some v)
      | .refused =>
          specStep r.op (replay s₀ (c.log.take r.lin)) = (r.res, replay s₀ (c.log.take r.lin)) ∧
          (r.res = .ok none ∨ ∃ e, r.res = .error e)
      | .raced =>
          (r.res = .error .aborted ∧ (opGen r.op = true ∨ ∃ ks, RivalCommits c.log (opId r.op) r.inv r.resp 1 ks)) ∨
          (r.res = .error .unavailable ∧ ∃ ks, RivalCommits c.log (opId r.op) r.inv r.resp 5 ks) := by
  intro c
  have h := (Inv.init s₀ progs).run env sched
  exact ⟨h.store, fun t n r hr => (h.thr t).recs n r hr⟩

/-- **Program order / nothing invented.**  The finished calls of a thread, then the call in flight, then
the calls still to come are exactly the thread's program: records are never made up, dropped or reordered
(`forget` blanks the id of a generate-id call, which the program text does not have; it is the identity on
every other call). -/
theorem C02_program_order (env : Env) (s₀ : SStore M) (progs : Nat → List (Op M)) (sched : List Nat) (t : Nat) :
    let th : Thread M := (run true env (initCfg s₀ progs) sched).threads t
    (th.done.map (·.op) ++ pcOps th.pc ++ th.prog).map forget = (progs t).map forget :=
  acc_run env s₀ progs sched t

/-- **Exactly once.**  A call that reported success with a value owns exactly one entry of the commit log,
and every entry of the commit log is owned by exactly one such call. -/
theorem C02_exactly_once (env : Env) (s₀ : SStore M) (progs : Nat → List (Op M)) (sched : List Nat) :
    let c : Config M := run true env (initCfg s₀ progs) sched
    (∀ (t n : Nat) (r : Rec M) (v : M), (c.threads t).done[n]? = some r → r.res = .ok (some v) →
        (∃ tm, c.log[r.lin]? = some ⟨t, n, r.op, tm⟩) ∧ ∀ (k : Nat) (e : Entry M), c.log[k]? = some e → e.tid = t → e.idx = n → k = r.lin) ∧
    (∀ (k : Nat) (e : Entry M), c.log[k]? = some e →
        ∃ (r : Rec M) (v : M), (c.threads e.tid).done[e.idx]? = some r ∧ r.lin = k ∧ r.op = e.op ∧ r.res = .ok (some v)) := by
  intro c
  have h := (Inv.init s₀ progs).run env sched
  exact ⟨fun t n r v hr hres => once_of_ok h hr hres, fun k e he => owner_of_entry h he⟩

/-- **Losers have no effect.**  A call that returned an error (Aborted, AlreadyExists, FailedPrecondition,
NotFound, Unavailable, or a check's own error) owns no entry of the commit log — and the contents are
exactly the replay of that log (`C02_commit_order_linearizes`). -/
theorem C02_losers_have_no_effect (env : Env) (s₀ : SStore M) (progs : Nat → List (Op M)) (sched : List Nat) :
    let c : Config M := run true env (initCfg s₀ progs) sched
    ∀ (t n : Nat) (r : Rec M) (err : Err), (c.threads t).done[n]? = some r → r.res = .error err →
      ∀ (k : Nat) (e : Entry M), c.log[k]? = some e → ¬ (e.tid = t ∧ e.idx = n) := by
  intro c t n r err hr hres k e he htag
  have h := (Inv.init s₀ progs).run env sched
  obtain ⟨r', v, hr', _, _, hv⟩ := owner_of_entry h he
  rw [htag.1, htag.2, hr] at hr'
  cases hr'
  rw [hres] at hv
  cases hv

/-- **CAS soundness.**  A write that reported success saw its precondition hold on the contents at the
instant of its commit: the old value the specification reads there equals the expected value (if one was
given), passes the expected check, and the result is the change applied to exactly that old value. -/
theorem C02_cas_sound (env : Env) (s₀ : SStore M) (progs : Nat → List (Op M)) (sched : List Nat) :
    let c : Config M := run true env (initCfg s₀ progs) sched
    ∀ (t n : Nat) (r : Rec M) (u : UpdOp M) (v : M), (c.threads t).done[n]? = some r → r.op = .upd u → r.res = .ok (some v) →
      ∃ old, specRead u ((replay s₀ (c.log.take r.lin)) u.id) = .ok old ∧
        (u.expect.isSome → old = u.expect) ∧ u.check old = none ∧ v = u.f old ∧
        (replay s₀ (c.log.take (r.lin + 1))) u.id = some v := by
  intro c t n r u v hr hop hres
  have h := (Inv.init s₀ progs).run env sched
  exact cas_of_ok h hr hop hres

/-- **Delete sees its version.**  A Delete that reported success removed exactly the stored value its
preconditions inspected: that value is the contents at the instant of its commit, it passes the check and
the expected-value comparison, it is the value returned, and the id is absent right after. -/
theorem C02_delete_sees_its_version (env : Env) (s₀ : SStore M) (progs : Nat → List (Op M)) (sched : List Nat) :
    let c : Config M := run true env (initCfg s₀ progs) sched
    ∀ (t n : Nat) (r : Rec M) (d : DelOp M) (b : M), (c.threads t).done[n]? = some r → r.op = .del d → r.res = .ok (some b) →
      (replay s₀ (c.log.take r.lin)) d.id = some b ∧ d.pre b = none ∧
      (replay s₀ (c.log.take (r.lin + 1))) d.id = none := by
  intro c t n r d b hr hop hres
  have h := (Inv.init s₀ progs).run env sched
  exact del_of_ok h hr hop hres

/-- **Add is exclusive.**  Of two successful Adds (expect-absent writes) of one id, the later one in commit
order is preceded, after the earlier one, by a committed Delete of that id.  (Two calls never share a
linearization index, by `C02_exactly_once`.)  So overlapping Adds of one id never both succeed. -/
theorem C02_add_exclusive (env : Env) (s₀ : SStore M) (progs : Nat → List (Op M)) (sched : List Nat) :
    let c : Config M := run true env (initCfg s₀ progs) sched
    ∀ (t₁ n₁ : Nat) (r₁ : Rec M) (t₂ n₂ : Nat) (r₂ : Rec M) (u₁ u₂ : UpdOp M) (v₁ v₂ : M),
      (c.threads t₁).done[n₁]? = some r₁ → (c.threads t₂).done[n₂]? = some r₂ →
      r₁.op = .upd u₁ → r₂.op = .upd u₂ → u₁.id = u₂.id →
      u₂.expectAbsent = true → u₂.isValue = false →
      r₁.res = .ok (some v₁) → r₂.res = .ok (some v₂) → r₁.lin < r₂.lin →
      ∃ (k : Nat) (e : Entry M) (d : DelOp M), r₁.lin < k ∧ k < r₂.lin ∧ c.log[k]? = some e ∧ e.op = .del d ∧ d.id = u₂.id := by
  intro c t₁ n₁ r₁ t₂ n₂ r₂ u₁ u₂ v₁ v₂ h1 h2 ho1 ho2 hid hea hv hr1 hr2 hlt
  have h := (Inv.init s₀ progs).run env sched
  exact add_exclusive h h1 h2 ho1 ho2 hid hea hv hr1 hr2 hlt

/-- **Real time.**  If call `a` responded no later than call `b` was invoked, `a` is linearized no later
than `b`; strictly earlier (as a log position) when `a` took effect. -/
theorem C02_real_time (env : Env) (s₀ : SStore M) (progs : Nat → List (Op M)) (sched : List Nat) :
    let c : Config M := run true env (initCfg s₀ progs) sched
    ∀ (t₁ n₁ : Nat) (a : Rec M) (t₂ n₂ : Nat) (b : Rec M), (c.threads t₁).done[n₁]? = some a → (c.threads t₂).done[n₂]? = some b →
      a.resp ≤ b.inv → a.lin ≤ b.lin ∧ (a.kind = .committed → a.lin < b.lin) := by
  intro c t₁ n₁ a t₂ n₂ b ha hb hab
  have h := (Inv.init s₀ progs).run env sched
  obtain ⟨a1, a2, a3, a4⟩ := (h.thr t₁).recs n₁ a ha
  obtain ⟨b1, b2, b3, b4⟩ := (h.thr t₂).recs n₂ b hb
  refine ⟨by omega, ?_⟩
  intro hk
  rw [hk] at a4
  have := a4.2.1
  omega

/-- **Linearizability, spelled out as one sequence.**  Take the calls that did not lose a race, in this order:
for k = 0, 1, 2, …: the refused calls whose linearization index is k (in ANY arrangement `arr k` of them —
they have no effect, so they commute), then the call that owns commit-log entry k; finally the refused calls
of index `log.length`.  Then
1. executing that sequence one call at a time on the sequential map specification, from the initial contents,
   reproduces the result every call reported and ends in the current contents;
2. every finished call that did not lose a race occurs in it, with its operation and its reported result;
3. nothing else occurs in it, and no call occurs twice;
4. it is ordered by `LinOrd` (linearization index; a committed call after the refused calls of its index) — and
   `C02_real_time` says exactly that a call which responded before another was invoked is `LinOrd`-before it,
   so the sequence is consistent with real time (two refused calls of one index can be arranged either way).
Calls that lost a race (Aborted / Unavailable) are not in the sequence and have no effect
(`C02_losers_have_no_effect`). -/
theorem C02_linearizable (env : Env) (s₀ : SStore M) (progs : Nat → List (Op M)) (sched : List Nat) :
    let c : Config M := run true env (initCfg s₀ progs) sched
    ∀ (arr : Nat → List (Ev M)), (∀ k, (arr k).Perm (c.refusedAt k)) →
      seqRun s₀ (linSeq s₀ c.log arr) = some (absS c.store) ∧
      (∀ (t n : Nat) (r : Rec M), (c.threads t).done[n]? = some r → r.kind ≠ .raced →
        ∃ ev, ev ∈ linSeq s₀ c.log arr ∧ ev.tid = t ∧ ev.idx = n ∧ ev.op = r.op ∧ ev.res = r.res ∧ ev.lin = r.lin) ∧
      (∀ ev, ev ∈ linSeq s₀ c.log arr →
        ∃ r, (c.threads ev.tid).done[ev.idx]? = some r ∧ r.kind ≠ .raced ∧ r.op = ev.op ∧ r.res = ev.res ∧
          r.lin = ev.lin ∧ (ev.committed = true ↔ r.kind = .committed)) ∧
      (linSeq s₀ c.log arr).Pairwise (fun x y => ¬ (x.tid = y.tid ∧ x.idx = y.idx)) ∧
      (linSeq s₀ c.log arr).Pairwise LinOrd := by
  intro c arr hperm
  have h := (Inv.init s₀ progs).run env sched
  have hl := (LInv.init s₀ progs).run true env sched
  -- what membership in a block means
  have block : ∀ k ev, ev ∈ arr k → EvSound c.threads k ev :=
    fun k ev hev => hl.sound k ev ((hperm k).mem_iff.mp hev)
  have refuses : ∀ k ev, k ≤ c.log.length → ev ∈ arr k →
      specStep ev.op (replay s₀ (c.log.take k)) = (ev.res, replay s₀ (c.log.take k)) := by
    intro k ev _ hev
    obtain ⟨_, _, r, hr, hk, hlin, hop, hres⟩ := block k ev hev
    obtain ⟨_, _, _, h4⟩ := (h.thr ev.tid).recs ev.idx r hr
    rw [hk] at h4
    rw [← hop, ← hres, ← hlin]
    exact h4.1
  have sound : ∀ ev, ev ∈ linSeq s₀ c.log arr →
      ∃ r, (c.threads ev.tid).done[ev.idx]? = some r ∧ r.kind ≠ .raced ∧ r.op = ev.op ∧ r.res = ev.res ∧
        r.lin = ev.lin ∧ (ev.committed = true ↔ r.kind = .committed) := by
    intro ev hev
    rcases mem_linSeq.mp hev with ⟨k, _, hk⟩ | ⟨k, e, he, hev'⟩
    · obtain ⟨hlin, hcom, r, hr, hkind, hrl, hop, hres⟩ := block k ev hk
      refine ⟨r, hr, by rw [hkind]; simp, hop, hres, by rw [hrl, hlin], ?_⟩
      rw [hcom, hkind]; simp
    · obtain ⟨r, v, hr, hlin, hop, hres⟩ := owner_of_entry h he
      have hkind := kind_of_ok ((h.thr e.tid).recs e.idx r hr) hres
      obtain ⟨_, _, hspec⟩ := committed_of_ok ((h.thr e.tid).recs e.idx r hr) hres
      subst hev'
      refine ⟨r, hr, by rw [hkind]; simp, hop, ?_, hlin, by simp [comEv, hkind]⟩
      show r.res = (specStep e.op (replay s₀ (c.log.take k))).1
      rw [← hspec, hop, hlin]
  have harr : ∀ k ev, ev ∈ arr k → ev.lin = k ∧ ev.committed = false :=
    fun k ev hev => ⟨(block k ev hev).1, (block k ev hev).2.1⟩
  refine ⟨?_, ?_, sound, ?_, pairwise_linSeq s₀ c.log arr harr⟩
  · rw [h.store]; exact seqRun_linSeq s₀ c.log arr refuses
  · intro t n r hr hnr
    obtain ⟨_, h2, h3, h4⟩ := (h.thr t).recs n r hr
    replace h3 : r.resp ≤ c.log.length := h3
    cases hk : r.kind with
    | raced => exact absurd hk hnr
    | refused =>
      have hmem := (hperm r.lin).mem_iff.mpr (hl.complete t n r hr hk)
      exact ⟨_, mem_linSeq.mpr (Or.inl ⟨r.lin, by omega, hmem⟩), rfl, rfl, rfl, rfl, rfl⟩
    | committed =>
      rw [hk] at h4
      obtain ⟨⟨tm, he⟩, _, hres, _⟩ := h4
      exact ⟨comEv s₀ c.log r.lin ⟨t, n, r.op, tm⟩, mem_linSeq.mpr (Or.inr ⟨r.lin, _, he, rfl⟩), rfl, rfl, rfl, hres, rfl⟩
  · -- no call twice: two occurrences would stand for one record, hence one index and one kind
    have hnd : ∀ k, ((arr k).map (fun ev => (ev.tid, ev.idx))).Nodup :=
      fun k => ((hperm k).map _).nodup_iff.mpr (hl.nodup k)
    refine (distinct_linSeq s₀ c.log arr harr hnd).imp_of_mem ?_
    intro x y hx hy hd hsame
    obtain ⟨rx, hrx, _, _, _, hlx, hcx⟩ := sound x hx
    obtain ⟨ry, hry, _, _, _, hly, hcy⟩ := sound y hy
    rw [hsame.1, hsame.2, hry] at hrx
    cases hrx
    refine hd (by rw [← hlx, ← hly]) ?_ (by rw [hsame.1, hsame.2])
    cases hxc : x.committed <;> cases hyc : y.committed <;> simp_all

/-- **The linearization respects real time step by step.**  `C02_linearizable` orders two refused calls of one
linearization index arbitrarily; `C02_real_time` measures time in commit-log lengths, which do not separate calls
that came and went while the log stood still.  Here time is the step counter itself (the finest real time a run
has: `trun` is `run` with, on the side, the step `invT t n` at which call `n` of thread `t` was invoked and the step
`respT t n` at which it responded).  For the arrangement in which refused calls of one index are listed as they
responded (`c.refusedAt`, the one the driver prints and the harness certifies against real executions):
1. `trun` computes exactly the configuration `run` computes;
2. every finished call was invoked no later than it responded, at steps the run has executed, and its log-length
   stamps are the log lengths at those very steps (`r.inv` when step `invT` began, `r.resp` when step `respT` ended);
3. no call of the sequence responded before a call standing EARLIER in the sequence was invoked — i.e. whenever
   call `a` responded (strictly) before call `b` was invoked, `a` stands before `b`.
Together with `C02_linearizable` (for `arr := c.refusedAt`) this is linearizability in the textbook sense. -/
theorem C02_linearization_respects_step_order (env : Env) (s₀ : SStore M) (progs : Nat → List (Op M))
    (sched : List Nat) :
    let c : Config M := (trun true env (initCfg s₀ progs) {} sched).1
    let g : Times := (trun true env (initCfg s₀ progs) {} sched).2
    c = run true env (initCfg s₀ progs) sched ∧
    (∀ (t n : Nat) (r : Rec M), (c.threads t).done[n]? = some r →
      g.invT t n ≤ g.respT t n ∧ g.respT t n < c.tick ∧
      r.inv = g.lenAt (g.invT t n) ∧ r.resp = g.lenAt (g.respT t n + 1)) ∧
    (∀ k k', k ≤ k' → k' ≤ c.tick → g.lenAt k ≤ g.lenAt k') ∧
    (linSeq s₀ c.log c.refusedAt).Pairwise (fun x y => ¬ (g.respT y.tid y.idx < g.invT x.tid x.idx)) := by
  intro c g
  have hc : c = run true env (initCfg s₀ progs) sched := trun_fst true env _ _ sched
  have ht : TInv c g := (TInv.init s₀ progs).run (LInv.init s₀ progs) true env sched
  have h : Inv s₀ c := by rw [hc]; exact (Inv.init s₀ progs).run env sched
  have hl : LInv c := by rw [hc]; exact (LInv.init s₀ progs).run true env sched
  refine ⟨hc, ht.fin, ht.mono, ?_⟩
  -- every event filed as refused stands for a finished refused call
  have harr : ∀ k ev, ev ∈ c.refusedAt k → ev.lin = k ∧ ev.committed = false :=
    fun k ev hev => ⟨(hl.sound k ev hev).1, (hl.sound k ev hev).2.1⟩
  -- every event of the sequence stands for a finished call with that index; committed ones own a log entry
  have hlin := C02_linearizable env s₀ progs sched
  simp only [] at hlin
  rw [← hc] at hlin
  obtain ⟨_, _, sound, _, _⟩ := hlin c.refusedAt (fun k => List.Perm.refl _)
  -- the relation, relativised to members of the sequence
  have key : (linSeq s₀ c.log c.refusedAt).Pairwise (fun x y =>
      x ∈ linSeq s₀ c.log c.refusedAt → y ∈ linSeq s₀ c.log c.refusedAt →
        ¬ (g.respT y.tid y.idx < g.invT x.tid x.idx)) := by
    -- if y responded before x was invoked, then in log time y.resp ≤ x.inv
    have link : ∀ x y, x ∈ linSeq s₀ c.log c.refusedAt → y ∈ linSeq s₀ c.log c.refusedAt →
        g.respT y.tid y.idx < g.invT x.tid x.idx →
        ∃ rx ry : Rec M, (c.threads x.tid).done[x.idx]? = some rx ∧ (c.threads y.tid).done[y.idx]? = some ry ∧
          rx.lin = x.lin ∧ ry.lin = y.lin ∧ (y.committed = true ↔ ry.kind = .committed) ∧ ry.resp ≤ rx.inv := by
      intro x y hx hy hlt
      obtain ⟨rx, hrx, _, _, _, hlx, _⟩ := sound x hx
      obtain ⟨ry, hry, _, _, _, hly, hcy⟩ := sound y hy
      obtain ⟨x1, x2, x3, _⟩ := ht.fin _ _ rx hrx
      obtain ⟨_, _, _, y4⟩ := ht.fin _ _ ry hry
      refine ⟨rx, ry, hrx, hry, hlx, hly, hcy, ?_⟩
      rw [x3, y4]
      exact ht.mono _ _ (by omega) (by omega)
    apply pairwise_linSeq_of s₀ c.log c.refusedAt _ harr
    · -- one block: listed as they responded
      intro k
      refine (ht.ord k).imp_of_mem ?_
      intro x y hx _ hxy hxm _ hlt
      obtain ⟨rx, hrx, _⟩ := sound x hxm
      have := (ht.fin _ _ rx hrx).1
      omega
    · intro x y hxy hxm hym hlt
      obtain ⟨rx, ry, hrx, hry, hlx, hly, _, hle⟩ := link x y hxm hym hlt
      obtain ⟨a1, _, _, _⟩ := (h.thr x.tid).recs x.idx rx hrx
      obtain ⟨_, b2, _, _⟩ := (h.thr y.tid).recs y.idx ry hry
      omega
    · intro x y hxy _ hyc hxm hym hlt
      obtain ⟨rx, ry, hrx, hry, hlx, hly, hcy, hle⟩ := link x y hxm hym hlt
      obtain ⟨a1, _, _, _⟩ := (h.thr x.tid).recs x.idx rx hrx
      obtain ⟨_, _, _, b4⟩ := (h.thr y.tid).recs y.idx ry hry
      rw [hcy.mp hyc] at b4
      have := b4.2.1
      omega
  exact key.imp_of_mem (fun hx hy hxy => hxy hx hy)

/-- **Lost races are real.**  A call reports Aborted only when another call committed ON THE SAME ID inside
its interval (or its id generator ran out of attempts), and a Delete gives up with Unavailable only after
five different commits of other calls on its id landed inside its interval — one per invalidated attempt of
the retry loop.  A call running alone, or next to calls on other ids only, therefore never loses a race. -/
theorem C02_lost_races_are_real (env : Env) (s₀ : SStore M) (progs : Nat → List (Op M)) (sched : List Nat) :
    let c : Config M := run true env (initCfg s₀ progs) sched
    ∀ (t n : Nat) (r : Rec M), (c.threads t).done[n]? = some r → r.kind = .raced →
      ∃ (m : Nat) (ks : List Nat),
        ((r.res = .error .aborted ∧ (opGen r.op = true ∨ m = 1)) ∨ (r.res = .error .unavailable ∧ m = 5)) ∧
        (opGen r.op = true ∨ (ks.length = m ∧ ks.Pairwise (· < ·))) ∧
        ∀ k, k ∈ ks → r.inv ≤ k ∧ k < r.resp ∧
          ∃ e, c.log[k]? = some e ∧ opId e.op = opId r.op ∧ ¬ (e.tid = t ∧ e.idx = n) := by
  intro c t n r hr hk
  have h := (Inv.init s₀ progs).run env sched
  obtain ⟨_, _, h3, h4⟩ := (h.thr t).recs n r hr
  rw [hk] at h4
  simp only [] at h4
  -- an entry inside the interval is not this call's: this call reported an error
  have notOwn : ∀ (err : Err) (k : Nat) (e : Entry M), r.res = .error err → c.log[k]? = some e →
      ¬ (e.tid = t ∧ e.idx = n) := by
    intro err k e hres he htag
    obtain ⟨r', v, hr', _, _, hv⟩ := owner_of_entry h he
    rw [htag.1, htag.2, hr] at hr'
    cases hr'
    rw [hres] at hv
    cases hv
  have lift : ∀ (err : Err) (m : Nat) (ks : List Nat), r.res = .error err →
      RivalCommits c.log (opId r.op) r.inv r.resp m ks →
      ∀ k, k ∈ ks → r.inv ≤ k ∧ k < r.resp ∧
        ∃ e, c.log[k]? = some e ∧ opId e.op = opId r.op ∧ ¬ (e.tid = t ∧ e.idx = n) := by
    intro err m ks hres hks k hk
    obtain ⟨ha, hb, e, he, hid⟩ := hks.2.2 k hk
    exact ⟨ha, hb, e, he, hid, notOwn err k e hres he⟩
  rcases h4 with ⟨hres, hg | ⟨ks, hks⟩⟩ | ⟨hres, ks, hks⟩
  · exact ⟨0, [], Or.inl ⟨hres, Or.inl hg⟩, Or.inl hg, by intro k hk; cases hk⟩
  · exact ⟨1, ks, Or.inl ⟨hres, Or.inr rfl⟩, Or.inr ⟨hks.1, hks.2.1⟩, lift _ _ _ hres hks⟩
  · exact ⟨5, ks, Or.inr ⟨hres, rfl⟩, Or.inr ⟨hks.1, hks.2.1⟩, lift _ _ _ hres hks⟩

/-- **An uncontended call behaves sequentially.**  If no OTHER call commits on a call's id between its
invocation and its response (calls on other ids may commit freely), then the call does not lose a race and
reports exactly what the sequential specification reports on the contents at its invocation.  This includes
calls that generate their id (`Add("")` with `WithGenIDIfAbsent`; the specification is then asked about the
call with the id it was given): for those there is one more possible outcome, Aborted — the only way the model
produces it without a rival commit on the id is an id generator that ran out of its ten attempts. -/
theorem C02_uncontended_call_is_sequential (env : Env) (s₀ : SStore M) (progs : Nat → List (Op M))
    (sched : List Nat) :
    let c : Config M := run true env (initCfg s₀ progs) sched
    ∀ (t n : Nat) (r : Rec M), (c.threads t).done[n]? = some r →
      (∀ k e, r.inv ≤ k → k < r.resp → c.log[k]? = some e → opId e.op = opId r.op → e.tid = t ∧ e.idx = n) →
      (r.kind ≠ .raced ∧ (specStep r.op (replay s₀ (c.log.take r.inv))).1 = r.res) ∨
      (r.kind = .raced ∧ opGen r.op = true ∧ r.res = .error .aborted) := by
  intro c t n r hr halone
  have h := (Inv.init s₀ progs).run env sched
  obtain ⟨h1, h2, h3, h4⟩ := (h.thr t).recs n r hr
  replace h3 : r.resp ≤ c.log.length := h3
  -- this call's own commit, if any, sits at `r.lin`: nothing on its id lies in `[inv, lin)`
  have quiet : ∀ k e, r.inv ≤ k → k < r.lin → c.log[k]? = some e → opId e.op ≠ opId r.op := by
    intro k e hk1 hk2 he hid
    obtain ⟨ht, hn⟩ := halone k e hk1 (by omega) he hid
    obtain ⟨r', v, hr', hlin, _, _⟩ := owner_of_entry h he
    rw [ht, hn, hr] at hr'
    cases hr'
    omega
  have hsame := replay_quiet s₀ c.log (opId r.op) r.inv r.lin h1 (by omega) quiet
  cases hk : r.kind with
  | committed =>
    rw [hk] at h4
    refine Or.inl ⟨by simp, ?_⟩
    rw [← h4.2.2.1]
    exact specStep_res_congr r.op hsame.symm
  | refused =>
    rw [hk] at h4
    refine Or.inl ⟨by simp, ?_⟩
    have := congrArg Prod.fst h4.1
    simp only [] at this
    rw [← this]
    exact specStep_res_congr r.op hsame.symm
  | raced =>
    rw [hk] at h4
    simp only [] at h4
    have hno : ∀ (m : Nat) (ks : List Nat) (err : Err), r.res = .error err → 0 < m →
        RivalCommits c.log (opId r.op) r.inv r.resp m ks → False := by
      intro m ks err hres hm hks
      obtain ⟨hl, _, hall⟩ := hks
      cases ks with
      | nil => simp at hl; omega
      | cons k rest =>
        obtain ⟨ha, hb, e, he, hid⟩ := hall k List.mem_cons_self
        obtain ⟨ht, hn⟩ := halone k e ha hb he hid
        obtain ⟨r', v, hr', _, _, hv⟩ := owner_of_entry h he
        rw [ht, hn, hr] at hr'
        cases hr'
        rw [hres] at hv
        cases hv
    rcases h4 with ⟨hres, hg | ⟨ks, hks⟩⟩ | ⟨hres, ks, hks⟩
    · exact Or.inr ⟨rfl, hg, hres⟩
    · exact (hno 1 ks _ hres (by omega) hks).elim
    · exact (hno 5 ks _ hres (by omega) hks).elim

/-- **No lost update: the last successful writer's result is what is stored.**  If a call reported success and
no later commit (in commit order) touches its id, then the stored value is exactly the value that call
returned — for a write; and the id is absent — for a Delete.  Whatever ran concurrently and lost, whatever
the clock showed: a success is never silently overwritten by a stale write. -/
theorem C02_last_success_is_stored (env : Env) (s₀ : SStore M) (progs : Nat → List (Op M)) (sched : List Nat) :
    let c : Config M := run true env (initCfg s₀ progs) sched
    (∀ (t n : Nat) (r : Rec M) (u : UpdOp M) (v : M), (c.threads t).done[n]? = some r → r.op = .upd u →
        r.res = .ok (some v) → (∀ k e, r.lin < k → c.log[k]? = some e → opId e.op ≠ u.id) →
        absS c.store u.id = some v) ∧
    (∀ (t n : Nat) (r : Rec M) (d : DelOp M) (b : M), (c.threads t).done[n]? = some r → r.op = .del d →
        r.res = .ok (some b) → (∀ k e, r.lin < k → c.log[k]? = some e → opId e.op ≠ d.id) →
        absS c.store d.id = none) := by
  intro c
  have h := (Inv.init s₀ progs).run env sched
  have tail : ∀ (i lin : Nat), lin + 1 ≤ c.log.length →
      (∀ k e, lin < k → c.log[k]? = some e → opId e.op ≠ i) →
      absS c.store i = (replay s₀ (c.log.take (lin + 1))) i := by
    intro i lin hlen hq
    rw [h.store]
    have := replay_quiet s₀ c.log i (lin + 1) c.log.length hlen (Nat.le_refl _)
      (fun k e h1 _ he => hq k e (by omega) he)
    rw [List.take_length] at this
    exact this
  constructor
  · intro t n r u v hr hop hres hq
    obtain ⟨_, _, _, _, _, hafter⟩ := cas_of_ok h hr hop hres
    obtain ⟨_, h2, h3, _⟩ := (h.thr t).recs n r hr
    obtain ⟨_, hlt, _⟩ := committed_of_ok ((h.thr t).recs n r hr) hres
    rw [tail u.id r.lin (by have h3' : r.resp ≤ c.log.length := h3; omega) hq]
    exact hafter
  · intro t n r d b hr hop hres hq
    obtain ⟨_, _, hafter⟩ := del_of_ok h hr hop hres
    obtain ⟨_, h2, h3, _⟩ := (h.thr t).recs n r hr
    obtain ⟨_, hlt, _⟩ := committed_of_ok ((h.thr t).recs n r hr) hres
    rw [tail d.id r.lin (by have h3' : r.resp ≤ c.log.length := h3; omega) hq]
    exact hafter

/-- **The Delete retry loop is bounded.**  A Delete in flight is in one of at most five attempts, and every
attempt but the first was caused by a commit of another call since the previous look: in its `k+1`-th
attempt at least `k` commits have landed since it was invoked.  (After the fifth invalidated attempt it gives
up with Unavailable: `C02_lost_races_are_real`.) -/
theorem C02_delete_attempts_bounded (env : Env) (s₀ : SStore M) (progs : Nat → List (Op M)) (sched : List Nat) :
    let c : Config M := run true env (initCfg s₀ progs) sched
    ∀ (t : Nat) (d : DelOp M) (seen : Option (Nat × M)) (attempt : Nat),
      (c.threads t).pc = .dTry d seen attempt →
      attempt < 5 ∧ (∃ ks, RivalCommits c.log d.id (c.threads t).invAt c.log.length attempt ks) ∧
      -- the item it will check is the one that was stored when it last looked
      (replay s₀ (c.log.take (c.threads t).readAt)) d.id = seen.map (·.2) := by
  intro c t d seen attempt hpc
  have h := (Inv.init s₀ progs).run env sched
  have hp := (h.thr t).pc
  unfold PcOK at hp
  rw [hpc] at hp
  obtain ⟨_, h2, h3, h4, _, _, ks, h7, h8, h9⟩ := hp
  replace h2 : (c.threads t).readAt ≤ c.log.length := h2
  refine ⟨h3, ⟨ks, h7, h8, ?_⟩, h4⟩
  intro k hk
  obtain ⟨ha, hb, he⟩ := h9 k hk
  replace hb : k < (c.threads t).readAt := hb
  exact ⟨ha, by omega, he⟩

/-- **An Add takes an absent id.**  A successful expect-absent write (in particular `Add("")` with
`WithGenIDIfAbsent`, whatever id the generator proposed) found its id absent at the instant of its commit
and holds it right after. -/
theorem C02_add_takes_an_absent_id (env : Env) (s₀ : SStore M) (progs : Nat → List (Op M)) (sched : List Nat) :
    let c : Config M := run true env (initCfg s₀ progs) sched
    ∀ (t n : Nat) (r : Rec M) (u : UpdOp M) (v : M), (c.threads t).done[n]? = some r → r.op = .upd u →
      u.expectAbsent = true → u.isValue = false → r.res = .ok (some v) →
      (replay s₀ (c.log.take r.lin)) u.id = none ∧ (replay s₀ (c.log.take (r.lin + 1))) u.id = some v := by
  intro c t n r u v hr hop hea hv hres
  have h := (Inv.init s₀ progs).run env sched
  obtain ⟨old, hread, _, _, _, hafter⟩ := cas_of_ok h hr hop hres
  refine ⟨?_, hafter⟩
  unfold specRead at hread
  simp only [hv, Bool.false_eq_true, if_false] at hread
  cases hc : (replay s₀ (c.log.take r.lin)) u.id with
  | none => rfl
  | some b => rw [hc] at hread; simp [hea] at hread

/-- **Generated ids never collide.**  If two different calls `Add("")` with `WithGenIDIfAbsent` both report
success and were given the same id — by ANY generator, e.g. one whose random source repeats itself, and in
any interleaving, e.g. both drawing the id before either commits — then a committed Delete of that id lies
between their commits: two calls never own one generated id at the same time. -/
theorem C02_generated_ids_never_collide (env : Env) (s₀ : SStore M) (progs : Nat → List (Op M)) (sched : List Nat) :
    let c : Config M := run true env (initCfg s₀ progs) sched
    ∀ (t₁ n₁ : Nat) (r₁ : Rec M) (t₂ n₂ : Nat) (r₂ : Rec M) (u₁ u₂ : UpdOp M) (v₁ v₂ : M),
      (c.threads t₁).done[n₁]? = some r₁ → (c.threads t₂).done[n₂]? = some r₂ →
      r₁.op = .upd u₁ → r₂.op = .upd u₂ → u₁.genId = true → u₂.genId = true →
      u₁.expectAbsent = true → u₂.expectAbsent = true → u₁.isValue = false → u₂.isValue = false →
      u₁.id = u₂.id → r₁.res = .ok (some v₁) → r₂.res = .ok (some v₂) → ¬ (t₁ = t₂ ∧ n₁ = n₂) →
      ∃ (k : Nat) (e : Entry M) (d : DelOp M), min r₁.lin r₂.lin < k ∧ k < max r₁.lin r₂.lin ∧
        c.log[k]? = some e ∧ e.op = .del d ∧ d.id = u₁.id := by
  intro c t₁ n₁ r₁ t₂ n₂ r₂ u₁ u₂ v₁ v₂ h1 h2 ho1 ho2 _ _ hea1 hea2 hv1 hv2 hid hr1 hr2 hne
  have h := (Inv.init s₀ progs).run env sched
  rcases Nat.lt_trichotomy r₁.lin r₂.lin with hlt | heq | hgt
  · obtain ⟨k, e, d, a, b, c', d', e'⟩ := add_exclusive h h1 h2 ho1 ho2 hid hea2 hv2 hr1 hr2 hlt
    exact ⟨k, e, d, by omega, by omega, c', d', by rw [hid]; exact e'⟩
  · exfalso
    obtain ⟨⟨tm1, hl1⟩, _⟩ := once_of_ok h h1 hr1
    obtain ⟨⟨tm2, hl2⟩, _⟩ := once_of_ok h h2 hr2
    rw [heq, hl2] at hl1
    have := Option.some.inj hl1
    injection this with ht hn _ _
    exact hne ⟨ht.symm, hn.symm⟩
  · obtain ⟨k, e, d, a, b, c', d', e'⟩ := add_exclusive h h2 h1 ho2 ho1 hid.symm hea1 hv1 hr2 hr1 hgt
    exact ⟨k, e, d, by omega, by omega, c', d', e'⟩

/-- **Change times are stamps, not versions.**  The change time stored with a value (`Value.changeTime`,
`item.changeTime`, written by the `SaveFn`s under the write lock) is the update time of the last committed
write of that id in commit order — the caller's `WithWriteTime` if given, else what the clock showed at the
commit step — and 0 (the constructor's instant) if there is none.  Nothing makes it unique or increasing:
the clock and the write times are arbitrary; all other theorems here hold regardless (the re-validation
compares contents, never stamps). -/
theorem C02_change_time_is_last_committed_write (env : Env) (s₀ : SStore M) (progs : Nat → List (Op M))
    (sched : List Nat) :
    let c : Config M := run true env (initCfg s₀ progs) sched
    c.stamp = stampOf c.log ∧
    ∀ (e : Entry M), e ∈ c.log → ∀ (u : UpdOp M), e.op = .upd u →
      ∃ k, 1 ≤ k ∧ k < c.tick ∧ e.time = (match u.writeTime with | some w => w | none => env.clock k) := by
  intro c
  have h := (SInv.init env s₀ progs).run true sched
  exact ⟨h.stamp, h.times⟩

/-! ### Integer counters: no lost increment -/



/-- **No lost increment.**  On an `Int` counter stored under id `i`, if every operation of every program that
targets `i` is an unconditional read-modify-write `old ↦ old + δ` (and no call generates its id), then at
every moment the stored value is the initial one plus the sum of the `δ` of the commit-log entries on `i` —
and by `C02_exactly_once` those entries are, one for one, the calls that reported success.  (An absent
counter stays absent: every increment is refused with NotFound and none is counted.) -/
theorem C02_no_lost_increment (s₀ : SStore Int) (progs : Nat → List (Op Int)) (sched : List Nat)
    (i : Nat)
    (hprog : ∀ t op, op ∈ progs t → (opGen op = true ∨ opId op = i) → ∃ δ, op = incOp i δ) :
    let c : Config Int := run true env (initCfg s₀ progs) sched
    absS c.store i
      = (s₀ i).map (fun v₀ => v₀ + ((c.log.filter (fun e => opId e.op == i)).map (fun e => incDelta e.op)).sum) := by
  intro c
  have h := (Inv.init s₀ progs).run env sched
  rw [h.store]
  apply replay_incs s₀ c.log i
  intro e he hid
  obtain ⟨k, hk⟩ := List.getElem?_of_mem he
  obtain ⟨r, v, hr, _, hop, _⟩ := owner_of_entry h hk
  have hmem : forget r.op ∈ (progs e.tid).map forget := by
    have hacc := acc_run env s₀ progs sched e.tid
    rw [← hacc]
    have : r ∈ ((run true env (initCfg s₀ progs) sched).threads e.tid).done := List.mem_of_getElem? hr
    simp only [List.map_append, List.mem_append, List.mem_map]
    exact Or.inl (Or.inl ⟨r.op, ⟨r, this, rfl⟩, rfl⟩)
  obtain ⟨op', hop', hfg⟩ := List.mem_map.mp hmem
  -- the program has no generate-id call, so `forget` changed nothing
  have hng' : opGen op' = false := by
    cases hg : opGen op' with
    | false => rfl
    | true =>
      obtain ⟨δ, hδ⟩ := hprog e.tid op' hop' (Or.inl hg)
      rw [hδ] at hg
      simp [opGen, incOp] at hg
  have hng : opGen r.op = false := by
    rw [← opGen_forget, ← hfg, opGen_forget]; exact hng'
  rw [forget_of_not_gen hng', forget_of_not_gen hng] at hfg
  rw [← hop, ← hfg]
  apply hprog e.tid op' hop' (Or.inr _)
  rw [hfg, hop]; exact hid

/-- **A generated id was free when it was handed out.**  Every finished call that generated its id and did not
report Aborted was given an id that was absent from the contents at the instant of its invocation (the replay of
the commit log as it stood then) — whatever the generator proposes, `Collection.genID` skips stored candidates
under the read lock. -/
theorem C02_generated_id_was_free (env : Env) (s₀ : SStore M) (progs : Nat → List (Op M)) (sched : List Nat) :
    let c : Config M := run true env (initCfg s₀ progs) sched
    ∀ (t n : Nat) (r : Rec M), (c.threads t).done[n]? = some r → opGen r.op = true → r.res ≠ .error .aborted →
      r.inv ≤ c.log.length ∧ (replay s₀ (c.log.take r.inv)) (opId r.op) = none := by
  intro c t n r hr hg hres
  have h := (Inv.init s₀ progs).run env sched
  have hgi := (GInv.init s₀ progs).run (Inv.init s₀ progs) env sched
  obtain ⟨a, b, d, _⟩ := (h.thr t).recs n r hr
  exact ⟨by have d' : r.resp ≤ c.log.length := d; omega, hgi.recs t n r hr hg hres⟩

/-- **No lost increment, next to calls that generate their ids.**  On an `Int` counter that exists under id `i`,
if every operation of every program that NAMES `i` is an unconditional read-modify-write `old ↦ old + δ` — the
programs may contain any number of generate-id calls (`Add("")` with `WithGenIDIfAbsent`, with any options and
any id generator, e.g. one that keeps proposing `i`) — then at every moment the stored value is the initial one
plus the sum of the `δ` of the commit-log entries on `i`, which are, one for one, the increments that reported
success (`C02_exactly_once`): a generated id never lands on the counter. -/
theorem C02_no_lost_increment_next_to_generated_ids (s₀ : SStore Int) (progs : Nat → List (Op Int))
    (sched : List Nat) (i : Nat) (v₀ : Int) (hpres : s₀ i = some v₀)
    (hprog : ∀ t op, op ∈ progs t → opGen op = false → opId op = i → ∃ δ, op = incOp i δ) :
    let c : Config Int := run true env (initCfg s₀ progs) sched
    absS c.store i
      = some (v₀ + ((c.log.filter (fun e => opId e.op == i)).map (fun e => incDelta e.op)).sum) ∧
    ∀ e, e ∈ c.log → opId e.op = i → opGen e.op = false := by
  intro c
  have h := (Inv.init s₀ progs).run env sched
  have hgi := (GInv.init s₀ progs).run (Inv.init s₀ progs) env sched
  -- an entry on `i` that did not generate its id is an increment: it stands in a program under that very id
  have nongen : ∀ (k : Nat) (e : Entry Int), c.log[k]? = some e → opId e.op = i → opGen e.op = false →
      ∃ δ, e.op = incOp i δ := by
    intro k e hk hid hng
    obtain ⟨r, v, hr, _, hop, _⟩ := owner_of_entry h hk
    have hmem : forget r.op ∈ (progs e.tid).map forget := by
      have hacc := acc_run env s₀ progs sched e.tid
      rw [← hacc]
      have : r ∈ ((run true env (initCfg s₀ progs) sched).threads e.tid).done := List.mem_of_getElem? hr
      simp only [List.map_append, List.mem_append, List.mem_map]
      exact Or.inl (Or.inl ⟨r.op, ⟨r, this, rfl⟩, rfl⟩)
    obtain ⟨op', hop', hfg⟩ := List.mem_map.mp hmem
    have hngr : opGen r.op = false := by rw [hop]; exact hng
    have hng' : opGen op' = false := by rw [← opGen_forget, hfg, opGen_forget]; exact hngr
    rw [forget_of_not_gen hng', forget_of_not_gen hngr] at hfg
    rw [← hop, ← hfg]
    apply hprog e.tid op' hop' hng'
    rw [hfg, hop]; exact hid
  -- by induction on the log position: no entry on `i` generated its id (the counter has been there all along)
  have allInc : ∀ (k j : Nat) (e : Entry Int), j < k → c.log[j]? = some e → opId e.op = i → opGen e.op = false := by
    intro k
    induction k with
    | zero => intro j e hj; omega
    | succ k ih =>
      intro j e hj he hid
      by_cases hjk : j < k
      · exact ih j e hjk he hid
      · have hjk' : j = k := by omega
        subst hjk'
        cases hg : opGen e.op with
        | false => rfl
        | true =>
          exfalso
          obtain ⟨r, v, hr, hlin, hop, hres⟩ := owner_of_entry h he
          obtain ⟨a1, a2, a3, _⟩ := (h.thr e.tid).recs e.idx r hr
          replace a3 : r.resp ≤ c.log.length := a3
          have hfree := hgi.recs e.tid e.idx r hr (by rw [hop]; exact hg) (by rw [hres]; simp)
          rw [hop, hid] at hfree
          have hthere := present_persists s₀ c.log i 0 r.inv (Nat.zero_le _) (by omega)
            (by simp [replay, hpres])
            (by
              intro k' e' d _ hk' he' hdel hdid
              have hid' : opId e'.op = i := by rw [hdel]; exact hdid
              have hng := ih k' e' (by omega) he' hid'
              obtain ⟨δ, hδ⟩ := nongen k' e' he' hid' hng
              rw [hδ] at hdel
              simp [incOp] at hdel)
          rw [hfree] at hthere
          simp at hthere
  have noGen : ∀ (e : Entry Int), e ∈ c.log → opId e.op = i → opGen e.op = false := by
    intro e he hid
    obtain ⟨k, hk⟩ := List.getElem?_of_mem he
    exact allInc (k + 1) k e (by omega) hk hid
  refine ⟨?_, noGen⟩
  rw [h.store, replay_incs s₀ c.log i ?_, hpres]
  · rfl
  · intro e he hid
    obtain ⟨k, hk⟩ := List.getElem?_of_mem he
    exact nongen k e hk hid (noGen e he hid)

/-! ### The defect repaired by 41c35d0, on the model of the code as it was

Before the fix the re-validation read of the create path returned the provisional `created` message
without looking at the map again, so the equality check passed although another writer had created the
id in between. -/

/-- two threads, each one `Add(id 0, v)` -/
def addOp (v : Int) : Op Int :=
  .upd { id := 0, isValue := false, expectAbsent := true, createIfAbsent := true, expect := none,
         check := fun _ => none, f := fun _ => v }

/-- a fixed environment for the concrete runs: a frozen clock, a generator that always proposes id 7 -/
def env₀ : Env := ⟨fun _ => 0, fun _ _ => 7⟩

def twoAdds : Nat → List (Op Int) := fun t => if t = 0 then [addOp 1] else if t = 1 then [addOp 2] else []

/-- the witness schedule: both read (absent), both run the change function, both commit -/
def twoAddsSched : List Nat := [0, 1, 0, 1, 0, 1]

def unfixedRun : Config Int := run false env₀ (initCfg (fun _ => none) twoAdds) twoAddsSched
def fixedRun : Config Int := run true env₀ (initCfg (fun _ => none) twoAdds) twoAddsSched

/-- **Unfixed code: two overlapping Adds of one id both succeed** and the second overwrites the first. -/
theorem C02_unfixed_two_adds_both_succeed :
    (unfixedRun.threads 0).done.map (·.res) = [.ok (some 1)] ∧
    (unfixedRun.threads 1).done.map (·.res) = [.ok (some 2)] ∧
    absS unfixedRun.store 0 = some 2 := by
  decide

/-- On the fixed code the same schedule makes the second Add lose with Aborted and leaves the first value. -/
example :
    (fixedRun.threads 0).done.map (·.res) = [.ok (some 1)] ∧
    (fixedRun.threads 1).done.map (·.res) = [.error .aborted] ∧
    absS fixedRun.store 0 = some 1 := by
  decide

/-! ### Non-vacuity: runs that reach every kind of outcome -/

def incRun : Config Int :=
  run true env₀ (initCfg (fun i => if i = 0 then some 100 else none) (fun t => if t < 2 then [incOp 0 5] else []))
    [0, 1, 0, 1, 0, 1]

/-- increments by two threads with an interleaved read: one aborts, the other's increment is kept -/
example :
    (incRun.threads 0).done.map (·.res) = [.ok (some 105)] ∧
    (incRun.threads 1).done.map (·.res) = [.error .aborted] ∧
    (incRun.threads 0).done.map (·.kind) = [.committed] ∧ (incRun.threads 1).done.map (·.kind) = [.raced] ∧
    absS incRun.store 0 = some 105 ∧ incRun.log.length = 1 := by
  decide

/-- the same race under a frozen clock: the stamp does not move (0 = 0), the loser is still detected -/
example : incRun.stamp 0 = 0 ∧ incRun.tick = 7 := by decide

def incAt42 : Op Int :=
  .upd { id := 0, isValue := false, expectAbsent := false, createIfAbsent := false, expect := none,
         check := fun _ => none, f := fun old => old.getD 0 + 1, writeTime := some 42 }

/-- `WithWriteTime 42`: that is the stored change time -/
example :
    (run true env₀ (initCfg (fun i => if i = 0 then some (100 : Int) else none)
      (fun t => if t = 0 then [incAt42] else [])) [0, 0, 0]).stamp 0 = 42 := by decide

/-- `Add("")` with `WithGenIDIfAbsent` -/
def genAdd (v : Int) : Op Int :=
  .upd { id := 0, isValue := false, expectAbsent := true, createIfAbsent := true, expect := none,
         check := fun _ => none, f := fun _ => v, genId := true }

/-- two generate-id Adds whose generator proposes the same id (7) to both before either commits -/
def genRun : Config Int :=
  run true env₀ (initCfg (fun _ => none) (fun t => if t = 0 then [genAdd 1] else if t = 1 then [genAdd 2] else []))
    [0, 1, 0, 1, 0, 1]

/-- only one of them gets the id; the other one loses with Aborted and has no effect -/
example :
    (genRun.threads 0).done.map (·.res) = [.ok (some 1)] ∧ (genRun.threads 1).done.map (·.res) = [.error .aborted] ∧
    (genRun.threads 0).done.map (fun r => opId r.op) = [7] ∧ absS genRun.store 7 = some 1 ∧ genRun.rng = 2 := by
  decide

/-- one after the other: the second call's ten candidates are all taken, generation gives up with Aborted -/
example :
    ((run true env₀ (initCfg (fun _ => none) (fun t => if t = 0 then [genAdd 1, genAdd 2] else []))
      [0, 0, 0, 0]).threads 0).done.map (fun r => (r.res, r.kind)) = [(.ok (some 1), .committed), (.error .aborted, .raced)] := by
  decide

/-- a generator that moves on: candidate = number of the read; the second call skips nothing and gets id 1 -/
example :
    ((run true ⟨fun _ => 0, fun n _ => n⟩ (initCfg (fun i => if i = 0 then some (5 : Int) else none)
      (fun t => if t = 0 then [genAdd 1] else []))
      [0, 0, 0]).threads 0).done.map (fun r => (opId r.op, r.res)) = [(1, .ok (some 1))] := by
  decide

def inc1 : Op Int := incOp 0 1

/-- a Delete whose item is replaced before each of its five attempts gives up with Unavailable;
five commits of the rival lie inside its interval -/
def giveUpRun : Config Int :=
  run true env₀ (initCfg (fun i => if i = 0 then some 0 else none)
    (fun t => if t = 0 then [.del ⟨0, false, none, fun _ => none⟩] else if t = 1 then [inc1, inc1, inc1, inc1, inc1] else []))
    [0, 1, 1, 1, 0, 1, 1, 1, 0, 1, 1, 1, 0, 1, 1, 1, 0, 1, 1, 1, 0]

example :
    (giveUpRun.threads 0).done.map (fun r => (r.res, r.kind, r.inv, r.resp)) = [(.error .unavailable, .raced, 0, 5)] ∧
    giveUpRun.log.map (fun e => (e.tid, opId e.op)) = [(1, 0), (1, 0), (1, 0), (1, 0), (1, 0)] ∧
    absS giveUpRun.store 0 = some 5 := by
  decide

def delRun : Config Int :=
  run true env₀ (initCfg (fun i => if i = 0 then some 7 else none)
    (fun t =>
      if t = 0 then [.del ⟨0, false, none, fun _ => none⟩, .del ⟨0, false, none, fun _ => none⟩]
      else if t = 1 then [incOp 0 1] else []))
    [0, 1, 1, 1, 0, 0, 0, 0]

/-- a Delete whose item is replaced between its read and its lock retries and then deletes the new version;
a second Delete finds nothing -/
example :
    (delRun.threads 0).done.map (·.res) = [.ok (some 8), .error .notFound] ∧
    (delRun.threads 0).done.map (·.kind) = [.committed, .refused] ∧
    (delRun.threads 1).done.map (·.res) = [.ok (some 8)] ∧ absS delRun.store 0 = none := by
  decide

/-- the linearization of that run: the increment, the Delete that retried, then the refused second Delete;
executing it on the specification from the initial contents ends with id 0 absent -/
example :
    (linSeq (fun i => if i = 0 then some 7 else none) delRun.log delRun.refusedAt).map
      (fun ev => (ev.tid, ev.idx, ev.lin, ev.committed, ev.res)) =
      [(1, 0, 0, true, .ok (some 8)), (0, 0, 1, true, .ok (some 8)), (0, 1, 2, false, .error .notFound)] ∧
    ((seqRun (fun i => if i = 0 then some 7 else none)
      (linSeq (fun i => if i = 0 then some 7 else none) delRun.log delRun.refusedAt)).map (fun s => s 0)) = some none := by
  decide

/-- refused calls are filed under the index of the contents they read: two Adds of a present id -/
example :
    ((run true env₀ (initCfg (fun i => if i = 0 then some (7 : Int) else none)
        (fun t => if t < 2 then [addOp 1] else [])) [0, 1]).refusedAt 0).map (fun ev => (ev.tid, ev.idx, ev.res)) =
      [(0, 0, .error .alreadyExists), (1, 0, .error .alreadyExists)] := by
  decide

/-- step-level real time: two Adds of a present id, one after the other, both refused under linearization index 0
while the log stands still; log-length stamps cannot order them (0 ≤ 0), the step stamps do, and the sequence
lists them as they responded -/
def twoRefused : Config Int × Times :=
  trun true env₀ (initCfg (fun i => if i = 0 then some (7 : Int) else none) (fun t => if t < 2 then [addOp 1] else []))
    {} [0, 1]

example :
    (twoRefused.2.invT 0 0, twoRefused.2.respT 0 0, twoRefused.2.invT 1 0, twoRefused.2.respT 1 0) = (1, 1, 2, 2) ∧
    ((twoRefused.1.threads 0).done.map (fun r => (r.inv, r.resp))) = [(0, 0)] ∧
    ((twoRefused.1.threads 1).done.map (fun r => (r.inv, r.resp))) = [(0, 0)] ∧
    (linSeq (fun i => if i = 0 then some (7 : Int) else none) twoRefused.1.log twoRefused.1.refusedAt).map
      (fun ev => (ev.tid, ev.idx)) = [(0, 0), (1, 0)] := by
  decide

/-- an increment that overlaps a Delete's retry: invocation and response steps, and the log lengths at those steps -/
example :
    let cg := trun true env₀ (initCfg (fun i => if i = 0 then some (7 : Int) else none)
      (fun t => if t = 0 then [.del ⟨0, false, none, fun _ => none⟩] else if t = 1 then [incOp 0 1] else []))
      {} [0, 1, 1, 1, 0, 0]
    (cg.2.invT 0 0, cg.2.respT 0 0, cg.2.invT 1 0, cg.2.respT 1 0) = (1, 6, 2, 4) ∧
    (List.range 8).map cg.2.lenAt = [0, 0, 0, 0, 0, 1, 1, 2] ∧ cg.1.tick = 7 := by
  decide

/-- a generator that keeps proposing the counter's own id: the generate-id Add gives up (Aborted), the increment
next to it is kept — the hypotheses of `C02_no_lost_increment_next_to_generated_ids` are met by this program -/
def genOnCounter : Config Int :=
  run true ⟨fun _ => 0, fun _ _ => 0⟩ (initCfg (fun i => if i = 0 then some 100 else none)
    (fun t => if t = 0 then [incOp 0 5] else if t = 1 then [genAdd 1] else [])) [0, 1, 0, 0]

example :
    (genOnCounter.threads 0).done.map (·.res) = [.ok (some 105)] ∧
    (genOnCounter.threads 1).done.map (·.res) = [.error .aborted] ∧
    absS genOnCounter.store 0 = some 105 ∧ genOnCounter.rng = 10 := by
  decide

example : ∀ t op, op ∈ (fun t => if t = 0 then [incOp 0 5] else if t = 1 then [genAdd 1] else []) t →
    opGen op = false → opId op = 0 → ∃ δ, op = incOp 0 δ := by
  intro t op hop hg hid
  by_cases h0 : t = 0
  · simp [h0] at hop; exact ⟨5, hop⟩
  · by_cases h1 : t = 1
    · simp [h1] at hop; rw [hop] at hg; simp [genAdd, opGen] at hg
    · simp [h0, h1] at hop

/-- the generated id 7 of `genRun` was free at the invocation of the call that took it -/
example :
    (genRun.threads 0).done.map (fun r => (opGen r.op, opId r.op, r.inv)) = [(true, 7, 0)] ∧
    (replay (fun _ => (none : Option Int)) (genRun.log.take 0)) 7 = none := by
  decide

end ScVerif.C02
