import ScVerif.C02.Inv
/-!
# C02 — every atomic step of the (fixed) code preserves the invariant; hence every schedule does
-/
set_option linter.unusedSectionVars false
set_option linter.unusedVariables false
namespace ScVerif.C02

variable {M : Type} [DecidableEq M] [Msg M]

theorem take_length_self {α : Type} (l : List α) : l.take l.length = l := List.take_length

/-- Frame for a thread that does not move: pc obligations do not mention `done`. -/
theorem PcOK_congr {s₀ : SStore M} {log store nr} {th th' : Thread M}
    (hpc : th'.pc = th.pc) (hi : th'.invAt = th.invAt) (hr : th'.readAt = th.readAt)
    (h : PcOK s₀ log store nr th) : PcOK s₀ log store nr th' := by
  unfold PcOK at h ⊢
  rw [hpc, hi, hr]; exact h

theorem PcOK_idle {s₀ : SStore M} {log store nr} {th : Thread M} (h : th.pc = .idle) :
    PcOK s₀ log store nr th := by
  unfold PcOK; rw [h]; trivial

theorem RecOK_intro {s₀ : SStore M} {log : List (Entry M)} {t n : Nat} {op : Op M} {res : Res M}
    {kind : Kind} {inv lin resp : Nat} (h1 : inv ≤ lin) (h2 : lin ≤ resp) (h3 : resp ≤ log.length)
    (h4 : match kind with
      | .committed =>
          (∃ tm, log[lin]? = some ⟨t, n, op, tm⟩) ∧ lin < resp ∧
          (specStep op (replay s₀ (log.take lin))).1 = res ∧ ∃ v, res = .ok (some v)
      | .refused =>
          specStep op (replay s₀ (log.take lin)) = (res, replay s₀ (log.take lin)) ∧
          (res = .ok none ∨ ∃ e, res = .error e)
      | .raced =>
          (res = .error .aborted ∧ (opGen op = true ∨ ∃ ks, RivalCommits log (opId op) inv resp 1 ks)) ∨
          (res = .error .unavailable ∧ ∃ ks, RivalCommits log (opId op) inv resp 5 ks)) :
    RecOK s₀ log t n ⟨op, res, kind, inv, lin, resp⟩ := ⟨h1, h2, h3, h4⟩

/-- Finishing a call without touching shared state. -/
theorem Inv.finish_local {s₀ : SStore M} {c : Config M} (h : Inv s₀ c) (t : Nat) (th : Thread M)
    (hdone : th.done = (c.threads t).done)
    (op : Op M) (res : Res M) (kind : Kind) (lin : Nat)
    (hrec : RecOK s₀ c.log t th.done.length ⟨op, res, kind, th.invAt, lin, c.log.length⟩) :
    Inv s₀ (c.setThread t (th.finish op res kind lin c.log.length)) := by
  apply h.setThread
  · refine ⟨?_, PcOK_idle rfl⟩
    simp only [Thread.finish]
    apply recs_snoc
    · rw [hdone]; exact (h.thr t).recs
    · exact hrec
  · exact ⟨[⟨op, res, kind, th.invAt, lin, c.log.length⟩], by simp [Thread.finish, hdone]⟩

/-- A commit: one log entry appended by thread `t`, one store cell replaced, the call finished. -/
theorem Inv.commit {s₀ : SStore M} {c : Config M} (h : Inv s₀ c) (t : Nat) (th : Thread M)
    (hth : th = c.threads t) (op : Op M) (v : M) (i : Nat) (cell : Option (Nat × M)) (nr' : Nat)
    (hnr : c.nextRef ≤ nr') (hcell : ∀ r b, cell = some (r, b) → c.nextRef ≤ r ∧ r < nr')
    (hinv : th.invAt ≤ c.log.length)
    (hspec : specStep op (absS c.store) = (.ok (some v), setAt (absS c.store) i (cell.map (·.2))))
    (hopid : opId op = i)
    (tm : Nat) (st : Nat → Nat) (tk rg : Nat) (ra : Nat → List (Ev M)) :
    Inv s₀ { store := setAt c.store i cell
             nextRef := nr'
             log := c.log ++ [⟨t, th.done.length, op, tm⟩]
             threads := setAt c.threads t
               (th.finish op (.ok (some v)) .committed c.log.length (c.log.length + 1))
             stamp := st, tick := tk, rng := rg, refusedAt := ra } := by
  have hst : ∀ j r b, setAt c.store i cell j = some (r, b) → c.store j = some (r, b) ∨ c.nextRef ≤ r := by
    intro j r b hj
    simp only [setAt] at hj
    split at hj
    · exact Or.inr (hcell r b hj).1
    · exact Or.inl hj
  refine ⟨?_, ?_, ?_, ?_⟩
  · -- contents = replay of the extended log
    show absS (setAt c.store i cell) = replay s₀ (c.log ++ [⟨t, th.done.length, op, tm⟩])
    rw [replay_snoc, ← h.store, absS_setAt]
    show _ = (specStep op (absS c.store)).2
    rw [hspec]
  · intro j r b hj
    rcases hst j r b hj with h1 | h1
    · have := h.refs j r b h1; show r < nr'; omega
    · simp only [setAt] at hj
      split at hj
      · exact (hcell r b hj).2
      · have := h.refs j r b hj; show r < nr'; omega
  · intro t'
    show ThreadOK s₀ (c.log ++ _) (setAt c.store i cell) nr' t' (setAt c.threads t _ t')
    simp only [setAt]
    split
    · next heq =>
      subst heq
      refine ⟨?_, PcOK_idle rfl⟩
      simp only [Thread.finish]
      apply recs_snoc
      · intro n r hr
        rw [hth] at hr
        exact ((h.thr t').recs n r hr).mono _
      · refine ⟨hinv, by simp, by simp, ?_⟩
        simp only []
        refine ⟨⟨tm, by simp⟩, by simp, ?_, v, rfl⟩
        rw [List.take_append_of_le_length (Nat.le_refl _), take_length_self, ← h.store, hspec]
    · refine (h.thr t').mono _ hnr hst ?_
      intro j hj
      exact setAt_other _ _ (by rw [← hopid]; exact hj)
  · intro k e he
    show ∃ r : Rec M, (setAt c.threads t _ e.tid).done[e.idx]? = some r ∧ _
    by_cases hk : k < c.log.length
    · rw [List.getElem?_append_left hk] at he
      obtain ⟨r, hr, hkind⟩ := h.owned k e he
      refine ⟨r, ?_, hkind⟩
      simp only [setAt]
      split
      · next heq =>
        simp only [Thread.finish]
        rw [List.getElem?_append_left]
        · rw [hth, ← heq]; exact hr
        · rw [hth, ← heq]; exact (List.getElem?_eq_some_iff.mp hr).1
      · exact hr
    · have hk' : k = c.log.length := by
        have := (List.getElem?_eq_some_iff.mp he).1
        simp at this; omega
      subst hk'
      simp at he
      subst he
      refine ⟨⟨op, .ok (some v), .committed, th.invAt, c.log.length, c.log.length + 1⟩, ?_, rfl, rfl⟩
      simp [setAt, Thread.finish]

/-! ### The four kinds of step -/

/-- The invariant does not mention the rng position, the stamps or the step counter. -/
theorem Inv.frame {s₀ : SStore M} {c : Config M} (h : Inv s₀ c) (st : Nat → Nat) (tk rg : Nat) :
    Inv s₀ { c with stamp := st, tick := tk, rng := rg } :=
  ⟨h.store, h.refs, h.thr, h.owned⟩

theorem Inv.frame' {s₀ : SStore M} {c : Config M} (h : Inv s₀ c) (tk : Nat) (ra : Nat → List (Ev M)) :
    Inv s₀ { c with tick := tk, refusedAt := ra } :=
  ⟨h.store, h.refs, h.thr, h.owned⟩

theorem resolveId_gen {env : Env} {c : Config M} {u₀ u : UpdOp M} {r : Nat}
    (h : resolveId env c u₀ = (some u, r)) : u.genId = u₀.genId := by
  unfold resolveId at h
  by_cases hg : u₀.genId
  · simp only [hg, if_true] at h
    split at h
    · cases h; exact hg.symm
    · cases h
  · simp only [hg] at h
    cases h; rfl

theorem resolveId_none {env : Env} {c : Config M} {u₀ : UpdOp M} {r : Nat}
    (h : resolveId env c u₀ = (none, r)) : u₀.genId = true := by
  unfold resolveId at h
  by_cases hg : u₀.genId
  · exact hg
  · simp only [hg] at h
    cases h

theorem Inv.stepIdle {s₀ : SStore M} {c : Config M} (h : Inv s₀ c) (env : Env) (t : Nat)
    (hpc : (c.threads t).pc = .idle) : Inv s₀ (stepIdle env c t (c.threads t)) := by
  unfold ScVerif.C02.stepIdle
  cases hprog : (c.threads t).prog with
  | nil => exact h
  | cons op rest =>
    cases op with
    | upd u₀ =>
      simp only []
      cases hres : resolveId env c u₀ with
      | mk ou r =>
      have h' : Inv s₀ { c with rng := r } := h.frame c.stamp c.tick r
      cases ou with
      | none =>
        simp only []
        refine Inv.finish_local h' t _ ?hd0 _ _ _ _ ?hr0
        case hd0 => rfl
        refine RecOK_intro (Nat.le_refl _) (Nat.le_refl _) (Nat.le_refl _) ?_
        simp only []
        exact Or.inl ⟨by first | rfl | trivial, Or.inl (resolveId_none hres)⟩
      | some u =>
      simp only []
      cases hread : readUpd u (c.store u.id) with
      | error e =>
        simp only []
        have hs := readUpd_err hread
        refine Inv.finish_local h' t _ ?hd _ _ _ _ ?hr
        case hd => rfl
        refine RecOK_intro (Nat.le_refl _) (Nat.le_refl _) (Nat.le_refl _) ?_
        simp only []
        refine ⟨?_, Or.inr ⟨e, rfl⟩⟩
        rw [take_length_self]
        show specStep (Op.upd u) (replay s₀ c.log) = _
        rw [← h.store]
        exact specUpd_refused_read hs
      | ok p =>
        obtain ⟨rd, created⟩ := p
        simp only []
        obtain ⟨hs, hcr, hsome⟩ := readUpd_ok hread
        apply h'.setThread
        · refine ⟨(h.thr t).recs, ?_⟩
          unfold PcOK
          simp only []
          refine ⟨Nat.le_refl _, Nat.le_refl _, ⟨?_, hcr, hsome⟩, fun _ => secondGet_of_readUpd hread⟩
          rw [take_length_self]
          show specRead u ((replay s₀ c.log) u.id) = _
          rw [← h.store]; exact hs
        · exact ⟨[], by simp⟩
    | del d =>
      simp only []
      apply h.setThread
      · refine ⟨(h.thr t).recs, ?_⟩
        unfold PcOK
        simp only []
        refine ⟨Nat.le_refl _, Nat.le_refl _, by omega, ?_, ?_, fun _ => by first | rfl | trivial,
          [], rfl, List.Pairwise.nil, by intro k hk; cases hk⟩
        · rw [take_length_self, ← h.store]; rfl
        · intro r b hs
          refine ⟨h.refs _ _ _ hs, ?_⟩
          intro b' hb'
          rw [hs] at hb'
          cases hb'; rfl
      · exact ⟨[], by simp⟩

theorem Inv.stepChange {s₀ : SStore M} {c : Config M} (h : Inv s₀ c) (t : Nat)
    (u : UpdOp M) (rd : Option M) (created : Bool)
    (hpc : (c.threads t).pc = .uChange u rd created) :
    Inv s₀ (stepChange c t (c.threads t) u rd created) := by
  have hp := (h.thr t).pc
  unfold PcOK at hp
  rw [hpc] at hp
  simp only [] at hp
  obtain ⟨h1, h2, hv, hsame⟩ := hp
  unfold ScVerif.C02.stepChange
  cases hch : u.change rd with
  | error e =>
    simp only []
    apply Inv.finish_local h t _ rfl
    refine RecOK_intro h1 h2 (Nat.le_refl _) ?_
    simp only []
    exact ⟨specUpd_refused_change hv.1 hch, Or.inr ⟨e, rfl⟩⟩
  | ok new =>
    simp only []
    apply h.setThread
    · refine ⟨(h.thr t).recs, ?_⟩
      unfold PcOK
      simp only []
      exact ⟨h1, h2, hv, hch, hsame⟩
    · exact ⟨[], by simp⟩

theorem Inv.stepCommit {s₀ : SStore M} {c : Config M} (h : Inv s₀ c) (t : Nat)
    (u : UpdOp M) (rd : Option M) (created : Bool) (new : M)
    (env : Env) (hpc : (c.threads t).pc = .uCommit u rd created new) :
    Inv s₀ (stepCommit true env c t (c.threads t) u rd created new) := by
  have hp := (h.thr t).pc
  unfold PcOK at hp
  rw [hpc] at hp
  simp only [] at hp
  obtain ⟨h1, h2, hv, hch, hsame⟩ := hp
  unfold ScVerif.C02.stepCommit
  simp only []
  split
  · next hne =>
    -- Aborted: the cell was rewritten since the first read, so the log has grown
    apply Inv.finish_local h t _ rfl
    refine RecOK_intro (by omega) (Nat.le_refl _) (Nat.le_refl _) ?_
    simp only []
    refine Or.inl ⟨by first | rfl | trivial, Or.inr ?_⟩
    have hnq : ¬ Quiet c.log u.id (c.threads t).readAt := fun hq => hne (hsame hq).symm
    obtain ⟨k, e, hk1, hk2, he, hid⟩ := exists_of_not_quiet hnq
    refine ⟨[k], rfl, List.pairwise_singleton _ _, ?_⟩
    intro x hx
    simp only [List.mem_singleton] at hx
    subst hx
    exact ⟨by omega, hk2, e, he, hid⟩
  · next heq =>
    have heq' : rd = secondGet true u created (c.store u.id) := by
      simpa using heq
    have hs := secondGet_sound hv.2.1 hv.2.2 heq'
    have hspec : specStep (.upd u) (absS c.store)
        = (.ok (some new), setAt (absS c.store) u.id ((some (c.nextRef, new)).map (·.2))) := by
      show specUpd u (absS c.store) = _
      exact specUpd_of_read hs hch
    exact Inv.commit h t (c.threads t) rfl (.upd u) new u.id (some (c.nextRef, new)) (c.nextRef + 1)
      (by omega) (by intro r b hrb; cases hrb; omega) (by omega) hspec rfl _ _ _ _ _

theorem Inv.stepDel {s₀ : SStore M} {c : Config M} (h : Inv s₀ c) (t : Nat)
    (d : DelOp M) (seen : Option (Nat × M)) (attempt : Nat)
    (hpc : (c.threads t).pc = .dTry d seen attempt) :
    Inv s₀ (stepDel c t (c.threads t) d seen attempt) := by
  have hp := (h.thr t).pc
  unfold PcOK at hp
  rw [hpc] at hp
  simp only [] at hp
  obtain ⟨h1, h2, h3, hview, hseen, hsame, ks, hks⟩ := hp
  unfold ScVerif.C02.stepDel
  simp only []
  cases seen with
  | none =>
    simp only []
    apply Inv.finish_local h t _ rfl
    refine RecOK_intro h1 h2 (Nat.le_refl _) ?_
    simp only []
    simp only [Option.map_none] at hview
    by_cases ham : d.allowMissing
    · simp [specStep, specDel, hview, ham]
    · simp [specStep, specDel, hview, ham]
  | some p =>
    obtain ⟨r, b⟩ := p
    simp only []
    simp only [Option.map_some] at hview
    cases hpre : d.pre b with
    | some e =>
      simp only []
      apply Inv.finish_local h t _ rfl
      refine RecOK_intro h1 h2 (Nat.le_refl _) ?_
      simp only []
      simp [specStep, specDel, hview, hpre]
    | none =>
      simp only []
      split
      · next hchg =>
        -- the pointer changed since the last look: some call committed in between
        have hnq : ¬ Quiet c.log d.id (c.threads t).readAt := by
          intro hq
          apply hchg
          rw [hsame hq]; rfl
        obtain ⟨k, e, hk1, hk2, he, hid⟩ := exists_of_not_quiet hnq
        have hks' := hks.snoc hk1 hk2 he hid h1
        split
        · -- retry with the item seen under the lock
          apply h.setThread
          · refine ⟨(h.thr t).recs, ?_⟩
            unfold PcOK
            simp only []
            refine ⟨by omega, Nat.le_refl _, by omega, ?_, ?_, fun _ => by first | rfl | trivial, ks ++ [k], hks'⟩
            · rw [take_length_self, ← h.store]; rfl
            · intro r' b' hs
              refine ⟨h.refs _ _ _ hs, ?_⟩
              intro b'' hb''
              rw [hs] at hb''
              cases hb''; rfl
          · exact ⟨[], by simp⟩
        · apply Inv.finish_local h t _ rfl
          refine RecOK_intro (by omega) (Nat.le_refl _) (Nat.le_refl _) ?_
          simp only []
          refine Or.inr ⟨by first | rfl | trivial, ks ++ [k], ?_⟩
          have h5 : attempt + 1 = 5 := by omega
          rw [← h5]; exact hks'
      · next hne =>
        -- the pointer is unchanged: the stored body is the one the checks inspected
        have hcur : ∃ b', c.store d.id = some (r, b') := by
          cases hc : c.store d.id with
          | none => simp [hc] at hne
          | some q =>
            obtain ⟨r', b'⟩ := q
            simp [hc] at hne
            exact ⟨b', by rw [hne]⟩
        obtain ⟨b', hb'⟩ := hcur
        have hbb : b' = b := (hseen r b rfl).2 b' hb'
        subst hbb
        have hspec : specStep (.del d) (absS c.store)
            = (.ok (some b'), setAt (absS c.store) d.id ((none : Option (Nat × M)).map (·.2))) := by
          simp [specStep, specDel, absS, hb', hpre]
        exact Inv.commit h t (c.threads t) rfl (.del d) b' d.id none c.nextRef
          (Nat.le_refl _) (by intro r b hrb; cases hrb) (by omega) hspec rfl _ _ _ _ _

theorem Inv.stepCore {s₀ : SStore M} {c : Config M} (h : Inv s₀ c) (env : Env) (t : Nat) :
    Inv s₀ (stepCore true env c t) := by
  unfold ScVerif.C02.stepCore
  simp only []
  cases hpc : (c.threads t).pc with
  | idle => exact h.stepIdle env t hpc
  | uChange u rd created => exact h.stepChange t u rd created hpc
  | uCommit u rd created new => exact h.stepCommit t u rd created new env hpc
  | dTry d seen attempt => exact h.stepDel t d seen attempt hpc

theorem Inv.step {s₀ : SStore M} {c : Config M} (h : Inv s₀ c) (env : Env) (t : Nat) :
    Inv s₀ (step true env c t) :=
  (h.stepCore env t).frame' _ _

theorem Inv.init (s₀ : SStore M) (progs : Nat → List (Op M)) : Inv s₀ (initCfg s₀ progs) := by
  refine ⟨?_, ?_, ?_, ?_⟩
  · funext i
    simp only [initCfg, absS, replay, List.foldl_nil]
    cases s₀ i <;> rfl
  · intro i r b hi
    simp only [initCfg] at hi ⊢
    cases hs : s₀ i with
    | none => simp [hs] at hi
    | some b' => simp [hs] at hi; omega
  · intro t
    refine ⟨?_, PcOK_idle rfl⟩
    intro n r hr
    simp [initCfg] at hr
  · intro k e he
    simp [initCfg] at he

theorem Inv.run {s₀ : SStore M} {c : Config M} (h : Inv s₀ c) (env : Env) (sched : List Nat) :
    Inv s₀ (run true env c sched) := by
  induction sched generalizing c with
  | nil => exact h
  | cons t rest ih => exact ih (h.step env t)

end ScVerif.C02
