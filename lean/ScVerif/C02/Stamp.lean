import ScVerif.C02.Facts
/-!
# C02 — change times (helper lemmas): what `SaveFn` stamps, for every schedule and every clock

`Value.set`'s save is `r.value = message; r.changeTime = request.updateTime(r.clock)`, `Collection.Update`'s
save stores a fresh item with `changeTime = writeRequest.updateTime(c.clock)`.  The stamp is whatever
`WithWriteTime` says, else what the clock shows: it is not a version.
-/
set_option linter.unusedSectionVars false
set_option linter.unusedVariables false
namespace ScVerif.C02

variable {M : Type} [DecidableEq M] [Msg M]

/-- The change times a commit log leaves behind (0 = the instant the constructor read). -/
def stampOf (log : List (Entry M)) : Nat → Nat :=
  log.foldl (fun st e => match e.op with
    | .upd u => setAt st u.id e.time
    | .del _ => st) (fun _ => 0)

theorem stampOf_snoc (log : List (Entry M)) (e : Entry M) :
    stampOf (log ++ [e]) = (match e.op with
      | .upd u => setAt (stampOf log) u.id e.time
      | .del _ => stampOf log) := by
  simp [stampOf, List.foldl_append]

/-- What one step does to the commit log and the stamps. -/
inductive LogStep (env : Env) (c c' : Config M) : Prop
  | same (hl : c'.log = c.log) (hs : c'.stamp = c.stamp)
  | upd (t n : Nat) (u : UpdOp M)
      (hl : c'.log = c.log ++ [⟨t, n, .upd u, u.updateTime env c.tick⟩])
      (hs : c'.stamp = setAt c.stamp u.id (u.updateTime env c.tick))
  | del (t n : Nat) (d : DelOp M) (hl : c'.log = c.log ++ [⟨t, n, .del d, 0⟩]) (hs : c'.stamp = c.stamp)

theorem stepCore_logStep (fixed : Bool) (env : Env) (c : Config M) (t : Nat) :
    LogStep env c (stepCore fixed env c t) := by
  unfold stepCore
  simp only []
  cases (c.threads t).pc with
  | idle =>
    simp only []
    unfold stepIdle
    cases (c.threads t).prog with
    | nil => exact .same rfl rfl
    | cons op rest =>
      cases op with
      | upd u₀ =>
        simp only []
        cases resolveId env c u₀ with
        | mk ou r =>
        cases ou with
        | none => exact .same rfl rfl
        | some u =>
          simp only []
          cases readUpd u (c.store u.id) with
          | error e => exact .same rfl rfl
          | ok p => exact .same rfl rfl
      | del d => exact .same rfl rfl
  | uChange u rd created =>
    simp only []
    unfold stepChange
    split
    · exact .same rfl rfl
    · exact .same rfl rfl
  | uCommit u rd created new =>
    simp only []
    unfold stepCommit
    simp only []
    split
    · exact .same rfl rfl
    · exact .upd _ _ u rfl rfl
  | dTry d seen attempt =>
    simp only []
    unfold stepDel
    simp only []
    cases seen with
    | none => exact .same rfl rfl
    | some p =>
      obtain ⟨r, b⟩ := p
      simp only []
      cases d.pre b with
      | some e => exact .same rfl rfl
      | none =>
        simp only []
        split
        · split
          · exact .same rfl rfl
          · exact .same rfl rfl
        · exact .del _ _ d rfl rfl

structure SInv (env : Env) (c : Config M) : Prop where
  stamp : c.stamp = stampOf c.log
  times : ∀ e, e ∈ c.log → ∀ u, e.op = .upd u → ∃ k, 1 ≤ k ∧ k < c.tick ∧ e.time = u.updateTime env k
  tick : 1 ≤ c.tick

theorem SInv.init (env : Env) (s₀ : SStore M) (progs : Nat → List (Op M)) : SInv env (initCfg s₀ progs) :=
  ⟨rfl, by intro e he; simp [initCfg] at he, Nat.le_refl _⟩

theorem SInv.step {env : Env} {c : Config M} (h : SInv env c) (fixed : Bool) (t : Nat) :
    SInv env (step fixed env c t) := by
  have hs := stepCore_logStep fixed env c t
  have old : ∀ e, e ∈ c.log → ∀ u, e.op = .upd u → ∃ k, 1 ≤ k ∧ k < c.tick + 1 ∧ e.time = u.updateTime env k := by
    intro e he u hu
    obtain ⟨k, h1, h2, h3⟩ := h.times e he u hu
    exact ⟨k, h1, by omega, h3⟩
  have htick := h.tick
  cases hs with
  | same hl hst =>
    refine ⟨?_, ?_, ?_⟩
    · show (stepCore fixed env c t).stamp = stampOf (stepCore fixed env c t).log
      rw [hl, hst]; exact h.stamp
    · show ∀ e, e ∈ (stepCore fixed env c t).log → _
      rw [hl]; exact old
    · show 1 ≤ c.tick + 1
      omega
  | upd t' n u hl hst =>
    refine ⟨?_, ?_, ?_⟩
    · show (stepCore fixed env c t).stamp = stampOf (stepCore fixed env c t).log
      rw [hl, hst, stampOf_snoc, h.stamp]
    · show ∀ e, e ∈ (stepCore fixed env c t).log → _
      rw [hl]
      intro e he u' hu'
      rcases List.mem_append.mp he with he | he
      · exact old e he u' hu'
      · simp only [List.mem_singleton] at he
        subst he
        simp only [Op.upd.injEq] at hu'
        subst hu'
        exact ⟨c.tick, htick, (by show c.tick < c.tick + 1; omega), rfl⟩
    · show 1 ≤ c.tick + 1
      omega
  | del t' n d hl hst =>
    refine ⟨?_, ?_, ?_⟩
    · show (stepCore fixed env c t).stamp = stampOf (stepCore fixed env c t).log
      rw [hl, hst, stampOf_snoc, h.stamp]
    · show ∀ e, e ∈ (stepCore fixed env c t).log → _
      rw [hl]
      intro e he u' hu'
      rcases List.mem_append.mp he with he | he
      · exact old e he u' hu'
      · simp only [List.mem_singleton] at he
        subst he
        cases hu'
    · show 1 ≤ c.tick + 1
      omega

theorem SInv.run {env : Env} {c : Config M} (h : SInv env c) (fixed : Bool) (sched : List Nat) :
    SInv env (run fixed env c sched) := by
  induction sched generalizing c with
  | nil => exact h
  | cons t rest ih => exact ih (h.step fixed t)

end ScVerif.C02
