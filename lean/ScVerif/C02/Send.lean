import ScVerif.C02.Gen
/-!
# C02 — what happens outside the commit: the change function, and the publication after the commit

Two windows of the write path that the core model (`Model.lean`) does not spell out as steps of their own:

* **between the optimistic read and the commit** nothing may happen to the stored message: `StoreStep` says what
  one step of the core model does to the contents (nothing, unless it is the commit of a call that reports
  success);
* **between the commit and the return** `Value.set` publishes the change (`bus.Send` with a budget of five
  seconds; value.go): when the budget runs out (a subscriber with backpressure that does not receive) the call
  reports an error although its commit happened.  `Collection.Update` publishes without a budget and cannot fail.
  The *publication layer* `prun` puts that phase on top of the core model: after a committed `Value.Set` the
  thread has a pending publication; its next step is the publication, which times out or not (decided by the
  schedule: an arbitrary fault oracle).  A publication step does not touch the core configuration.  `rollback`
  is NOT the code: it is the variant in which a timed-out publication writes the value the call had read back
  into the store (without re-validation), kept as a witness of what that would break.
-/
set_option linter.unusedSectionVars false
set_option linter.unusedVariables false
namespace ScVerif.C02

variable {M : Type} [DecidableEq M] [Msg M]

/-! ### What one core step does to the contents -/

inductive StoreStep (c c' : Config M) (t : Nat) : Prop
  /-- the optimistic read, the change function, a failed re-validation, a refused or retried Delete -/
  | same (hs : c'.store = c.store) (hl : c'.log = c.log)
  /-- the save under the write lock: the call returns at this very step, with success -/
  | commit (r : Rec M) (e : Entry M) (v : M) (hl : c'.log = c.log ++ [e])
      (hd : (c'.threads t).done = (c.threads t).done ++ [r]) (hk : r.kind = .committed)
      (hres : r.res = .ok (some v))

theorem stepCore_storeStep (fixed : Bool) (env : Env) (c : Config M) (t : Nat) :
    StoreStep c (stepCore fixed env c t) t := by
  unfold stepCore
  simp only []
  cases (c.threads t).pc with
  | idle =>
    simp only []
    unfold stepIdle
    cases (c.threads t).prog with
    | nil => exact .same rfl rfl
    | cons op rest =>
      cases op with
      | upd u₀ =>
        simp only []
        cases resolveId env c u₀ with
        | mk ou r =>
        cases ou with
        | none => exact .same rfl rfl
        | some u =>
          simp only []
          cases readUpd u (c.store u.id) with
          | error e => exact .same rfl rfl
          | ok p => exact .same rfl rfl
      | del d => exact .same rfl rfl
  | uChange u rd created =>
    simp only []
    unfold stepChange
    split
    · exact .same rfl rfl
    · exact .same rfl rfl
  | uCommit u rd created new =>
    simp only []
    unfold stepCommit
    simp only []
    split
    · exact .same rfl rfl
    · exact .commit ⟨.upd u, .ok (some new), .committed, (c.threads t).invAt, c.log.length, c.log.length + 1⟩
        _ new rfl (by simp [Thread.finish, setAt]) rfl rfl
  | dTry d seen attempt =>
    simp only []
    unfold stepDel
    simp only []
    cases seen with
    | none => exact .same rfl rfl
    | some p =>
      obtain ⟨r, b⟩ := p
      simp only []
      cases d.pre b with
      | some e => exact .same rfl rfl
      | none =>
        simp only []
        split
        · split
          · exact .same rfl rfl
          · exact .same rfl rfl
        · exact .commit ⟨.del d, .ok (some b), .committed, (c.threads t).invAt, c.log.length, c.log.length + 1⟩
            _ b rfl (by simp [Thread.finish, setAt]) rfl rfl

theorem step_storeStep (fixed : Bool) (env : Env) (c : Config M) (t : Nat) :
    StoreStep c (step fixed env c t) t := by
  have h := stepCore_storeStep fixed env c t
  unfold ScVerif.C02.step
  cases h with
  | same hs hl => exact .same hs hl
  | commit r e v hl hd hk hres => exact .commit r e v hl hd hk hres

/-- what the commit step of a `Value.Set` / `Update` does, precisely -/
theorem step_of_uCommit (fixed : Bool) (env : Env) (c : Config M) (t : Nat) {u : UpdOp M} {rd : Option M}
    {created : Bool} {new : M} (hpc : (c.threads t).pc = .uCommit u rd created new) :
    ((step fixed env c t).log = c.log) ∨
    (∃ e r, (step fixed env c t).log = c.log ++ [e] ∧
      ((step fixed env c t).threads t).done = (c.threads t).done ++ [r] ∧ r.kind = .committed ∧
      r.res = .ok (some new) ∧ r.op = .upd u) := by
  unfold ScVerif.C02.step stepCore
  simp only [hpc]
  unfold stepCommit
  simp only []
  split
  · exact Or.inl rfl
  · exact Or.inr ⟨_, ⟨.upd u, .ok (some new), .committed, (c.threads t).invAt, c.log.length, c.log.length + 1⟩,
      rfl, by simp [Thread.finish, setAt], rfl, rfl, rfl⟩

theorem step_doneStep (fixed : Bool) (env : Env) (c : Config M) (t : Nat) :
    (∀ (t' n : Nat) (r : Rec M), (c.threads t').done[n]? = some r →
      ((step fixed env c t).threads t').done[n]? = some r) ∧
    (∀ t', t' ≠ t → ((step fixed env c t).threads t').done = (c.threads t').done) := by
  have hs := stepCore_doneStep fixed env c t
  have hthr : (step fixed env c t).threads = (stepCore fixed env c t).threads := rfl
  rw [hthr]
  refine ⟨fun t' n r h => done_persist hs h, ?_⟩
  intro t' ht
  cases hs with
  | none hl hd hr => exact hd t'
  | fin r hl hk hd ho hr => exact ho t' ht
  | commit r e hl hk hd ho hr => exact ho t' ht

/-! ### The publication layer -/

/-- a committed `Value.Set` that still has to publish: the id, the value it had read, the value it stored -/
structure Pending (M : Type) where
  id : Nat
  old : Option M
  new : M

structure PConfig (M : Type) where
  core : Config M
  /-- per thread: the publication its current call still has to make -/
  pending : Nat → Option (Pending M)
  /-- per thread: the publications made so far: (index of the call among the thread's finished calls, timed out) -/
  sent : Nat → List (Nat × Bool)

/-- the publication thread `t` owes after the core step `c → c'`: only `Value.set` has a send budget -/
def commitOf (c c' : Config M) (t : Nat) : Option (Pending M) :=
  match (c.threads t).pc with
  | .uCommit u rd _ new =>
    if u.isValue = true ∧ c'.log.length = c.log.length + 1 then some ⟨u.id, rd, new⟩ else none
  | _ => none

/-- one step of thread `tf.1`; `tf.2`: if this step is a publication, it times out -/
def pstep (rollback fixed : Bool) (env : Env) (pc : PConfig M) (tf : Nat × Bool) : PConfig M :=
  match pc.pending tf.1 with
  | some p =>
    { core :=
        if rollback && tf.2 then
          { pc.core with
            store := setAt pc.core.store p.id (p.old.map (fun b => (pc.core.nextRef, b)))
            nextRef := pc.core.nextRef + 1 }
        else pc.core
      pending := setAt pc.pending tf.1 none
      sent := setAt pc.sent tf.1 (pc.sent tf.1 ++ [((pc.core.threads tf.1).done.length - 1, tf.2)]) }
  | none =>
    { core := step fixed env pc.core tf.1
      pending := setAt pc.pending tf.1 (commitOf pc.core (step fixed env pc.core tf.1) tf.1)
      sent := pc.sent }

def prun (rollback fixed : Bool) (env : Env) (pc : PConfig M) (sched : List (Nat × Bool)) : PConfig M :=
  sched.foldl (pstep rollback fixed env) pc

def pinit (s₀ : SStore M) (progs : Nat → List (Op M)) : PConfig M :=
  ⟨initCfg s₀ progs, fun _ => none, fun _ => []⟩

/-- the schedule of the core model inside a schedule of the publication layer: the publication steps left out -/
def proj (fixed : Bool) (env : Env) : PConfig M → List (Nat × Bool) → List Nat
  | _, [] => []
  | pc, tf :: rest =>
    if (pc.pending tf.1).isSome then proj fixed env (pstep false fixed env pc tf) rest
    else tf.1 :: proj fixed env (pstep false fixed env pc tf) rest

/-- what call `n` of thread `t` has reported: nothing while its publication is pending, the error of the failed
publication (`Unknown`: a plain Go error) when it timed out, the core result otherwise -/
def reported (pc : PConfig M) (t n : Nat) : Option (Res M) :=
  match (pc.core.threads t).done[n]? with
  | none => none
  | some r =>
    if (pc.pending t).isSome ∧ n + 1 = (pc.core.threads t).done.length then none
    else if (n, true) ∈ pc.sent t then some (.error (.other 2))
    else some r.res

theorem proj_cons (fixed : Bool) (env : Env) (pc : PConfig M) (tf : Nat × Bool) (rest : List (Nat × Bool)) :
    proj fixed env pc (tf :: rest) =
      if (pc.pending tf.1).isSome then proj fixed env (pstep false fixed env pc tf) rest
      else tf.1 :: proj fixed env (pstep false fixed env pc tf) rest := by
  simp [proj]

/-- **Refinement.**  The core configuration under the publication layer is the core model's run on the projected
schedule: publications (timed out or not) are invisible to it. -/
theorem prun_core (fixed : Bool) (env : Env) (pc : PConfig M) (sched : List (Nat × Bool)) :
    (prun false fixed env pc sched).core = run fixed env pc.core (proj fixed env pc sched) := by
  induction sched generalizing pc with
  | nil => rfl
  | cons tf rest ih =>
    rw [proj_cons]
    show (prun false fixed env (pstep false fixed env pc tf) rest).core = _
    rw [ih]
    cases hp : pc.pending tf.1 with
    | some p =>
      have hcore : (pstep false fixed env pc tf).core = pc.core := by
        unfold pstep; rw [hp]; simp
      simp only [Option.isSome_some, if_true]
      rw [hcore]
    | none =>
      have hcore : (pstep false fixed env pc tf).core = step fixed env pc.core tf.1 := by
        unfold pstep; rw [hp]
      simp only [Option.isSome_none, Bool.false_eq_true, if_false]
      rw [hcore]
      rfl

/-- invariant of the publication layer: whoever owes or has made a publication has committed -/
structure PInv (pc : PConfig M) : Prop where
  pend : ∀ t p, pc.pending t = some p →
    ∃ r, (pc.core.threads t).done[(pc.core.threads t).done.length - 1]? = some r ∧ r.kind = .committed ∧
      r.res = .ok (some p.new) ∧ ∃ u, r.op = .upd u ∧ u.isValue = true
  sent : ∀ t n f, (n, f) ∈ pc.sent t →
    ∃ r, (pc.core.threads t).done[n]? = some r ∧ r.kind = .committed ∧ ∃ u, r.op = .upd u ∧ u.isValue = true

theorem PInv.init (s₀ : SStore M) (progs : Nat → List (Op M)) : PInv (pinit s₀ progs) :=
  ⟨fun t p h => by simp [pinit] at h, fun t n f h => by simp [pinit] at h⟩

theorem PInv.step {pc : PConfig M} (h : PInv pc) (fixed : Bool) (env : Env) (tf : Nat × Bool) :
    PInv (pstep false fixed env pc tf) := by
  obtain ⟨t, f⟩ := tf
  unfold pstep
  cases hp : pc.pending t with
  | some p =>
    simp only [Bool.false_and, Bool.false_eq_true, if_false]
    constructor
    · intro t' p' hp'
      dsimp only at hp'
      by_cases ht : t' = t
      · subst ht; simp [setAt] at hp'
      · rw [setAt_other _ _ ht] at hp'; exact h.pend t' p' hp'
    · intro t' n f' hm
      dsimp only at hm
      by_cases ht : t' = t
      · subst ht
        rw [setAt_same] at hm
        rcases List.mem_append.mp hm with hm | hm
        · exact h.sent t' n f' hm
        · simp only [List.mem_singleton, Prod.mk.injEq] at hm
          obtain ⟨r, hr, hk, _, hu⟩ := h.pend t' p hp
          exact ⟨r, by rw [hm.1]; exact hr, hk, hu⟩
      · rw [setAt_other _ _ ht] at hm; exact h.sent t' n f' hm
  | none =>
    simp only []
    obtain ⟨hkeep, hother⟩ := step_doneStep fixed env pc.core t
    constructor
    · intro t' p' hp'
      dsimp only at hp'
      by_cases ht : t' = t
      · subst ht
        rw [setAt_same] at hp'
        unfold commitOf at hp'
        split at hp'
        · next u rd cr new hpc =>
          split at hp'
          · next hcond =>
            cases hp'
            rcases step_of_uCommit fixed env pc.core t' hpc with hl | ⟨e, r, hl, hd, hk, hres, hop⟩
            · rw [hl] at hcond; omega
            · refine ⟨r, ?_, hk, hres, u, hop, hcond.1⟩
              rw [hd]; simp
          · cases hp'
        · cases hp'
      · rw [setAt_other _ _ ht] at hp'
        obtain ⟨r, hr, rest⟩ := h.pend t' p' hp'
        refine ⟨r, ?_, rest⟩
        rw [hother t' ht]; exact hr
    · intro t' n f' hm
      obtain ⟨r, hr, rest⟩ := h.sent t' n f' hm
      exact ⟨r, hkeep t' n r hr, rest⟩

/-- a call that still owes its publication occupies the last record of its thread -/
def owes (pc : PConfig M) (t : Nat) : Nat := if (pc.pending t).isSome then 1 else 0

/-- second invariant: publications are made once per call, in program order, and never for the call that still
owes its publication -/
structure QInv (pc : PConfig M) : Prop where
  fresh : ∀ t n f, (n, f) ∈ pc.sent t → n + 1 + owes pc t ≤ (pc.core.threads t).done.length
  incr : ∀ t, ((pc.sent t).map (·.1)).Pairwise (· < ·)

theorem QInv.init (s₀ : SStore M) (progs : Nat → List (Op M)) : QInv (pinit s₀ progs) :=
  ⟨fun t n f h => by simp [pinit] at h, fun t => by simp [pinit]⟩

theorem QInv.step {pc : PConfig M} (hq : QInv pc) (h : PInv pc) (fixed : Bool) (env : Env) (tf : Nat × Bool) :
    QInv (pstep false fixed env pc tf) := by
  obtain ⟨t, f⟩ := tf
  unfold pstep
  cases hp : pc.pending t with
  | some p =>
    simp only [Bool.false_and, Bool.false_eq_true, if_false]
    obtain ⟨r, hr, _⟩ := h.pend t p hp
    have hlen : 1 ≤ (pc.core.threads t).done.length := by
      have := (List.getElem?_eq_some_iff.mp hr).1; omega
    have hold : ∀ n f', (n, f') ∈ pc.sent t → n + 2 ≤ (pc.core.threads t).done.length := by
      intro n f' hm
      have := hq.fresh t n f' hm
      simp only [owes, hp, Option.isSome_some, if_true] at this
      omega
    constructor
    · intro t' n f' hm
      dsimp only at hm
      by_cases ht : t' = t
      · subst ht
        rw [setAt_same] at hm
        simp only [owes, setAt_same, Option.isSome_none, Bool.false_eq_true, if_false]
        rcases List.mem_append.mp hm with hm | hm
        · have := hold n f' hm; omega
        · simp only [List.mem_singleton, Prod.mk.injEq] at hm
          omega
      · rw [setAt_other _ _ ht] at hm
        have := hq.fresh t' n f' hm
        simp only [owes, setAt_other _ _ ht] at this ⊢
        exact this
    · intro t'
      dsimp only
      by_cases ht : t' = t
      · subst ht
        rw [setAt_same, List.map_append, List.pairwise_append]
        refine ⟨hq.incr t', by simp, ?_⟩
        intro a ha b hb
        simp only [List.map_cons, List.map_nil, List.mem_singleton] at hb
        obtain ⟨⟨n, f'⟩, hm, rfl⟩ := List.mem_map.mp ha
        have := hold n f' hm
        subst hb
        dsimp only
        omega
      · rw [setAt_other _ _ ht]; exact hq.incr t'
  | none =>
    simp only []
    obtain ⟨hkeep, hother⟩ := step_doneStep fixed env pc.core t
    constructor
    · intro t' n f' hm
      dsimp only at hm
      by_cases ht : t' = t
      · subst ht
        obtain ⟨r, hr, _⟩ := h.sent t' n f' hm
        have hlt := (List.getElem?_eq_some_iff.mp (hkeep t' n r hr)).1
        have hold := hq.fresh t' n f' hm
        simp only [owes, hp, Option.isSome_none, Bool.false_eq_true, if_false] at hold
        simp only [owes, setAt_same]
        by_cases hc : (commitOf pc.core (ScVerif.C02.step fixed env pc.core t') t').isSome = true
        · rw [if_pos hc]
          -- the step was a successful commit: one more record
          unfold commitOf at hc
          split at hc
          · next u rd cr new hpc =>
            split at hc
            · next hcond =>
              rcases step_of_uCommit fixed env pc.core t' hpc with hl | ⟨e, r', hl, hd, _⟩
              · rw [hl] at hcond; omega
              · rw [hd]; simp; omega
            · simp at hc
          · simp at hc
        · rw [if_neg hc]
          omega
      · have := hq.fresh t' n f' hm
        simp only [owes, setAt_other _ _ ht] at this ⊢
        rw [hother t' ht]
        exact this
    · intro t'; exact hq.incr t'

theorem PQInv.run {pc : PConfig M} (h : PInv pc) (hq : QInv pc) (fixed : Bool) (env : Env)
    (sched : List (Nat × Bool)) :
    PInv (prun false fixed env pc sched) ∧ QInv (prun false fixed env pc sched) := by
  induction sched generalizing pc with
  | nil => exact ⟨h, hq⟩
  | cons tf rest ih => exact ih (h.step fixed env tf) (hq.step h fixed env tf)

theorem PInv.run {pc : PConfig M} (h : PInv pc) (fixed : Bool) (env : Env) (sched : List (Nat × Bool)) :
    PInv (prun false fixed env pc sched) := by
  induction sched generalizing pc with
  | nil => exact h
  | cons tf rest ih => exact ih (h.step fixed env tf)

end ScVerif.C02
