import ScVerif.Base.Line
import ScVerif.C02.Time
import ScVerif.C02.Send
import ScVerif.C02.Answer
/-!
Driver handler for C02.  Messages are pairs of integers `a.b` (`durationpb.Duration{seconds, nanos}` on the
Go side, the empty message is `0.0`), so that update masks can select one field and leave the other.

Request:  `run <fixed:0|1> <clock> <cands> <init> <progs> <sched>`
* clock  `t` (instant = number of the step, the constructor read 0) | `f` (frozen at 0) | `c` (coarse: step / 3)
* cands  `-` or comma separated numbers: the `n`-th `rng.Read` yields candidate `100 + 10 * cands[n % len] + i`
         on try `i` (an empty script: `cands[n] = n`)
* init   `-` or `id:a.b,id:a.b`
* progs  threads separated by `|`, operations by `;` (an empty thread is `-`); an operation is
         `u/<id|g>/<V|C>/<expectAbsent>/<createIfAbsent>/<expect>/<check>/<f>/<mask>/<writeTime>` or
         `d/<id>/<allowMissing>/<expect>/<check>`
         id `g` = empty id + WithGenIDIfAbsent; expect `-` or `a.b`; check `n` | `eq<k>` | `ne<k>` on field a
         (fails with OutOfRange) | `ve<k>` (a = k, or FailedPrecondition) | `ak<k>` (a = k, or VersionMismatch;
         then b ∉ {2, 3}, or FailedPrecondition: the check of AcknowledgePublication); f `s<a>.<b>` (write a.b) | `a<k>` | `b<k>` (interceptor: field += k) |
         `x<k>` (the interceptor of `vendingpb.Model.DispenseInstantly`: a += k, b := max 0 (b - k));
         mask `-` (none) | `a` | `b` | `ab`, followed by `+` when an InterceptAfter sets field b of the result
         to the old b + 1; writeTime `-` or a number
* sched  `-` or comma separated thread ids; one entry = one atomic step of that thread

Answer: `T0=[r,r,...]|T1=[...]|store=id:a.b@t,...|log=<n>|pc=<per thread i/c/m/d>|rng=<n>|rt=<t.n:i-r,...>|lin=<t.n,t.n,...>`
with `rt` the steps (clock instants) at which each finished call was invoked and responded (`Times.invT/respT` of
`trun`, the real time of the theorem `C02_linearization_respects_step_order`) and
`lin` the linearization sequence of the theorem `C02_linearizable` (call `n` of thread `t`; refused calls of one
index in the order they finished),
r = `ok:<a.b>` | `ok:<a.b>#<generated id>` | `ok:nil` | `err:<Code>`, `@t` the stored change time.

Request:  `send <rollback:0|1> <clock> <init> <progs> <psched>`: the publication layer (`Send.lean`, `prun` on the
fixed code with the empty candidate script); `psched` entries are thread ids, followed by `!` when the step, if it is
a publication, times out.  Answer: `T0=[r,...]|T1=[...]|store=id:a.b,...` with r as above, `err:Unknown` for a call
whose publication timed out and `pending` for a call whose publication is still to be made.

Request:  `answer <own|fresh> <clock> <init> <progs> <psched>`: the answer layer on top of it (`Answer.lean`, `arun`):
what the write HANDLER around each call answered (`own`: with what the call handed back — the code; `fresh`: with a
fresh read made when the call has returned — not the code).  Same answer format, r = the handler's answer.
-/
namespace ScVerif.C02
open ScVerif.Line

structure P where
  a : Int
  b : Int
  deriving DecidableEq, Repr

instance instMsgP : Msg P := ⟨⟨0, 0⟩⟩

def showP (p : P) : String := s!"{p.a}.{p.b}"

def parseP? (s : String) : Option P :=
  match s.splitOn "." with
  | [a, b] => do
    let a ← parseInt? a
    let b ← parseInt? b
    pure ⟨a, b⟩
  | _ => none

def showErr : Err → String
  | .aborted => "Aborted"
  | .alreadyExists => "AlreadyExists"
  | .failedPrecondition => "FailedPrecondition"
  | .notFound => "NotFound"
  | .unavailable => "Unavailable"
  | .other 11 => "OutOfRange"
  | .other 10 => "VersionMismatch"
  | .other 2 => "Unknown"
  | .other n => s!"Other{n}"

def showRes (op : Op P) (res : Res P) : String :=
  match res with
  | .ok (some v) => if opGen op then s!"ok:{showP v}#{opId op}" else s!"ok:{showP v}"
  | .ok none => "ok:nil"
  | .error e => s!"err:{showErr e}"

def parseOptP? (s : String) : Option (Option P) :=
  if s = "-" then some none else (parseP? s).map some

def parseOptNat? (s : String) : Option (Option Nat) :=
  if s = "-" then some none else (parseNat? s).map some

def parseCheck? (s : String) : Option (Option P → Option Err) :=
  if s = "n" then some (fun _ => none)
  else if s.startsWith "eq" then
    (parseInt? (s.drop 2).toString).map (fun k => fun old => if old.map (·.a) = some k then none else some (.other 11))
  else if s.startsWith "ne" then
    (parseInt? (s.drop 2).toString).map (fun k => fun old => if old.map (·.a) = some k then some (.other 11) else none)
  -- the version checks of `publicationpb.ModelServer` (the version is a function of field a, the body):
  -- UpdatePublication / DeletePublication refuse another version with FailedPrecondition …
  else if s.startsWith "ve" then
    (parseInt? (s.drop 2).toString).map (fun k => fun old =>
      if old.map (·.a) = some k then none else some .failedPrecondition)
  -- … AcknowledgePublication refuses another version (its own code for that, printed `VersionMismatch`) and a
  -- version whose receipt (field b) is already ACCEPTED (2) or REJECTED (3)
  else if s.startsWith "ak" then
    (parseInt? (s.drop 2).toString).map (fun k => fun old =>
      if old.map (·.a) ≠ some k then some (.other 10)
      else if old.map (·.b) = some 2 ∨ old.map (·.b) = some 3 then some .failedPrecondition else none)
  else none

/-- the message handed to `Set`/`Update` after `interceptBefore` ran, as a function of the old value -/
def parseWritten? (s : String) : Option (P → P) :=
  if s.startsWith "s" then (parseP? (s.drop 1).toString).map (fun v => fun _ => v)
  else if s.startsWith "a" then (parseInt? (s.drop 1).toString).map (fun k => fun o => ⟨o.a + k, o.b⟩)
  else if s.startsWith "b" then (parseInt? (s.drop 1).toString).map (fun k => fun o => ⟨o.a, o.b + k⟩)
  -- `vendingpb.updateStock`: a dispense of `k` (used grows by `k`, remaining shrinks by `k` but not below zero)
  else if s.startsWith "x" then
    (parseInt? (s.drop 1).toString).map (fun k => fun o => ⟨o.a + k, if o.b - k < 0 then 0 else o.b - k⟩)
  else none

/-- `FieldUpdater.Merge` under the update mask: masked fields come from the written message, the others stay -/
def parseMask1? (s : String) : Option (P → P → P) :=
  if s = "-" || s = "ab" then some (fun _ v => v)
  else if s = "a" then some (fun o v => ⟨v.a, o.b⟩)
  else if s = "b" then some (fun o v => ⟨o.a, v.b⟩)
  else none

/-- …followed by `interceptAfter(old, dst)` -/
def parseMask? (s : String) : Option (P → P → P) :=
  if s.endsWith "+" then
    (parseMask1? (s.dropEnd 1).toString).map (fun m => fun o v => ⟨(m o v).a, o.b + 1⟩)
  else parseMask1? s

def parseOp? (s : String) : Option (Op P) :=
  match s.splitOn "/" with
  | ["u", id, vc, ea, cia, ex, ck, f, mask, wt] => do
    let (id, gen) ← (if id = "g" then some (0, true) else (parseNat? id).map (·, false))
    let isV ← (if vc = "V" then some true else if vc = "C" then some false else none)
    let ea ← parseBool? ea
    let cia ← parseBool? cia
    let ex ← parseOptP? ex
    let ck ← parseCheck? ck
    let w ← parseWritten? f
    let m ← parseMask? mask
    let wt ← parseOptNat? wt
    pure (.upd { id := id, isValue := isV, expectAbsent := ea, createIfAbsent := cia, expect := ex, check := ck,
                 f := fun old => let o := old.getD ⟨0, 0⟩; m o (w o), writeTime := wt, genId := gen })
  | ["d", id, am, ex, ck] => do
    let id ← parseNat? id
    let am ← parseBool? am
    let ex ← parseOptP? ex
    let ck ← parseCheck? ck
    pure (.del ⟨id, am, ex, fun b => ck (some b)⟩)
  | _ => none

def parseProg? (s : String) : Option (List (Op P)) :=
  if s = "-" || s = "" then some [] else (s.splitOn ";").mapM parseOp?

def parseInit? (s : String) : Option (List (Nat × P)) :=
  if s = "-" || s = "" then some []
  else (s.splitOn ",").mapM (fun kv =>
    match kv.splitOn ":" with
    | [k, v] => do
      let k ← parseNat? k
      let v ← parseP? v
      pure (k, v)
    | _ => none)

def parseNats? (s : String) : Option (List Nat) :=
  if s = "-" || s = "" then some [] else (s.splitOn ",").mapM parseNat?

def parseClock? (s : String) : Option (Nat → Nat) :=
  if s = "t" then some (fun k => k)
  else if s = "f" then some (fun _ => 0)
  else if s = "c" then some (fun k => k / 3)
  else none

def candOf (script : List Nat) (n i : Nat) : Nat :=
  100 + 10 * (if script.isEmpty then n else script.getD (n % script.length) 0) + i

def showPc : Pc P → String
  | .idle => "i"
  | .uChange .. => "c"
  | .uCommit .. => "m"
  | .dTry .. => "d"

/-- ids the harness uses: 0..9 given, 100.. generated -/
def showStore (c : Config P) : String :=
  ",".intercalate ((List.range 400).filterMap (fun i =>
    (absS c.store i).map (fun v => s!"{i}:{showP v}@{c.stamp i}")))

def parsePSched? (s : String) : Option (List (Nat × Bool)) :=
  if s = "-" || s = "" then some []
  else (s.splitOn ",").mapM (fun e =>
    if e.endsWith "!" then (parseNat? (e.dropEnd 1).toString).map (·, true) else (parseNat? e).map (·, false))

def showStorePlain (c : Config P) : String :=
  ",".intercalate ((List.range 400).filterMap (fun i => (absS c.store i).map (fun v => s!"{i}:{showP v}")))

def handleSend (rollback : Bool) (clock : Nat → Nat) (init : List (Nat × P)) (progs : List (List (Op P)))
    (psched : List (Nat × Bool)) : String :=
  let s₀ : SStore P := fun i => (init.find? (fun kv => kv.1 == i)).map (·.2)
  let env : Env := ⟨clock, candOf []⟩
  let pc := prun rollback true env (pinit s₀ (fun t => progs.getD t [])) psched
  let ths := (List.range progs.length).map (fun t =>
    s!"T{t}=[" ++ ",".intercalate ((List.range (pc.core.threads t).done.length).map (fun n =>
      match reported pc t n, (pc.core.threads t).done[n]? with
      | some res, some r => showRes r.op res
      | _, _ => "pending")) ++ "]")
  "|".intercalate ths ++ s!"|store={showStorePlain pc.core}"

def handleAnswer (how : AnswerBy) (clock : Nat → Nat) (init : List (Nat × P)) (progs : List (List (Op P)))
    (psched : List (Nat × Bool)) : String :=
  let s₀ : SStore P := fun i => (init.find? (fun kv => kv.1 == i)).map (·.2)
  let env : Env := ⟨clock, candOf []⟩
  let a := arun how true env (ainit s₀ (fun t => progs.getD t [])) psched
  let ths := (List.range progs.length).map (fun t =>
    s!"T{t}=[" ++ ",".intercalate ((List.range (a.p.core.threads t).done.length).map (fun n =>
      match (a.answers t)[n]?, (a.p.core.threads t).done[n]? with
      | some res, some r => showRes r.op res
      | _, _ => "pending")) ++ "]")
  "|".intercalate ths ++ s!"|store={showStorePlain a.p.core}"

def parseHow? (s : String) : Option AnswerBy :=
  if s = "own" then some .own else if s = "fresh" then some .fresh else none

def handle (toks : List String) : String :=
  match toks with
  | ["answer", how, clock, init, progs, psched] =>
    match parseHow? how, parseClock? clock, parseInit? init, (progs.splitOn "|").mapM parseProg?,
        parsePSched? psched with
    | some how, some clock, some init, some progs, some psched => handleAnswer how clock init progs psched
    | _, _, _, _, _ => "!bad-op"
  | ["send", rollback, clock, init, progs, psched] =>
    match parseBool? rollback, parseClock? clock, parseInit? init, (progs.splitOn "|").mapM parseProg?,
        parsePSched? psched with
    | some rollback, some clock, some init, some progs, some psched => handleSend rollback clock init progs psched
    | _, _, _, _, _ => "!bad-op"
  | ["run", fixed, clock, cands, init, progs, sched] =>
    match parseBool? fixed, parseClock? clock, parseNats? cands, parseInit? init,
        (progs.splitOn "|").mapM parseProg?, parseNats? sched with
    | some fixed, some clock, some cands, some init, some progs, some sched =>
      let s₀ : SStore P := fun i => (init.find? (fun kv => kv.1 == i)).map (·.2)
      let env : Env := ⟨clock, candOf cands⟩
      let cg := trun fixed env (initCfg s₀ (fun t => progs.getD t [])) {} sched
      let c := cg.1
      let g := cg.2
      let ths := (List.range progs.length).map (fun t =>
        s!"T{t}=[" ++ ",".intercalate ((c.threads t).done.map (fun r => showRes r.op r.res)) ++ "]")
      "|".intercalate ths ++ s!"|store={showStore c}|log={c.log.length}|pc=" ++
        "".intercalate ((List.range progs.length).map (fun t => showPc (c.threads t).pc)) ++ s!"|rng={c.rng}|rt=" ++
        ",".intercalate (((List.range progs.length).map (fun t =>
          (List.range (c.threads t).done.length).map (fun n => s!"{t}.{n}:{g.invT t n}-{g.respT t n}"))).flatten) ++ "|lin=" ++
        ",".intercalate ((linSeq s₀ c.log c.refusedAt).map (fun ev => s!"{ev.tid}.{ev.idx}"))
    | _, _, _, _, _, _ => "!bad-op"
  | _ => "!bad-op"

end ScVerif.C02
