import ScVerif.Base.Line
/-! Driver handler for C02 (stub: replaced by the property's owner). -/
namespace ScVerif.C02

def handle (_toks : List String) : String := "!bad-op"

end ScVerif.C02
