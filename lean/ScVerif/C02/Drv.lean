import ScVerif.Base.Line
import ScVerif.C02.Facts
/-!
Driver handler for C02.  Messages are integers (`wrapperspb.Int64Value` on the Go side, empty = 0).

Request:  `run <fixed:0|1> <init> <progs> <sched>`
* init   `-` or `id:val,id:val`
* progs  threads separated by `|`, operations by `;` (an empty thread is `-`); an operation is
         `u/<id>/<V|C>/<expectAbsent>/<createIfAbsent>/<expect>/<check>/<f>` or `d/<id>/<allowMissing>/<expect>/<check>`
         expect `-` or an integer; check `n` | `eq<k>` | `ne<k>` (fails with OutOfRange); f `s<k>` (set) | `a<k>` (add)
* sched  `-` or comma separated thread ids; one entry = one atomic step of that thread

Answer: `T0=[r,r,...]|T1=[...]|store=id:val,...|log=<n>|pc=<per thread i/c/m/d>` with r = `ok:<v>` | `ok:nil` | `err:<Code>`.
-/
namespace ScVerif.C02
open ScVerif.Line

def showErr : Err → String
  | .aborted => "Aborted"
  | .alreadyExists => "AlreadyExists"
  | .failedPrecondition => "FailedPrecondition"
  | .notFound => "NotFound"
  | .unavailable => "Unavailable"
  | .other 11 => "OutOfRange"
  | .other n => s!"Other{n}"

def showRes : Res Int → String
  | .ok (some v) => s!"ok:{v}"
  | .ok none => "ok:nil"
  | .error e => s!"err:{showErr e}"

def parseOptInt? (s : String) : Option (Option Int) :=
  if s = "-" then some none else (parseInt? s).map some

def parseCheck? (s : String) : Option (Option Int → Option Err) :=
  if s = "n" then some (fun _ => none)
  else if s.startsWith "eq" then
    (parseInt? (s.drop 2).toString).map (fun k => fun old => if old = some k then none else some (.other 11))
  else if s.startsWith "ne" then
    (parseInt? (s.drop 2).toString).map (fun k => fun old => if old = some k then some (.other 11) else none)
  else none

def parseF? (s : String) : Option (Option Int → Int) :=
  if s.startsWith "s" then (parseInt? (s.drop 1).toString).map (fun k => fun _ => k)
  else if s.startsWith "a" then (parseInt? (s.drop 1).toString).map (fun k => fun old => old.getD 0 + k)
  else none

def parseOp? (s : String) : Option (Op Int) :=
  match s.splitOn "/" with
  | ["u", id, vc, ea, cia, ex, ck, f] => do
    let id ← parseNat? id
    let isV ← (if vc = "V" then some true else if vc = "C" then some false else none)
    let ea ← parseBool? ea
    let cia ← parseBool? cia
    let ex ← parseOptInt? ex
    let ck ← parseCheck? ck
    let f ← parseF? f
    pure (.upd ⟨id, isV, ea, cia, ex, ck, f⟩)
  | ["d", id, am, ex, ck] => do
    let id ← parseNat? id
    let am ← parseBool? am
    let ex ← parseOptInt? ex
    let ck ← parseCheck? ck
    pure (.del ⟨id, am, ex, fun b => ck (some b)⟩)
  | _ => none

def parseProg? (s : String) : Option (List (Op Int)) :=
  if s = "-" || s = "" then some [] else (s.splitOn ";").mapM parseOp?

def parseInit? (s : String) : Option (List (Nat × Int)) :=
  if s = "-" || s = "" then some []
  else (s.splitOn ",").mapM (fun kv =>
    match kv.splitOn ":" with
    | [k, v] => do
      let k ← parseNat? k
      let v ← parseInt? v
      pure (k, v)
    | _ => none)

def parseSched? (s : String) : Option (List Nat) :=
  if s = "-" || s = "" then some [] else (s.splitOn ",").mapM parseNat?

def showPc : Pc Int → String
  | .idle => "i"
  | .uChange .. => "c"
  | .uCommit .. => "m"
  | .dTry .. => "d"

/-- ids the harness uses: 0..9 -/
def showStore (s : SStore Int) : String :=
  ",".intercalate ((List.range 10).filterMap (fun i => (s i).map (fun v => s!"{i}:{v}")))

def handle (toks : List String) : String :=
  match toks with
  | ["run", fixed, init, progs, sched] =>
    match parseBool? fixed, parseInit? init, (progs.splitOn "|").mapM parseProg?, parseSched? sched with
    | some fixed, some init, some progs, some sched =>
      let s₀ : SStore Int := fun i => (init.find? (fun kv => kv.1 == i)).map (·.2)
      let c := run fixed (initCfg s₀ (fun t => progs.getD t [])) sched
      let ths := (List.range progs.length).map (fun t =>
        s!"T{t}=[" ++ ",".intercalate ((c.threads t).done.map (fun r => showRes r.res)) ++ "]")
      "|".intercalate ths ++ s!"|store={showStore (absS c.store)}|log={c.log.length}|pc=" ++
        "".intercalate ((List.range progs.length).map (fun t => showPc (c.threads t).pc))
    | _, _, _, _ => "!bad-op"
  | _ => "!bad-op"

end ScVerif.C02
