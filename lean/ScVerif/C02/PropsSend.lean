import ScVerif.C02.Send
import ScVerif.C02.Props
/-!
# C02 — property theorems about the windows outside the commit

* the optimistic phase: only the commit of a call that reports success changes what a resource holds (the read,
  the change function — preconditions, interceptors, the masked merge —, a failed re-validation and a refused or
  retried Delete leave the stored message as it is);
* the publication phase of `Value.set` (`Send.lean`): a publication that times out — the call then reports an
  error AFTER its commit — does nothing to the contents, so every theorem of `Props.lean` holds for the core
  configuration under ANY schedule of publications and ANY pattern of time-outs; the witness shows what a
  compensating write-back of the value read would lose.

As in `Props.lean` everything is for arbitrary initial contents, programs, check / interceptor functions,
environments (clock, id generator) and schedules; here schedules carry a fault bit per step (does the publication
made at this step, if it is one, time out).
-/
namespace ScVerif.C02

variable {M : Type} [DecidableEq M] [Msg M]

/-- **Only a successful commit changes the contents.**  Whatever thread is released in whatever reachable
configuration: either the step leaves the store and the commit log exactly as they were, or it is the last step
of a call of that thread which reports success with a value and owns the one log entry the step appended.  In
particular nothing a call does between its optimistic read and its commit (the change function runs there) and
nothing a call that ends up refused or aborted does is visible in the resource. -/
theorem C02_only_a_successful_commit_changes_the_contents (env : Env) (s₀ : SStore M) (progs : Nat → List (Op M))
    (sched : List Nat) (t : Nat) :
    let c : Config M := run true env (initCfg s₀ progs) sched
    let c' : Config M := step true env c t
    (c'.store = c.store ∧ c'.log = c.log) ∨
    (∃ (r : Rec M) (e : Entry M) (v : M), c'.log = c.log ++ [e] ∧
      (c'.threads t).done = (c.threads t).done ++ [r] ∧ r.kind = .committed ∧ r.res = .ok (some v)) := by
  intro c c'
  cases step_storeStep true env c t with
  | same hs hl => exact Or.inl ⟨hs, hl⟩
  | commit r e v hl hd hk hres => exact Or.inr ⟨r, e, v, hl, hd, hk, hres⟩

/-- **Publications are invisible to the contents.**  Under the publication layer (after a committed `Value.Set`
the thread's next step is its publication, which the schedule lets time out or not) the core configuration —
store, commit log, every record — is the core model's configuration after the schedule with the publication steps
left out. -/
theorem C02_publications_refine_the_core (env : Env) (s₀ : SStore M) (progs : Nat → List (Op M))
    (psched : List (Nat × Bool)) :
    (prun false true env (pinit s₀ progs) psched).core =
      run true env (initCfg s₀ progs) (proj true env (pinit s₀ progs) psched) :=
  prun_core true env (pinit s₀ progs) psched

/-- **Linearizable whatever publications time out.**  `C02_linearizable`, word for word, for the core
configuration under any schedule of the publication layer: the calls that did not lose a race — a call whose
publication timed out counts with the result of its commit — form a sequence that executes on the sequential
specification reproducing every result and the final contents. -/
theorem C02_linearizable_under_failed_publications (env : Env) (s₀ : SStore M) (progs : Nat → List (Op M))
    (psched : List (Nat × Bool)) :
    let c : Config M := (prun false true env (pinit s₀ progs) psched).core
    ∀ (arr : Nat → List (Ev M)), (∀ k, (arr k).Perm (c.refusedAt k)) →
      seqRun s₀ (linSeq s₀ c.log arr) = some (absS c.store) ∧
      (∀ (t n : Nat) (r : Rec M), (c.threads t).done[n]? = some r → r.kind ≠ .raced →
        ∃ ev, ev ∈ linSeq s₀ c.log arr ∧ ev.tid = t ∧ ev.idx = n ∧ ev.op = r.op ∧ ev.res = r.res ∧ ev.lin = r.lin) ∧
      (∀ ev, ev ∈ linSeq s₀ c.log arr →
        ∃ r, (c.threads ev.tid).done[ev.idx]? = some r ∧ r.kind ≠ .raced ∧ r.op = ev.op ∧ r.res = ev.res ∧
          r.lin = ev.lin ∧ (ev.committed = true ↔ r.kind = .committed)) ∧
      (linSeq s₀ c.log arr).Pairwise (fun x y => ¬ (x.tid = y.tid ∧ x.idx = y.idx)) ∧
      (linSeq s₀ c.log arr).Pairwise LinOrd := by
  intro c
  have hc : c = run true env (initCfg s₀ progs) (proj true env (pinit s₀ progs) psched) :=
    prun_core true env (pinit s₀ progs) psched
  rw [hc]
  exact C02_linearizable env s₀ progs _

/-- **The stored value is the last committed write, whatever publications time out**: the contents are the replay
of the commit log on the sequential specification (no write-back, no lost update in the publication phase). -/
theorem C02_contents_survive_failed_publications (env : Env) (s₀ : SStore M) (progs : Nat → List (Op M))
    (psched : List (Nat × Bool)) :
    let c : Config M := (prun false true env (pinit s₀ progs) psched).core
    absS c.store = replay s₀ c.log := by
  intro c
  have hc : c = run true env (initCfg s₀ progs) (proj true env (pinit s₀ progs) psched) :=
    prun_core true env (pinit s₀ progs) psched
  rw [hc]
  exact (C02_commit_order_linearizes env s₀ progs _).1

/-- **A failed publication is reported after the commit.**  Every publication made (timed out or delivered)
belongs to a `Value.Set` call that had committed: the call owns exactly one entry of the commit log — it HAS
taken effect, exactly once, also when it then reports the publication's time-out as an error. -/
theorem C02_failed_publication_is_reported_after_the_commit (env : Env) (s₀ : SStore M)
    (progs : Nat → List (Op M)) (psched : List (Nat × Bool)) :
    let pc : PConfig M := prun false true env (pinit s₀ progs) psched
    ∀ (t n : Nat) (f : Bool), (n, f) ∈ pc.sent t →
      ∃ (r : Rec M) (v : M) (u : UpdOp M), (pc.core.threads t).done[n]? = some r ∧ r.op = .upd u ∧ u.isValue = true ∧
        r.res = .ok (some v) ∧ (∃ tm, pc.core.log[r.lin]? = some ⟨t, n, r.op, tm⟩) ∧
        ∀ (k : Nat) (e : Entry M), pc.core.log[k]? = some e → e.tid = t → e.idx = n → k = r.lin := by
  intro pc t n f hm
  have hinv : PInv pc := (PInv.init s₀ progs).run true env psched
  obtain ⟨r, hr, hk, u, hop, hv⟩ := hinv.sent t n f hm
  have hc : pc.core = run true env (initCfg s₀ progs) (proj true env (pinit s₀ progs) psched) :=
    prun_core true env (pinit s₀ progs) psched
  have hlin := (C02_commit_order_linearizes env s₀ progs (proj true env (pinit s₀ progs) psched)).2 t n r
    (by rw [← hc]; exact hr)
  obtain ⟨_, _, _, hkind⟩ := hlin
  rw [hk] at hkind
  obtain ⟨_, _, _, v, hres⟩ := hkind
  have honce := (C02_exactly_once env s₀ progs (proj true env (pinit s₀ progs) psched)).1 t n r v
    (by rw [← hc]; exact hr) hres
  rw [← hc] at honce
  exact ⟨r, v, u, hr, hop, hv, hres, honce.1, honce.2⟩

/-- **What a call reports under failed publications.**  Whenever a call has reported something, it is the result
of the core model (the one all theorems of `Props.lean` speak about) — with one exception: `Unknown`, and then the
call is a `Value.Set` that committed (its core result is a success with a value).  No other result is changed by
the publication phase, and no call that lost a race or was refused reports a failed publication. -/
theorem C02_reported_results_under_failed_publications (env : Env) (s₀ : SStore M) (progs : Nat → List (Op M))
    (psched : List (Nat × Bool)) :
    let pc : PConfig M := prun false true env (pinit s₀ progs) psched
    ∀ (t n : Nat) (res : Res M), reported pc t n = some res →
      ∃ r : Rec M, (pc.core.threads t).done[n]? = some r ∧
        (res = r.res ∨
          (res = .error (.other 2) ∧ r.kind = .committed ∧ (∃ v, r.res = .ok (some v)) ∧
            ∃ u, r.op = .upd u ∧ u.isValue = true)) := by
  intro pc t n res hrep
  have hinv : PInv pc := (PInv.init s₀ progs).run true env psched
  unfold reported at hrep
  cases hd : (pc.core.threads t).done[n]? with
  | none => rw [hd] at hrep; cases hrep
  | some r =>
    rw [hd] at hrep
    simp only [] at hrep
    refine ⟨r, rfl, ?_⟩
    split at hrep
    · cases hrep
    · split at hrep
      · next hm =>
        cases hrep
        obtain ⟨r', hr', hk, hu⟩ := hinv.sent t n true hm
        rw [hd] at hr'
        cases hr'
        have hc : pc.core = run true env (initCfg s₀ progs) (proj true env (pinit s₀ progs) psched) :=
          prun_core true env (pinit s₀ progs) psched
        have hlin := (C02_commit_order_linearizes env s₀ progs (proj true env (pinit s₀ progs) psched)).2 t n r
          (by rw [← hc]; exact hd)
        obtain ⟨_, _, _, hkind⟩ := hlin
        rw [hk] at hkind
        exact Or.inr ⟨rfl, hk, hkind.2.2.2, hu⟩
      · cases hrep
        exact Or.inl rfl

/-- **One publication per committed `Value.Set`, in program order, and only once the commit is made**: the calls
of a thread whose publications have been made are listed with strictly increasing positions, all of them finished
calls, and the call that still owes its publication (the thread's last record) is not among them. -/
theorem C02_one_publication_per_call (env : Env) (s₀ : SStore M) (progs : Nat → List (Op M))
    (psched : List (Nat × Bool)) (t : Nat) :
    let pc : PConfig M := prun false true env (pinit s₀ progs) psched
    ((pc.sent t).map (·.1)).Pairwise (· < ·) ∧
    (∀ n f, (n, f) ∈ pc.sent t → n < (pc.core.threads t).done.length) ∧
    ((pc.pending t).isSome = true → ∀ f, ((pc.core.threads t).done.length - 1, f) ∉ pc.sent t) := by
  intro pc
  have hq : QInv pc := (PQInv.run (PInv.init s₀ progs) (QInv.init s₀ progs) true env psched).2
  refine ⟨hq.incr t, ?_, ?_⟩
  · intro n f hm
    have := hq.fresh t n f hm
    omega
  · intro hp f hm
    have := hq.fresh t _ f hm
    simp only [owes, hp, if_true] at this
    omega

/-! ### Witness: a write-back on time-out (NOT the code) loses a committed write -/

/-- `Value.Set(2)` on the Value (id 9) -/
def vset (v : Int) : Op Int :=
  .upd { id := 9, isValue := true, expectAbsent := false, createIfAbsent := false, expect := none,
         check := fun _ => none, f := fun _ => v }

/-- `Value.Set` with a delta interceptor -/
def vinc (δ : Int) : Op Int :=
  .upd { id := 9, isValue := true, expectAbsent := false, createIfAbsent := false, expect := none,
         check := fun _ => none, f := fun old => old.getD 0 + δ }

def sendProgs : Nat → List (Op Int) := fun t => if t = 0 then [vset 2] else if t = 1 then [vinc 1] else []

/-- A reads, changes, commits (2); B reads, changes, commits (3); A's publication times out; B's is delivered -/
def sendSched : List (Nat × Bool) :=
  [(0, false), (0, false), (0, false), (1, false), (1, false), (1, false), (0, true), (1, false)]

def sendInit : SStore Int := fun i => if i = 9 then some 1 else none

def sendRun (rollback : Bool) : PConfig Int := prun rollback true env₀ (pinit sendInit sendProgs) sendSched

/-- **With a blind write-back on time-out, a committed and successfully published write is lost**: B reported
success with 3 and owns the last entry of the commit log, A's time-out puts the value A had read (1) back, and
the Value ends up holding 1 — a value no sequential order of the two writes produces last. -/
theorem C02_blind_rollback_loses_a_committed_write :
    ((sendRun true).core.threads 1).done.map (·.res) = [.ok (some 3)] ∧
    (sendRun true).sent 1 = [(0, false)] ∧ (sendRun true).sent 0 = [(0, true)] ∧
    (sendRun true).core.log.map (·.tid) = [0, 1] ∧
    absS (sendRun true).core.store 9 = some 1 ∧
    replay sendInit (sendRun true).core.log 9 = some 3 := by
  decide

/-- the code as it is: the same schedule leaves B's value in place; A reports the failed publication
(`Unknown`) although its write is the first entry of the log, B reports success -/
example :
    absS (sendRun false).core.store 9 = some 3 ∧
    reported (sendRun false) 0 0 = some (.error (.other 2)) ∧
    reported (sendRun false) 1 0 = some (.ok (some 3)) ∧
    (sendRun false).sent 0 = [(0, true)] ∧ (sendRun false).core.log.map (·.tid) = [0, 1] := by
  decide

/-- while a publication is pending the call has not reported anything yet -/
example :
    reported (prun false true env₀ (pinit sendInit sendProgs) (sendSched.take 3)) 0 0 = none ∧
    ((prun false true env₀ (pinit sendInit sendProgs) (sendSched.take 3)).pending 0).isSome = true := by
  decide

/-- the projected schedule of the witness: the two publication steps are left out -/
example : proj true env₀ (pinit sendInit sendProgs) sendSched = [0, 0, 0, 1, 1, 1] := by decide

/-- a change step in a reachable configuration: store and log stay as they are (first disjunct), and a commit step:
the second disjunct -/
example :
    (step true env₀ (run true env₀ (initCfg sendInit sendProgs) [0]) 0).store 9 =
      (run true env₀ (initCfg sendInit sendProgs) [0]).store 9 ∧
    (step true env₀ (run true env₀ (initCfg sendInit sendProgs) [0, 0]) 0).log.length = 1 := by
  decide

end ScVerif.C02
