import ScVerif.C16.MergeLemmas
/-!
# C16 — property theorems, part 3: the equivalence behind the LOSSY path of `Collection.Pull`

"never suppresses a non-equivalent change / never delivers an equivalent one" when the subscriber is slow
and `mergeCollectionExcess` folds the changes of an id into one before the equivalence check.
Only property theorems and their non-vacuity examples live in this file.
-/
namespace ScVerif.C16

/-- The merged change of a window is "what the subscriber last saw → what is stored now".
For EVERY value type, id and sequence of events the collection can publish for that id (`IdChain`: Add /
Update / Delete taking the stored item from `s` to `e`, any length ≥ 1, any number of delete+add cycles)
folded by `mergeChanges` while the consumer is busy:
* the item was absent before and is absent after: nothing is pending (no change is reported at all);
* otherwise exactly one change is pending, its `OldValue` is `s` — the value stored when the window began,
  i.e. the one the subscriber was last sent — and its `NewValue` is `e`, the value stored now; it is an ADD
  iff there was no item, a REMOVE iff there is none now, UPDATE or REPLACE otherwise. -/
theorem C16_merge_window {α : Type} (i : String) (s e : Option α) (evs : List (Chg α))
    (hc : IdChain i s evs e) (hne : evs ≠ []) :
    (s = none → e = none → mergeFold none evs = none) ∧
    (∀ v, s = none → e = some v → mergeFold none evs = some ⟨i, .add, none, some v⟩) ∧
    (∀ u, s = some u → e = none → mergeFold none evs = some ⟨i, .remove, some u, none⟩) ∧
    (∀ u v, s = some u → e = some v →
      mergeFold none evs = some ⟨i, .update, some u, some v⟩ ∨
      mergeFold none evs = some ⟨i, .replace, some u, some v⟩) := by
  have h := mergeFold_window i hc hne
  refine ⟨?_, ?_, ?_, ?_⟩
  · intro hs he; subst hs he; simpa [Pending] using h
  · intro v hs he; subst hs he; simpa [Pending] using h
  · intro u hs he; subst hs he; simpa [Pending] using h
  · intro u v hs he; subst hs he; simpa [Pending] using h

/-- Several ids in one window do not disturb each other: in the queue that `mergeCollectionExcess` holds
after ANY sequence of events (any ids, interleaved in any way), the pending change of id `i` is the
per-id fold of exactly `i`'s events — and no id is queued twice. -/
theorem C16_merger_per_id {α : Type} (i : String) (evs : List (Chg α)) :
    (mergerWindow evs).find? (fun c => c.id == i) = mergeFold none (evs.filter (fun c => c.id == i)) ∧
    ((mergerWindow evs).map (·.id)).Nodup := by
  constructor
  · have := foldl_mergerRecv_find i evs ([] : List (Chg α)) (by simp [NodupIds])
    simpa [mergerWindow] using this
  · have : ∀ (evs : List (Chg α)) (q : List (Chg α)), NodupIds q → NodupIds (evs.foldl mergerRecv q) := by
      intro evs
      induction evs with
      | nil => intro q h; exact h
      | cons b evs ih => intro q h; exact ih _ (mergerRecv_nodup q b h)
    exact this evs [] (by simp [NodupIds])

/-- The decision on a merged window is the decision on ONE write from the window's first old value to its
last new value.  For every equivalence E, read-mask filter, id and non-empty chain of that id's events:
the loop of `Collection.Pull` reports nothing when the item was and is absent; otherwise it sees one change
carrying the filtered `s` and `e` and sends it iff they are NOT E-equivalent — so a run of writes that ends
E-equivalent to where it began is suppressed as a whole, and one that ends elsewhere is never suppressed,
whatever intermediate values (even ones equivalent to the final value) were merged away. -/
theorem C16_lossy_window_decision {α : Type} (E : Option α → Option α → Bool) (flt : α → α) (i : String)
    (s e : Option α) (evs : List (Chg α)) (hc : IdChain i s evs e) (hne : evs ≠ []) :
    (s = none → e = none → (mergeFold none evs).map (lossyStep (some E) flt) = none) ∧
    (¬ (s = none ∧ e = none) → ∃ ct,
      (mergeFold none evs).map (lossyStep (some E) flt) =
        some (⟨i, ct, s.map flt, e.map flt⟩, !E (s.map flt) (e.map flt))) := by
  have h := C16_merge_window i s e evs hc hne
  constructor
  · intro hs he; rw [h.1 hs he]; rfl
  · intro hn
    cases s with
    | none =>
      cases e with
      | none => exact absurd ⟨rfl, rfl⟩ hn
      | some v => exact ⟨.add, by rw [h.2.1 v rfl rfl]; rfl⟩
    | some u =>
      cases e with
      | none => exact ⟨.remove, by rw [h.2.2.1 u rfl rfl]; rfl⟩
      | some v =>
        rcases h.2.2.2 u v rfl rfl with h' | h'
        · exact ⟨.update, by rw [h']; rfl⟩
        · exact ⟨.replace, by rw [h']; rfl⟩

/-- With `WithInclude` on the lossy path: include is applied to the merged change, i.e. to the value stored
when the window began and the value stored when it ended — never to a value that was merged away.  For every
E, filter, include predicate and non-empty chain the subscriber is sent exactly what the loop makes of ONE
change `s → e`: nothing if both are outside the filter (or absent), an ADD / REMOVE if the window crosses the
boundary, else the change, iff its filtered values are not E-equivalent. -/
theorem C16_lossy_window_include {α : Type} (E : Option α → Option α → Bool) (flt : α → α) (inc : α → Bool)
    (i : String) (s e : Option α) (evs : List (Chg α)) (hc : IdChain i s evs e) (hne : evs ≠ []) :
    (s = none → e = none → (mergeFold none evs).bind (lossyStepI (some E) flt (some inc)) = none) ∧
    (¬ (s = none ∧ e = none) → ∃ ct,
      (mergeFold none evs).bind (lossyStepI (some E) flt (some inc)) =
        lossyStepI (some E) flt (some inc) ⟨i, ct, s, e⟩) := by
  have h := C16_merge_window i s e evs hc hne
  constructor
  · intro hs he; rw [h.1 hs he]; rfl
  · intro hn
    cases s with
    | none =>
      cases e with
      | none => exact absurd ⟨rfl, rfl⟩ hn
      | some v => exact ⟨.add, by rw [h.2.1 v rfl rfl]; rfl⟩
    | some u =>
      cases e with
      | none => exact ⟨.remove, by rw [h.2.2.1 u rfl rfl]; rfl⟩
      | some v =>
        rcases h.2.2.2 u v rfl rfl with h' | h'
        · exact ⟨.update, by rw [h']; rfl⟩
        · exact ⟨.replace, by rw [h']; rfl⟩

/-- What the loop makes of one change `s → e` under an include predicate, spelled out (E never equates an
absent value with a present one, as every `cmp.Equal(...)` — `C16_equal_absent_never_equivalent`). -/
theorem C16_lossy_include_cases {α : Type} (E : Option α → Option α → Bool) (flt : α → α) (inc : α → Bool)
    (i : String) (ct : CT) (u v : α) (hnil : ∀ w, E none (some w) = false ∧ E (some w) none = false) :
    (inc u = false → inc v = false → lossyStepI (some E) flt (some inc) ⟨i, ct, some u, some v⟩ = none) ∧
    (inc u = false → inc v = true →
      lossyStepI (some E) flt (some inc) ⟨i, ct, some u, some v⟩ = some (⟨i, .add, none, some (flt v)⟩, true)) ∧
    (inc u = true → inc v = false →
      lossyStepI (some E) flt (some inc) ⟨i, ct, some u, some v⟩ = some (⟨i, .remove, some (flt u), none⟩, true)) ∧
    (inc u = true → inc v = true →
      lossyStepI (some E) flt (some inc) ⟨i, ct, some u, some v⟩ =
        some (⟨i, ct, some (flt u), some (flt v)⟩, !E (some (flt u)) (some (flt v)))) := by
  refine ⟨?_, ?_, ?_, ?_⟩ <;> intro hu hv <;>
    simp [lossyStepI, includeChg, lossyStep, hu, hv, (hnil (flt v)).1, (hnil (flt u)).2]

/-- The subscriber keeps track through lossy windows.  PARTIAL in the same sense as
`C16_no_dup_delivery_collection_partial` (E reflexive and transitive, as `Equal()` / `WithNoDuplicates` is; a
tolerance is not transitive and drifts — the recorded finding): if the subscriber's copy of item `i` is
E-equivalent to the value stored when a window begins, then after the window — whatever was merged away,
whether or not anything was delivered — its copy is E-equivalent to the value stored when the window ends. -/
theorem C16_lossy_window_tracks {α : Type} (E : Option α → Option α → Bool) (flt : α → α)
    (hrefl : ∀ a, E a a = true) (htrans : ∀ a b c, E a b = true → E b c = true → E a c = true)
    (i : String) (s e : Option α) (evs : List (Chg α)) (hc : IdChain i s evs e) (hne : evs ≠ [])
    (held : Option α) (hheld : E held (s.map flt) = true) :
    E (viewAfter E flt held evs) (e.map flt) = true := by
  have h := C16_lossy_window_decision E flt i s e evs hc hne
  unfold viewAfter
  by_cases hn : s = none ∧ e = none
  · rw [h.1 hn.1 hn.2]
    obtain ⟨hs, he⟩ := hn
    subst hs he
    simpa using hheld
  · obtain ⟨ct, hr⟩ := h.2 hn
    rw [hr]
    cases hd : E (s.map flt) (e.map flt) with
    | true => simp only [Bool.not_true]; exact htrans _ _ _ hheld hd
    | false => simp only [Bool.not_false]; exact hrefl _

/-- The hypotheses are satisfiable: plain equality of the payload. -/
example : ∃ E : Option Nat → Option Nat → Bool, (∀ a, E a a = true) ∧
    (∀ a b c, E a b = true → E b c = true → E a c = true) :=
  ⟨fun a b => a == b, by simp, by intro a b c; simp; intro h1 h2; rw [h1, h2]⟩

/-- Non-vacuity: a chain with a delete+add cycle and a later update — the shape that reaches the REPLACE
arm of `mergeChanges` — exists, and its merged change carries the FIRST old value. -/
example : IdChain "k" (some 10) [⟨"k", .remove, some 10, none⟩, ⟨"k", .add, none, some 50⟩,
    ⟨"k", .update, some 50, some 10⟩] (some (10 : Nat)) :=
  .remove 10 (.add 50 (.update 50 10 (.done _)))

example : (mergeFold none [⟨"k", .remove, some 10, none⟩, ⟨"k", .add, none, some 50⟩,
    ⟨"k", .update, some 50, some (10 : Nat)⟩]).map (fun c => (c.ct, c.old, c.new)) =
    some (.replace, some 10, some 10) := by decide

end ScVerif.C16
