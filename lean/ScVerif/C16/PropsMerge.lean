import ScVerif.C16.MergeLemmas
/-!
# C16 — property theorems, part 3: the equivalence behind the LOSSY path of `Collection.Pull`

"never suppresses a non-equivalent change / never delivers an equivalent one" when the subscriber is slow
and `mergeCollectionExcess` folds the changes of an id into one before the equivalence check.
Only property theorems and their non-vacuity examples live in this file.
-/
namespace ScVerif.C16

/-- The merged change of a window is "what the subscriber last saw → what is stored now".
For EVERY value type, id and sequence of events the collection can publish for that id (`IdChain`: Add /
Update / Delete taking the stored item from `s` to `e`, any length ≥ 1, any number of delete+add cycles)
folded by `mergeChanges` while the consumer is busy:
* the item was absent before and is absent after: nothing is pending (no change is reported at all);
* otherwise exactly one change is pending, its `OldValue` is `s` — the value stored when the window began,
  i.e. the one the subscriber was last sent — and its `NewValue` is `e`, the value stored now; it is an ADD
  iff there was no item, a REMOVE iff there is none now, UPDATE or REPLACE otherwise. -/
theorem C16_merge_window {α : Type} (i : String) (s e : Option α) (evs : List (Chg α))
    (hc : IdChain i s evs e) (hne : evs ≠ []) :
    (s = none → e = none → mergeFold none evs = none) ∧
    (∀ v, s = none → e = some v → mergeFold none evs = some ⟨i, .add, none, some v⟩) ∧
    (∀ u, s = some u → e = none → mergeFold none evs = some ⟨i, .remove, some u, none⟩) ∧
    (∀ u v, s = some u → e = some v →
      mergeFold none evs = some ⟨i, .update, some u, some v⟩ ∨
      mergeFold none evs = some ⟨i, .replace, some u, some v⟩) := by
  have h := mergeFold_window i hc hne
  refine ⟨?_, ?_, ?_, ?_⟩
  · intro hs he; subst hs he; simpa [Pending] using h
  · intro v hs he; subst hs he; simpa [Pending] using h
  · intro u hs he; subst hs he; simpa [Pending] using h
  · intro u v hs he; subst hs he; simpa [Pending] using h

/-- Several ids in one window do not disturb each other: in the queue that `mergeCollectionExcess` holds
after ANY sequence of events (any ids, interleaved in any way), the pending change of id `i` is the
per-id fold of exactly `i`'s events — and no id is queued twice. -/
theorem C16_merger_per_id {α : Type} (i : String) (evs : List (Chg α)) :
    (mergerWindow evs).find? (fun c => c.id == i) = mergeFold none (evs.filter (fun c => c.id == i)) ∧
    ((mergerWindow evs).map (·.id)).Nodup := by
  constructor
  · have := foldl_mergerRecv_find i evs ([] : List (Chg α)) (by simp [NodupIds])
    simpa [mergerWindow] using this
  · have : ∀ (evs : List (Chg α)) (q : List (Chg α)), NodupIds q → NodupIds (evs.foldl mergerRecv q) := by
      intro evs
      induction evs with
      | nil => intro q h; exact h
      | cons b evs ih => intro q h; exact ih _ (mergerRecv_nodup q b h)
    exact this evs [] (by simp [NodupIds])

/-- The decision on a merged window is the decision on ONE write from the window's first old value to its
last new value.  For every equivalence E, read-mask filter, id and non-empty chain of that id's events:
the loop of `Collection.Pull` reports nothing when the item was and is absent; otherwise it sees one change
carrying the filtered `s` and `e` and sends it iff they are NOT E-equivalent — so a run of writes that ends
E-equivalent to where it began is suppressed as a whole, and one that ends elsewhere is never suppressed,
whatever intermediate values (even ones equivalent to the final value) were merged away. -/
theorem C16_lossy_window_decision {α : Type} (E : Option α → Option α → Bool) (flt : α → α) (i : String)
    (s e : Option α) (evs : List (Chg α)) (hc : IdChain i s evs e) (hne : evs ≠ []) :
    (s = none → e = none → (mergeFold none evs).map (lossyStep (some E) flt) = none) ∧
    (¬ (s = none ∧ e = none) → ∃ ct,
      (mergeFold none evs).map (lossyStep (some E) flt) =
        some (⟨i, ct, s.map flt, e.map flt⟩, !E (s.map flt) (e.map flt))) := by
  have h := C16_merge_window i s e evs hc hne
  constructor
  · intro hs he; rw [h.1 hs he]; rfl
  · intro hn
    cases s with
    | none =>
      cases e with
      | none => exact absurd ⟨rfl, rfl⟩ hn
      | some v => exact ⟨.add, by rw [h.2.1 v rfl rfl]; rfl⟩
    | some u =>
      cases e with
      | none => exact ⟨.remove, by rw [h.2.2.1 u rfl rfl]; rfl⟩
      | some v =>
        rcases h.2.2.2 u v rfl rfl with h' | h'
        · exact ⟨.update, by rw [h']; rfl⟩
        · exact ⟨.replace, by rw [h']; rfl⟩

/-- Non-vacuity: a chain with a delete+add cycle and a later update — the shape that reaches the REPLACE
arm of `mergeChanges` — exists, and its merged change carries the FIRST old value. -/
example : IdChain "k" (some 10) [⟨"k", .remove, some 10, none⟩, ⟨"k", .add, none, some 50⟩,
    ⟨"k", .update, some 50, some 10⟩] (some (10 : Nat)) :=
  .remove 10 (.add 50 (.update 50 10 (.done _)))

example : (mergeFold none [⟨"k", .remove, some 10, none⟩, ⟨"k", .add, none, some 50⟩,
    ⟨"k", .update, some 50, some (10 : Nat)⟩]).map (fun c => (c.ct, c.old, c.new)) =
    some (.replace, some 10, some 10) := by decide

end ScVerif.C16
