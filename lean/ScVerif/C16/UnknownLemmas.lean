import ScVerif.C16.EqualLemmas
/-! The length test of `equalUnknown` is implied by the per-field-number comparison. -/
namespace ScVerif.C16

theorem unkLen_split (n : Nat) : ∀ u : Unk,
    unkLen u = (unkGroup n u).length + unkLen (u.filter (fun r => r.1 != n))
  | [] => by simp [unkLen, unkBytes, unkGroup]
  | r :: u => by
    have ih := unkLen_split n u
    simp only [unkLen, unkBytes, unkGroup, List.length_flatMap] at ih ⊢
    by_cases h : r.1 = n
    · simp only [List.filter_cons, h, beq_self_eq_true, if_true, bne_self_eq_false, Bool.false_eq_true,
        if_false, List.map_cons, List.sum_cons]
      omega
    · have h' : (r.1 == n) = false := by simpa using h
      have h'' : (r.1 != n) = true := by simpa using h
      simp only [List.filter_cons, h', h'', Bool.false_eq_true, if_false, if_true, List.map_cons, List.sum_cons]
      omega

theorem unkGroup_filter_ne (n n0 : Nat) (u : Unk) :
    unkGroup n (u.filter (fun r => r.1 != n0)) = if n = n0 then [] else unkGroup n u := by
  simp only [unkGroup, List.filter_filter]
  by_cases h : n = n0
  · subst h
    have : u.filter (fun r => (r.1 == n) && (r.1 != n)) = [] := by
      simp [List.filter_eq_nil_iff]
    simp [this]
  · simp only [h, if_false]
    congr 1
    apply List.filter_congr
    intro r _
    by_cases hr : r.1 = n
    · have : r.1 ≠ n0 := fun e => h (hr ▸ e)
      simp [hr, this]
      exact fun e => h e
    · simp [hr]

theorem unkLen_zero_of_groups_empty : ∀ y : Unk, (∀ n, unkGroup n y = []) → unkLen y = 0
  | [], _ => by simp [unkLen, unkBytes]
  | r :: y, h => by
    have hr := h r.1
    simp only [unkGroup, List.filter_cons, beq_self_eq_true, if_true, List.flatMap_cons,
      List.append_eq_nil_iff] at hr
    have hy : ∀ n, unkGroup n y = [] := by
      intro n
      have hn := h n
      simp only [unkGroup, List.filter_cons] at hn ⊢
      by_cases e : r.1 = n
      · simp only [e, beq_self_eq_true, if_true, List.flatMap_cons, List.append_eq_nil_iff] at hn
        exact hn.2
      · have e' : (r.1 == n) = false := by simpa using e
        simpa [e'] using hn
    have ih := unkLen_zero_of_groups_empty y hy
    simp only [unkLen, unkBytes, List.flatMap_cons, List.length_append] at ih ⊢
    simp [hr.1, ih]

theorem unkLen_eq_of_groups (k : Nat) : ∀ (x y : Unk), x.length ≤ k →
    (∀ n, unkGroup n x = unkGroup n y) → unkLen x = unkLen y := by
  induction k with
  | zero =>
    intro x y hk h
    have : x = [] := List.eq_nil_of_length_eq_zero (by omega)
    subst this
    rw [unkLen_zero_of_groups_empty y (fun n => (h n).symm)]
    simp [unkLen, unkBytes]
  | succ k ih =>
    intro x y hk h
    cases x with
    | nil =>
      rw [unkLen_zero_of_groups_empty y (fun n => (h n).symm)]
      simp [unkLen, unkBytes]
    | cons r x' =>
      rw [unkLen_split r.1 (r :: x'), unkLen_split r.1 y, h r.1]
      congr 1
      apply ih
      · have : ((r :: x').filter (fun q => q.1 != r.1)) = x'.filter (fun q => q.1 != r.1) := by
          simp [List.filter_cons]
        rw [this]
        have := List.length_filter_le (fun q : Nat × Bytes => q.1 != r.1) x'
        simp only [List.length_cons] at hk
        omega
      · intro n
        rw [unkGroup_filter_ne, unkGroup_filter_ne, h n]

/-- `equalUnknown` is the per-field-number comparison, given that equal raw bytes split into records with
the same bytes per number (wire parsing is a function of the bytes). The length test adds nothing. -/
theorem eqUnknown_iff_groups (x y : Unk)
    (hdet : unkBytes x = unkBytes y → ∀ n, unkGroup n x = unkGroup n y) :
    eqUnknown x y = true ↔ ∀ n, unkGroup n x = unkGroup n y := by
  rw [eqUnknown_iff_code]
  constructor
  · rintro (h | ⟨_, h⟩)
    · exact hdet h
    · exact h
  · intro h
    exact Or.inr ⟨unkLen_eq_of_groups x.length x y (Nat.le_refl _) h, h⟩

end ScVerif.C16
