import ScVerif.C16.Float
import ScVerif.C16.Wire
/-!
# C16 — protobuf message trees (populated fields only)

A message is what `protoreflect.Message` exposes to `pkg/cmp`: its descriptor (full name), validity
(`IsValid`: false for a typed nil pointer), the populated fields that `Range` visits — each with its
field descriptor (number + name) and a singular value, list or map — and the unknown fields already
split into wire records `(field number, raw bytes)` — by the model of
`protowire.ConsumeField` in `Wire.lean` when the driver reads a message.

Strings and bytes are carried as the lower-case hex of their bytes (equality of hex = equality of bytes).
-/
namespace ScVerif.C16

inductive Scalar where
  | bool (b : Bool)
  | enum (n : Int)
  | int (i : Int)
  | uint (n : Nat)
  | float (f : F)
  | str (hex : String)
  | bytes (hex : String)
  deriving DecidableEq, Repr, Inhabited

/-- Field descriptor as far as `pkg/cmp` looks at it. -/
structure FD where
  num : Nat
  name : String
  deriving DecidableEq, Repr, Inhabited

/-- Unknown fields: wire records in order, `(field number, the record's raw bytes)`. -/
abbrev Unk := List (Nat × Bytes)

mutual
  inductive Val where
    | sc (s : Scalar)
    | msg (ty : String) (valid : Bool) (fs : Fields) (unk : Unk)
  inductive FVal where
    | one (v : Val)
    | list (vs : Vals)
    | map (es : Entries)
  inductive Fields where
    | nil
    | cons (fd : FD) (fv : FVal) (rest : Fields)
  inductive Vals where
    | nil
    | cons (v : Val) (rest : Vals)
  inductive Entries where
    | nil
    | cons (k : Scalar) (v : Val) (rest : Entries)
end

instance : Inhabited Val := ⟨.sc (.bool false)⟩
instance : Inhabited FVal := ⟨.one default⟩

/-- A top-level `proto.Message` argument: the nil interface, or a message (possibly a typed nil:
`valid = false`). -/
abbrev Top := Option Val

namespace Fields
def toList : Fields → List (FD × FVal)
  | .nil => []
  | .cons fd fv rest => (fd, fv) :: toList rest

def ofList : List (FD × FVal) → Fields
  | [] => .nil
  | (fd, fv) :: r => .cons fd fv (ofList r)

/-- `Has(fd)` + `Get(fd)`: the value of the first populated field with this descriptor. -/
def get? : Fields → FD → Option FVal
  | .nil, _ => none
  | .cons fd fv rest, k => if fd = k then some fv else get? rest k

/-- Number of populated fields (what the two `Range` loops count). -/
def count : Fields → Nat
  | .nil => 0
  | .cons _ _ rest => count rest + 1

def keys : Fields → List FD
  | .nil => []
  | .cons fd _ rest => fd :: keys rest
end Fields

namespace Vals
def toList : Vals → List Val
  | .nil => []
  | .cons v rest => v :: toList rest

def ofList : List Val → Vals
  | [] => .nil
  | v :: r => .cons v (ofList r)

def len : Vals → Nat
  | .nil => 0
  | .cons _ rest => len rest + 1
end Vals

namespace Entries
def ofList : List (Scalar × Val) → Entries
  | [] => .nil
  | (k, v) :: r => .cons k v (ofList r)

def get? : Entries → Scalar → Option Val
  | .nil, _ => none
  | .cons k v rest, q => if k = q then some v else get? rest q

def len : Entries → Nat
  | .nil => 0
  | .cons _ _ rest => len rest + 1

def keys : Entries → List Scalar
  | .nil => []
  | .cons k _ rest => k :: keys rest
end Entries

namespace Val
def isValid : Val → Bool
  | .msg _ v _ _ => v
  | .sc _ => true

def typeName : Val → String
  | .msg ty _ _ _ => ty
  | .sc _ => ""

def fields : Val → Fields
  | .msg _ _ fs _ => fs
  | .sc _ => .nil
end Val

/-- `Descriptor().Name()`: the part of the full name after the last dot. -/
def shortName (full : String) : String :=
  match (full.splitOn ".").getLast? with
  | some s => s
  | none => full

/-- Integer value of the singular int field `num` of a message (0 when not populated): the generated
getters `GetSeconds` / `GetNanos`. -/
def intField (fs : Fields) (num : Nat) : Int :=
  match fs.toList.find? (fun p => p.1.num == num) with
  | some (_, .one (.sc (.int i))) => i
  | _ => 0

/-! ## Well-formedness: what `Range` guarantees — each field / map key is visited once — and the unknown
fields of every message are records cut from raw bytes by the model of `protowire.ConsumeField`. -/
mutual
  def Val.WF : Val → Prop
    | .sc _ => True
    | .msg _ _ fs u => fs.keys.Nodup ∧ Fields.WF fs ∧ WireCut u
  def FVal.WF : FVal → Prop
    | .one v => Val.WF v
    | .list vs => Vals.WF vs
    | .map es => es.keys.Nodup ∧ Entries.WF es
  def Fields.WF : Fields → Prop
    | .nil => True
    | .cons _ fv rest => FVal.WF fv ∧ Fields.WF rest
  def Vals.WF : Vals → Prop
    | .nil => True
    | .cons v rest => Val.WF v ∧ Vals.WF rest
  def Entries.WF : Entries → Prop
    | .nil => True
    | .cons _ v rest => Val.WF v ∧ Entries.WF rest
end

end ScVerif.C16
