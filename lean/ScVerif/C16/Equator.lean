import ScVerif.C16.Tree
/-!
# C16 — model of `pkg/cmp/cmp.go` (`equator`) and `pkg/cmp/logic.go`

Follows the Go code phase by phase: `compare` (nil / IsValid), `equalMessage` (descriptor identity,
`Range` over x with `Has` on y, field counting, unknown fields), `ignoredField` (the `Change.change_time` exception), `equalField` (list, map, singular), `equalList`, `equalMap`, `equalValue`
(value-comparer override with its `ok` flag, then the per-kind comparison), `equalUnknown`.
-/
namespace ScVerif.C16

/-- `cmp.Value`: `(equal, ok)`.  The field's kind is determined by the values' shape. -/
abbrev VCmp := Val → Val → Bool × Bool

/-- `cmp.Message`. -/
abbrev MCmp := Top → Top → Bool

/-! ## logic.go -/

/-- `ValueAnd`. -/
def valueAnd (eqs : List VCmp) : VCmp := fun x y =>
  let rec go : List VCmp → Bool → Bool × Bool
    | [], ok => (true, ok)
    | e :: rest, ok =>
      let r := e x y
      if r.2 then (if !r.1 then (false, true) else go rest true) else go rest ok
  go eqs false

/-- `ValueOr`. -/
def valueOr (eqs : List VCmp) : VCmp := fun x y =>
  let rec go : List VCmp → Bool → Bool × Bool
    | [], ok => (false, ok)
    | e :: rest, ok =>
      let r := e x y
      if r.2 then (if r.1 then (true, true) else go rest true) else go rest ok
  go eqs false

/-- `And`. -/
def mAnd (eqs : List MCmp) : MCmp := fun x y =>
  let rec go : List MCmp → Bool
    | [] => true
    | e :: rest => if !e x y then false else go rest
  go eqs

/-- `Or`. -/
def mOr (eqs : List MCmp) : MCmp := fun x y =>
  let rec go : List MCmp → Bool
    | [] => false
    | e :: rest => if e x y then true else go rest
  go eqs

/-! ## cmp.go -/

/-- The default per-kind comparison of two scalars (`equalValue`'s switch).  Floats: NaN equals NaN,
otherwise Go `==` (so `+0 == -0`). -/
def scalarEq : Scalar → Scalar → Bool
  | .bool a, .bool b => a == b
  | .enum a, .enum b => a == b
  | .int a, .int b => a == b
  | .uint a, .uint b => a == b
  | .float a, .float b => if a.isNaN || b.isNaN then a.isNaN && b.isNaN else F.eq a b
  | .str a, .str b => a == b
  | .bytes a, .bytes b => a == b
  | _, _ => false

/-- `ignoredField`: the case added to proto.Equal —
`fd.Name() == "change_time" && fd.ContainingMessage().Name() == "Change"`.  Such a field takes no part
in the comparison: neither its value nor whether it is set. -/
def ignoredField (parentShort : String) (fd : FD) : Bool :=
  fd.name == "change_time" && parentShort == "Change"

/-- What each of the two `Range` loops of `equalMessage` counts: populated fields that are not ignored. -/
def countFields (parent : String) : Fields → Nat
  | .nil => 0
  | .cons fd _ rest => if ignoredField parent fd then countFields parent rest else countFields parent rest + 1

/-- The raw bytes of one record. -/
def recBytes (r : Nat × Bytes) : Bytes := r.2
/-- All raw bytes, in order: the `RawFields` value. -/
def unkBytes (u : Unk) : Bytes := u.flatMap recBytes
/-- `len(x)`: the length of the raw bytes. -/
def unkLen (u : Unk) : Nat := (unkBytes u).length
/-- All raw bytes recorded for field number `n`, in order. -/
def unkGroup (n : Nat) (u : Unk) : Bytes := (u.filter (fun r => r.1 == n)).flatMap recBytes

/-- `equalUnknown`. -/
def eqUnknown (x y : Unk) : Bool :=
  if unkLen x != unkLen y then false
  else if unkBytes x == unkBytes y then true
  else ((x ++ y).map (·.1)).all (fun n => unkGroup n x == unkGroup n y)

mutual
  /-- `equalValue`: value comparer first; if it does not claim the pair (`ok = false`) compare by kind.
  The message case is `equalMessage` inlined. -/
  def eqValue (c : VCmp) : Val → Val → Bool
    | x, y =>
      if (c x y).2 then (c x y).1
      else match x, y with
        | .sc a, .sc b => scalarEq a b
        | .msg tx _ fx ux, .msg ty _ fy uy =>
          tx == ty && eqFieldsLoop c (shortName tx) fx fy &&
            (countFields (shortName tx) fx == countFields (shortName ty) fy) && eqUnknown ux uy
        | _, _ => false
  /-- `equalField`. -/
  def eqField (c : VCmp) : FVal → FVal → Bool
    | .list xs, .list ys => (xs.len == ys.len) && eqListLoop c xs ys
    | .map xs, .map ys => (xs.len == ys.len) && eqMapLoop c xs ys
    | .one a, .one b => eqValue c a b
    | _, _ => false
  /-- The first `Range` loop of `equalMessage`: every populated, not ignored field of x is populated in y
  and equal. -/
  def eqFieldsLoop (c : VCmp) (parent : String) : Fields → Fields → Bool
    | .nil, _ => true
    | .cons fd fv rest, fy =>
      if ignoredField parent fd then eqFieldsLoop c parent rest fy
      else
        (match fy.get? fd with
          | some fvy => eqField c fv fvy
          | none => false) && eqFieldsLoop c parent rest fy
  /-- `equalList`'s loop (lengths already equal). -/
  def eqListLoop (c : VCmp) : Vals → Vals → Bool
    | .nil, .nil => true
    | .cons a r, .cons b s => eqValue c a b && eqListLoop c r s
    | _, _ => false
  /-- `equalMap`'s `Range` loop. -/
  def eqMapLoop (c : VCmp) : Entries → Entries → Bool
    | .nil, _ => true
    | .cons k v rest, ys =>
      (match ys.get? k with
        | some vy => eqValue c v vy
        | none => false) && eqMapLoop c rest ys
end

/-- `equalMessage`. -/
def eqMessage (c : VCmp) : Val → Val → Bool
  | .msg tx _ fx ux, .msg ty _ fy uy =>
    tx == ty && eqFieldsLoop c (shortName tx) fx fy &&
            (countFields (shortName tx) fx == countFields (shortName ty) fy) && eqUnknown ux uy
  | _, _ => false

/-- `equator.compare`. -/
def compare (c : VCmp) : MCmp
  | none, none => true
  | none, some _ => false
  | some _, none => false
  | some x, some y => if x.isValid != y.isValid then false else eqMessage c x y

/-- `cmp.Equal(cmpValue...)`. -/
def equal (cs : List VCmp) : MCmp := compare (valueAnd cs)

end ScVerif.C16
