/-!
# C16 — model of the change `Collection.Update` announces (`pkg/resource/collection.go`, `atomic.go`)

`Collection.Pull` applies the equivalence to the `(OldValue, NewValue)` a change carries, so what `Update`
puts there decides what a subscriber is sent.  `Update` reads the item twice: once without the write lock (first
read; with `WithCreateIfAbsent` an absent item is represented by a provisional empty message), and once more
under the lock (the re-validation read of `GetAndUpdate`).  Between the two anybody may have written
(`first` vs `again`).  The write goes through iff both reads are `proto.Equal`; the change is then classified
ADD / UPDATE from `created` and `createdMeanwhile`.

Messages are an arbitrary type with decidable equality (`=` stands for `proto.Equal`); `empty` is
`msg.ProtoReflect().New()`.
-/
namespace ScVerif.C16

inductive UErr where
  | notFound | alreadyExists | aborted
  deriving DecidableEq, Repr

inductive ChangeType where
  | add | update
  deriving DecidableEq, Repr

structure UReq where
  createIfAbsent : Bool
  expectAbsent : Bool

/-- The change put on the bus. -/
structure Announced (M : Type) where
  type : ChangeType
  old : Option M
  new : M

/-- The `get` closure of `Collection.Update`: `created` is the closure's captured variable (`none` = nil).
Returns the message read (`none` = the error path returned nil), the error, and the new `created`,
`createdMeanwhile`. -/
def updGet {M : Type} (rq : UReq) (empty : M) (stored : Option M) (created : Option M) :
    Option M × Option UErr × Option M × Bool :=
  match created with
  | some c =>
    -- the re-validation read after a provisional message was made
    match stored with
    | some v => if rq.expectAbsent then (none, some .alreadyExists, created, false) else (some v, none, created, true)
    | none => (some c, none, created, false)
  | none =>
    match stored with
    | some v => if rq.expectAbsent then (none, some .alreadyExists, none, false) else (some v, none, none, false)
    | none =>
      if !rq.createIfAbsent then (none, some .notFound, none, false)
      else (some empty, none, some empty, false)

/-- `Collection.Update` around `GetAndUpdate`: `first` is what is stored at the unlocked read, `again` what is
stored at the locked re-validation read, `change` the change function (interceptors, field updater). -/
def collUpdate {M : Type} [DecidableEq M] (rq : UReq) (empty : M) (first again : Option M) (change : M → M) :
    Except UErr (Announced M) :=
  match updGet rq empty first none with
  | (_, some e, _, _) => .error e
  | (none, none, _, _) => .error .aborted -- unreachable: no error means a message
  | (some oldValue, none, created, _) =>
    let newValue := change oldValue
    -- under the write lock: `oldValueAgain, _ := get()` (its error is dropped: a nil message)
    let (oldAgain, _, created', meanwhile) := updGet rq empty again created
    if some oldValue ≠ oldAgain then .error .aborted
    else
      -- save(newValue); classification
      if created'.isSome && !meanwhile then .ok ⟨.add, none, newValue⟩
      else .ok ⟨.update, some oldValue, newValue⟩

end ScVerif.C16
