import ScVerif.C16.Props
import ScVerif.C16.RepeatedLemmas
/-!
# C16 — repeated occurrences of the compared kinds (round 7)

The property's quantifier names "nested and repeated occurrences of the compared kinds".  `equalList` hands every
pair of corresponding ELEMENTS to `equalValue`, whose first step is the value-comparer override: a
`repeated google.protobuf.Timestamp` / `repeated google.protobuf.Duration` field is compared element by element
WITH the tolerance, not field by field (seconds, nanos).
-/
namespace ScVerif.C16

/-- `equalField` on a repeated field, for EVERY value comparer: equal iff the lists have the same length and every
pair of corresponding elements is equal under `equalValue` (i.e. under the comparer where it claims the pair). -/
theorem C16_repeated_pointwise (c : VCmp) (xs ys : Vals) :
    eqField c (.list xs) (.list ys) = true ↔
      xs.toList.length = ys.toList.length ∧ ∀ p ∈ List.zip xs.toList ys.toList, eqValue c p.1 p.2 = true := by
  unfold eqField
  rw [Bool.and_eq_true, eqListLoop_iff, Vals.len_eq_length, Vals.len_eq_length]
  simp only [beq_iff_eq]
  exact ⟨fun h => h.2, fun h => ⟨h.1, h⟩⟩

/-- A comparer that claims every pair of elements decides the repeated field alone. -/
theorem C16_repeated_claimed (c : VCmp) (xs ys : Vals)
    (h : ∀ p ∈ List.zip xs.toList ys.toList, (c p.1 p.2).2 = true) :
    eqField c (.list xs) (.list ys) = true ↔
      xs.toList.length = ys.toList.length ∧ ∀ p ∈ List.zip xs.toList ys.toList, (c p.1 p.2).1 = true := by
  rw [C16_repeated_pointwise]
  constructor
  · rintro ⟨hl, hp⟩; exact ⟨hl, fun p hm => by rw [← eqValue_claimed c p.1 p.2 (h p hm)]; exact hp p hm⟩
  · rintro ⟨hl, hp⟩; exact ⟨hl, fun p hm => by rw [eqValue_claimed c p.1 p.2 (h p hm)]; exact hp p hm⟩

/-- A valid Timestamp element. -/
def tsVal (p : Fields × Unk) : Val := .msg tsName true p.1 p.2
/-- A valid Duration element. -/
def durVal (p : Fields × Unk) : Val := .msg durName true p.1 p.2

/-- `Equal(TimeValueWithin(d))` on a `repeated google.protobuf.Timestamp` field: equal iff the same number of
elements and every pair of corresponding instants within `d` — for ALL lists and instants (tolerance below the
maximal Duration, as in `C16_time_within`). -/
theorem C16_repeated_times_within (d : Int) (hd : d < maxI64) (xs ys : List (Fields × Unk)) :
    eqField (valueAnd [timeValueWithin d]) (.list (Vals.ofList (xs.map tsVal))) (.list (Vals.ofList (ys.map tsVal))) = true ↔
      xs.length = ys.length ∧ ∀ p ∈ List.zip xs ys,
        toTimeNs p.1.1 - toTimeNs p.2.1 ≤ d ∧ toTimeNs p.2.1 - toTimeNs p.1.1 ≤ d := by
  unfold eqField
  rw [Bool.and_eq_true, eqListLoop_map_iff (valueAnd [timeValueWithin d]) tsVal
    (fun a b => toTimeNs a.1 - toTimeNs b.1 ≤ d ∧ toTimeNs b.1 - toTimeNs a.1 ≤ d)]
  · simp only [Vals.len_ofList, List.length_map, beq_iff_eq]
    exact ⟨fun h => h.2, fun h => ⟨h.1, h⟩⟩
  · intro a b
    have h := C16_time_within d a.1 b.1 a.2 b.2 (Or.inl hd)
    have hc : (timeValueWithin d (tsVal a) (tsVal b)).2 = true := by simp [tsVal, h]
    rw [eqValue_claimed _ _ _ (by rw [valueAnd_single_claimed _ _ _ hc]), valueAnd_single_claimed _ _ _ hc]
    simp [tsVal, h]

/-- `Equal(DurationValueWithin(d))` on a `repeated google.protobuf.Duration` field: equal iff the same number of
elements and every pair of corresponding durations within `d` — all int64 durations, no overflow hypothesis. -/
theorem C16_repeated_durations_within (d : Int) (hd : d ≤ maxI64) (xs ys : List (Fields × Unk)) :
    eqField (valueAnd [durationValueWithin d]) (.list (Vals.ofList (xs.map durVal))) (.list (Vals.ofList (ys.map durVal))) = true ↔
      xs.length = ys.length ∧ ∀ p ∈ List.zip xs ys,
        toDurationNs p.1.1 - toDurationNs p.2.1 ≤ d ∧ toDurationNs p.2.1 - toDurationNs p.1.1 ≤ d := by
  unfold eqField
  rw [Bool.and_eq_true, eqListLoop_map_iff (valueAnd [durationValueWithin d]) durVal
    (fun a b => toDurationNs a.1 - toDurationNs b.1 ≤ d ∧ toDurationNs b.1 - toDurationNs a.1 ≤ d)]
  · simp only [Vals.len_ofList, List.length_map, beq_iff_eq]
    exact ⟨fun h => h.2, fun h => ⟨h.1, h⟩⟩
  · intro a b
    have h := C16_duration_within d hd a.1 b.1 a.2 b.2
    have hc : (durationValueWithin d (durVal a) (durVal b)).2 = true := by simp [durVal, h]
    rw [eqValue_claimed _ _ _ (by rw [valueAnd_single_claimed _ _ _ hc]), valueAnd_single_claimed _ _ _ hc]
    simp [durVal, h]

/-- Non-vacuity: two one-element lists of Timestamps 1 ns apart (field 2 = nanos) are equal under a 1 ns
tolerance, different under a 0 ns tolerance; and lists of different lengths are never equal. -/
example :
    let x : Fields × Unk := (.cons ⟨2, "nanos"⟩ (.one (.sc (.int 1))) .nil, [])
    let y : Fields × Unk := (.cons ⟨2, "nanos"⟩ (.one (.sc (.int 2))) .nil, [])
    eqField (valueAnd [timeValueWithin 1]) (.list (Vals.ofList ([x].map tsVal))) (.list (Vals.ofList ([y].map tsVal))) = true ∧
    eqField (valueAnd [timeValueWithin 0]) (.list (Vals.ofList ([x].map tsVal))) (.list (Vals.ofList ([y].map tsVal))) ≠ true ∧
    eqField (valueAnd [timeValueWithin 1]) (.list (Vals.ofList ([x, x].map tsVal))) (.list (Vals.ofList ([y].map tsVal))) ≠ true := by
  intro x y
  refine ⟨?_, ?_, ?_⟩
  · rw [C16_repeated_times_within 1 (by decide)]
    exact ⟨rfl, by decide⟩
  · intro hh
    rw [C16_repeated_times_within 0 (by decide)] at hh
    exact absurd (hh.2 (x, y) (by simp)) (by decide)
  · intro hh
    rw [C16_repeated_times_within 1 (by decide)] at hh
    exact absurd hh.1 (by decide)

end ScVerif.C16
