import ScVerif.C16.Equator
/-! Lemmas about `mAnd`, `mOr`, `valueAnd`, `valueOr`. -/
namespace ScVerif.C16

theorem mAnd_go_eq (eqs : List MCmp) (x y : Top) :
    mAnd.go x y eqs = eqs.all (fun e => e x y) := by
  induction eqs with
  | nil => rfl
  | cons e rest ih =>
    simp only [mAnd.go, List.all_cons, ih]
    cases e x y <;> simp

theorem mOr_go_eq (eqs : List MCmp) (x y : Top) :
    mOr.go x y eqs = eqs.any (fun e => e x y) := by
  induction eqs with
  | nil => rfl
  | cons e rest ih =>
    simp only [mOr.go, List.any_cons, ih]
    cases e x y <;> simp

/-- The comparers of the list that claim the pair. -/
def claimers (eqs : List VCmp) (x y : Val) : List VCmp := eqs.filter (fun e => (e x y).2)

theorem valueAnd_go_eq (eqs : List VCmp) (x y : Val) (ok : Bool) :
    valueAnd.go x y eqs ok =
      ((claimers eqs x y).all (fun e => (e x y).1),
       if (claimers eqs x y).all (fun e => (e x y).1) then (ok || !(claimers eqs x y).isEmpty) else true) := by
  induction eqs generalizing ok with
  | nil => simp [valueAnd.go, claimers]
  | cons e rest ih =>
    simp only [valueAnd.go, claimers, List.filter_cons]
    cases h2 : (e x y).2 <;> cases h1 : (e x y).1 <;>
      simp [h1, h2, ih, claimers]

theorem valueOr_go_eq (eqs : List VCmp) (x y : Val) (ok : Bool) :
    valueOr.go x y eqs ok =
      ((claimers eqs x y).any (fun e => (e x y).1),
       if (claimers eqs x y).any (fun e => (e x y).1) then true else (ok || !(claimers eqs x y).isEmpty)) := by
  induction eqs generalizing ok with
  | nil => simp [valueOr.go, claimers]
  | cons e rest ih =>
    simp only [valueOr.go, claimers, List.filter_cons]
    cases h2 : (e x y).2 <;> cases h1 : (e x y).1 <;>
      simp [h1, h2, ih, claimers]

end ScVerif.C16
