import ScVerif.C16.Tolerance
/-! The time comparers depend on a Timestamp / Duration through fields 1 and 2 only (helpers for
`C16_time_comparers_read_seconds_nanos`). -/
namespace ScVerif.C16

theorem toTimeNs_fields (fx fx' : Fields) (h1 : intField fx 1 = intField fx' 1) (h2 : intField fx 2 = intField fx' 2) :
    toTimeNs fx = toTimeNs fx' := by simp [toTimeNs, h1, h2]

theorem toDurationNs_fields (fx fx' : Fields) (h1 : intField fx 1 = intField fx' 1) (h2 : intField fx 2 = intField fx' 2) :
    toDurationNs fx = toDurationNs fx' := by simp [toDurationNs, h1, h2]

theorem cmpDuration_fields_left (t : String) (v : Bool) (fx fx' : Fields) (ux ux' : Unk) (y : Val)
    (h : toDurationNs fx = toDurationNs fx') :
    cmpDuration (.msg t v fx ux) y = cmpDuration (.msg t v fx' ux') y := by
  cases y with
  | sc s => rfl
  | msg ty vy fy uy => simp only [cmpDuration, h]

theorem cmpDuration_fields_right (t : String) (v : Bool) (fx fx' : Fields) (ux ux' : Unk) (y : Val)
    (h : toDurationNs fx = toDurationNs fx') :
    cmpDuration y (.msg t v fx ux) = cmpDuration y (.msg t v fx' ux') := by
  cases y with
  | sc s => rfl
  | msg ty vy fy uy => simp only [cmpDuration, h]

end ScVerif.C16
