import ScVerif.C16.FreeLemmas
import ScVerif.C16.Props
/-!
# C16 — property theorems, part 4: FREE-RUNNING slow subscribers (no backpressure), ANY schedule

"never delivers a change whose value is equivalent to the one the subscriber already holds, and never
suppresses a non-equivalent one" when the subscriber receives whenever it likes: `Value.Pull` behind
`minibus.DropExcess`, `Collection.Pull` behind `mergeCollectionExcess`.  A schedule is an arbitrary
interleaving of `recv` (the bus hands a message to the lossy stage) and `take` (the forwarding loop takes what
the stage offers).  Only property theorems and their non-vacuity examples live in this file.
-/
namespace ScVerif.C16

/-- `DropExcess` under EVERY schedule, for every message type: the consumer is handed a subsequence of the
bus's messages, in order, nothing invented; what the stage still holds is the LATEST message or nothing; and at
quiescence (nothing held, something was sent) the last message handed over is the latest one — whatever was
dropped, the final value is never lost. -/
theorem C16_drop_excess {β : Type} (sched : List (Act β)) :
    List.Sublist (dropRun none sched).1 (recvs sched) ∧
    ((dropRun none sched).2 = none ∨ (dropRun none sched).2 = (recvs sched).getLast?) ∧
    ((dropRun none sched).2 = none → recvs sched ≠ [] →
      (dropRun none sched).1.getLast? = (recvs sched).getLast?) := by
  refine ⟨?_, ?_, ?_⟩
  · simpa [offered] using dropRun_sublist sched (none : Option β)
  · simpa [offered] using dropRun_pending sched (none : Option β)
  · intro h hne
    simpa [offered] using dropRun_quiescent sched (none : Option β) h (by simpa [offered] using hne)

/-- `Value.Pull` WITHOUT backpressure, for EVERY equivalence E (any function — a tolerance too), read-mask
filter, current value and schedule of writes and takes: the loop sees the subsequence `DropExcess` hands it, so
(1) every value it is handed is a written value, in write order, and each is delivered iff it is NOT
E-equivalent to what the subscriber holds at that moment (the last value delivered to it);
(2) once the stage is drained after the last write `w`, the subscriber holds `flt w` itself or a value E
accepts as equivalent to it: a non-equivalent final value is never suppressed, whatever was dropped on the way.
No hypothesis on E: `Value.Pull` compares with what it last SENT (contrast `C16_free_lossy_tracks`). -/
theorem C16_value_lossy (E : MCmp) (flt : Val → Val) (cur : Top) (sched : List (Act Val)) :
    List.Sublist (dropRun none sched).1 (recvs sched) ∧
    (∀ pre d post, valuePull (some E) flt cur (dropRun none sched).1 = pre ++ d :: post → (pre ≠ [] ∨ cur = none) →
      d.delivered = !E (heldAfter none pre) (some d.value)) ∧
    (∀ w, (dropRun none sched).2 = none → (recvs sched).getLast? = some w →
      heldAfter none (valuePull (some E) flt cur (dropRun none sched).1) = some (flt w) ∨
      E (heldAfter none (valuePull (some E) flt cur (dropRun none sched).1)) (some (flt w)) = true) := by
  refine ⟨(C16_drop_excess sched).1, (C16_no_dup_delivery E flt cur _).2.2, ?_⟩
  intro w hq hw
  have hne : recvs sched ≠ [] := by intro e; rw [e] at hw; simp at hw
  have hl := (C16_drop_excess sched).2.2 hq hne
  rw [hw] at hl
  obtain ⟨evs, he⟩ : ∃ evs, (dropRun none sched).1 = evs ++ [w] := by
    rw [List.getLast?_eq_some_iff] at hl
    exact hl
  rw [he]
  exact valuePull_last E flt w cur evs

/-- Several ids under ANY schedule do not disturb each other: the changes of id `i` that
`mergeCollectionExcess` hands to the loop, and what it still holds for `i` at the end, are those of the
one-id machine `idRun` run on `i`'s own events with a `take` exactly where `i`'s change was at the front of the
queue; and no id is ever queued twice. -/
theorem C16_free_merger_per_id {α : Type} (i : String) (acts : List (Act (Chg α))) :
    (mergerRun [] acts).1.filter (fun c => c.id == i) = (idRun none (projI i [] acts)).1 ∧
    (mergerRun [] acts).2.find? (fun c => c.id == i) = (idRun none (projI i [] acts)).2 ∧
    recvs (projI i [] acts) = (recvs acts).filter (fun c => c.id == i) ∧
    ((mergerRun [] acts).2.map (·.id)).Nodup := by
  have h := mergerRun_proj i acts ([] : List (Chg α)) (by simp [NodupIds])
  exact ⟨by simpa using h.1, by simpa using h.2, projI_recvs i acts [],
    mergerRun_nodup acts [] (by simp [NodupIds])⟩

/-- The merged stream of an id is itself a chain with the same end points, under EVERY schedule.  For every
value type, id, schedule (any ids interleaved, any number of takes anywhere) in which the events of `i` are
what the collection can publish for it (`IdChain`: the stored item goes from `s` to `e`): the changes of `i`
handed to the loop form a chain of windows `s = t₀ → t₁ → … → w` — each carries as `OldValue` the value
stored when `i`'s previous change was taken (what this subscriber was last told about) and as `NewValue` the
value stored when it was taken itself, never absent → absent — and what is still queued for `i` is exactly
`w → e` (nothing iff `w = e` or both absent).  In particular once nothing is queued for `i`, `w = e`: the last
change handed over ends at the value stored now. -/
theorem C16_free_merger_chain {α : Type} (i : String) (s e : Option α) (acts : List (Act (Chg α)))
    (hc : IdChain i s ((recvs acts).filter (fun c => c.id == i)) e) :
    ∃ w, Coarse i s ((mergerRun [] acts).1.filter (fun c => c.id == i)) w ∧
      Inv i w e ((mergerRun [] acts).2.find? (fun c => c.id == i)) ∧
      ((mergerRun [] acts).2.find? (fun c => c.id == i) = none → w = e) := by
  obtain ⟨h1, h2, h3, _⟩ := C16_free_merger_per_id i acts
  rw [← h3] at hc
  obtain ⟨w, hw, hi⟩ := idRun_chain i (projI i [] acts) s e s none hc (Or.inl ⟨rfl, rfl⟩)
  rw [← h1] at hw
  rw [← h2] at hi
  refine ⟨w, hw, hi, ?_⟩
  intro hn
  rcases hi with ⟨_, h⟩ | ⟨h, _⟩
  · exact h
  · exact absurd hn h

/-- Every change the loop is handed under a free schedule is decided as ONE write from the value stored when
the subscriber was last told about the item to the value stored now: for ANY E and filter, a member of a
chain of windows carries `t → u` (not both absent) and is sent iff `flt t`, `flt u` are not E-equivalent. -/
theorem C16_free_window_decision {α : Type} (E : Option α → Option α → Bool) (flt : α → α) (i : String)
    (t u : Option α) (c : Chg α) (hp : Pending i t u (some c)) :
    lossyStep (some E) flt c = (⟨i, c.ct, t.map flt, u.map flt⟩, !E (t.map flt) (u.map flt)) ∧
    ¬ (t = none ∧ u = none) := by
  obtain ⟨hi, ho, hn, hne⟩ := pending_some_fields hp
  refine ⟨?_, hne⟩
  cases c
  simp only at hi ho hn
  subst hi ho hn
  rfl

/-- The subscriber keeps track under EVERY schedule.  PARTIAL in the same sense as
`C16_no_dup_delivery_collection_partial` (E reflexive and transitive, as `Equal()` / `WithNoDuplicates`; a
tolerance drifts — the recorded finding): for every schedule (any ids interleaved, takes anywhere) in which
`i`'s events take the stored item from `s` to `e`, if the subscriber's copy is E-equivalent to (the filtered)
`s`, then after the loop has processed all changes of `i` it was handed, the copy is E-equivalent to the
value `w` stored when `i`'s last change was taken — and to the value stored NOW once nothing is queued for
`i`. -/
theorem C16_free_lossy_tracks {α : Type} (E : Option α → Option α → Bool) (flt : α → α)
    (hrefl : ∀ a, E a a = true) (htrans : ∀ a b c, E a b = true → E b c = true → E a c = true)
    (i : String) (s e : Option α) (acts : List (Act (Chg α)))
    (hc : IdChain i s ((recvs acts).filter (fun c => c.id == i)) e)
    (held : Option α) (hheld : E held (s.map flt) = true) :
    ∃ w, Inv i w e ((mergerRun [] acts).2.find? (fun c => c.id == i)) ∧
      E (viewFold E flt held ((mergerRun [] acts).1.filter (fun c => c.id == i))) (w.map flt) = true ∧
      ((mergerRun [] acts).2.find? (fun c => c.id == i) = none →
        E (viewFold E flt held ((mergerRun [] acts).1.filter (fun c => c.id == i))) (e.map flt) = true) := by
  obtain ⟨w, hw, hi, hq⟩ := C16_free_merger_chain i s e acts hc
  have ht := viewFold_tracks E flt hrefl htrans i hw held hheld
  exact ⟨w, hi, ht, fun hn => by rw [← hq hn]; exact ht⟩

/-- The same with `WithInclude`, under EVERY schedule: what the subscriber may see of an item is `vis` — nothing
when the item is absent or outside the include filter, else the item under the read mask.  For E reflexive and
transitive that never equates an absent value with a present one (every `cmp.Equal(...)`:
`C16_equal_absent_never_equivalent`), every include predicate, filter and schedule in which `i`'s events take the
stored item from `s` to `e`: if the subscriber's copy is E-equivalent to what it may see of `s`, then after the
loop (include, filter, equivalence) has processed all changes of `i` it was handed, the copy is E-equivalent to
what it may see of the value `w` stored when `i`'s last change was taken — of the value stored NOW once nothing
is queued for `i`.  In particular the item is in the subscriber's view iff it is stored and inside the filter. -/
theorem C16_free_lossy_tracks_include {α : Type} (E : Option α → Option α → Bool) (flt : α → α) (inc : α → Bool)
    (hrefl : ∀ a, E a a = true) (htrans : ∀ a b c, E a b = true → E b c = true → E a c = true)
    (hnil : ∀ w, E none (some w) = false ∧ E (some w) none = false)
    (i : String) (s e : Option α) (acts : List (Act (Chg α)))
    (hc : IdChain i s ((recvs acts).filter (fun c => c.id == i)) e)
    (held : Option α) (hheld : E held (vis flt inc s) = true) :
    ∃ w, Inv i w e ((mergerRun [] acts).2.find? (fun c => c.id == i)) ∧
      E (viewFoldI E flt inc held ((mergerRun [] acts).1.filter (fun c => c.id == i))) (vis flt inc w) = true ∧
      ((mergerRun [] acts).2.find? (fun c => c.id == i) = none →
        E (viewFoldI E flt inc held ((mergerRun [] acts).1.filter (fun c => c.id == i))) (vis flt inc e) = true ∧
        ((viewFoldI E flt inc held ((mergerRun [] acts).1.filter (fun c => c.id == i))).isSome =
          (vis flt inc e).isSome)) := by
  obtain ⟨w, hw, hi, hq⟩ := C16_free_merger_chain i s e acts hc
  have ht := viewFoldI_tracks E flt inc hrefl htrans hnil i hw held hheld
  refine ⟨w, hi, ht, fun hn => ?_⟩
  rw [← hq hn]
  refine ⟨ht, ?_⟩
  cases hv : viewFoldI E flt inc held ((mergerRun [] acts).1.filter (fun c => c.id == i)) with
  | none =>
    cases hx : vis flt inc w with
    | none => rfl
    | some x => rw [hv, hx, (hnil x).1] at ht; cases ht
  | some y =>
    cases hx : vis flt inc w with
    | none => rw [hv, hx, (hnil y).2] at ht; cases ht
    | some x => rfl

/-- The hypotheses are satisfiable (plain equality of the payload), and a schedule with a take in the middle
moves an item out of and back into the filter `· > 15`. -/
example : ∃ E : Option Nat → Option Nat → Bool, (∀ a, E a a = true) ∧
    (∀ a b c, E a b = true → E b c = true → E a c = true) ∧
    (∀ w, E none (some w) = false ∧ E (some w) none = false) :=
  ⟨fun a b => a == b, by simp, by intro a b c; simp; intro h1 h2; rw [h1, h2], by simp⟩

example : viewFoldI (fun a b => a == b) id (fun v => decide (v > 15)) (some 20)
    ((mergerRun [] [.recv ⟨"k", .update, some 20, some 10⟩, .take, .recv ⟨"k", .update, some 10, some 12⟩,
      .recv ⟨"k", .update, some 12, some (30 : Nat)⟩, .take]).1) = some 30 := by decide

/-! Non-vacuity. -/

/-- A schedule that takes in the middle of a run on one id while another id interleaves: the second change of
"k" starts at the value stored at the first take (20), not at the window's first old value. -/
example : (mergerRun [] [.recv ⟨"k", .update, some 10, some 20⟩, .recv ⟨"j", .add, none, some 1⟩, .take,
    .recv ⟨"k", .update, some 20, some 30⟩, .recv ⟨"k", .remove, some 30, none⟩, .take, .take]).1.map
      (fun c => (c.id, c.ct, c.old, c.new)) =
    [("k", .update, some 10, some (20 : Nat)), ("j", .add, none, some 1), ("k", .remove, some 20, none)] := by
  decide

example : IdChain "k" (some (10 : Nat)) [⟨"k", .update, some 10, some 20⟩, ⟨"k", .update, some 20, some 30⟩,
    ⟨"k", .remove, some 30, none⟩] none :=
  .update 10 20 (.update 20 30 (.remove 30 (.done _)))

example : Coarse "k" (some (10 : Nat)) [⟨"k", .update, some 10, some 20⟩, ⟨"k", .remove, some 20, none⟩] none :=
  .cons (u := some 20) (by simp [Pending]) (.cons (u := none) (by simp [Pending]) (.nil _))

/-- DropExcess: three writes, a take after the second and one at the end: 2 then 3 are handed over, 1 is
dropped, nothing is left. -/
example : dropRun none [.recv 1, .recv 2, .take, .recv (3 : Nat), .take] = ([2, 3], none) := by decide

end ScVerif.C16
