import ScVerif.C16.Merge
/-! Lemmas about the merge model: the per-id fold against the chain of one id's events, and the
projection of the multi-id queue on one id. -/
namespace ScVerif.C16

variable {α : Type}

/-- What is pending for id `i` after its stored item went from `s0` (window start) to `cur`. -/
def Pending (i : String) : Option α → Option α → Option (Chg α) → Prop
  | none, none, p => p = none
  | none, some v, p => p = some ⟨i, .add, none, some v⟩
  | some u, none, p => p = some ⟨i, .remove, some u, none⟩
  | some u, some v, p => p = some ⟨i, .update, some u, some v⟩ ∨ p = some ⟨i, .replace, some u, some v⟩

theorem mergeFold_pending (i : String) {s e : Option α} {evs : List (Chg α)} (hc : IdChain i s evs e) :
    ∀ (s0 : Option α) (p : Option (Chg α)), Pending i s0 s p → Pending i s0 e (mergeFold p evs) := by
  induction hc with
  | done s => intro s0 p hp; simpa [mergeFold] using hp
  | add v _ ih =>
    intro s0 p hp
    cases s0 with
    | none =>
      simp only [Pending] at hp; subst hp
      simp only [mergeFold]; exact ih none _ (by simp [Pending])
    | some u =>
      simp only [Pending] at hp; subst hp
      simp only [mergeFold]; exact ih (some u) _ (by simp [Pending, mergeChanges])
  | update u v _ ih =>
    intro s0 p hp
    cases s0 with
    | none =>
      simp only [Pending] at hp; subst hp
      simp only [mergeFold]; exact ih none _ (by simp [Pending, mergeChanges])
    | some w =>
      simp only [Pending] at hp
      rcases hp with hp | hp <;> subst hp <;> simp only [mergeFold] <;>
        exact ih (some w) _ (by simp [Pending, mergeChanges])
  | remove u _ ih =>
    intro s0 p hp
    cases s0 with
    | none =>
      simp only [Pending] at hp; subst hp
      simp only [mergeFold]; exact ih none _ (by simp [Pending, mergeChanges])
    | some w =>
      simp only [Pending] at hp
      rcases hp with hp | hp <;> subst hp <;> simp only [mergeFold] <;>
        exact ih (some w) _ (by simp [Pending, mergeChanges])

/-- A non-empty window on one id leaves exactly the change "window start → window end" pending. -/
theorem mergeFold_window (i : String) {s e : Option α} {evs : List (Chg α)} (hc : IdChain i s evs e)
    (hne : evs ≠ []) : Pending i s e (mergeFold none evs) := by
  cases hc with
  | done => exact absurd rfl hne
  | add v h => exact mergeFold_pending i (IdChain.add v h) none none (by simp [Pending])
  | update u v h =>
    simp only [mergeFold]; exact mergeFold_pending i h (some u) _ (by simp [Pending])
  | remove u h =>
    simp only [mergeFold]; exact mergeFold_pending i h (some u) _ (by simp [Pending])

/-! ## the queue of several ids -/

theorem mergeChanges_id {a b c : Chg α} (h : mergeChanges a b = some c) : c.id = b.id := by
  unfold mergeChanges at h
  cases ha : a.ct <;> simp only [ha] at h
  · injection h with h; subst h; rfl
  · cases hb : b.ct <;> simp only [hb] at h <;> first | (injection h with h; subst h; rfl) | cases h
  · injection h with h; subst h; rfl
  · injection h with h; subst h; rfl
  · injection h with h; subst h; rfl

def NodupIds (q : List (Chg α)) : Prop := (q.map (·.id)).Nodup

theorem eraseP_eq_filter (k : String) : ∀ q : List (Chg α), NodupIds q →
    q.eraseP (fun c => c.id == k) = q.filter (fun c => c.id != k)
  | [], _ => rfl
  | c :: q, h => by
    simp only [NodupIds, List.map_cons, List.nodup_cons] at h
    by_cases hk : c.id = k
    · have hq : q.filter (fun c => c.id != k) = q := by
        apply List.filter_eq_self.mpr
        intro d hd
        have : d.id ≠ k := fun e => h.1 (hk ▸ e ▸ List.mem_map_of_mem hd)
        simpa using this
      simp [hk, hq]
    · have ih := eraseP_eq_filter k q h.2
      simp [hk, ih]

theorem find_filter_ne (i k : String) (q : List (Chg α)) (hik : k ≠ i) :
    (q.filter (fun c => c.id != k)).find? (fun c => c.id == i) = q.find? (fun c => c.id == i) := by
  induction q with
  | nil => rfl
  | cons c q ih =>
    by_cases hk : c.id = k
    · have hci : (c.id == i) = false := by
        have : c.id ≠ i := fun e => hik (hk ▸ e)
        simpa using this
      have hck : (c.id != k) = false := by simp [hk]
      rw [List.filter_cons, hck, List.find?_cons, hci]
      simpa using ih
    · have hck : (c.id != k) = true := by simpa using hk
      rw [List.filter_cons, hck]
      simp only [if_true, List.find?_cons]
      rw [ih]

theorem find_filter_self (k : String) (q : List (Chg α)) :
    (q.filter (fun c => c.id != k)).find? (fun c => c.id == k) = none := by
  simp [List.find?_eq_none]

theorem nodup_filter (k : String) (q : List (Chg α)) (h : NodupIds q) :
    NodupIds (q.filter (fun c => c.id != k)) := by
  unfold NodupIds at *
  exact (List.Sublist.map _ List.filter_sublist).nodup h

theorem nodup_filter_append (k : String) (q : List (Chg α)) (c : Chg α) (hc : c.id = k) (h : NodupIds q) :
    NodupIds (q.filter (fun c => c.id != k) ++ [c]) := by
  have h1 := nodup_filter k q h
  unfold NodupIds at *
  rw [List.map_append, List.nodup_append]
  refine ⟨h1, by simp, ?_⟩
  intro a ha b hb
  simp only [List.map_cons, List.map_nil, List.mem_singleton] at hb
  subst hb
  simp only [List.mem_map, List.mem_filter] at ha
  obtain ⟨d, ⟨_, hd⟩, rfl⟩ := ha
  intro e
  simp [e, hc] at hd

theorem nodup_append_new (q : List (Chg α)) (b : Chg α) (h : NodupIds q)
    (hb : q.find? (fun c => c.id == b.id) = none) : NodupIds (q ++ [b]) := by
  unfold NodupIds at *
  rw [List.map_append, List.nodup_append]
  refine ⟨h, by simp, ?_⟩
  intro a ha x hx
  simp only [List.map_cons, List.map_nil, List.mem_singleton] at hx
  subst hx
  simp only [List.mem_map] at ha
  obtain ⟨d, hd, rfl⟩ := ha
  have := List.find?_eq_none.mp hb d hd
  simpa using this

theorem mergerRecv_nodup (q : List (Chg α)) (b : Chg α) (h : NodupIds q) : NodupIds (mergerRecv q b) := by
  unfold mergerRecv
  cases hf : q.find? (fun c => c.id == b.id) with
  | none => exact nodup_append_new q b h hf
  | some a =>
    simp only [eraseP_eq_filter b.id q h]
    cases hm : mergeChanges a b with
    | none => exact nodup_filter _ _ h
    | some c => exact nodup_filter_append _ _ _ (mergeChanges_id hm) h

theorem find_append_single (q : List (Chg α)) (c : Chg α) (i : String) :
    (q ++ [c]).find? (fun d => d.id == i) =
      match q.find? (fun d => d.id == i) with
      | some a => some a
      | none => if c.id = i then some c else none := by
  rw [List.find?_append]
  cases q.find? (fun d => d.id == i) <;> simp [List.find?_cons]
  split <;> simp_all

/-- One receive, seen from id `i`. -/
theorem mergerRecv_find (q : List (Chg α)) (b : Chg α) (i : String) (h : NodupIds q) :
    (mergerRecv q b).find? (fun c => c.id == i) =
      if b.id = i then
        (match q.find? (fun c => c.id == i) with
          | some a => mergeChanges a b
          | none => some b)
      else q.find? (fun c => c.id == i) := by
  unfold mergerRecv
  by_cases hbi : b.id = i
  · subst hbi
    simp only [if_true]
    cases hf : q.find? (fun c => c.id == b.id) with
    | none =>
      simp only []
      rw [find_append_single, hf]; simp
    | some a =>
      simp only [eraseP_eq_filter b.id q h]
      cases hm : mergeChanges a b with
      | none => simp only []; exact find_filter_self _ _
      | some c =>
        simp only []
        rw [find_append_single, find_filter_self]; simp [mergeChanges_id hm]
  · simp only [hbi, if_false]
    cases hf : q.find? (fun c => c.id == b.id) with
    | none =>
      simp only []
      rw [find_append_single]
      cases q.find? (fun c => c.id == i) <;> simp [hbi]
    | some a =>
      simp only [eraseP_eq_filter b.id q h]
      cases hm : mergeChanges a b with
      | none => simp only []; exact find_filter_ne i b.id q hbi
      | some c =>
        have hc : c.id ≠ i := by rw [mergeChanges_id hm]; exact hbi
        simp only []
        rw [find_append_single, find_filter_ne i b.id q hbi]
        cases q.find? (fun c => c.id == i) <;> simp [hc]

theorem mergeFold_some_cons (a b : Chg α) (rest : List (Chg α)) :
    mergeFold (some a) (b :: rest) = mergeFold (mergeChanges a b) rest := rfl

/-- The queue after any events, seen from id `i`, is the per-id fold of `i`'s events. -/
theorem foldl_mergerRecv_find (i : String) : ∀ (evs : List (Chg α)) (q : List (Chg α)), NodupIds q →
    (evs.foldl mergerRecv q).find? (fun c => c.id == i) =
      mergeFold (q.find? (fun c => c.id == i)) (evs.filter (fun c => c.id == i))
  | [], q, _ => by simp [mergeFold]
  | b :: evs, q, h => by
    rw [List.foldl_cons, foldl_mergerRecv_find i evs _ (mergerRecv_nodup q b h), mergerRecv_find q b i h]
    by_cases hbi : b.id = i
    · simp only [hbi, if_true, List.filter_cons, beq_self_eq_true]
      cases q.find? (fun c => c.id == i) with
      | none => simp [mergeFold]
      | some a => simp [mergeFold_some_cons]
    · have : (b.id == i) = false := by simpa using hbi
      simp [hbi, this]

end ScVerif.C16
