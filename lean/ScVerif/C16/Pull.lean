import ScVerif.C16.Equator
/-!
# C16 — model of the equivalence check in `Value.Pull` and `Collection.Pull`

`pkg/resource/value.go`: the forwarding goroutine keeps `last` (the value of the last change it
emitted, initially the current value) and skips an event when `equivalence.Compare(last, change.Value)`.
`pkg/resource/collection.go`: an event is skipped when `equivalence.Compare(change.OldValue, change.NewValue)`
(both after the read-mask filter).

`flt` is the response filter (`change.filter(filter)`): an arbitrary function on message values.
-/
namespace ScVerif.C16

/-- One event seen by the forwarding loop: the (filtered) value and whether it was sent to the subscriber. -/
structure Decision where
  value : Val
  delivered : Bool

/-- The `for event := range on` loop of `Value.Pull`. -/
def valuePullLoop (E : Option MCmp) (flt : Val → Val) : Top → List Val → List Decision
  | _, [] => []
  | last, ev :: rest =>
    let change := flt ev
    match E with
    | some e =>
      if e last (some change) then ⟨change, false⟩ :: valuePullLoop E flt last rest
      else ⟨change, true⟩ :: valuePullLoop E flt (some change) rest
    | none => ⟨change, true⟩ :: valuePullLoop E flt (some change) rest

/-- `Value.Pull`: the seed (current value, filtered, always sent) followed by the loop.
`last` is the value of the seed change as sent (after the filter). -/
def valuePull (E : Option MCmp) (flt : Val → Val) (cur : Top) (events : List Val) : List Decision :=
  match cur with
  | some v => ⟨flt v, true⟩ :: valuePullLoop E flt (some (flt v)) events
  | none => valuePullLoop E flt none events

/-- One collection event for an id as the loop sees it: old and new value (nil for ADD / REMOVE). -/
structure CEvent where
  old : Top
  new : Top

structure CDecision where
  old : Top
  new : Top
  delivered : Bool

/-- The `for event := range emit` loop of `Collection.Pull` (no include filter). -/
def collPullLoop (E : Option MCmp) (flt : Val → Val) : List CEvent → List CDecision
  | [] => []
  | ev :: rest =>
    let o := ev.old.map flt
    let n := ev.new.map flt
    match E with
    | some e => ⟨o, n, !e o n⟩ :: collPullLoop E flt rest
    | none => ⟨o, n, true⟩ :: collPullLoop E flt rest

/-- `CollectionChange.include`: `none` when the change is not forwarded (old and new both excluded);
an UPDATE whose inclusion changes becomes an ADD (no old value) or a REMOVE (no new value).
An absent value is never included. -/
def includeAdjust (inc : Option (Val → Bool)) (ev : CEvent) : Option CEvent :=
  match inc with
  | none => some ev
  | some f =>
    let oldInc := match ev.old with | some v => f v | none => false
    let newInc := match ev.new with | some v => f v | none => false
    if oldInc == newInc then (if newInc then some ev else none)
    else if newInc then some ⟨none, ev.new⟩
    else some ⟨ev.old, none⟩

/-- One event of `Collection.Pull` with an include filter: include first (on the stored values), then the
read-mask filter, then the equivalence on the resulting change's old/new. `none`: dropped by include. -/
def collPullStep (E : Option MCmp) (flt : Val → Val) (inc : Option (Val → Bool)) (ev : CEvent) : Option CDecision :=
  match includeAdjust inc ev with
  | none => none
  | some c =>
    let o := c.old.map flt
    let n := c.new.map flt
    match E with
    | some e => some ⟨o, n, !e o n⟩
    | none => some ⟨o, n, true⟩

/-- The `for event := range emit` loop of `Collection.Pull` with `WithInclude`. -/
def collPullLoopI (E : Option MCmp) (flt : Val → Val) (inc : Option (Val → Bool)) (events : List CEvent) :
    List (Option CDecision) :=
  events.map (collPullStep E flt inc)

end ScVerif.C16
