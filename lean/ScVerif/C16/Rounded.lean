import ScVerif.C16.ToleranceLemmas
/-!
# C16 — the float arithmetic of `pkg/cmp` WITH rounding (round 6)

`Float.lean` / `Tolerance.lean` compute over exact rationals.  The code computes in binary64: every
arithmetic result is rounded.  Here the finite branch of `FloatValueApprox` and `DurationValueWithinP` is
written once more, operation by operation as in `number.go` / `time.go`, with a rounding function `rnd`
applied wherever binary64 rounds:

```go
relMarg := fraction * math.Min(math.Abs(fx), math.Abs(fy))     // one rounding (the product)
return math.Abs(fx-fy) <= math.Max(margin, relMarg), true       // one rounding (the difference)

fx, fy := float64(xd), float64(yd)                              // one rounding each (int64 -> float64)
return math.Abs(fx-fy)*100 <= float64(p)*math.Min(math.Abs(fx), math.Abs(fy)), true   // difference, two products
```

`math.Abs`, `math.Min`, `math.Max`, `<=` and the widening `float64(p)` of a float32 are exact.

The theorems (PropsRounded.lean) hold for EVERY rounding function that is monotone and sign-symmetric
(`Rounding`): IEEE-754 round-to-nearest-even is one, so are the directed-to-zero mode and the identity (exact
arithmetic).  `rne64` is an executable round-to-nearest-even onto the binary64 grid (subnormals included, no
overflow: the exponent is unbounded above) used by the driver: the tie compares `floatApproxR rne64` /
`durWithinPR rne64` with the real code on inputs whose arithmetic rounds, and `rne64` itself with Go's
`big.Rat.Float64`.
-/
namespace ScVerif.C16

/-- What the theorems need of binary64 rounding: monotone and sign-symmetric. -/
structure Rounding (rnd : Rat → Rat) : Prop where
  mono : ∀ a b, a ≤ b → rnd a ≤ rnd b
  odd : ∀ a, rnd (-a) = -rnd a

/-- The finite branch of `FloatValueApprox(fraction, margin)` in rounded arithmetic. -/
def floatApproxR (rnd : Rat → Rat) (fraction margin fx fy : Rat) : Bool :=
  let relMarg := rnd (fraction * min fx.abs fy.abs)
  decide ((rnd (fx - fy)).abs ≤ max margin relMarg)

/-- `DurationValueWithinP(p)` on two int64 durations in rounded arithmetic. -/
def durWithinPR (rnd : Rat → Rat) (p : Rat) (xd yd : Int) : Bool :=
  let fx := rnd xd
  let fy := rnd yd
  decide (rnd ((rnd (fx - fy)).abs * 100) ≤ rnd (p * min fx.abs fy.abs))

/-! ## An executable rounding onto the binary64 grid -/

/-- `2^e` as a rational. -/
def pow2 (e : Int) : Rat := if 0 ≤ e then ((2 ^ e.toNat : Nat) : Rat) else 1 / ((2 ^ (-e).toNat : Nat) : Rat)

/-- `⌊log2 q⌋` for `q > 0`: from the bit lengths of numerator and denominator, corrected by one comparison. -/
def ilog2 (q : Rat) : Int :=
  let e : Int := (Nat.log2 q.num.natAbs : Int) - (Nat.log2 q.den : Int)
  if pow2 e ≤ q then e else e - 1

/-- Round half to even onto the integers (`k ≥ 0`). -/
def rneInt (k : Rat) : Int :=
  let f := k.floor
  let r := k - (f : Rat)
  if r < 1 / 2 then f else if 1 / 2 < r then f + 1 else if f % 2 = 0 then f else f + 1

/-- Round to nearest, ties to even, onto the binary64 grid: 53 significant bits, spacing never below
`2^-1074` (subnormals).  The exponent is unbounded above (no overflow to infinity). -/
def rne64 (q : Rat) : Rat :=
  if q = 0 then 0
  else
    let a := q.abs
    let e := max (ilog2 a) (-1022)
    let u := pow2 (e - 52)
    let n : Rat := (rneInt (a / u) : Rat)
    if q < 0 then -(n * u) else n * u

/-- The largest finite binary64 value. -/
def maxFloat64 : Rat := (((2 ^ 53 - 1 : Nat) : Rat)) * pow2 971

/-! ## Lemmas -/

theorem Rounding.zero {rnd : Rat → Rat} (h : Rounding rnd) : rnd 0 = 0 := by
  have := h.odd 0
  have h0 : (-0 : Rat) = 0 := by grind
  rw [h0] at this
  grind

theorem Rounding.nonneg {rnd : Rat → Rat} (h : Rounding rnd) (a : Rat) (ha : 0 ≤ a) : 0 ≤ rnd a := by
  have := h.mono 0 a ha
  rw [h.zero] at this
  exact this

/-- Rounding commutes with the absolute value. -/
theorem Rounding.abs {rnd : Rat → Rat} (h : Rounding rnd) (a : Rat) : (rnd a).abs = rnd a.abs := by
  by_cases ha : 0 ≤ a
  · rw [Rat.abs_of_nonneg ha, Rat.abs_of_nonneg (h.nonneg a ha)]
  · have ha' : a ≤ 0 := by grind
    have hn : 0 ≤ -a := by grind
    have h1 := h.nonneg (-a) hn
    rw [h.odd] at h1
    have h2 : rnd a ≤ 0 := by grind
    rw [Rat.abs_of_nonpos ha', Rat.abs_of_nonpos h2, h.odd]

/-- Rounding commutes with `max`. -/
theorem Rounding.max {rnd : Rat → Rat} (h : Rounding rnd) (a b : Rat) : rnd (max a b) = max (rnd a) (rnd b) := by
  by_cases hab : a ≤ b
  · have := h.mono a b hab
    have e1 : Max.max a b = b := by grind
    have e2 : Max.max (rnd a) (rnd b) = rnd b := by grind
    rw [e1, e2]
  · have hba : b ≤ a := by grind
    have := h.mono b a hba
    have e1 : Max.max a b = a := by grind
    have e2 : Max.max (rnd a) (rnd b) = rnd a := by grind
    rw [e1, e2]

theorem min_comm' (p q : Rat) : min p q = min q p := by grind

/-- The rounded comparison is a comparison of two rounded exact quantities: the distance and the tolerance. -/
theorem floatApproxR_eq (rnd : Rat → Rat) (h : Rounding rnd) (fr mg x y : Rat) (hmg : rnd mg = mg) :
    floatApproxR rnd fr mg x y = decide (rnd (x - y).abs ≤ rnd (max mg (fr * min x.abs y.abs))) := by
  unfold floatApproxR
  simp only []
  rw [h.abs, h.max, hmg]

theorem rounding_id : Rounding id := ⟨fun _ _ h => h, fun _ => rfl⟩

/-- Rounding everything to zero is (degenerately) monotone and sign-symmetric: the hypotheses do not force
`rnd` to be exact anywhere but at 0. -/
theorem rounding_zero : Rounding (fun _ => 0) := ⟨fun _ _ _ => by grind, fun _ => by grind⟩

end ScVerif.C16
