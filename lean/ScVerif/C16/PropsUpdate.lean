import ScVerif.C16.Update
/-!
# C16 — what `Collection.Update` announces is the write the subscribers must judge (round 7)

`Collection.Pull` compares a change's own `OldValue` with its `NewValue`.  That is only the comparison "against the
value the subscriber holds" if `OldValue` is what was stored when the write committed — also when another
writer got in between this write's unlocked first read and its locked re-validation read (a rival creator of
the same id, a rival re-writing or deleting the item).
-/
namespace ScVerif.C16

/-- For EVERY pair (stored at the first read, stored at the re-validation read), every option combination and
every change function: a write that goes through announces as `OldValue` exactly what was stored when it
committed (nothing iff the item was absent then), as ADD iff the item was absent then, and as `NewValue` the
change function's result on what the first read saw (the provisional empty message for an absent item). -/
theorem C16_update_announces_commit_predecessor {M : Type} [DecidableEq M] (rq : UReq) (empty : M)
    (first again : Option M) (change : M → M) (a : Announced M)
    (h : collUpdate rq empty first again change = .ok a) :
    a.old = again ∧ (a.type = .add ↔ again = none) ∧ a.new = change (first.getD empty) := by
  obtain ⟨ci, ea⟩ := rq
  cases first <;> cases again <;> cases ci <;> cases ea <;>
    simp [collUpdate, updGet] at h <;>
    (try (split at h <;> simp at h)) <;>
    (try (obtain ⟨h1, h2⟩ := h; subst h2; simp_all)) <;>
    (try (subst h; simp_all))

/-- When does the write go through?  Iff both reads pass the options' preconditions (`WithExpectAbsent`: no item;
no `WithCreateIfAbsent`: an item) and see `proto.Equal` messages, an absent item counting as the empty message. -/
theorem C16_update_succeeds_iff {M : Type} [DecidableEq M] (rq : UReq) (empty : M)
    (first again : Option M) (change : M → M) :
    (∃ a, collUpdate rq empty first again change = .ok a) ↔
      (first.isSome → rq.expectAbsent = false) ∧ (first = none → rq.createIfAbsent = true) ∧
      (again.isSome → rq.expectAbsent = false) ∧ (again = none → rq.createIfAbsent = true) ∧
      first.getD empty = again.getD empty := by
  obtain ⟨ci, ea⟩ := rq
  cases first <;> cases again <;> cases ci <;> cases ea <;>
    simp [collUpdate, updGet] <;>
    (try (split <;> simp_all)) <;>
    (try (constructor <;> intro h <;> simp_all))

/-- Non-vacuity, the overtaken creator: the first read found nothing, a rival created the item (equal to the
provisional message) before the lock was taken: the write goes through and is an UPDATE of the rival's item. -/
example : collUpdate (M := Nat) ⟨true, false⟩ 0 none (some 0) (fun _ => 7) = .ok ⟨.update, some 0, 7⟩ := by rfl
/-- ... a rival that stored something else makes the overtaken creator fail. -/
example : collUpdate (M := Nat) ⟨true, false⟩ 0 none (some 3) (fun _ => 7) = .error .aborted := by rfl
/-- ... an item deleted in between, re-created by a `WithCreateIfAbsent` update that had read an empty item: ADD. -/
example : collUpdate (M := Nat) ⟨true, false⟩ 0 (some 0) none (fun _ => 7) = .ok ⟨.add, none, 7⟩ := by rfl
example : collUpdate (M := Nat) ⟨false, false⟩ 0 (some 5) (some 5) (fun m => m + 1) = .ok ⟨.update, some 5, 6⟩ := by rfl

end ScVerif.C16
