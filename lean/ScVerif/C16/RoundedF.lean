import ScVerif.C16.RoundedLemmas
/-!
# C16 — `FloatValueApprox` as a whole in rounded arithmetic, overflow included (round 6)

`Rounded.lean` has the finite branch over rationals (`floatApproxR`).  Here the same arithmetic on `F` values
(NaN, ±Inf, finite): every exact finite result is rounded by `rnd` and overflows to ±Inf when its rounded
magnitude exceeds `lim` (binary64: `rne64`, `maxFloat64`), and the comparer around it (`floatValueApproxR`: NaN
only equals NaN, an infinity only itself).  Without overflow it is `floatApproxR` (`floatApproxFR_fin`).
-/
namespace ScVerif.C16

/-- Rounding of an exact finite result to the format: `rnd` onto the grid, then overflow to ±Inf beyond `lim`
(IEEE: a result whose rounded magnitude — exponent unbounded — exceeds the largest finite value). -/
def F.round (rnd : Rat → Rat) (lim : Rat) : F → F
  | .fin q z => if lim < (rnd q).abs then .inf (decide (q < 0)) else .fin (rnd q) z
  | f => f

/-- The arithmetic of `FloatValueApprox` with the product and the difference rounded (and overflowing). -/
def floatApproxFR (rnd : Rat → Rat) (lim : Rat) (fraction margin fx fy : F) : Bool :=
  let relMarg := F.round rnd lim (F.mul fraction (F.min (F.abs fx) (F.abs fy)))
  F.le (F.abs (F.round rnd lim (F.sub fx fy))) (F.max margin relMarg)

/-- `FloatValueApprox(fraction, margin)` in rounded arithmetic: the comparer as a whole. -/
def floatValueApproxR (rnd : Rat → Rat) (lim : Rat) (fraction margin : F) : VCmp
  | .sc (.float fx), .sc (.float fy) =>
    if fx.isNaN || fy.isNaN then (fx.isNaN && fy.isNaN, true)
    else if !fx.isFinite || !fy.isFinite then (F.eq fx fy, true)
    else (floatApproxFR rnd lim fraction margin fx fy, true)
  | _, _ => (false, false)

theorem floatApproxFR_fin (rnd : Rat → Rat) (lim fr mg x y : Rat) (a b c d : Bool)
    (h1 : (rnd (x - y)).abs ≤ lim) (h2 : (rnd (fr * min x.abs y.abs)).abs ≤ lim) :
    floatApproxFR rnd lim (.fin fr a) (.fin mg b) (.fin x c) (.fin y d) = floatApproxR rnd fr mg x y := by
  have n1 : ¬ lim < (rnd (x - y)).abs := by grind
  have n2 : ¬ lim < (rnd (fr * min x.abs y.abs)).abs := by grind
  simp only [floatApproxFR, F_abs_fin, F_sub_fin]
  obtain ⟨z1, e1⟩ := F_min_fin x.abs y.abs false false
  rw [e1]
  obtain ⟨z2, e2⟩ := F_mul_fin fr (min x.abs y.abs) a z1
  rw [e2]
  simp only [F.round, n1, n2, if_false, F_abs_fin]
  obtain ⟨z3, e3⟩ := F_max_fin mg (rnd (fr * min x.abs y.abs)) b z2
  rw [e3, F_le_fin]
  rfl

theorem F_min_fin_comm (p q : Rat) : F.min (.fin p false) (.fin q false) = F.min (.fin q false) (.fin p false) := by
  have hinf : ∀ r : Rat, (F.fin r false = F.inf true) = False := by intro r; simp
  simp only [F.min, F.isNaN, hinf, decide_false, Bool.or_self, Bool.false_eq_true, if_false]
  by_cases h0 : p = 0 ∧ q = 0
  · have h0' : q = 0 ∧ p = 0 := ⟨h0.2, h0.1⟩
    rw [if_pos h0, if_pos h0']
  · have h0' : ¬ (q = 0 ∧ p = 0) := fun h => h0 ⟨h.2, h.1⟩
    rw [if_neg h0, if_neg h0']
    by_cases h1 : p < q
    · have : ¬ q < p := by grind
      rw [if_pos h1, if_neg this]
    · rw [if_neg h1]
      by_cases h2 : q < p
      · rw [if_pos h2]
      · rw [if_neg h2]
        have : p = q := by grind
        rw [this]

theorem F_min_abs_comm (x y : Rat) (c d : Bool) :
    F.min (F.abs (.fin x c)) (F.abs (.fin y d)) = F.min (F.abs (.fin y d)) (F.abs (.fin x c)) := by
  simp only [F_abs_fin]
  exact F_min_fin_comm _ _

theorem F_abs_round_sub_comm (rnd : Rat → Rat) (hodd : ∀ a, rnd (-a) = -rnd a) (lim x y : Rat) (c d : Bool) :
    F.abs (F.round rnd lim (F.sub (.fin x c) (.fin y d))) = F.abs (F.round rnd lim (F.sub (.fin y d) (.fin x c))) := by
  simp only [F_sub_fin, F.round]
  have e : y - x = -(x - y) := by grind
  rw [e, hodd, Rat.abs_neg]
  by_cases h : lim < (rnd (x - y)).abs
  · simp [h, F.abs]
  · simp [h, F.abs, Rat.abs_neg]

theorem floatApproxFR_symm (rnd : Rat → Rat) (hodd : ∀ a, rnd (-a) = -rnd a) (lim : Rat) (fraction margin : F)
    (x y : Rat) (c d : Bool) :
    floatApproxFR rnd lim fraction margin (.fin x c) (.fin y d) =
    floatApproxFR rnd lim fraction margin (.fin y d) (.fin x c) := by
  unfold floatApproxFR
  simp only []
  rw [F_abs_round_sub_comm rnd hodd, F_min_abs_comm]


theorem floatValueApproxR_symm (rnd : Rat → Rat) (hodd : ∀ a, rnd (-a) = -rnd a) (lim : Rat)
    (fraction margin fx fy : F) :
    floatValueApproxR rnd lim fraction margin (.sc (.float fx)) (.sc (.float fy)) =
    floatValueApproxR rnd lim fraction margin (.sc (.float fy)) (.sc (.float fx)) := by
  cases fx <;> cases fy <;>
    simp [floatValueApproxR, F.isNaN, F.isFinite, F.eq, Bool.beq_comm]
  exact floatApproxFR_symm rnd hodd lim fraction margin _ _ _ _

theorem F_le_zero_max (mg r : Rat) (b z : Bool) (h : 0 ≤ mg ∨ 0 ≤ r) :
    F.le (.fin 0 false) (F.max (.fin mg b) (.fin r z)) = true := by
  obtain ⟨z3, e3⟩ := F_max_fin mg r b z
  rw [e3, F_le_fin]
  simp only [decide_eq_true_eq]
  grind

theorem floatApproxFR_refl (rnd : Rat → Rat) (h : SignSymmetric rnd) (lim : Rat) (hlim : 0 ≤ lim)
    (fr mg x : Rat) (a b c : Bool) (hp : 0 ≤ mg ∨ 0 ≤ fr) :
    floatApproxFR rnd lim (.fin fr a) (.fin mg b) (.fin x c) (.fin x c) = true := by
  unfold floatApproxFR
  simp only [F_sub_fin, F_abs_fin]
  have e0 : x - x = 0 := by grind
  have a0 : (0 : Rat).abs = 0 := rfl
  have nl : ¬ lim < 0 := by grind
  obtain ⟨z1, e1⟩ := F_min_fin x.abs x.abs false false
  obtain ⟨z2, e2⟩ := F_mul_fin fr (min x.abs x.abs) a z1
  rw [e1, e2]
  have em : min x.abs x.abs = x.abs := by grind
  rw [em]
  simp only [F.round, e0, h.zero, a0, nl, if_false, F_abs_fin]
  have hx : 0 ≤ x.abs := Rat.abs_nonneg
  by_cases ho : lim < (rnd (fr * x.abs)).abs
  · simp only [ho, if_true]
    by_cases hneg : fr * x.abs < 0
    · -- the product is negative: only possible with fr < 0, so the margin is non-negative
      have hmg : 0 ≤ mg := by
        rcases hp with hp | hp
        · exact hp
        · have := Rat.mul_nonneg hp hx
          grind
      simp [hneg, F.max, F.isNaN, F.lt, F.le, hmg]
    · simp [hneg, F.max, F.le]
  · simp only [ho, if_false]
    apply F_le_zero_max
    rcases hp with hp | hp
    · exact Or.inl hp
    · exact Or.inr (h.nonneg _ (Rat.mul_nonneg hp hx))

theorem floatValueApproxR_refl (rnd : Rat → Rat) (h : SignSymmetric rnd) (lim : Rat) (hlim : 0 ≤ lim)
    (fr mg : Rat) (a b : Bool) (fx : F) (hp : 0 ≤ mg ∨ 0 ≤ fr) :
    floatValueApproxR rnd lim (.fin fr a) (.fin mg b) (.sc (.float fx)) (.sc (.float fx)) = (true, true) := by
  cases fx with
  | nan => simp [floatValueApproxR, F.isNaN]
  | inf n => simp [floatValueApproxR, F.isNaN, F.isFinite, F.eq]
  | fin q z =>
    simp [floatValueApproxR, F.isNaN, F.isFinite]
    exact floatApproxFR_refl rnd h lim hlim fr mg q a b z hp

/-- `DurationValueWithinP(p)` as a comparer in rounded arithmetic.  A non-finite p (NaN, ±Inf) makes the right-hand
product NaN or ±Inf whatever the roundings, so the exact special-value arithmetic decides. -/
def durationValueWithinPR (rnd : Rat → Rat) (p : F) : VCmp := fun x y =>
  let (xd, yd, equal, ok, early) := cmpDuration x y
  if early then (equal, ok) else
    match p with
    | .fin q _ => (durWithinPR rnd q xd yd, true)
    | _ => (durWithinPD p xd yd, true)

end ScVerif.C16
