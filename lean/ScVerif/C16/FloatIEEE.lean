import ScVerif.Base.Line
/-!
# C16 — second float tier: IEEE-754 binary64 / binary32 (Lean core `Float`, `Float32`)

Used ONLY by the driver, for the correspondence check on inputs where the code's floating point
arithmetic rounds (the theorems are stated over exact rationals, `Float.lean` / `Tolerance.lean`).
The definitions follow `pkg/cmp/number.go` and `DurationValueWithinP` operation by operation, so a change
in rounding-sensitive code (operation order, an extra conversion, min/max special cases) shows up as a
disagreement of this tier even where the exact tier cannot be compared.
-/
namespace ScVerif.C16.IEEE

def isNegZero (x : Float) : Bool := x == 0.0 && x.toBits == 0x8000000000000000

/-- Go `math.Min`. -/
def goMin (x y : Float) : Float :=
  if (x.isInf && x < 0.0) || (y.isInf && y < 0.0) then Float.ofBits 0xFFF0000000000000
  else if x.isNaN || y.isNaN then Float.ofBits 0x7FF8000000000001
  else if x == 0.0 && y == 0.0 then (if isNegZero x then x else y)
  else if x < y then x else y

/-- Go `math.Max`. -/
def goMax (x y : Float) : Float :=
  if (x.isInf && x > 0.0) || (y.isInf && y > 0.0) then Float.ofBits 0x7FF0000000000000
  else if x.isNaN || y.isNaN then Float.ofBits 0x7FF8000000000001
  else if x == 0.0 && y == 0.0 then (if isNegZero x then y else x)
  else if x > y then x else y

/-- `FloatValueApprox(fraction, margin)` on two float64 values, in binary64 arithmetic. -/
def floatApprox (fraction margin fx fy : Float) : Bool :=
  if fx.isNaN || fy.isNaN then fx.isNaN && fy.isNaN
  else if fx.isInf || fy.isInf then fx == fy
  else
    let relMarg := fraction * goMin fx.abs fy.abs
    (fx - fy).abs <= goMax margin relMarg

/-- `DurationValueWithinP(p)` on two int64 durations, in binary64 arithmetic (p is a float32, widened). -/
def durWithinP (p : Float32) (xd yd : Int64) : Bool :=
  let fx := xd.toFloat
  let fy := yd.toFloat
  (fx - fy).abs * 100.0 <= p.toFloat * goMin fx.abs fy.abs

open ScVerif.Line in
def handle? (toks : List String) : Option String :=
  match toks with
  | ["fa64", fr, mg, x, y] => do
    let fr ← parseNat? fr
    let mg ← parseNat? mg
    let x ← parseNat? x
    let y ← parseNat? y
    let f := fun (n : Nat) => Float.ofBits n.toUInt64
    pure (showBool (floatApprox (f fr) (f mg) (f x) (f y)))
  | ["dp64", p, x, y] => do
    let p ← parseNat? p
    let x ← parseInt? x
    let y ← parseInt? y
    pure (showBool (durWithinP (Float32.ofBits p.toUInt32) (Int64.ofInt x) (Int64.ofInt y)))
  | _ => none

end ScVerif.C16.IEEE
