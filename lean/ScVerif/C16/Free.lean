import ScVerif.C16.Merge
/-!
# C16 — FREE-RUNNING slow subscribers: `minibus.DropExcess` (behind `Value.Pull`) and
`mergeCollectionExcess` (behind `Collection.Pull`) under ANY schedule

Without `WithBackpressure` a lossy stage sits between the bus and the forwarding loop of `Pull`:

* `internal/minibus/util.go` `DropExcess`: a goroutine holding at most ONE message; a new message from the
  bus replaces the held one, the loop takes the held one when it is ready;
* `pkg/resource/backpressure.go` `mergeCollectionExcess`: a goroutine holding a queue of pending changes,
  one per id; a new change from the bus is merged into the pending change of its id (`mergerRecv`), the loop
  takes the front of the queue when it is ready.

WHEN the loop is ready is a scheduling matter (it is blocked while the subscriber does not receive).  A
schedule is a list of `Act`s: `recv b` (the bus hands over `b`) and `take` (the loop takes what the stage
offers; not enabled — skipped — when the stage holds nothing, as the `select` in the code has no `out` arm
then).  `Merge.lean`'s parked window is the special case `recv* take*`.
-/
namespace ScVerif.C16

/-- One step of a schedule of a lossy stage. -/
inductive Act (β : Type) where
  | recv (b : β) : Act β
  | take : Act β

/-- The messages the bus hands over during a schedule, in order. -/
def recvs {β : Type} : List (Act β) → List β
  | [] => []
  | .recv b :: rest => b :: recvs rest
  | .take :: rest => recvs rest

/-- `minibus.DropExcess`: state `message`/`hasMessage` as an `Option`; returns what the consumer was handed,
in order, and what is still held at the end. -/
def dropRun {β : Type} : Option β → List (Act β) → List β × Option β
  | p, [] => ([], p)
  | _, .recv b :: rest => dropRun (some b) rest
  | none, .take :: rest => dropRun none rest
  | some a, .take :: rest => (a :: (dropRun none rest).1, (dropRun none rest).2)

/-- `mergeCollectionExcess` under a schedule: state = the queue of pending changes (`messages` + `queue`);
returns the (merged) changes handed to the loop, in order, and the queue left at the end. -/
def mergerRun {α : Type} : List (Chg α) → List (Act (Chg α)) → List (Chg α) × List (Chg α)
  | q, [] => ([], q)
  | q, .recv b :: rest => mergerRun (mergerRecv q b) rest
  | [], .take :: rest => mergerRun [] rest
  | c :: q, .take :: rest => (c :: (mergerRun q rest).1, (mergerRun q rest).2)

/-- What `mergeCollectionExcess` does to ONE id: at most one pending change; `take` hands it over. -/
def idRun {α : Type} : Option (Chg α) → List (Act (Chg α)) → List (Chg α) × Option (Chg α)
  | p, [] => ([], p)
  | none, .recv b :: rest => idRun (some b) rest
  | some a, .recv b :: rest => idRun (mergeChanges a b) rest
  | none, .take :: rest => idRun none rest
  | some a, .take :: rest => (a :: (idRun none rest).1, (idRun none rest).2)

/-- The schedule of the whole queue as id `i` experiences it: `i`'s own events, and a `take` exactly when the
change at the front of the queue is `i`'s. -/
def projI {α : Type} (i : String) : List (Chg α) → List (Act (Chg α)) → List (Act (Chg α))
  | _, [] => []
  | q, .recv b :: rest =>
    if b.id = i then .recv b :: projI i (mergerRecv q b) rest else projI i (mergerRecv q b) rest
  | [], .take :: rest => projI i [] rest
  | c :: q, .take :: rest => if c.id = i then .take :: projI i q rest else projI i q rest

/-- The subscriber's copy of one item, folded over the changes of that id the loop of `Collection.Pull` is
handed (read-mask filter, then the equivalence on the change's own old/new; `lossyStep`): the new value of
every change that is sent. -/
def viewFold {α : Type} (E : Option α → Option α → Bool) (flt : α → α) : Option α → List (Chg α) → Option α
  | held, [] => held
  | held, c :: rest =>
    viewFold E flt (if (lossyStep (some E) flt c).2 then (lossyStep (some E) flt c).1.new else held) rest

/-- The loop of `Collection.Pull` (include, filter, equivalence) over the changes a schedule hands to it: the
changes the subscriber receives, in order. -/
def freeDeliveries {α : Type} (E : Option (Option α → Option α → Bool)) (flt : α → α) (inc : Option (α → Bool))
    (acts : List (Act (Chg α))) : List (Chg α) :=
  (((mergerRun [] acts).1).filterMap (lossyStepI E flt inc)).filterMap (fun p => if p.2 then some p.1 else none)

end ScVerif.C16
