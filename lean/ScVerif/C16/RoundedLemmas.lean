import ScVerif.C16.Rounded
/-!
# C16 — facts about the executable binary64 rounding `rne64` (round 6)

Proved of the concrete function (no hypothesis): sign-symmetric, exact at 0, sign-preserving and MONOTONE
(`rne64_rounding : Rounding rne64`).  Monotonicity: `ilog2` really is `⌊log2⌋` (`ilog2_spec`, from the bit
lengths of numerator and denominator), so the exponent is monotone; within one binade round-half-even onto the
integers is monotone (`rneInt_mono`); across binades the rounded value of the smaller argument stays at or below
the power of two that the rounded value of the larger one stays at or above (`rne64_le_pow2`, `pow2_le_rne64`).
That `rne64` is what the hardware computes is the binary64-rounding tie (checked on every run).
-/
namespace ScVerif.C16

/-- What symmetry and reflexivity need of a rounding: `rnd (-a) = -rnd a` and `0 ≤ a → 0 ≤ rnd a`. -/
structure SignSymmetric (rnd : Rat → Rat) : Prop where
  odd : ∀ a, rnd (-a) = -rnd a
  nonneg : ∀ a, 0 ≤ a → 0 ≤ rnd a

theorem Rounding.signSymmetric {rnd : Rat → Rat} (h : Rounding rnd) : SignSymmetric rnd :=
  ⟨h.odd, h.nonneg⟩

theorem SignSymmetric.zero {rnd : Rat → Rat} (h : SignSymmetric rnd) : rnd 0 = 0 := by
  have := h.odd 0
  have h0 : (-0 : Rat) = 0 := by grind
  rw [h0] at this
  grind

theorem pow2_pos (e : Int) : 0 < pow2 e := by
  unfold pow2
  have hp : ∀ n : Nat, (0 : Rat) < ((2 ^ n : Nat) : Rat) := fun n => Rat.natCast_pos.mpr (Nat.pow_pos (by omega))
  split
  · exact hp _
  · rw [Rat.div_def]
    have := Rat.inv_pos.mpr (hp (-e).toNat)
    grind

theorem rneInt_nonneg (k : Rat) (hk : 0 ≤ k) : 0 ≤ rneInt k := by
  have hf : (0 : Int) ≤ k.floor := Rat.le_floor_iff.mpr (by simpa using hk)
  unfold rneInt
  simp only []
  split
  · exact hf
  · split
    · omega
    · split <;> omega

/-- Round-half-even onto the integers is monotone. -/
theorem rneInt_mono (k1 k2 : Rat) (h : k1 ≤ k2) : rneInt k1 ≤ rneInt k2 := by
  have hf := Rat.floor_monotone h
  have l1 := Rat.floor_le k1
  have l2 := Rat.floor_le k2
  have u1 := Rat.lt_floor_add_one k1
  have u2 := Rat.lt_floor_add_one k2
  have hlo : ∀ k : Rat, k.floor ≤ rneInt k := by
    intro k; unfold rneInt; simp only []
    split
    · omega
    · split
      · omega
      · split <;> omega
  have hhi : ∀ k : Rat, rneInt k ≤ k.floor + 1 := by
    intro k; unfold rneInt; simp only []
    split
    · omega
    · split
      · omega
      · split <;> omega
  by_cases hlt : k1.floor < k2.floor
  · have := hhi k1
    have := hlo k2
    omega
  · have he : k1.floor = k2.floor := by omega
    have hr : k1 - (k1.floor : Rat) ≤ k2 - (k2.floor : Rat) := by rw [he]; grind
    unfold rneInt
    simp only []
    rw [he] at hr ⊢
    by_cases a1 : k1 - (k2.floor : Rat) < 1 / 2
    · simp only [a1, if_true]
      split
      · omega
      · split
        · omega
        · split <;> omega
    · simp only [a1, if_false]
      have a2 : ¬ (k2 - (k2.floor : Rat) < 1 / 2) := by grind
      simp only [a2, if_false]
      by_cases b1 : 1 / 2 < k1 - (k2.floor : Rat)
      · have b2 : 1 / 2 < k2 - (k2.floor : Rat) := by grind
        simp [b1, b2]
      · simp only [b1, if_false]
        split
        · split <;> omega
        · split <;> omega

theorem div_nonneg' (a u : Rat) (ha : 0 ≤ a) (hu : 0 < u) : 0 ≤ a / u := by
  rw [Rat.div_def]
  exact Rat.mul_nonneg ha (by have := Rat.inv_pos.mpr hu; grind)

theorem rne64_nonneg (a : Rat) (ha : 0 ≤ a) : 0 ≤ rne64 a := by
  unfold rne64
  by_cases h0 : a = 0
  · simp [h0]
  · have hn : ¬ a < 0 := by grind
    simp only [h0, hn, if_false]
    have hu := pow2_pos (max (ilog2 a.abs) (-1022) - 52)
    have hk := rneInt_nonneg _ (div_nonneg' a.abs _ Rat.abs_nonneg hu)
    exact Rat.mul_nonneg (Rat.intCast_nonneg.mpr hk) (by grind)

theorem rne64_odd (q : Rat) : rne64 (-q) = -rne64 q := by
  unfold rne64
  by_cases h0 : q = 0
  · subst h0; simp
  · have h0' : ¬ (-q = 0) := by grind
    simp only [h0, h0', if_false, Rat.abs_neg]
    by_cases hn : q < 0
    · have : ¬ (-q < 0) := by grind
      simp only [hn, this, if_true, if_false]
      grind
    · have : -q < 0 := by grind
      simp only [hn, this, if_true, if_false]

theorem rne64_signSymmetric : SignSymmetric rne64 := ⟨rne64_odd, rne64_nonneg⟩

/-! ## Monotonicity -/

theorem pow2_eq (e : Int) : pow2 e = (2 : Rat) ^ e := by
  unfold pow2
  split
  · rename_i h
    obtain ⟨n, rfl⟩ : ∃ n : Nat, e = (n : Int) := ⟨e.toNat, by omega⟩
    rw [Rat.zpow_natCast, Rat.natCast_pow]
    simp
  · rename_i h
    obtain ⟨n, rfl⟩ : ∃ n : Nat, e = -(n : Int) := ⟨(-e).toNat, by omega⟩
    rw [Rat.zpow_neg, Rat.zpow_natCast, Rat.natCast_pow, Rat.div_def]
    simp

theorem pow2_add (a b : Int) : pow2 (a + b) = pow2 a * pow2 b := by
  rw [pow2_eq, pow2_eq, pow2_eq, Rat.zpow_add (by decide)]

theorem pow2_nat (k : Nat) : pow2 (k : Int) = ((2 ^ k : Nat) : Rat) := by
  unfold pow2
  simp

theorem one_le_pow2 (k : Nat) : 1 ≤ pow2 (k : Int) := by
  rw [pow2_nat]
  have : (1 : Nat) ≤ 2 ^ k := Nat.one_le_two_pow
  have := Rat.natCast_le_natCast.mpr this
  simpa using this

theorem pow2_mono (a b : Int) (h : a ≤ b) : pow2 a ≤ pow2 b := by
  have hb : b = a + ((b - a).toNat : Int) := by omega
  rw [hb, pow2_add]
  have h1 := one_le_pow2 (b - a).toNat
  have h2 := pow2_pos a
  have := Rat.mul_le_mul_of_nonneg_left h1 (Rat.le_of_lt h2)
  simpa using this

theorem pow2_succ (e : Int) : pow2 (e + 1) = pow2 e * 2 := by
  rw [pow2_add]
  have : pow2 1 = 2 := by decide +kernel
  rw [this]


/-- A positive rational times its denominator is its numerator (as naturals). -/
theorem num_pos' (a : Rat) (ha : 0 < a) : 0 < a.num := by
  have h1 : 0 ≤ a.num := Rat.num_nonneg.mpr (Rat.le_of_lt ha)
  have h2 : a.num ≠ 0 := fun h => by
    have := Rat.num_eq_zero.mp h
    grind
  omega

theorem mul_den_eq (a : Rat) (ha : 0 < a) : a * (a.den : Rat) = (a.num.natAbs : Rat) := by
  have hnum : 0 < a.num := num_pos' a ha
  have h1 : a = (a.num : Rat) / (a.den : Rat) := by
    have := Rat.mkRat_eq_div a.num a.den
    rw [Rat.mkRat_self] at this
    exact this
  have hd : (a.den : Rat) ≠ 0 := by
    have := Rat.natCast_pos.mpr a.den_pos
    grind
  have h2 : a * (a.den : Rat) = (a.num : Rat) := by
    have := Rat.div_mul_cancel (a := (a.num : Rat)) hd
    rw [← h1] at this
    exact this
  rw [h2]
  have : a.num = ((a.num.natAbs : Nat) : Int) := by omega
  conv => lhs; rw [this]
  exact Rat.intCast_natCast _

theorem ilog2_spec (a : Rat) (ha : 0 < a) : pow2 (ilog2 a) ≤ a ∧ a < pow2 (ilog2 a + 1) := by
  have hnum : 0 < a.num := num_pos' a ha
  have hn0 : a.num.natAbs ≠ 0 := by omega
  have hd0 : a.den ≠ 0 := a.den_nz
  have hmul := mul_den_eq a ha
  have hdpos : (0 : Rat) < (a.den : Rat) := Rat.natCast_pos.mpr a.den_pos
  -- bit-length bounds as rationals
  have n_lo : pow2 (Nat.log2 a.num.natAbs : Int) ≤ (a.num.natAbs : Rat) := by
    rw [pow2_nat]; exact Rat.natCast_le_natCast.mpr (Nat.log2_self_le hn0)
  have n_hi : (a.num.natAbs : Rat) < pow2 ((Nat.log2 a.num.natAbs : Int) + 1) := by
    have : ((Nat.log2 a.num.natAbs : Int) + 1) = ((Nat.log2 a.num.natAbs + 1 : Nat) : Int) := by omega
    rw [this, pow2_nat]; exact Rat.natCast_lt_natCast.mpr Nat.lt_log2_self
  have d_lo : pow2 (Nat.log2 a.den : Int) ≤ (a.den : Rat) := by
    rw [pow2_nat]; exact Rat.natCast_le_natCast.mpr (Nat.log2_self_le hd0)
  have d_hi : (a.den : Rat) < pow2 ((Nat.log2 a.den : Int) + 1) := by
    have : ((Nat.log2 a.den : Int) + 1) = ((Nat.log2 a.den + 1 : Nat) : Int) := by omega
    rw [this, pow2_nat]; exact Rat.natCast_lt_natCast.mpr Nat.lt_log2_self
  -- the guess g brackets a within [2^(g-1), 2^(g+1))
  have upper : a < pow2 ((Nat.log2 a.num.natAbs : Int) - (Nat.log2 a.den : Int) + 1) := by
    apply Rat.lt_of_mul_lt_mul_right (c := (a.den : Rat)) _ (Rat.le_of_lt hdpos)
    rw [hmul]
    have e : pow2 ((Nat.log2 a.num.natAbs : Int) + 1) =
        pow2 ((Nat.log2 a.num.natAbs : Int) - (Nat.log2 a.den : Int) + 1) * pow2 (Nat.log2 a.den : Int) := by
      rw [← pow2_add]; congr 1; omega
    have := Rat.mul_le_mul_of_nonneg_left d_lo
      (Rat.le_of_lt (pow2_pos ((Nat.log2 a.num.natAbs : Int) - (Nat.log2 a.den : Int) + 1)))
    grind
  have lower : pow2 ((Nat.log2 a.num.natAbs : Int) - (Nat.log2 a.den : Int) - 1) ≤ a := by
    apply Rat.le_of_mul_le_mul_right (c := (a.den : Rat)) _ hdpos
    rw [hmul]
    have e : pow2 (Nat.log2 a.num.natAbs : Int) =
        pow2 ((Nat.log2 a.num.natAbs : Int) - (Nat.log2 a.den : Int) - 1) * pow2 ((Nat.log2 a.den : Int) + 1) := by
      rw [← pow2_add]; congr 1; omega
    have := Rat.mul_lt_mul_of_pos_left d_hi
      (pow2_pos ((Nat.log2 a.num.natAbs : Int) - (Nat.log2 a.den : Int) - 1))
    grind
  unfold ilog2
  simp only []
  split
  · rename_i h
    exact ⟨h, upper⟩
  · rename_i h
    refine ⟨lower, ?_⟩
    have : (Nat.log2 a.num.natAbs : Int) - (Nat.log2 a.den : Int) - 1 + 1 =
        (Nat.log2 a.num.natAbs : Int) - (Nat.log2 a.den : Int) := by omega
    rw [this]
    grind

theorem ilog2_mono (a b : Rat) (ha : 0 < a) (hab : a ≤ b) : ilog2 a ≤ ilog2 b := by
  have hb : 0 < b := by grind
  have sa := ilog2_spec a ha
  have sb := ilog2_spec b hb
  by_cases h : ilog2 a ≤ ilog2 b
  · exact h
  · exfalso
    have : ilog2 b + 1 ≤ ilog2 a := by omega
    have := pow2_mono _ _ this
    grind


theorem rneInt_intCast (n : Int) : rneInt (n : Rat) = n := by
  unfold rneInt
  simp only [Rat.floor_intCast]
  have : (n : Rat) - (n : Rat) = 0 := by grind
  rw [this]
  have : (0 : Rat) < 1 / 2 := by decide +kernel
  simp [this]

/-- The exponent rne64 works with. -/
def expOf (a : Rat) : Int := max (ilog2 a) (-1022)

theorem rne64_pos_eq (a : Rat) (ha : 0 < a) :
    rne64 a = (rneInt (a / pow2 (expOf a - 52)) : Rat) * pow2 (expOf a - 52) := by
  unfold rne64 expOf
  have h0 : ¬ a = 0 := by grind
  have hn : ¬ a < 0 := by grind
  simp only [h0, hn, if_false, Rat.abs_of_nonneg (Rat.le_of_lt ha)]

theorem div_mul_self (a u : Rat) (hu : 0 < u) : a / u * u = a :=
  Rat.div_mul_cancel (by grind)

theorem div_le_div_right' (a b u : Rat) (h : a ≤ b) (hu : 0 < u) : a / u ≤ b / u := by
  rw [Rat.div_def, Rat.div_def]
  have := Rat.inv_pos.mpr hu
  exact Rat.mul_le_mul_of_nonneg_right h (Rat.le_of_lt this)

/-- The rounded value stays below the next power of two. -/
theorem rne64_le_pow2 (a : Rat) (ha : 0 < a) : rne64 a ≤ pow2 (expOf a + 1) := by
  rw [rne64_pos_eq a ha]
  have hu := pow2_pos (expOf a - 52)
  have sa := (ilog2_spec a ha).2
  have hE : pow2 (ilog2 a + 1) ≤ pow2 (expOf a + 1) := pow2_mono _ _ (by unfold expOf; omega)
  have hsplit : pow2 (expOf a + 1) = pow2 53 * pow2 (expOf a - 52) := by
    rw [← pow2_add]; congr 1; omega
  -- a / u ≤ 2^53
  have hk : a / pow2 (expOf a - 52) ≤ ((2 ^ 53 : Int) : Rat) := by
    have h53 : pow2 53 = ((2 ^ 53 : Int) : Rat) := by decide +kernel
    rw [← h53]
    apply Rat.le_of_mul_le_mul_right (c := pow2 (expOf a - 52)) _ hu
    rw [div_mul_self _ _ hu, ← hsplit]
    grind
  have := rneInt_mono _ _ hk
  rw [rneInt_intCast] at this
  have hc : ((rneInt (a / pow2 (expOf a - 52)) : Int) : Rat) ≤ ((2 ^ 53 : Int) : Rat) :=
    Rat.intCast_le_intCast.mpr this
  have h53 : pow2 53 = ((2 ^ 53 : Int) : Rat) := by decide +kernel
  rw [hsplit, h53]
  exact Rat.mul_le_mul_of_nonneg_right hc (Rat.le_of_lt hu)

/-- A value in the normal range rounds to at least the power of two below it. -/
theorem pow2_le_rne64 (a : Rat) (ha : 0 < a) (hn : -1022 ≤ ilog2 a) : pow2 (expOf a) ≤ rne64 a := by
  rw [rne64_pos_eq a ha]
  have hu := pow2_pos (expOf a - 52)
  have hEe : expOf a = ilog2 a := by unfold expOf; omega
  have sa := (ilog2_spec a ha).1
  have hsplit : pow2 (expOf a) = pow2 52 * pow2 (expOf a - 52) := by
    rw [← pow2_add]; congr 1; omega
  have h52 : pow2 52 = ((2 ^ 52 : Int) : Rat) := by decide +kernel
  have hk : ((2 ^ 52 : Int) : Rat) ≤ a / pow2 (expOf a - 52) := by
    rw [← h52]
    apply Rat.le_of_mul_le_mul_right (c := pow2 (expOf a - 52)) _ hu
    rw [div_mul_self _ _ hu, ← hsplit, hEe]
    exact sa
  have := rneInt_mono _ _ hk
  rw [rneInt_intCast] at this
  have hc : ((2 ^ 52 : Int) : Rat) ≤ ((rneInt (a / pow2 (expOf a - 52)) : Int) : Rat) :=
    Rat.intCast_le_intCast.mpr this
  rw [hsplit, h52]
  exact Rat.mul_le_mul_of_nonneg_right hc (Rat.le_of_lt hu)

theorem rne64_mono_pos (a b : Rat) (ha : 0 < a) (hab : a ≤ b) : rne64 a ≤ rne64 b := by
  have hb : 0 < b := by grind
  have hl := ilog2_mono a b ha hab
  have hE : expOf a ≤ expOf b := by unfold expOf; omega
  by_cases heq : expOf a = expOf b
  · rw [rne64_pos_eq a ha, rne64_pos_eq b hb, heq]
    have hu := pow2_pos (expOf b - 52)
    have := rneInt_mono _ _ (div_le_div_right' a b _ hab hu)
    exact Rat.mul_le_mul_of_nonneg_right (Rat.intCast_le_intCast.mpr this) (Rat.le_of_lt hu)
  · have hlt : expOf a + 1 ≤ expOf b := by omega
    have hnb : -1022 ≤ ilog2 b := by unfold expOf at hlt; omega
    have h1 := rne64_le_pow2 a ha
    have h2 := pow2_le_rne64 b hb hnb
    have h3 := pow2_mono _ _ hlt
    grind

/-- Round-to-nearest-even onto the binary64 grid is monotone. -/
theorem rne64_mono (a b : Rat) (hab : a ≤ b) : rne64 a ≤ rne64 b := by
  by_cases ha : 0 < a
  · exact rne64_mono_pos a b ha hab
  · by_cases hb : 0 ≤ b
    · -- a ≤ 0 ≤ b
      have h1 := rne64_nonneg b hb
      have h2 := rne64_nonneg (-a) (by grind)
      rw [rne64_odd] at h2
      grind
    · -- both negative
      have hb' : 0 < -b := by grind
      have := rne64_mono_pos (-b) (-a) hb' (by grind)
      rw [rne64_odd, rne64_odd] at this
      grind

theorem rne64_rounding : Rounding rne64 := ⟨rne64_mono, rne64_odd⟩

/-! ## Comparing rounded quantities -/

/-- Comparing two rounded quantities: the exact comparison, or both round to the same number. -/
theorem Rounding.le_iff {rnd : Rat → Rat} (h : Rounding rnd) (A B : Rat) :
    rnd A ≤ rnd B ↔ (A ≤ B ∨ rnd A = rnd B) := by
  constructor
  · intro hle
    by_cases hd : A ≤ B
    · exact Or.inl hd
    · right
      have := h.mono B A (by grind)
      grind
  · rintro (hd | he)
    · exact h.mono _ _ hd
    · rw [he]; exact Rat.le_refl

theorem minAbs_eq_min (xd yd : Int) : minAbs xd yd = min (xd : Rat).abs (yd : Rat).abs := by
  unfold minAbs; grind

/-! ## Fixed points: the values of `rne64` are the binary64 numbers -/

theorem pow2_lt (a b : Int) (h : a < b) : pow2 a < pow2 b := by
  have h1 : pow2 (a + 1) ≤ pow2 b := pow2_mono _ _ (by omega)
  have h2 : pow2 (a + 1) = pow2 a * 2 := pow2_succ a
  have h3 := pow2_pos a
  grind

/-- `ilog2` is determined by the binade. -/
theorem ilog2_unique (r : Rat) (e : Int) (hr : 0 < r) (h1 : pow2 e ≤ r) (h2 : r < pow2 (e + 1)) : ilog2 r = e := by
  have s := ilog2_spec r hr
  by_cases hlt : ilog2 r < e
  · have := pow2_mono (ilog2 r + 1) e (by omega)
    grind
  · by_cases hgt : e < ilog2 r
    · have := pow2_mono (e + 1) (ilog2 r) (by omega)
      grind
    · omega

/-- An integer multiple `n·2^(E-52)` with `2^52 ≤ n < 2^53` in a binade `E ≥ -1022` is a fixed point. -/
theorem rne64_fix_normal (n : Int) (E : Int) (hE : -1022 ≤ E) (h1 : 2 ^ 52 ≤ n) (h2 : n < 2 ^ 53) :
    rne64 ((n : Rat) * pow2 (E - 52)) = (n : Rat) * pow2 (E - 52) := by
  have hu := pow2_pos (E - 52)
  have hn : (0 : Rat) < (n : Rat) := by
    have : (0 : Int) < n := by omega
    exact Rat.intCast_lt_intCast.mpr this
  have hr : 0 < (n : Rat) * pow2 (E - 52) := Rat.mul_pos hn hu
  have h52 : pow2 52 = ((2 ^ 52 : Int) : Rat) := by decide +kernel
  have h53 : pow2 53 = ((2 ^ 53 : Int) : Rat) := by decide +kernel
  have lo : pow2 E ≤ (n : Rat) * pow2 (E - 52) := by
    have e : pow2 E = pow2 52 * pow2 (E - 52) := by rw [← pow2_add]; congr 1; omega
    rw [e, h52]
    exact Rat.mul_le_mul_of_nonneg_right (Rat.intCast_le_intCast.mpr h1) (Rat.le_of_lt hu)
  have hi : (n : Rat) * pow2 (E - 52) < pow2 (E + 1) := by
    have e : pow2 (E + 1) = pow2 53 * pow2 (E - 52) := by rw [← pow2_add]; congr 1; omega
    rw [e, h53]
    exact Rat.mul_lt_mul_of_pos_right (Rat.intCast_lt_intCast.mpr h2) hu
  have hl := ilog2_unique _ E hr lo hi
  rw [rne64_pos_eq _ hr]
  have hexp : expOf ((n : Rat) * pow2 (E - 52)) = E := by unfold expOf; rw [hl]; omega
  rw [hexp]
  have hdiv : (n : Rat) * pow2 (E - 52) / pow2 (E - 52) = (n : Rat) := Rat.mul_div_cancel (by grind)
  rw [hdiv, rneInt_intCast]


/-- A subnormal multiple `n·2^-1074`, `0 < n < 2^52`, is a fixed point. -/
theorem rne64_fix_subnormal (n : Int) (h1 : 0 < n) (h2 : n < 2 ^ 52) :
    rne64 ((n : Rat) * pow2 (-1022 - 52)) = (n : Rat) * pow2 (-1022 - 52) := by
  have hu := pow2_pos (-1022 - 52)
  have hn : (0 : Rat) < (n : Rat) := Rat.intCast_lt_intCast.mpr h1
  have hr : 0 < (n : Rat) * pow2 (-1022 - 52) := Rat.mul_pos hn hu
  have h52 : pow2 52 = ((2 ^ 52 : Int) : Rat) := by decide +kernel
  have hi : (n : Rat) * pow2 (-1022 - 52) < pow2 (-1022) := by
    have e : pow2 (-1022) = pow2 52 * pow2 (-1022 - 52) := by rw [← pow2_add]; congr 1
    rw [e, h52]
    exact Rat.mul_lt_mul_of_pos_right (Rat.intCast_lt_intCast.mpr h2) hu
  have hl : ilog2 ((n : Rat) * pow2 (-1022 - 52)) < -1022 := by
    have s := (ilog2_spec _ hr).1
    by_cases h : ilog2 ((n : Rat) * pow2 (-1022 - 52)) < -1022
    · exact h
    · have := pow2_mono (-1022) (ilog2 ((n : Rat) * pow2 (-1022 - 52))) (by omega)
      grind
  rw [rne64_pos_eq _ hr]
  have hexp : expOf ((n : Rat) * pow2 (-1022 - 52)) = -1022 := by unfold expOf; omega
  rw [hexp]
  have hdiv : (n : Rat) * pow2 (-1022 - 52) / pow2 (-1022 - 52) = (n : Rat) := Rat.mul_div_cancel (by grind)
  rw [hdiv, rneInt_intCast]

/-- The significand `rne64` produces: at most 2^53, at least 2^52 in the normal range, at most 2^52 below it. -/
theorem rne64_significand (a : Rat) (ha : 0 < a) :
    0 ≤ rneInt (a / pow2 (expOf a - 52)) ∧ rneInt (a / pow2 (expOf a - 52)) ≤ 2 ^ 53 ∧
    (-1022 ≤ ilog2 a → 2 ^ 52 ≤ rneInt (a / pow2 (expOf a - 52))) ∧
    (ilog2 a < -1022 → rneInt (a / pow2 (expOf a - 52)) ≤ 2 ^ 52) := by
  have hu := pow2_pos (expOf a - 52)
  have sa := ilog2_spec a ha
  have h52 : pow2 52 = ((2 ^ 52 : Int) : Rat) := by decide +kernel
  have h53 : pow2 53 = ((2 ^ 53 : Int) : Rat) := by decide +kernel
  refine ⟨rneInt_nonneg _ (div_nonneg' a _ (Rat.le_of_lt ha) hu), ?_, ?_, ?_⟩
  · have hE : pow2 (ilog2 a + 1) ≤ pow2 (expOf a + 1) := pow2_mono _ _ (by unfold expOf; omega)
    have hsplit : pow2 (expOf a + 1) = pow2 53 * pow2 (expOf a - 52) := by
      rw [← pow2_add]; congr 1; omega
    have hk : a / pow2 (expOf a - 52) ≤ ((2 ^ 53 : Int) : Rat) := by
      rw [← h53]
      apply Rat.le_of_mul_le_mul_right (c := pow2 (expOf a - 52)) _ hu
      rw [div_mul_self _ _ hu, ← hsplit]
      grind
    have := rneInt_mono _ _ hk
    rw [rneInt_intCast] at this
    exact this
  · intro hn
    have hEe : expOf a = ilog2 a := by unfold expOf; omega
    have hsplit : pow2 (expOf a) = pow2 52 * pow2 (expOf a - 52) := by
      rw [← pow2_add]; congr 1; omega
    have hk : ((2 ^ 52 : Int) : Rat) ≤ a / pow2 (expOf a - 52) := by
      rw [← h52]
      apply Rat.le_of_mul_le_mul_right (c := pow2 (expOf a - 52)) _ hu
      rw [div_mul_self _ _ hu, ← hsplit, hEe]
      exact sa.1
    have := rneInt_mono _ _ hk
    rw [rneInt_intCast] at this
    exact this
  · intro hs
    have hEe : expOf a = -1022 := by unfold expOf; omega
    have hlt : pow2 (ilog2 a + 1) ≤ pow2 (-1022) := pow2_mono _ _ (by omega)
    have hsplit : pow2 (-1022) = pow2 52 * pow2 (expOf a - 52) := by
      rw [← pow2_add]; congr 1; omega
    have hk : a / pow2 (expOf a - 52) ≤ ((2 ^ 52 : Int) : Rat) := by
      rw [← h52]
      apply Rat.le_of_mul_le_mul_right (c := pow2 (expOf a - 52)) _ hu
      rw [div_mul_self _ _ hu, ← hsplit]
      grind
    have := rneInt_mono _ _ hk
    rw [rneInt_intCast] at this
    exact this

theorem rne64_idem_pos (a : Rat) (ha : 0 < a) : rne64 (rne64 a) = rne64 a := by
  obtain ⟨h0, h53, hnorm, hsub⟩ := rne64_significand a ha
  rw [rne64_pos_eq a ha]
  generalize hn : rneInt (a / pow2 (expOf a - 52)) = n at *
  by_cases hnormal : -1022 ≤ ilog2 a
  · have hE : -1022 ≤ expOf a := by unfold expOf; omega
    have hlo := hnorm hnormal
    by_cases htop : n = 2 ^ 53
    · -- carry into the next binade: 2^53 · 2^(E-52) = 2^52 · 2^(E+1-52)
      have e : (n : Rat) * pow2 (expOf a - 52) = ((2 ^ 52 : Int) : Rat) * pow2 (expOf a + 1 - 52) := by
        have e1 : pow2 (expOf a + 1 - 52) = pow2 (expOf a - 52) * 2 := by
          have : expOf a + 1 - 52 = expOf a - 52 + 1 := by omega
          rw [this, pow2_succ]
        rw [htop, e1]
        have : ((2 ^ 53 : Int) : Rat) = ((2 ^ 52 : Int) : Rat) * 2 := by decide +kernel
        rw [this]
        grind
      rw [e]
      exact rne64_fix_normal (2 ^ 52) (expOf a + 1) (by omega) (by decide) (by decide)
    · exact rne64_fix_normal n (expOf a) hE hlo (by omega)
  · have hs : ilog2 a < -1022 := by omega
    have hEe : expOf a = -1022 := by unfold expOf; omega
    have hhi := hsub hs
    rw [hEe]
    by_cases hz : n = 0
    · subst hz
      have : ((0 : Int) : Rat) * pow2 (-1022 - 52) = 0 := by simp
      rw [this]
      simp [rne64]
    · by_cases htop : n = 2 ^ 52
      · subst htop
        exact rne64_fix_normal (2 ^ 52) (-1022) (by omega) (by decide) (by decide)
      · exact rne64_fix_subnormal n (by omega) (by omega)

/-- `rne64` is idempotent: its values are exactly its fixed points (the binary64 numbers, exponent unbounded). -/
theorem rne64_idem (q : Rat) : rne64 (rne64 q) = rne64 q := by
  by_cases hp : 0 < q
  · exact rne64_idem_pos q hp
  · by_cases hz : q = 0
    · subst hz; simp [rne64]
    · have hn : 0 < -q := by grind
      have := rne64_idem_pos (-q) hn
      rw [rne64_odd, rne64_odd] at this
      grind

end ScVerif.C16
