import ScVerif.C16.PropsRepeated
import ScVerif.C16.MapLemmas
/-!
# C16 — map values of the compared kinds (round 8)

`equalMap` ranges over x's entries and hands each value, with the value of y under the same key, to `equalValue`,
whose first step is the value-comparer override: a `map<_, google.protobuf.Timestamp>` /
`map<_, google.protobuf.Duration>` field is compared value by value WITH the tolerance. (That the keys of a
well-formed map are distinct, so that equal sizes make the two key sets equal, is part of `C16_equal_agrees`.)
-/
namespace ScVerif.C16

/-- `equalField` on a map field, for EVERY value comparer: equal iff the maps have the same number of entries and
every entry of x has an entry of y under its key that is equal under `equalValue` (i.e. under the comparer where
it claims the pair). -/
theorem C16_map_pointwise (c : VCmp) (xs ys : Entries) :
    eqField c (.map xs) (.map ys) = true ↔
      xs.toList.length = ys.toList.length ∧
        ∀ p ∈ xs.toList, ∃ vy, ys.get? p.1 = some vy ∧ eqValue c p.2 vy = true :=
  eqField_map_iff c xs ys

/-- A comparer that claims every pair of values under one key decides the map field alone. -/
theorem C16_map_claimed (c : VCmp) (xs ys : Entries)
    (h : ∀ p ∈ xs.toList, ∀ vy, ys.get? p.1 = some vy → (c p.2 vy).2 = true) :
    eqField c (.map xs) (.map ys) = true ↔
      xs.toList.length = ys.toList.length ∧
        ∀ p ∈ xs.toList, ∃ vy, ys.get? p.1 = some vy ∧ (c p.2 vy).1 = true := by
  rw [C16_map_pointwise]
  constructor
  · rintro ⟨hl, hp⟩
    refine ⟨hl, fun p hm => ?_⟩
    obtain ⟨vy, hg, hv⟩ := hp p hm
    exact ⟨vy, hg, by rw [← eqValue_claimed c p.2 vy (h p hm vy hg)]; exact hv⟩
  · rintro ⟨hl, hp⟩
    refine ⟨hl, fun p hm => ?_⟩
    obtain ⟨vy, hg, hv⟩ := hp p hm
    exact ⟨vy, hg, by rw [eqValue_claimed c p.2 vy (h p hm vy hg)]; exact hv⟩


/-- `Equal(TimeValueWithin(d))` on a `map<_, google.protobuf.Timestamp>` field: equal iff the same number of
entries and every key of x is a key of y whose instant is within `d` — for ALL maps. -/
theorem C16_map_times_within (d : Int) (hd : d < maxI64) (xs ys : List (Scalar × (Fields × Unk))) :
    eqField (valueAnd [timeValueWithin d]) (.map (Entries.ofListWith tsVal xs)) (.map (Entries.ofListWith tsVal ys)) = true ↔
      xs.length = ys.length ∧ ∀ p ∈ xs, ∃ q, ys.find? (fun e => decide (e.1 = p.1)) = some q ∧
        toTimeNs p.2.1 - toTimeNs q.2.1 ≤ d ∧ toTimeNs q.2.1 - toTimeNs p.2.1 ≤ d := by
  apply eqField_map_with_iff (valueAnd [timeValueWithin d]) tsVal
    (fun a b => toTimeNs a.1 - toTimeNs b.1 ≤ d ∧ toTimeNs b.1 - toTimeNs a.1 ≤ d)
  intro a b
  have h := C16_time_within d a.1 b.1 a.2 b.2 (Or.inl hd)
  have hc : (timeValueWithin d (tsVal a) (tsVal b)).2 = true := by simp [tsVal, h]
  rw [eqValue_claimed _ _ _ (by rw [valueAnd_single_claimed _ _ _ hc]), valueAnd_single_claimed _ _ _ hc]
  simp [tsVal, h]

/-- `Equal(DurationValueWithin(d))` on a `map<_, google.protobuf.Duration>` field. -/
theorem C16_map_durations_within (d : Int) (hd : d ≤ maxI64) (xs ys : List (Scalar × (Fields × Unk))) :
    eqField (valueAnd [durationValueWithin d]) (.map (Entries.ofListWith durVal xs)) (.map (Entries.ofListWith durVal ys)) = true ↔
      xs.length = ys.length ∧ ∀ p ∈ xs, ∃ q, ys.find? (fun e => decide (e.1 = p.1)) = some q ∧
        toDurationNs p.2.1 - toDurationNs q.2.1 ≤ d ∧ toDurationNs q.2.1 - toDurationNs p.2.1 ≤ d := by
  apply eqField_map_with_iff (valueAnd [durationValueWithin d]) durVal
    (fun a b => toDurationNs a.1 - toDurationNs b.1 ≤ d ∧ toDurationNs b.1 - toDurationNs a.1 ≤ d)
  intro a b
  have h := C16_duration_within d hd a.1 b.1 a.2 b.2
  have hc : (durationValueWithin d (durVal a) (durVal b)).2 = true := by simp [durVal, h]
  rw [eqValue_claimed _ _ _ (by rw [valueAnd_single_claimed _ _ _ hc]), valueAnd_single_claimed _ _ _ hc]
  simp [durVal, h]

/-- Non-vacuity: two one-entry maps whose Timestamps are 1 ns apart are equal under a 1 ns tolerance, different
under 0 ns; a key that y lacks makes them different whatever the tolerance. -/
example :
    let x : Fields × Unk := (.cons ⟨2, "nanos"⟩ (.one (.sc (.int 1))) .nil, [])
    let y : Fields × Unk := (.cons ⟨2, "nanos"⟩ (.one (.sc (.int 2))) .nil, [])
    eqField (valueAnd [timeValueWithin 1]) (.map (Entries.ofListWith tsVal [(.str "61", x)])) (.map (Entries.ofListWith tsVal [(.str "61", y)])) = true ∧
    eqField (valueAnd [timeValueWithin 0]) (.map (Entries.ofListWith tsVal [(.str "61", x)])) (.map (Entries.ofListWith tsVal [(.str "61", y)])) ≠ true ∧
    eqField (valueAnd [timeValueWithin 1]) (.map (Entries.ofListWith tsVal [(.str "61", x)])) (.map (Entries.ofListWith tsVal [(.str "62", y)])) ≠ true := by
  intro x y
  refine ⟨?_, ?_, ?_⟩
  · rw [C16_map_times_within 1 (by decide)]
    exact ⟨rfl, by decide⟩
  · intro hh
    rw [C16_map_times_within 0 (by decide)] at hh
    obtain ⟨q, hq, hw⟩ := hh.2 (.str "61", x) (by simp)
    simp at hq
    subst hq
    exact absurd hw (by decide)
  · intro hh
    rw [C16_map_times_within 1 (by decide)] at hh
    obtain ⟨q, hq, _⟩ := hh.2 (.str "61", x) (by simp)
    simp at hq

end ScVerif.C16
