import ScVerif.C16.Tolerance
/-! Lemmas: the special-value arithmetic on finite inputs is rational arithmetic; int64 wrap/saturation. -/
namespace ScVerif.C16

theorem F_abs_fin (q : Rat) (z : Bool) : F.abs (.fin q z) = .fin q.abs false := rfl

theorem F_sub_fin (p q : Rat) (a b : Bool) : F.sub (.fin p a) (.fin q b) = .fin (p - q) (a && !b) := rfl

theorem F_mul_fin (p q : Rat) (a b : Bool) : ∃ z, F.mul (.fin p a) (.fin q b) = .fin (p * q) z := ⟨_, rfl⟩

theorem F_min_fin (p q : Rat) (a b : Bool) : ∃ z, F.min (.fin p a) (.fin q b) = .fin (min p q) z := by
  simp only [F.min, F.isNaN]
  by_cases h0 : p = 0 ∧ q = 0
  · refine ⟨a || b, ?_⟩
    have : min (0 : Rat) 0 = 0 := by grind
    simp [h0.1, h0.2, this]
  · by_cases hlt : p < q
    · refine ⟨a, ?_⟩
      have : min p q = p := by grind
      simp [h0, hlt, this]
    · refine ⟨b, ?_⟩
      have : min p q = q := by grind
      simp [h0, hlt, this]

theorem F_max_fin (p q : Rat) (a b : Bool) : ∃ z, F.max (.fin p a) (.fin q b) = .fin (max p q) z := by
  simp only [F.max, F.isNaN]
  by_cases h0 : p = 0 ∧ q = 0
  · refine ⟨a && b, ?_⟩
    have : max (0 : Rat) 0 = 0 := by grind
    simp [h0.1, h0.2, this]
  · by_cases hlt : p > q
    · refine ⟨a, ?_⟩
      have : max p q = p := by grind
      simp [h0, hlt, this]
    · refine ⟨b, ?_⟩
      have : max p q = q := by grind
      simp [h0, hlt, this]

theorem F_le_fin (p q : Rat) (a b : Bool) : F.le (.fin p a) (.fin q b) = decide (p ≤ q) := rfl

/-- On finite inputs the arithmetic of `FloatValueApprox` is exactly the rational formula. -/
theorem floatApproxF_fin (fr mg x y : Rat) (a b c d : Bool) :
    floatApproxF (.fin fr a) (.fin mg b) (.fin x c) (.fin y d) =
      decide ((x - y).abs ≤ max mg (fr * min x.abs y.abs)) := by
  simp only [floatApproxF, F_abs_fin, F_sub_fin]
  obtain ⟨z1, h1⟩ := F_min_fin x.abs y.abs false false
  rw [h1]
  obtain ⟨z2, h2⟩ := F_mul_fin fr (min x.abs y.abs) a z1
  rw [h2]
  obtain ⟨z3, h3⟩ := F_max_fin mg (fr * min x.abs y.abs) b z2
  rw [h3, F_le_fin]

theorem sat64_cases (i : Int) :
    (maxI64 < i ∧ sat64 i = maxI64) ∨ (i < minI64 ∧ sat64 i = minI64) ∨
    (minI64 ≤ i ∧ i ≤ maxI64 ∧ sat64 i = i) := by
  unfold sat64
  by_cases h1 : i > maxI64
  · left; exact ⟨h1, by simp [h1]⟩
  · by_cases h2 : i < minI64
    · right; left; exact ⟨h2, by simp [h1, h2]⟩
    · right; right; exact ⟨by omega, by omega, by simp [h1, h2]⟩

theorem wrap64_cases (v : Int) (h0 : 0 ≤ v) (h1 : v ≤ 18446744073709551615) :
    (v ≤ maxI64 ∧ wrap64 v = v) ∨ (maxI64 < v ∧ wrap64 v = v - 18446744073709551616) := by
  unfold wrap64 maxI64
  omega

theorem wrap64_range (v : Int) : minI64 ≤ wrap64 v ∧ wrap64 v ≤ maxI64 := by
  unfold wrap64 maxI64 minI64
  omega

/-- `TimeValueWithin`'s arithmetic is `|xt - yt| ≤ d` whenever the tolerance is not the maximal Duration
(or the instants are less than 2^63 ns apart). -/
theorem timeWithinT_iff (d xt yt : Int) (h : d < maxI64 ∨ (xt - yt ≤ maxI64 ∧ yt - xt ≤ maxI64)) :
    timeWithinT d xt yt = true ↔ (xt - yt ≤ d ∧ yt - xt ≤ d) := by
  unfold timeWithinT timeSub
  have hm : maxI64 = 9223372036854775807 := rfl
  have hn : minI64 = -9223372036854775808 := rfl
  by_cases hlt : xt < yt
  · simp only [hlt, if_true, decide_eq_true_eq]
    rcases sat64_cases (yt - xt) with ⟨a, b⟩ | ⟨a, b⟩ | ⟨a, b, c⟩ <;> rw [‹sat64 _ = _›] <;> omega
  · simp only [hlt, if_false, decide_eq_true_eq]
    rcases sat64_cases (xt - yt) with ⟨a, b⟩ | ⟨a, b⟩ | ⟨a, b, c⟩ <;> rw [‹sat64 _ = _›] <;> omega

/-- `DurationValueWithin`'s arithmetic is `|xd - yd| ≤ d` for all int64 durations and tolerances. -/
theorem durWithinD_iff (d xd yd : Int) (hx1 : minI64 ≤ xd) (hx2 : xd ≤ maxI64)
    (hy1 : minI64 ≤ yd) (hy2 : yd ≤ maxI64) (hd : d ≤ maxI64) :
    durWithinD d xd yd = true ↔ (xd - yd ≤ d ∧ yd - xd ≤ d) := by
  unfold durWithinD
  have hm : maxI64 = 9223372036854775807 := rfl
  have hn : minI64 = -9223372036854775808 := rfl
  by_cases hlt : xd < yd
  · simp only [hlt, if_true, Bool.and_eq_true, decide_eq_true_eq]
    rcases wrap64_cases (yd - xd) (by omega) (by omega) with ⟨a, b⟩ | ⟨a, b⟩ <;> rw [b] <;> omega
  · simp only [hlt, if_false, Bool.and_eq_true, decide_eq_true_eq]
    rcases wrap64_cases (xd - yd) (by omega) (by omega) with ⟨a, b⟩ | ⟨a, b⟩ <;> rw [b] <;> omega

theorem toDurationNs_range (fs : Fields) : minI64 ≤ toDurationNs fs ∧ toDurationNs fs ≤ maxI64 := by
  unfold toDurationNs
  have hm : maxI64 = 9223372036854775807 := rfl
  have hn : minI64 = -9223372036854775808 := rfl
  simp only []
  split
  · split
    · omega
    · split
      · omega
      · exact wrap64_range _
  · exact wrap64_range _

/-! ## DurationValueWithinP -/

theorem fmin_abs (x y : Int) :
    F.min (F.abs (F.ofRat x)) (F.abs (F.ofRat y)) = .fin (minAbs x y) false := by
  simp only [F.min, F.abs, F.ofRat, minAbs, F.isNaN]
  by_cases h0 : (x : Rat).abs = 0 ∧ (y : Rat).abs = 0
  · simp [h0.1, h0.2]
  · by_cases hlt : (x : Rat).abs < (y : Rat).abs
    · simp only [hlt, if_true]
      simp
      intro hx hy; subst hx hy; exact absurd ⟨rfl, rfl⟩ h0
    · simp only [hlt, if_false]
      simp
      intro hx hy; subst hx hy; exact absurd ⟨rfl, rfl⟩ h0

theorem durWithinPD_iff (p : Rat) (z : Bool) (xd yd : Int) :
    durWithinPD (.fin p z) xd yd = true ↔ ((xd : Rat) - (yd : Rat)).abs * 100 ≤ p * minAbs xd yd := by
  unfold durWithinPD
  simp only [fmin_abs]
  simp [F.sub, F.abs, F.ofRat, F.mul, F.le]

theorem minAbs_comm (x y : Int) : minAbs x y = minAbs y x := by
  unfold minAbs
  by_cases h1 : (x : Rat).abs < (y : Rat).abs
  · have : ¬ (y : Rat).abs < (x : Rat).abs := by grind
    simp [h1, this]
  · by_cases h2 : (y : Rat).abs < (x : Rat).abs
    · simp [h1, h2]
    · simp [h1, h2]; grind

theorem abs_sub_comm' (a b : Rat) : (a - b).abs = (b - a).abs := by
  have : a - b = -(b - a) := by grind
  rw [this, Rat.abs_neg]

theorem durWithinPD_symm (p : F) (xd yd : Int) : durWithinPD p xd yd = durWithinPD p yd xd := by
  unfold durWithinPD
  simp only [fmin_abs, minAbs_comm xd yd]
  simp only [F.sub, F.abs, F.ofRat, abs_sub_comm' (xd : Rat) (yd : Rat)]

theorem durWithinPD_refl (p : Rat) (z : Bool) (hp : 0 ≤ p) (xd : Int) : durWithinPD (.fin p z) xd xd = true := by
  rw [durWithinPD_iff]
  have h0 : ((xd : Rat) - (xd : Rat)).abs = 0 := by
    have : (xd : Rat) - (xd : Rat) = 0 := by grind
    rw [this]; rfl
  rw [h0]
  have hm : 0 ≤ minAbs xd xd := by
    unfold minAbs; simp
  have := Rat.mul_nonneg hp hm
  grind

end ScVerif.C16
