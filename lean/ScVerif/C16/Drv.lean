import ScVerif.Base.Line
/-! Driver handler for C16 (stub: replaced by the property's owner). -/
namespace ScVerif.C16

def handle (_toks : List String) : String := "!bad-op"

end ScVerif.C16
