import ScVerif.Base.Line
import ScVerif.C16.Tolerance
import ScVerif.C16.Pull
import ScVerif.C16.Merge
import ScVerif.C16.Free
import ScVerif.C16.WireLemmas
import ScVerif.C16.FloatIEEE
import ScVerif.C16.RoundedF
import ScVerif.C16.Update
import ScVerif.C16.Shared
/-!
Driver handler for C16.  Parsing/printing glue only (trusted base of the correspondence check).

Tree token (no spaces, atoms separated by `,`, prefix notation):
```
val   ::= b0 | b1 | e<int> | i<int> | u<nat> | f<F> | s<hex> | y<hex>
        | M<0|1>,<type>,<nfields>,field*,X<hex of the raw unknown bytes>
field ::= S<num>:<name>,val | L<num>:<name>,<n>,val* | P<num>:<name>,<n>,(val,val)*
F     ::= n | pi | mi | nz | <int>/<k>            (int / 2^k)
top   ::= nil | val
```
Comparer tokens:
```
atom  ::= fa_<F>_<F> | tw_<int> | dw_<int> | dp_<F>
vspec ::= atom | VA(atom+...) | VO(atom+...)
mspec ::= E[vspec;...] | MA{E[..]|E[..]...} | MO{...} | none
inc   ::= any | gt:<num>:<F> | lt:<num>:<F> | ge:<num>:<F>
```
-/
namespace ScVerif.C16
open ScVerif.Line

def parseF? (s : String) : Option F :=
  if s = "n" then some .nan
  else if s = "pi" then some (.inf false)
  else if s = "mi" then some (.inf true)
  else if s = "nz" then some (.fin 0 true)
  else match s.splitOn "/" with
    | [a, k] => do
      let n ← parseInt? a
      let e ← parseNat? k
      pure (.fin ((n : Rat) / ((2 ^ e : Nat) : Rat)) false)
    | _ => none

def parseScalar? (a : String) : Option Scalar :=
  let body := (a.drop 1).toString
  match a.front with
  | 'b' => if body = "0" then some (.bool false) else if body = "1" then some (.bool true) else none
  | 'e' => (parseInt? body).map .enum
  | 'i' => (parseInt? body).map .int
  | 'u' => (parseNat? body).map .uint
  | 'f' => (parseF? body).map .float
  | 's' => some (.str body)
  | 'y' => some (.bytes body)
  | _ => none

def parseFD? (s : String) : Option FD :=
  match s.splitOn ":" with
  | [a, b] => (parseNat? a).map (fun n => ⟨n, b⟩)
  | _ => none

def hexDigit? (c : Char) : Option Nat :=
  if '0' ≤ c ∧ c ≤ '9' then some (c.toNat - '0'.toNat)
  else if 'a' ≤ c ∧ c ≤ 'f' then some (c.toNat - 'a'.toNat + 10)
  else none

def parseHex? : List Char → Option Bytes
  | [] => some []
  | a :: b :: rest => do
    let h ← hexDigit? a
    let l ← hexDigit? b
    let more ← parseHex? rest
    pure (UInt8.ofNat (16 * h + l) :: more)
  | _ => none

/-- The unknown fields of a message: `X<hex>`, the RAW bytes; the records are cut here, by the model of
`protowire.ConsumeField` (bytes that do not parse are outside the model: the request is refused). -/
def parseUnk? (s : String) : Option Unk :=
  if s.front = 'X' then do
    let b ← parseHex? ((s.drop 1).toString.toList)
    wireRecords b
  else none

mutual
  partial def parseVal (atoms : List String) : Option (Val × List String) :=
    match atoms with
    | [] => none
    | a :: rest =>
      if a = "M0" || a = "M1" then
        match rest with
        | ty :: n :: rest => do
          let n ← parseNat? n
          let (fs, rest) ← parseFields n rest
          match rest with
          | u :: rest => do
            let us ← parseUnk? u
            pure (.msg ty (a = "M1") (Fields.ofList fs) us, rest)
          | [] => none
        | _ => none
      else (parseScalar? a).map (fun s => (.sc s, rest))
  partial def parseFields (n : Nat) (atoms : List String) : Option (List (FD × FVal) × List String) :=
    if n = 0 then some ([], atoms) else
    match atoms with
    | [] => none
    | a :: rest => do
      let fd ← parseFD? ((a.drop 1).toString)
      let (fv, rest) ← (match a.front with
        | 'S' => do
          let (v, rest) ← parseVal rest
          pure (FVal.one v, rest)
        | 'L' => (match rest with
          | k :: rest => do
            let k ← parseNat? k
            let (vs, rest) ← parseVals k rest
            pure (FVal.list (Vals.ofList vs), rest)
          | [] => none)
        | 'P' => (match rest with
          | k :: rest => do
            let k ← parseNat? k
            let (es, rest) ← parseEntries k rest
            pure (FVal.map (Entries.ofList es), rest)
          | [] => none)
        | _ => none)
      let (more, rest) ← parseFields (n - 1) rest
      pure ((fd, fv) :: more, rest)
  partial def parseVals (n : Nat) (atoms : List String) : Option (List Val × List String) :=
    if n = 0 then some ([], atoms) else do
      let (v, rest) ← parseVal atoms
      let (more, rest) ← parseVals (n - 1) rest
      pure (v :: more, rest)
  partial def parseEntries (n : Nat) (atoms : List String) : Option (List (Scalar × Val) × List String) :=
    if n = 0 then some ([], atoms) else do
      let (k, rest) ← parseVal atoms
      let key ← (match k with | .sc s => some s | _ => none)
      let (v, rest) ← parseVal rest
      let (more, rest) ← parseEntries (n - 1) rest
      pure ((key, v) :: more, rest)
end

def parseTree? (s : String) : Option Val :=
  match parseVal (s.splitOn ",") with
  | some (v, []) => some v
  | _ => none

def parseTop? (s : String) : Option Top :=
  if s = "nil" then some none else (parseTree? s).map some

def parseAtom? (s : String) : Option VCmp :=
  match s.splitOn "_" with
  | ["fa", a, b] => do
    let fr ← parseF? a
    let mg ← parseF? b
    pure (floatValueApprox fr mg)
  | ["tw", d] => (parseInt? d).map timeValueWithin
  | ["dw", d] => (parseInt? d).map durationValueWithin
  | ["dp", p] => (parseF? p).map durationValueWithinP
  | _ => none

def splitNonEmpty (s : String) (sep : String) : List String :=
  if s = "" then [] else s.splitOn sep

def inner (s : String) (pre : Nat) : String := ((s.drop pre).dropEnd 1).toString

def parseVSpec? (s : String) : Option VCmp :=
  if s.startsWith "VA(" && s.endsWith ")" then
    ((splitNonEmpty (inner s 3) "+").mapM parseAtom?).map valueAnd
  else if s.startsWith "VO(" && s.endsWith ")" then
    ((splitNonEmpty (inner s 3) "+").mapM parseAtom?).map valueOr
  else parseAtom? s

def parseE? (s : String) : Option MCmp :=
  if s.startsWith "E[" && s.endsWith "]" then
    ((splitNonEmpty (inner s 2) ";").mapM parseVSpec?).map equal
  else none

def parseMSpec? (s : String) : Option MCmp :=
  if s.startsWith "MA{" && s.endsWith "}" then
    ((splitNonEmpty (inner s 3) "|").mapM parseE?).map mAnd
  else if s.startsWith "MO{" && s.endsWith "}" then
    ((splitNonEmpty (inner s 3) "|").mapM parseE?).map mOr
  else parseE? s

def parseOptMSpec? (s : String) : Option (Option MCmp) :=
  if s = "none" then some none else (parseMSpec? s).map some

/-- Read-mask filter of the closed family used by the tie: `all`, or `k<n1>.<n2>...` keeping only the
top-level fields with these numbers (and dropping unknown fields, as fmutils.Filter does not touch them:
they are kept). -/
def keepTop (nums : List Nat) : Val → Val
  | .msg ty v fs u => .msg ty v (Fields.ofList (fs.toList.filter (fun p => nums.contains p.1.num))) u
  | x => x

def parseFilter? (s : String) : Option (Val → Val) :=
  if s = "all" then some id
  else if s.startsWith "k" then
    ((splitNonEmpty ((s.drop 1).toString) ".").mapM parseNat?).map keepTop
  else none

/-- Include predicates of the closed family used by the tie: `any` (no include filter), or
`gt:<num>:<F>` / `lt:<num>:<F>` / `ge:<num>:<F>`: the float field `num` (0 when unset) compared with a threshold. -/
def floatField (num : Nat) : Val → F
  | .msg _ _ fs _ =>
    match fs.toList.find? (fun p => p.1.num == num) with
    | some (_, .one (.sc (.float f))) => f
    | _ => .fin 0 false
  | _ => .fin 0 false

def parseInc? (s : String) : Option (Option (Val → Bool)) :=
  if s = "any" then some none
  else match s.splitOn ":" with
    | [op, n, t] => do
      let num ← parseNat? n
      let thr ← parseF? t
      if op = "gt" then pure (some (fun v => F.lt thr (floatField num v)))
      else if op = "lt" then pure (some (fun v => F.lt (floatField num v) thr))
      else if op = "ge" then pure (some (fun v => F.le thr (floatField num v)))
      else none
    | _ => none

def showDec : Option CDecision → String
  | none => "0"
  | some d => if d.delivered then "1" else "0"

def showBits (bs : List Bool) : String := String.join (bs.map (fun b => if b then "1" else "0"))

def pairUp : List Top → Option (List CEvent)
  | [] => some []
  | a :: b :: rest => (pairUp rest).map (fun r => ⟨a, b⟩ :: r)
  | _ => none

/-! `cmerge <mspec> <filter> <inc> (<id> <A|U|R> <old> <new>)*`: one parked window of a lossy `Collection.Pull`.
Values are tagged with their position in the request (old of event k: 2k, new: 2k+1) so that the answer
names WHICH values the delivered change carries: `q=<id>:<TYPE>:<old pos|->:<new pos|->,...`. -/
def parseCT? (s : String) : Option CT :=
  if s = "A" then some .add else if s = "U" then some .update else if s = "R" then some .remove else none

def showCT : CT → String
  | .unspecified => "UNSPECIFIED" | .add => "ADD" | .update => "UPDATE" | .remove => "REMOVE" | .replace => "REPLACE"

def parseChgs (k : Nat) : List String → Option (List (Chg (Val × Nat)))
  | [] => some []
  | id :: ct :: o :: n :: rest => do
    let ct ← parseCT? ct
    let o ← parseTop? o
    let n ← parseTop? n
    let more ← parseChgs (k + 1) rest
    pure (⟨id, ct, o.map (fun v => (v, 2 * k)), n.map (fun v => (v, 2 * k + 1))⟩ :: more)
  | _ => none

def showPos : Option (Val × Nat) → String
  | some (_, k) => toString k
  | none => "-"

def showChg (c : Chg (Val × Nat)) : String :=
  c.id ++ ":" ++ showCT c.ct ++ ":" ++ showPos c.old ++ ":" ++ showPos c.new


/-! Free-running schedules (`Free.lean`).
`drop (t | r<nat>)*`: `minibus.DropExcess` on labelled messages: `o=<labels handed over> p=<label held|->`.
`vfree <mspec> <filter> <cur> (t | <val>)*`: `Value.Pull` behind `DropExcess`: the writes are numbered 0..;
`h=<numbers of the writes handed to the loop> d=<delivered bits, seed first> p=<number still held|->`.
`cfree <mspec> <filter> <inc> (t | <id> <A|U|R> <old> <new>)*`: `Collection.Pull` behind
`mergeCollectionExcess`: values tagged like `cmerge`; `m=<changes handed to the loop> q=<queue left>
d=<changes the subscriber receives>`. -/
def parseDropActs : List String → Option (List (Act Nat))
  | [] => some []
  | tok :: rest => do
    let more ← parseDropActs rest
    if tok = "t" then pure (.take :: more)
    else if tok.front = 'r' then do
      let n ← parseNat? (tok.drop 1).toString
      pure (.recv n :: more)
    else none

def parseValActs (k : Nat) : List String → Option (List (Act (Val × Nat)))
  | [] => some []
  | tok :: rest =>
    if tok = "t" then (parseValActs k rest).map (fun more => .take :: more)
    else do
      let v ← parseTree? tok
      let more ← parseValActs (k + 1) rest
      pure (.recv (v, k) :: more)

def parseChgActs (k : Nat) : List String → Option (List (Act (Chg (Val × Nat))))
  | [] => some []
  | "t" :: rest => (parseChgActs k rest).map (fun more => .take :: more)
  | id :: ct :: o :: n :: rest => do
    let ct ← parseCT? ct
    let o ← parseTop? o
    let n ← parseTop? n
    let more ← parseChgActs (k + 1) rest
    pure (.recv ⟨id, ct, o.map (fun v => (v, 2 * k)), n.map (fun v => (v, 2 * k + 1))⟩ :: more)
  | _ => none

def showOptNat : Option Nat → String
  | some n => toString n
  | none => "-"

def handle? (toks : List String) : Option String :=
  match toks with
  | ["cmp", m, x, y] => do
    let e ← parseMSpec? m
    let x ← parseTop? x
    let y ← parseTop? y
    pure (showBool (e x y))
  | ["vcmp", v, x, y] => do
    let c ← parseVSpec? v
    let x ← parseTree? x
    let y ← parseTree? y
    let r := c x y
    pure (showBool r.1 ++ "," ++ showBool r.2)
  | "vpull" :: m :: f :: cur :: evs => do
    let e ← parseOptMSpec? m
    let flt ← parseFilter? f
    let cur ← parseTop? cur
    let evs ← evs.mapM parseTree?
    pure ("d=" ++ showBits ((valuePull e flt cur evs).map (·.delivered)))
  | "cpull" :: m :: f :: i :: evs => do
    let e ← parseOptMSpec? m
    let flt ← parseFilter? f
    let inc ← parseInc? i
    let tops ← evs.mapM parseTop?
    let ces ← pairUp tops
    pure ("d=" ++ String.join ((collPullLoopI e flt inc ces).map showDec))
  | "cshared" :: m :: f :: i :: ns :: evs => do
    -- `cshared <mspec> <filter> <inc> <inc1|inc2|...> (<old> <new>)*`: the observed subscriber (number 0) next to
    -- neighbours 1..n with include predicates of their own; per event the neighbours finish first, then 0 moves
    let e ← parseOptMSpec? m
    let flt ← parseFilter? f
    let inc ← parseInc? i
    let nincs ← (ns.splitOn "|").mapM parseInc?
    let tops ← evs.mapM parseTop?
    let ces ← pairUp tops
    let cfg : Nat → SubCfg := fun k =>
      if k = 0 then ⟨if f = "all" then none else some flt, inc⟩
      else ⟨none, (nincs.getD (k - 1) none)⟩
    let sched : List Nat :=
      ((List.range nincs.length).flatMap (fun k => [k + 1, k + 1, k + 1])) ++ [0, 0, 0]
    let dec (ev : CEvent) : String :=
      match (sysRun includeFresh e cfg (SharedSys.init ev) sched).pc 0 with
      | .done d => showDec d
      | _ => "?"
    pure ("d=" ++ String.join (ces.map dec))
  | ["wire", h] => do
    let b ← parseHex? h.toList
    match wireRecords b with
    | some rs => pure ("r=" ++ ",".intercalate (rs.map (fun r => toString r.1 ++ ":" ++ toString r.2.length)))
    | none => pure "malformed"
  | ["wire"] => pure "r="
  | ["unk", hx, hy] => do
    let x ← parseHex? hx.toList
    let y ← parseHex? hy.toList
    match eqUnknownRaw x y with
    | some r => pure (showBool r)
    | none => pure "malformed"
  | "cmerge" :: m :: f :: i :: evs => do
    let e ← parseOptMSpec? m
    let flt ← parseFilter? f
    let inc ← parseInc? i
    let chgs ← parseChgs 0 evs
    let e' : Option (Option (Val × Nat) → Option (Val × Nat) → Bool) :=
      e.map (fun e a b => e (a.map Prod.fst) (b.map Prod.fst))
    let inc' : Option (Val × Nat → Bool) := inc.map (fun f p => f p.1)
    pure ("q=" ++ ",".intercalate ((lossyWindow e' (fun p => (flt p.1, p.2)) inc' chgs).map showChg))
  | "drop" :: acts => do
    let acts ← parseDropActs acts
    let r := dropRun none acts
    pure ("o=" ++ ",".intercalate (r.1.map toString) ++ " p=" ++ showOptNat r.2)
  | "vfree" :: m :: f :: cur :: acts => do
    let e ← parseOptMSpec? m
    let flt ← parseFilter? f
    let cur ← parseTop? cur
    let acts ← parseValActs 0 acts
    let r := dropRun none acts
    pure ("h=" ++ ",".intercalate (r.1.map (fun p => toString p.2)) ++
      " d=" ++ showBits ((valuePull e flt cur (r.1.map Prod.fst)).map (·.delivered)) ++
      " p=" ++ showOptNat (r.2.map Prod.snd))
  | "cfree" :: m :: f :: i :: acts => do
    let e ← parseOptMSpec? m
    let flt ← parseFilter? f
    let inc ← parseInc? i
    let acts ← parseChgActs 0 acts
    let e' : Option (Option (Val × Nat) → Option (Val × Nat) → Bool) :=
      e.map (fun e a b => e (a.map Prod.fst) (b.map Prod.fst))
    let inc' : Option (Val × Nat → Bool) := inc.map (fun f p => f p.1)
    let r := mergerRun [] acts
    pure ("m=" ++ ",".intercalate (r.1.map showChg) ++ " q=" ++ ",".intercalate (r.2.map showChg) ++
      " d=" ++ ",".intercalate ((freeDeliveries e' (fun p => (flt p.1, p.2)) inc' acts).map showChg))
  | _ => none

/-- Finite rational of an `F` token. -/
def parseFin? (s : String) : Option Rat :=
  match parseF? s with
  | some (.fin q _) => some q
  | _ => none

def showRat (q : Rat) : String := toString q.num ++ "/" ++ toString q.den

/-- The rounded tier (Rounded.lean): the comparers' arithmetic over exact rationals with `rne64` applied where
binary64 rounds; `far` is the whole comparer on any float values, overflow to ±Inf included (RoundedF.lean). -/
def handleR? (toks : List String) : Option String :=
  match toks with
  | ["far", fr, mg, x, y] => do
    let fr ← parseF? fr
    let mg ← parseF? mg
    let x ← parseF? x
    let y ← parseF? y
    pure (showBool (floatValueApproxR rne64 maxFloat64 fr mg (.sc (.float x)) (.sc (.float y))).1)
  | ["dpr", p, x, y] => do
    let p ← parseFin? p
    let x ← parseInt? x
    let y ← parseInt? y
    pure (showBool (durWithinPR rne64 p x y))
  | ["rne", n, d] => do
    let n ← parseInt? n
    let d ← parseNat? d
    if d = 0 then none
    else
      let r := rne64 ((n : Rat) / (d : Rat))
      if maxFloat64 < r.abs then pure "overflow" else pure (showRat r)
  | _ => none

/-- `Collection.Update`'s announcement (Update.lean): `cupd <createIfAbsent> <expectAbsent> <first> <again> <new>`,
messages as small numbers (0 = the empty message), `-` = nothing stored; the change function is the constant
`new` (the value the real write returned). -/
def handleU? (toks : List String) : Option String :=
  let parseOpt? (s : String) : Option (Option Nat) := if s == "-" then some none else (parseNat? s).map some
  let parseB? (s : String) : Option Bool := if s == "1" then some true else if s == "0" then some false else none
  let showOpt (o : Option Nat) : String := match o with | some n => toString n | none => "-"
  match toks with
  | ["cupd", ci, ea, first, again, new] => do
    let ci ← parseB? ci
    let ea ← parseB? ea
    let first ← parseOpt? first
    let again ← parseOpt? again
    let new ← parseNat? new
    match collUpdate ⟨ci, ea⟩ 0 first again (fun _ => new) with
    | .error .notFound => pure "err:NotFound"
    | .error .alreadyExists => pure "err:AlreadyExists"
    | .error .aborted => pure "err:Aborted"
    | .ok a => pure ((match a.type with | .add => "ADD" | .update => "UPDATE") ++ " " ++ showOpt a.old ++ " " ++ toString a.new)
  | _ => none

def handle (toks : List String) : String :=
  match handle? toks with
  | some r => r
  | none =>
    match IEEE.handle? toks with
    | some r => r
    | none =>
      match handleR? toks with
      | some r => r
      | none =>
        match handleU? toks with
        | some r => r
        | none => "!bad-op"

end ScVerif.C16
