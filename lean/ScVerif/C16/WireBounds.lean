import ScVerif.C16.Wire
/-! Bounds of the wire-record cutter: every record is at least one byte long and never longer than the input
(so the Go loop `x[:n]; x = x[n:]` neither panics nor stalls on parsable input), and the fuel of the model is
immaterial. -/
namespace ScVerif.C16

theorem consumeVarintFrom_bounds : ∀ (b : Bytes) (i v n : Nat),
    consumeVarintFrom i b = some (v, n) → 1 ≤ n ∧ n ≤ b.length
  | [], _, _, _, h => by simp [consumeVarintFrom] at h
  | c :: rest, i, v, n, h => by
    simp only [consumeVarintFrom] at h
    split at h
    · split at h
      · simp only [Option.some.injEq, Prod.mk.injEq] at h; simp [← h.2]
      · cases h
    · split at h
      · simp only [Option.some.injEq, Prod.mk.injEq] at h; simp [← h.2]
      · split at h
        · rename_i v' n' hrec
          simp only [Option.some.injEq, Prod.mk.injEq] at h
          have := consumeVarintFrom_bounds rest (i + 1) v' n' hrec
          simp only [List.length_cons]
          omega
        · cases h

theorem consumeTag_bounds (b : Bytes) (num typ n : Nat) (h : consumeTag b = some (num, typ, n)) :
    1 ≤ n ∧ n ≤ b.length := by
  unfold consumeTag consumeVarint at h
  split at h
  · cases h
  · rename_i v n' hv
    split at h
    · cases h
    · split at h
      · cases h
      · simp only [Option.some.injEq, Prod.mk.injEq] at h
        have := consumeVarintFrom_bounds b 0 v n' hv
        omega

theorem consumeValue_bounds : ∀ fuel : Nat,
    (∀ (num typ : Nat) (b : Bytes) (m : Nat), consumeFieldValue fuel num typ b = some m → m ≤ b.length) ∧
    (∀ (num : Nat) (b : Bytes) (r : Nat), consumeGroup fuel num b = some r → r ≤ b.length) := by
  intro fuel
  induction fuel with
  | zero =>
    constructor
    · intro num typ b m h
      unfold consumeFieldValue at h
      split at h
      · split at h
        · rename_i v n hv
          simp only [Option.some.injEq] at h
          have := consumeVarintFrom_bounds b 0 v n hv
          omega
        · cases h
      · split at h
        · split at h
          · cases h
          · simp only [Option.some.injEq] at h; omega
        · split at h
          · split at h
            · cases h
            · simp only [Option.some.injEq] at h; omega
          · split at h
            · split at h
              · rename_i mm n hv
                split at h
                · cases h
                · simp only [Option.some.injEq] at h
                  have := consumeVarintFrom_bounds b 0 mm n hv
                  omega
              · cases h
            · split at h
              · simp at h
              · cases h
    · intro num b r h
      simp [consumeGroup] at h
  | succ fuel ih =>
    have hgroup : ∀ (num : Nat) (b : Bytes) (r : Nat), consumeGroup (fuel + 1) num b = some r → r ≤ b.length := by
      intro num b r h
      simp only [consumeGroup] at h
      split at h
      · cases h
      · rename_i num2 typ2 n htag
        have hn := consumeTag_bounds b num2 typ2 n htag
        split at h
        · split at h
          · cases h
          · simp only [Option.some.injEq] at h; omega
        · split at h
          · cases h
          · rename_i m hm
            have hm' := ih.1 num2 typ2 (b.drop n) m hm
            split at h
            · cases h
            · rename_i r' hr
              have hr' := ih.2 num (b.drop (n + m)) r' hr
              simp only [Option.some.injEq] at h
              simp only [List.length_drop] at hm' hr'
              omega
    constructor
    · intro num typ b m h
      unfold consumeFieldValue at h
      split at h
      · split at h
        · rename_i v n hv
          simp only [Option.some.injEq] at h
          have := consumeVarintFrom_bounds b 0 v n hv
          omega
        · cases h
      · split at h
        · split at h
          · cases h
          · simp only [Option.some.injEq] at h; omega
        · split at h
          · split at h
            · cases h
            · simp only [Option.some.injEq] at h; omega
          · split at h
            · split at h
              · rename_i mm n hv
                split at h
                · cases h
                · simp only [Option.some.injEq] at h
                  have := consumeVarintFrom_bounds b 0 mm n hv
                  omega
              · cases h
            · split at h
              · exact ih.2 num b m h
              · cases h
    · exact hgroup

theorem consumeField_bounds (b : Bytes) (num n : Nat) (h : consumeField b = some (num, n)) :
    1 ≤ n ∧ n ≤ b.length := by
  unfold consumeField at h
  split at h
  · cases h
  · rename_i num' typ k htag
    have hk := consumeTag_bounds b num' typ k htag
    split at h
    · cases h
    · rename_i m hm
      have := (consumeValue_bounds b.length).1 num' typ (b.drop k) m hm
      simp only [Option.some.injEq, Prod.mk.injEq] at h
      simp only [List.length_drop] at this
      omega

/-- Fuel is immaterial once it covers the input: the Go loop has none. -/
theorem splitRecords_fuel : ∀ (f1 f2 : Nat) (b : Bytes), b.length ≤ f1 → b.length ≤ f2 →
    splitRecords f1 b = splitRecords f2 b
  | _, _, [], _, _ => by simp [splitRecords]
  | 0, _, _ :: _, h, _ => by simp at h
  | _ + 1, 0, _ :: _, _, h => by simp at h
  | f1 + 1, f2 + 1, c :: b, h1, h2 => by
    simp only [splitRecords]
    cases hc : consumeField (c :: b) with
    | none => rfl
    | some p =>
      obtain ⟨num, n⟩ := p
      have hb := consumeField_bounds (c :: b) num n hc
      have hl : ((c :: b).drop n).length ≤ b.length := by
        simp only [List.length_drop, List.length_cons]; omega
      simp only [List.length_cons] at h1 h2
      simp only []
      rw [splitRecords_fuel f1 f2 ((c :: b).drop n) (by omega) (by omega)]

end ScVerif.C16
