import ScVerif.C16.Spec
/-! Lemmas towards `equal [] x y ↔ PEqTop ignoredField x y`. -/
namespace ScVerif.C16

/-- `Equal()`'s value comparer: `ValueAnd()` claims nothing. -/
theorem valueAnd_nil (x y : Val) : valueAnd [] x y = (true, false) := rfl

/-! ## lists without duplicates -/

theorem subset_of_length_eq {α : Type} [DecidableEq α] :
    ∀ (xs ys : List α), xs.Nodup → (∀ a ∈ xs, a ∈ ys) → ys.length ≤ xs.length → ∀ a ∈ ys, a ∈ xs
  | [], ys, _, _, hlen, a, ha => by
    have : ys = [] := List.eq_nil_of_length_eq_zero (by simpa using hlen)
    subst this; cases ha
  | x :: xs, ys, hnd, hsub, hlen, a, ha => by
    rw [List.nodup_cons] at hnd
    have hx : x ∈ ys := hsub x (List.mem_cons_self ..)
    have hsub' : ∀ b ∈ xs, b ∈ ys.erase x := by
      intro b hb
      have hbx : b ≠ x := fun h => hnd.1 (h ▸ hb)
      exact (List.mem_erase_of_ne hbx).2 (hsub b (List.mem_cons_of_mem _ hb))
    have hl : (ys.erase x).length = ys.length - 1 := by rw [List.length_erase]; simp [hx]
    have hpos : 1 ≤ ys.length := List.length_pos_of_mem hx
    have hlen' : (ys.erase x).length ≤ xs.length := by
      simp only [List.length_cons] at hlen; omega
    by_cases hax : a = x
    · subst hax; exact List.mem_cons_self ..
    · have : a ∈ ys.erase x := (List.mem_erase_of_ne hax).2 ha
      exact List.mem_cons_of_mem _ (subset_of_length_eq xs (ys.erase x) hnd.2 hsub' hlen' a this)

theorem length_eq_of_same_elems {α : Type} (xs ys : List α) (hx : xs.Nodup) (hy : ys.Nodup)
    (h : ∀ a, a ∈ xs ↔ a ∈ ys) : xs.length = ys.length :=
  ((List.perm_ext_iff_of_nodup hx hy).2 h).length_eq

/-! ## lookups -/

theorem Fields.get?_isSome : ∀ (fs : Fields) (fd : FD), (fs.get? fd).isSome = true ↔ fd ∈ fs.keys
  | .nil, _ => by simp [Fields.get?, Fields.keys]
  | .cons k _ rest, fd => by
    simp only [Fields.get?, Fields.keys, List.mem_cons]
    by_cases h : k = fd
    · simp [h]
    · simp only [h, if_false, Fields.get?_isSome rest fd]
      constructor
      · intro h'; exact Or.inr h'
      · rintro (h' | h')
        · exact absurd h'.symm h
        · exact h'

theorem Entries.get?_isSome : ∀ (es : Entries) (k : Scalar), (es.get? k).isSome = true ↔ k ∈ es.keys
  | .nil, _ => by simp [Entries.get?, Entries.keys]
  | .cons k0 _ rest, k => by
    simp only [Entries.get?, Entries.keys, List.mem_cons]
    by_cases h : k0 = k
    · simp [h]
    · simp only [h, if_false, Entries.get?_isSome rest k]
      constructor
      · intro h'; exact Or.inr h'
      · rintro (h' | h')
        · exact absurd h'.symm h
        · exact h'

theorem Fields.WF_get? : ∀ (fs : Fields) (fd : FD) (a : FVal), Fields.WF fs → fs.get? fd = some a → FVal.WF a
  | .nil, _, _, _, h => by simp [Fields.get?] at h
  | .cons k fv rest, fd, a, hwf, h => by
    simp only [Fields.WF] at hwf
    simp only [Fields.get?] at h
    by_cases hk : k = fd
    · simp only [hk, if_true, Option.some.injEq] at h
      subst h; exact hwf.1
    · simp only [hk, if_false] at h
      exact Fields.WF_get? rest fd a hwf.2 h

theorem Entries.WF_get? : ∀ (es : Entries) (k : Scalar) (a : Val), Entries.WF es → es.get? k = some a → Val.WF a
  | .nil, _, _, _, h => by simp [Entries.get?] at h
  | .cons k0 v rest, k, a, hwf, h => by
    simp only [Entries.WF] at hwf
    simp only [Entries.get?] at h
    by_cases hk : k0 = k
    · simp only [hk, if_true, Option.some.injEq] at h
      subst h; exact hwf.1
    · simp only [hk, if_false] at h
      exact Entries.WF_get? rest k a hwf.2 h

/-- The non-ignored field descriptors, in order. -/
def keysN (p : String) (fs : Fields) : List FD := fs.keys.filter (fun fd => !ignoredField p fd)

theorem countFields_eq : ∀ (p : String) (fs : Fields), countFields p fs = (keysN p fs).length
  | _, .nil => rfl
  | p, .cons fd _ rest => by
    simp only [countFields, keysN, Fields.keys, List.filter_cons]
    have := countFields_eq p rest
    simp only [keysN] at this
    cases h : ignoredField p fd <;> simp [this]

theorem Entries.len_eq : ∀ (es : Entries), es.len = es.keys.length
  | .nil => rfl
  | .cons _ _ rest => by simp [Entries.len, Entries.keys, Entries.len_eq rest]

/-! ## the two `Range` loops, as statements about lookups -/

theorem eqFieldsLoop_iff (c : VCmp) (p : String) :
    ∀ (xs fy : Fields), xs.keys.Nodup →
      (eqFieldsLoop c p xs fy = true ↔
        ∀ fd a, ignoredField p fd = false → xs.get? fd = some a → ∃ b, fy.get? fd = some b ∧ eqField c a b = true)
  | .nil, fy, _ => by simp [eqFieldsLoop, Fields.get?]
  | .cons k fv rest, fy, hnd => by
    simp only [Fields.keys, List.nodup_cons] at hnd
    have ih := eqFieldsLoop_iff c p rest fy hnd.2
    have hrest : ∀ fd a, rest.get? fd = some a → (Fields.cons k fv rest).get? fd = some a := by
      intro fd a h
      have hmem : fd ∈ rest.keys := (Fields.get?_isSome rest fd).1 (by simp [h])
      have hne : k ≠ fd := fun e => hnd.1 (e ▸ hmem)
      simp [Fields.get?, hne, h]
    simp only [eqFieldsLoop]
    cases hi : ignoredField p k
    · simp only [Bool.false_eq_true, if_false, Bool.and_eq_true, ih]
      constructor
      · rintro ⟨h1, h2⟩ fd a hfd hget
        simp only [Fields.get?] at hget
        by_cases hk : k = fd
        · simp only [hk, if_true, Option.some.injEq] at hget
          subst hget; subst hk
          cases hb : fy.get? k with
          | none => simp [hb] at h1
          | some b => exact ⟨b, rfl, by simpa [hb] using h1⟩
        · simp only [hk, if_false] at hget
          exact h2 fd a hfd hget
      · intro h
        constructor
        · obtain ⟨b, hb, he⟩ := h k fv hi (by simp [Fields.get?])
          simp [hb, he]
        · intro fd a hfd hget
          exact h fd a hfd (hrest fd a hget)
    · simp only [if_true, ih]
      constructor
      · intro h fd a hfd hget
        simp only [Fields.get?] at hget
        by_cases hk : k = fd
        · subst hk; rw [hi] at hfd; cases hfd
        · simp only [hk, if_false] at hget
          exact h fd a hfd hget
      · intro h fd a hfd hget
        exact h fd a hfd (hrest fd a hget)

theorem eqMapLoop_iff (c : VCmp) :
    ∀ (xs ys : Entries), xs.keys.Nodup →
      (eqMapLoop c xs ys = true ↔
        ∀ k a, xs.get? k = some a → ∃ b, ys.get? k = some b ∧ eqValue c a b = true)
  | .nil, ys, _ => by simp [eqMapLoop, Entries.get?]
  | .cons k0 v rest, ys, hnd => by
    simp only [Entries.keys, List.nodup_cons] at hnd
    have ih := eqMapLoop_iff c rest ys hnd.2
    have hrest : ∀ k a, rest.get? k = some a → (Entries.cons k0 v rest).get? k = some a := by
      intro k a h
      have hmem : k ∈ rest.keys := (Entries.get?_isSome rest k).1 (by simp [h])
      have hne : k0 ≠ k := fun e => hnd.1 (e ▸ hmem)
      simp [Entries.get?, hne, h]
    simp only [eqMapLoop, Bool.and_eq_true, ih]
    constructor
    · rintro ⟨h1, h2⟩ k a hget
      simp only [Entries.get?] at hget
      by_cases hk : k0 = k
      · simp only [hk, if_true, Option.some.injEq] at hget
        subst hget; subst hk
        cases hb : ys.get? k0 with
        | none => simp [hb] at h1
        | some b => exact ⟨b, rfl, by simpa [hb] using h1⟩
      · simp only [hk, if_false] at hget
        exact h2 k a hget
    · intro h
      constructor
      · obtain ⟨b, hb, he⟩ := h k0 v (by simp [Entries.get?])
        simp [hb, he]
      · intro k a hget
        exact h k a (hrest k a hget)

/-! ## unknown fields -/

theorem eqUnknown_iff_code (x y : Unk) : eqUnknown x y = true ↔
    (unkBytes x = unkBytes y ∨ ((unkBytes x).length = (unkBytes y).length ∧ ∀ n, unkGroup n x = unkGroup n y)) := by
  unfold eqUnknown unkLen
  by_cases hl : (unkBytes x).length = (unkBytes y).length
  · by_cases hb : unkBytes x = unkBytes y
    · simp [hb]
    · simp only [hl, bne_self_eq_false, Bool.false_eq_true, if_false, beq_iff_eq, hb, false_or, true_and,
        List.all_eq_true, List.mem_map, List.mem_append]
      constructor
      · intro h n
        by_cases hn : ∃ r, (r ∈ x ∨ r ∈ y) ∧ r.1 = n
        · obtain ⟨r, hr, rfl⟩ := hn
          exact h r.1 ⟨r, hr, rfl⟩
        · have hx : x.filter (fun r => r.1 == n) = [] := by
            simp only [List.filter_eq_nil_iff, beq_iff_eq]
            intro r hr hrn; exact hn ⟨r, Or.inl hr, hrn⟩
          have hy : y.filter (fun r => r.1 == n) = [] := by
            simp only [List.filter_eq_nil_iff, beq_iff_eq]
            intro r hr hrn; exact hn ⟨r, Or.inr hr, hrn⟩
          simp [unkGroup, hx, hy]
      · rintro h n ⟨r, _, rfl⟩
        exact h r.1
  · have hb : unkBytes x ≠ unkBytes y := fun e => hl (by rw [e])
    simp [hl, hb]

/-! ## scalars -/

theorem scalarEq_iff (a b : Scalar) : scalarEq a b = true ↔ a.canon = b.canon := by
  cases a <;> cases b <;> simp [scalarEq, Scalar.canon]
  rename_i f g
  cases f <;> cases g <;> simp [F.isNaN, F.eq, F.canon]

end ScVerif.C16
