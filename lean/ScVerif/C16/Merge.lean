import ScVerif.C16.Pull
/-!
# C16 — the LOSSY path of `Collection.Pull`: `mergeCollectionExcess` / `mergeChanges`
(`pkg/resource/backpressure.go`) in front of the equivalence check

Without `WithBackpressure` the events of the bus go through `mergeCollectionExcess` before the
`for event := range emit` loop of `Collection.Pull` sees them: while the loop is busy (blocked sending to a
slow subscriber) the changes of one id are folded into ONE pending change by `mergeChanges`, pending
changes wait in a queue ordered by the arrival of their latest part.  The loop then applies the
equivalence to the pending change's `OldValue` / `NewValue`.  So "what the subscriber holds" is right only if
the merged change keeps the `OldValue` of its FIRST part and the `NewValue` of its LAST part.

The model is generic in the value type `α` (the driver instantiates it with a message tree tagged by the
position of the value in the request, so that the harness can compare WHICH old and new value the real
code delivered).  `LastSeedValue` (or-ed by `mergeChanges`) takes no part: events of the bus are never seeds.
-/
namespace ScVerif.C16

/-- `types.ChangeType`. -/
inductive CT where
  | unspecified | add | update | remove | replace
  deriving DecidableEq, Repr, Inhabited

/-- `resource.CollectionChange` (id, type, old and new value). -/
structure Chg (α : Type) where
  id : String
  ct : CT
  old : Option α
  new : Option α

/-- `mergeChanges(a, b)`; `none` is `send = false` (an ADD followed by a REMOVE: nothing to report). -/
def mergeChanges {α : Type} (a b : Chg α) : Option (Chg α) :=
  match a.ct with
  | .add =>
    match b.ct with
    | .add => some b
    | .update | .replace => some { b with ct := .add, old := none }
    | .remove => none
    | .unspecified => some b
  | .update =>
    some { b with old := a.old, ct := if b.ct = .add then .replace else b.ct }
  | .replace =>
    some { b with old := a.old, ct := if b.ct = .add ∨ b.ct = .update then .replace else b.ct }
  | .remove =>
    some { b with old := a.old, ct := if b.ct ≠ .remove then .replace else b.ct }
  | .unspecified => some b

/-- One receive of the merger goroutine while its consumer is busy. The state is the queue of pending
changes (`messages` map + `queue` list: one pending change per id, in queue order). -/
def mergerRecv {α : Type} (q : List (Chg α)) (b : Chg α) : List (Chg α) :=
  match q.find? (fun c => c.id == b.id) with
  | some a =>
    let q' := q.eraseP (fun c => c.id == b.id)
    match mergeChanges a b with
    | some c => q' ++ [c]
    | none => q'
  | none => q ++ [b]

/-- A window: the consumer is busy while `evs` arrive; afterwards the queue is drained front to back. -/
def mergerWindow {α : Type} (evs : List (Chg α)) : List (Chg α) := evs.foldl mergerRecv []

/-- What happens to the changes of ONE id in a window: `none` = nothing pending. -/
def mergeFold {α : Type} : Option (Chg α) → List (Chg α) → Option (Chg α)
  | p, [] => p
  | none, b :: rest => mergeFold (some b) rest
  | some a, b :: rest => mergeFold (mergeChanges a b) rest

/-- The body of `Collection.Pull`'s event loop on a (merged) change, no include filter: read-mask filter,
then the equivalence on the change's own old/new; returns the change as sent and whether it is sent. -/
def lossyStep {α : Type} (E : Option (Option α → Option α → Bool)) (flt : α → α) (c : Chg α) : Chg α × Bool :=
  let o := c.old.map flt
  let n := c.new.map flt
  ({ c with old := o, new := n }, match E with | some e => !e o n | none => true)

/-- `CollectionChange.include` on a (merged) change: `none` when old and new value are both outside the
include filter; a change crossing the boundary becomes an ADD without old value / a REMOVE without new value.
An absent value is never included. -/
def includeChg {α : Type} (inc : Option (α → Bool)) (c : Chg α) : Option (Chg α) :=
  match inc with
  | none => some c
  | some f =>
    let oldInc := match c.old with | some v => f v | none => false
    let newInc := match c.new with | some v => f v | none => false
    if oldInc == newInc then (if newInc then some c else none)
    else if newInc then some { c with ct := .add, old := none }
    else some { c with ct := .remove, new := none }

/-- The whole body of the loop on one (merged) change: include, read-mask filter, equivalence. -/
def lossyStepI {α : Type} (E : Option (Option α → Option α → Bool)) (flt : α → α) (inc : Option (α → Bool))
    (c : Chg α) : Option (Chg α × Bool) :=
  (includeChg inc c).map (lossyStep E flt)

/-- A parked window end to end: merge, then the loop; the changes the subscriber receives, in order. -/
def lossyWindow {α : Type} (E : Option (Option α → Option α → Bool)) (flt : α → α) (inc : Option (α → Bool))
    (evs : List (Chg α)) : List (Chg α) :=
  ((mergerWindow evs).filterMap (lossyStepI E flt inc)).filterMap (fun p => if p.2 then some p.1 else none)

/-- The subscriber's copy of an item after a window: the new value of the delivered change, or what it held
before when nothing was delivered. -/
def viewAfter {α : Type} (E : Option α → Option α → Bool) (flt : α → α) (held : Option α) (evs : List (Chg α)) :
    Option α :=
  match (mergeFold none evs).map (lossyStep (some E) flt) with
  | some (c, true) => c.new
  | _ => held

/-- The events `Collection` publishes for one id `i`, taking the stored item from `s` to `e`:
`Add` (ADD, no old value), `Update` (UPDATE old → new), `Delete` (REMOVE, no new value). -/
inductive IdChain {α : Type} (i : String) : Option α → List (Chg α) → Option α → Prop
  | done (s : Option α) : IdChain i s [] s
  | add (v : α) {rest : List (Chg α)} {e : Option α} :
      IdChain i (some v) rest e → IdChain i none (⟨i, .add, none, some v⟩ :: rest) e
  | update (u v : α) {rest : List (Chg α)} {e : Option α} :
      IdChain i (some v) rest e → IdChain i (some u) (⟨i, .update, some u, some v⟩ :: rest) e
  | remove (u : α) {rest : List (Chg α)} {e : Option α} :
      IdChain i none rest e → IdChain i (some u) (⟨i, .remove, some u, none⟩ :: rest) e

end ScVerif.C16
