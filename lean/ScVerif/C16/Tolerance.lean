import ScVerif.C16.Equator
/-!
# C16 — model of `pkg/cmp/number.go` and `pkg/cmp/time.go`

Floats: exact arithmetic on `F` (NaN / ±Inf / exact rational).  Timestamps: `time.Time` instants as
`Int` nanoseconds since the epoch (exact; `time.Time` covers far more than int64 nanoseconds) with
`Time.Sub` saturating at ±(2^63-1 / -2^63) as in Go.  Durations: `time.Duration` = int64 nanoseconds,
`AsDuration` saturating as in durationpb, subtraction wrapping as in Go (`wrap64`).
-/
namespace ScVerif.C16

def maxI64 : Int := 9223372036854775807
def minI64 : Int := -9223372036854775808

/-- Two's complement wrap-around of an int64 result. -/
def wrap64 (i : Int) : Int := (i + 9223372036854775808) % 18446744073709551616 - 9223372036854775808

/-- Saturation to the int64 range. -/
def sat64 (i : Int) : Int := if i > maxI64 then maxI64 else if i < minI64 then minI64 else i

/-! ## number.go -/

/-- The arithmetic of `FloatValueApprox` on two float values. -/
def floatApproxF (fraction margin : F) (fx fy : F) : Bool :=
  let relMarg := F.mul fraction (F.min (F.abs fx) (F.abs fy))
  F.le (F.abs (F.sub fx fy)) (F.max margin relMarg)

/-- `FloatValueApprox(fraction, margin)`: NaN is only equal to NaN, an infinity only to itself,
finite values by the arithmetic above. -/
def floatValueApprox (fraction margin : F) : VCmp
  | .sc (.float fx), .sc (.float fy) =>
    if fx.isNaN || fy.isNaN then (fx.isNaN && fy.isNaN, true)
    else if !fx.isFinite || !fy.isFinite then (F.eq fx fy, true)
    else (floatApproxF fraction margin fx fy, true)
  | _, _ => (false, false)

/-! ## time.go -/

def tsName : String := "google.protobuf.Timestamp"
def durName : String := "google.protobuf.Duration"

/-- `Timestamp.AsTime()` as an instant in nanoseconds: `time.Unix(seconds, nanos)`. -/
def toTimeNs (fs : Fields) : Int := intField fs 1 * 1000000000 + intField fs 2

/-- `t.Sub(u)`: the difference, saturated to the Duration range. -/
def timeSub (t u : Int) : Int := sat64 (t - u)

/-- The arithmetic of `TimeValueWithin` on two instants. -/
def timeWithinT (d : Int) (xt yt : Int) : Bool :=
  if xt < yt then decide (timeSub yt xt ≤ d) else decide (timeSub xt yt ≤ d)

/-- `TimeValueWithin(d)`. -/
def timeValueWithin (d : Int) : VCmp
  | .msg tx vx fx _, .msg ty vy fy _ =>
    let xIs := tx == tsName
    let yIs := ty == tsName
    if !xIs && !yIs then (false, false)
    else if xIs != yIs then (false, true)
    else if !vx || !vy then (vx == vy, true)
    else (timeWithinT d (toTimeNs fx) (toTimeNs fy), true)
  | _, _ => (false, false)

/-- `Duration.AsDuration()`: seconds·1e9 + nanos in int64 with durationpb's overflow saturation. -/
def toDurationNs (fs : Fields) : Int :=
  let secs := intField fs 1
  let nanos := intField fs 2
  let d := wrap64 (secs * 1000000000)
  let overflow := decide (Int.tdiv d 1000000000 ≠ secs)
  let d := wrap64 (d + nanos)
  let overflow := overflow || (decide (secs < 0) && decide (nanos < 0) && decide (d > 0))
  let overflow := overflow || (decide (secs > 0) && decide (nanos > 0) && decide (d < 0))
  if overflow then (if secs < 0 then minI64 else if secs > 0 then maxI64 else d) else d

/-- `cmpDuration`: `(xd, yd, equal, ok, returnEarly)`. -/
def cmpDuration : Val → Val → Int × Int × Bool × Bool × Bool
  | .msg tx vx fx _, .msg ty vy fy _ =>
    let xIs := tx == durName
    let yIs := ty == durName
    if !xIs && !yIs then (0, 0, false, false, true)
    else if xIs != yIs then (0, 0, false, true, true)
    else if !vx || !vy then (0, 0, vx == vy, true, true)
    else (toDurationNs fx, toDurationNs fy, false, false, false)
  | _, _ => (0, 0, false, false, true)

/-- The arithmetic of `DurationValueWithin` on two int64 durations: order them, subtract (Go's `-` wraps),
and reject a negative (overflowed) difference. -/
def durWithinD (d : Int) (xd yd : Int) : Bool :=
  let hi := if xd < yd then yd else xd
  let lo := if xd < yd then xd else yd
  let diff := wrap64 (hi - lo)
  decide (0 ≤ diff) && decide (diff ≤ d)

/-- `DurationValueWithin(d)`. -/
def durationValueWithin (d : Int) : VCmp := fun x y =>
  let (xd, yd, equal, ok, early) := cmpDuration x y
  if early then (equal, ok) else (durWithinD d xd yd, true)

/-- The arithmetic of `DurationValueWithinP` ("within p percent of each other"):
`fx, fy := float64(xd), float64(yd); math.Abs(fx-fy)*100 <= float64(p)*math.Min(math.Abs(fx), math.Abs(fy))`
(conversions, difference and products exact in the model). -/
def durWithinPD (p : F) (xd yd : Int) : Bool :=
  let fx := F.ofRat xd
  let fy := F.ofRat yd
  F.le (F.mul (F.abs (F.sub fx fy)) (F.ofRat 100)) (F.mul p (F.min (F.abs fx) (F.abs fy)))

/-- The smaller of the two magnitudes. -/
def minAbs (x y : Int) : Rat := if (x : Rat).abs < (y : Rat).abs then (x : Rat).abs else (y : Rat).abs

/-- `DurationValueWithinP(p)`. -/
def durationValueWithinP (p : F) : VCmp := fun x y =>
  let (xd, yd, equal, ok, early) := cmpDuration x y
  if early then (equal, ok) else (durWithinPD p xd yd, true)

end ScVerif.C16
