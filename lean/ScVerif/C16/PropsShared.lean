import ScVerif.C16.SharedLemmas
import ScVerif.C16.FieldsLemmas
/-!
# C16 — theorems: subscribers of one collection do not disturb each other's equivalence check

Round 8. The change a write publishes is one object handed to every subscriber; the theorems quantify over
ANY number of subscribers (indexed by Nat), any read masks, include predicates and equivalence, any event, and
EVERY schedule (list of subscriber numbers: who performs its next step - include, read mask, equivalence
check). Tied to the code by the neighbour runs of the pull tie (harness neighbours.go), in which the
interleaving "the neighbours adapt the shared event first" is forced through the include predicates.
-/
namespace ScVerif.C16

/-- Whatever the interleaving of any number of subscribers, handling an event never changes the published
object. -/
theorem C16_shared_event_unchanged (E : Option MCmp) (cfg : Nat → SubCfg) (ev : CEvent) (sched : List Nat) :
    (sysRun includeFresh E cfg (SharedSys.init ev) sched).cell = ev :=
  (sysRun_solo E cfg ev sched (SharedSys.init ev) rfl (fun _ => trivial)).1

/-- NON-INTERFERENCE: under every schedule, with any number of subscribers, any read masks and include
predicates, a subscriber that has finished with the event has decided exactly what it decides when it is the
only subscriber (`collPullStep`: include, read mask, equivalence on the published old / new value). -/
theorem C16_shared_event_noninterference (E : Option MCmp) (cfg : Nat → SubCfg) (ev : CEvent)
    (sched : List Nat) (i : Nat) (d : Option CDecision)
    (h : (sysRun includeFresh E cfg (SharedSys.init ev) sched).pc i = .done d) :
    d = collPullStep E (cfg i).flt (cfg i).inc ev := by
  have := (sysRun_solo E cfg ev sched (SharedSys.init ev) rfl (fun _ => trivial)).2 i
  rw [h] at this
  exact this

/-- PROGRESS (for ANY implementation of include): a subscriber that moves three times has finished. -/
theorem C16_shared_event_progress (impl : IncludeImpl) (E : Option MCmp) (cfg : Nat → SubCfg) (ev : CEvent)
    (sched : List Nat) (i : Nat) (h : 3 ≤ sched.count i) :
    ∃ d, (sysRun impl E cfg (SharedSys.init ev) sched).pc i = .done d := by
  apply rank_done
  have := sysRun_rank impl E cfg i sched (SharedSys.init ev)
  have h0 : ((SharedSys.init ev).pc i).rank = 0 := rfl
  rw [h0] at this
  omega

/-- Both together: every subscriber scheduled three times ends with its solo decision. -/
theorem C16_shared_event_decisions (E : Option MCmp) (cfg : Nat → SubCfg) (ev : CEvent)
    (sched : List Nat) (i : Nat) (h : 3 ≤ sched.count i) :
    (sysRun includeFresh E cfg (SharedSys.init ev) sched).pc i =
      .done (collPullStep E (cfg i).flt (cfg i).inc ev) := by
  obtain ⟨d, hd⟩ := C16_shared_event_progress includeFresh E cfg ev sched i h
  rw [hd, C16_shared_event_noninterference E cfg ev sched i d hd]

/-- Adapting the change IN PLACE is refuted: subscriber 0 has an include predicate that the update
crosses, subscriber 1 has none and holds the item; when 0 moves first, 1 delivers a change whose new value is
equivalent to its old one (its solo decision is: suppressed). -/
theorem C16_shared_event_in_place_fails :
    ∃ (E : Option MCmp) (cfg : Nat → SubCfg) (ev : CEvent) (sched : List Nat) (d : CDecision),
      (sysRun includeInPlace E cfg (SharedSys.init ev) sched).pc 1 = .done (some d) ∧ d.delivered = true ∧
      ∃ d', collPullStep E (cfg 1).flt (cfg 1).inc ev = some d' ∧ d'.delivered = false := by
  refine ⟨some anyPresent,
    fun i => if i = 0 then ⟨none, some (fun v => match v with | .sc (.bool b) => b | _ => false)⟩ else ⟨none, none⟩,
    ⟨some (.sc (.bool false)), some (.sc (.bool true))⟩, [0, 1, 1, 1],
    ⟨none, some (.sc (.bool true)), true⟩, ?_, rfl, ⟨some (.sc (.bool false)), some (.sc (.bool true)), false⟩, ?_, rfl⟩
  · rfl
  · rfl

/-- The schedule quantified over in the theorems reaches finished subscribers (non-vacuity). -/
example (E : Option MCmp) (cfg : Nat → SubCfg) (ev : CEvent) :
    (sysRun includeFresh E cfg (SharedSys.init ev) [1, 0, 1, 0, 0, 1]).pc 0 =
      .done (collPullStep E (cfg 0).flt (cfg 0).inc ev) :=
  C16_shared_event_decisions E cfg ev _ 0 (by decide)

/-- A message whose name merely ENDS in "Change" keeps its change_time in the comparison. -/
example : ignoredField "AudioLevelChange" ⟨2, "change_time"⟩ = false := by simp [ignoredField]
example : ignoredField "Change" ⟨2, "change_time"⟩ = true := by simp [ignoredField]
example : ignoredField "Change" ⟨4, "last_change_time"⟩ = false := by simp [ignoredField]

/-- The time comparers read a Timestamp / Duration through its fields number 1 (seconds) and 2 (nanos)
only: two messages of one type and validity that agree there get the same answer against every value, on
either side - whatever else differs (other populated fields, unknown fields; the Go representation is
not part of a message tree at all). This is what the repaired `toTime` / `toDuration` (/repo c524dfe) do
for a value that is not of the generated Go type: seconds and nanos by field number, then the same
`AsTime` / `AsDuration`. -/
theorem C16_time_comparers_read_seconds_nanos (t : String) (v : Bool) (fx fx' : Fields) (ux ux' : Unk) (y : Val)
    (h1 : intField fx 1 = intField fx' 1) (h2 : intField fx 2 = intField fx' 2) (d : Int) (p : F) :
    timeValueWithin d (.msg t v fx ux) y = timeValueWithin d (.msg t v fx' ux') y ∧
    timeValueWithin d y (.msg t v fx ux) = timeValueWithin d y (.msg t v fx' ux') ∧
    durationValueWithin d (.msg t v fx ux) y = durationValueWithin d (.msg t v fx' ux') y ∧
    durationValueWithin d y (.msg t v fx ux) = durationValueWithin d y (.msg t v fx' ux') ∧
    durationValueWithinP p (.msg t v fx ux) y = durationValueWithinP p (.msg t v fx' ux') y ∧
    durationValueWithinP p y (.msg t v fx ux) = durationValueWithinP p y (.msg t v fx' ux') := by
  have ht := toTimeNs_fields fx fx' h1 h2
  have hd := toDurationNs_fields fx fx' h1 h2
  refine ⟨?_, ?_, ?_, ?_, ?_, ?_⟩
  · cases y with
    | sc s => rfl
    | msg ty vy fy uy => simp only [timeValueWithin, ht]
  · cases y with
    | sc s => rfl
    | msg ty vy fy uy => simp only [timeValueWithin, ht]
  · simp only [durationValueWithin, cmpDuration_fields_left t v fx fx' ux ux' y hd]
  · simp only [durationValueWithin, cmpDuration_fields_right t v fx fx' ux ux' y hd]
  · simp only [durationValueWithinP, cmpDuration_fields_left t v fx fx' ux ux' y hd]
  · simp only [durationValueWithinP, cmpDuration_fields_right t v fx fx' ux ux' y hd]

end ScVerif.C16
