import ScVerif.C16.WireLemmas
/-! The main induction: `Equal()` is `PEq ignoredField`. -/
namespace ScVerif.C16

/-- `Equal()`'s value comparer. -/
abbrev noCmp : VCmp := valueAnd []

theorem mem_keysN (p : String) (fs : Fields) (fd : FD) :
    fd ∈ keysN p fs ↔ (fs.get? fd).isSome = true ∧ ignoredField p fd = false := by
  simp [keysN, List.mem_filter, Fields.get?_isSome]

theorem nodup_keysN (p : String) (fs : Fields) (h : fs.keys.Nodup) : (keysN p fs).Nodup :=
  List.Nodup.sublist (List.filter_sublist) h

theorem msg_iff (tx ty : String) (vx vy : Bool) (fx fy : Fields) (ux uy : Unk)
    (hx : fx.keys.Nodup) (hy : fy.keys.Nodup) (hux : WireCut ux) (huy : WireCut uy)
    (H : ∀ fd a b, fx.get? fd = some a → fy.get? fd = some b →
      (eqField noCmp a b = true ↔ FEq ignoredField a b)) :
    (tx == ty && eqFieldsLoop noCmp (shortName tx) fx fy &&
      (countFields (shortName tx) fx == countFields (shortName ty) fy) && eqUnknown ux uy) = true ↔
    PEq ignoredField (.msg tx vx fx ux) (.msg ty vy fy uy) := by
  constructor
  · intro h
    simp only [Bool.and_eq_true, beq_iff_eq] at h
    obtain ⟨⟨⟨ht, hloop⟩, hcount⟩, hunk⟩ := h
    subst ht
    rw [eqFieldsLoop_iff noCmp _ fx fy hx] at hloop
    rw [countFields_eq, countFields_eq] at hcount
    have hsub : ∀ fd ∈ keysN (shortName tx) fx, fd ∈ keysN (shortName tx) fy := by
      intro fd hfd
      rw [mem_keysN] at hfd ⊢
      cases ha : fx.get? fd with
      | none => simp [ha] at hfd
      | some a =>
        obtain ⟨b, hb, _⟩ := hloop fd a hfd.2 ha
        exact ⟨by simp [hb], hfd.2⟩
    have hsup := subset_of_length_eq _ _ (nodup_keysN _ fx hx) hsub (by omega)
    refine PEq.msg rfl ?_ ?_ ((eqUnknown_iff_wire ux uy hux huy).1 hunk)
    · intro fd hfd
      rw [Bool.eq_iff_iff]
      constructor
      · intro h1
        exact ((mem_keysN _ fy fd).1 (hsub fd ((mem_keysN _ fx fd).2 ⟨h1, hfd⟩))).1
      · intro h1
        exact ((mem_keysN _ fx fd).1 (hsup fd ((mem_keysN _ fy fd).2 ⟨h1, hfd⟩))).1
    · intro fd a b hfd ha hb
      obtain ⟨b', hb', he⟩ := hloop fd a hfd ha
      rw [hb] at hb'
      cases hb'
      exact (H fd a b ha hb).1 he
  · intro h
    cases h with
    | msg ht hsome hval hunk =>
      subst ht
      simp only [Bool.and_eq_true, beq_iff_eq, true_and, beq_self_eq_true]
      refine ⟨⟨?_, ?_⟩, (eqUnknown_iff_wire ux uy hux huy).2 hunk⟩
      · rw [eqFieldsLoop_iff noCmp _ fx fy hx]
        intro fd a hfd ha
        have h1 := hsome fd hfd
        rw [ha] at h1
        cases hb : fy.get? fd with
        | none => simp [hb] at h1
        | some b => exact ⟨b, rfl, (H fd a b ha hb).2 (hval fd a b hfd ha hb)⟩
      · rw [countFields_eq, countFields_eq]
        apply length_eq_of_same_elems _ _ (nodup_keysN _ fx hx) (nodup_keysN _ fy hy)
        intro fd
        rw [mem_keysN, mem_keysN]
        constructor
        · rintro ⟨h1, h2⟩; exact ⟨by rw [← hsome fd h2]; exact h1, h2⟩
        · rintro ⟨h1, h2⟩; exact ⟨by rw [hsome fd h2]; exact h1, h2⟩

theorem map_iff (xs ys : Entries) (hx : xs.keys.Nodup) (hy : ys.keys.Nodup)
    (H : ∀ k a b, xs.get? k = some a → ys.get? k = some b →
      (eqValue noCmp a b = true ↔ PEq ignoredField a b)) :
    ((xs.len == ys.len) && eqMapLoop noCmp xs ys) = true ↔ FEq ignoredField (.map xs) (.map ys) := by
  constructor
  · intro h
    simp only [Bool.and_eq_true, beq_iff_eq] at h
    obtain ⟨hlen, hloop⟩ := h
    rw [eqMapLoop_iff noCmp xs ys hx] at hloop
    rw [Entries.len_eq, Entries.len_eq] at hlen
    have hsub : ∀ k ∈ xs.keys, k ∈ ys.keys := by
      intro k hk
      rw [← Entries.get?_isSome] at hk ⊢
      cases ha : xs.get? k with
      | none => simp [ha] at hk
      | some a =>
        obtain ⟨b, hb, _⟩ := hloop k a ha
        simp [hb]
    have hsup := subset_of_length_eq _ _ hx hsub (by omega)
    refine FEq.map ?_ ?_
    · intro k
      rw [Bool.eq_iff_iff, Entries.get?_isSome, Entries.get?_isSome]
      exact ⟨hsub k, hsup k⟩
    · intro k a b ha hb
      obtain ⟨b', hb', he⟩ := hloop k a ha
      rw [hb] at hb'
      cases hb'
      exact (H k a b ha hb).1 he
  · intro h
    cases h with
    | map hsome hval =>
      simp only [Bool.and_eq_true, beq_iff_eq]
      refine ⟨?_, ?_⟩
      · rw [Entries.len_eq, Entries.len_eq]
        apply length_eq_of_same_elems _ _ hx hy
        intro k
        rw [← Entries.get?_isSome, ← Entries.get?_isSome, hsome k]
      · rw [eqMapLoop_iff noCmp xs ys hx]
        intro k a ha
        have h1 := hsome k
        rw [ha] at h1
        cases hb : ys.get? k with
        | none => simp [hb] at h1
        | some b => exact ⟨b, rfl, (H k a b ha hb).2 (hval k a b ha hb)⟩

theorem LEq_len : ∀ (xs ys : Vals), LEq ignoredField xs ys → xs.len = ys.len
  | .nil, .nil, _ => rfl
  | .cons _ r, .cons _ s, h => by
    cases h with
    | cons _ hr => simp [Vals.len, LEq_len r s hr]
  | .nil, .cons _ _, h => by cases h
  | .cons _ _, .nil, h => by cases h

mutual
  theorem value_iff : ∀ (x y : Val), Val.WF x → Val.WF y →
      (eqValue noCmp x y = true ↔ PEq ignoredField x y)
    | .sc a, .sc b, _, _ => by
      unfold eqValue
      simp only [valueAnd_nil, Bool.false_eq_true, if_false, scalarEq_iff]
      exact ⟨PEq.sc, fun h => by cases h; assumption⟩
    | .sc a, .msg _ _ _ _, _, _ => by
      unfold eqValue
      simp only [valueAnd_nil, Bool.false_eq_true, if_false, false_iff]
      intro h; cases h
    | .msg _ _ _ _, .sc b, _, _ => by
      unfold eqValue
      simp only [valueAnd_nil, Bool.false_eq_true, if_false, false_iff]
      intro h; cases h
    | .msg tx vx fx ux, .msg ty vy fy uy, hx, hy => by
      simp only [Val.WF] at hx hy
      unfold eqValue
      simp only [valueAnd_nil, Bool.false_eq_true, if_false]
      exact msg_iff tx ty vx vy fx fy ux uy hx.1 hy.1 hx.2.2 hy.2.2 (fields_iff fx fy hx.2.1 hy.2.1)
  theorem field_iff : ∀ (x y : FVal), FVal.WF x → FVal.WF y →
      (eqField noCmp x y = true ↔ FEq ignoredField x y)
    | .one a, .one b, hx, hy => by
      simp only [FVal.WF] at hx hy
      unfold eqField
      rw [value_iff a b hx hy]
      exact ⟨FEq.one, fun h => by cases h; assumption⟩
    | .list xs, .list ys, hx, hy => by
      simp only [FVal.WF] at hx hy
      unfold eqField
      simp only [Bool.and_eq_true, beq_iff_eq, list_iff xs ys hx hy]
      constructor
      · rintro ⟨_, h⟩; exact FEq.list h
      · intro h; cases h with
        | list h => exact ⟨LEq_len xs ys h, h⟩
    | .map xs, .map ys, hx, hy => by
      simp only [FVal.WF] at hx hy
      unfold eqField
      exact map_iff _ _ hx.1 hy.1 (entries_iff _ _ hx.2 hy.2)
    | .one _, .list _, _, _ => by unfold eqField; simp only [Bool.false_eq_true, false_iff]; intro h; cases h
    | .one _, .map _, _, _ => by unfold eqField; simp only [Bool.false_eq_true, false_iff]; intro h; cases h
    | .list _, .one _, _, _ => by unfold eqField; simp only [Bool.false_eq_true, false_iff]; intro h; cases h
    | .list _, .map _, _, _ => by unfold eqField; simp only [Bool.false_eq_true, false_iff]; intro h; cases h
    | .map _, .one _, _, _ => by unfold eqField; simp only [Bool.false_eq_true, false_iff]; intro h; cases h
    | .map _, .list _, _, _ => by unfold eqField; simp only [Bool.false_eq_true, false_iff]; intro h; cases h
  theorem fields_iff : ∀ (xs fy : Fields), Fields.WF xs → Fields.WF fy →
      ∀ fd a b, xs.get? fd = some a → fy.get? fd = some b →
      (eqField noCmp a b = true ↔ FEq ignoredField a b)
    | .nil, _, _, _, _, _, _, ha, _ => by simp [Fields.get?] at ha
    | .cons k fv rest, fy, hx, hy, fd, a, b, ha, hb => by
      simp only [Fields.WF] at hx
      simp only [Fields.get?] at ha
      by_cases hk : k = fd
      · simp only [hk, if_true, Option.some.injEq] at ha
        subst ha
        exact field_iff fv b hx.1 (Fields.WF_get? fy fd b hy hb)
      · simp only [hk, if_false] at ha
        exact fields_iff rest fy hx.2 hy fd a b ha hb
  theorem list_iff : ∀ (xs ys : Vals), Vals.WF xs → Vals.WF ys →
      (eqListLoop noCmp xs ys = true ↔ LEq ignoredField xs ys)
    | .nil, .nil, _, _ => by unfold eqListLoop; exact ⟨fun _ => LEq.nil, fun _ => rfl⟩
    | .cons a r, .cons b s, hx, hy => by
      simp only [Vals.WF] at hx hy
      unfold eqListLoop
      simp only [Bool.and_eq_true, value_iff a b hx.1 hy.1, list_iff r s hx.2 hy.2]
      constructor
      · rintro ⟨h1, h2⟩; exact LEq.cons h1 h2
      · intro h; cases h with
        | cons h1 h2 => exact ⟨h1, h2⟩
    | .nil, .cons _ _, _, _ => by unfold eqListLoop; simp only [Bool.false_eq_true, false_iff]; intro h; cases h
    | .cons _ _, .nil, _, _ => by unfold eqListLoop; simp only [Bool.false_eq_true, false_iff]; intro h; cases h
  theorem entries_iff : ∀ (xs ys : Entries), Entries.WF xs → Entries.WF ys →
      ∀ k a b, xs.get? k = some a → ys.get? k = some b →
      (eqValue noCmp a b = true ↔ PEq ignoredField a b)
    | .nil, _, _, _, _, _, _, ha, _ => by simp [Entries.get?] at ha
    | .cons k0 v rest, ys, hx, hy, k, a, b, ha, hb => by
      simp only [Entries.WF] at hx
      simp only [Entries.get?] at ha
      by_cases hk : k0 = k
      · simp only [hk, if_true, Option.some.injEq] at ha
        subst ha
        exact value_iff v b hx.1 (Entries.WF_get? ys k b hy hb)
      · simp only [hk, if_false] at ha
        exact entries_iff rest ys hx.2 hy k a b ha hb
end

/-- `equator.compare` with no value comparers is `PEqTop ignoredField`. -/
theorem equal_nil_iff (x y : Top) (hx : TopWF x) (hy : TopWF y) :
    equal [] x y = true ↔ PEqTop ignoredField x y := by
  cases x with
  | none => cases y <;> simp [equal, compare, PEqTop]
  | some x =>
    cases y with
    | none => simp [equal, compare, PEqTop]
    | some y =>
      cases x with
      | sc _ => exact absurd hx (by simp [TopWF])
      | msg tx vx fx ux =>
        cases y with
        | sc _ => exact absurd hy (by simp [TopWF])
        | msg ty vy fy uy =>
          have hv := value_iff (.msg tx vx fx ux) (.msg ty vy fy uy) hx hy
          unfold eqValue at hv
          simp only [valueAnd_nil, Bool.false_eq_true, if_false] at hv
          simp only [equal, compare, Val.isValid, eqMessage, PEqTop]
          by_cases hval : vx = vy
          · subst hval
            simp only [bne_self_eq_false, Bool.false_eq_true, if_false, true_and]
            exact hv
          · have : (vx != vy) = true := by simpa using hval
            simp [this, hval]

end ScVerif.C16
