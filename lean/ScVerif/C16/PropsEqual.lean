import ScVerif.C16.EqualMain
import ScVerif.C16.UnknownLemmas
import ScVerif.C16.WireLemmas
import ScVerif.C16.WirePrefix
/-!
# C16 — property theorems, part 2: the default comparer and protobuf equality

Only property theorems and their non-vacuity examples live in this file.
-/
namespace ScVerif.C16

/-- Full strength: for every pair of top-level arguments (nil, typed nil, message of any type) whose
message trees are well-formed (`Range` visits each field / map key once; the unknown fields of every message,
at any depth, are what the model of `protowire.ConsumeField` cuts out of some raw bytes), `cmp.Equal()` holds exactly when
the two arguments are equal in the sense of proto.Equal's documentation (`PEqTop`: nil only equals nil, a
typed nil only a typed nil of the same type; same type, same populated fields with equal values, lists
element-wise, maps key-wise, for every field number the same unknown bytes — all occurrences, in order;
nothing else: no length or raw-byte-identity clause —, NaN = NaN, +0 = -0) EXCEPT that the
fields selected by `ignoredField` — `change_time` of a message named `Change` — take no part: neither their
value nor whether they are set.  `PEqTop (fun _ _ => false)` is protobuf equality itself. -/
theorem C16_equal_agrees (x y : Top) (hx : TopWF x) (hy : TopWF y) :
    equal [] x y = true ↔ PEqTop ignoredField x y :=
  equal_nil_iff x y hx hy

/-- The same at every nested position: on well-formed values the default value comparison is `PEq`. -/
theorem C16_equal_agrees_values (x y : Val) (hx : Val.WF x) (hy : Val.WF y) :
    eqValue (valueAnd []) x y = true ↔ PEq ignoredField x y :=
  value_iff x y hx hy

/-- The only fields left out are `change_time` of `Change`; everything else is compared. -/
theorem C16_ignored_only_change_time (parent : String) (fd : FD) :
    ignoredField parent fd = true ↔ (fd.name = "change_time" ∧ parent = "Change") := by
  simp [ignoredField]

/-- Unknown fields: `equalUnknown` (length test, identical-bytes shortcut, per-number maps) decides exactly
"the same raw bytes for every field number".  The length test is redundant (proved); the identical-bytes
shortcut is sound given that wire parsing is a function of the bytes — stated as the hypothesis `hdet`
(identical raw bytes split into the same per-number groups), which holds for every pair the harness sends
because it splits records with protowire itself. -/
theorem C16_unknown_fields (x y : Unk)
    (hdet : unkBytes x = unkBytes y → ∀ n, unkGroup n x = unkGroup n y) :
    eqUnknown x y = true ↔ ∀ n, unkGroup n x = unkGroup n y :=
  eqUnknown_iff_groups x y hdet

/-- The hypothesis is satisfiable on a non-trivial pair (records of two numbers in different order: the
bytes differ, so the shortcut does not fire, and the groups agree). -/
example : (unkBytes [(1000, [0xc0, 0x3e, 1]), (1001, [0xc8, 0x3e, 2])] =
      unkBytes [(1001, [0xc8, 0x3e, 2]), (1000, [0xc0, 0x3e, 1])] →
    ∀ n, unkGroup n [(1000, [0xc0, 0x3e, 1]), (1001, [0xc8, 0x3e, 2])] =
      unkGroup n [(1001, [0xc8, 0x3e, 2]), (1000, [0xc0, 0x3e, 1])]) := by
  intro h
  simp [unkBytes, recBytes] at h

/-- Unknown fields from the RAW bytes, no hypothesis about parsing: for all byte strings `bx`, `by_` that
the model of `protowire.ConsumeField` cuts into records `rx`, `ry` (as the Go loop does), `equalUnknown` on the
raw bytes — length test, `bytes.Equal` shortcut, the two per-number maps filled by appending every record,
`reflect.DeepEqual` — answers exactly "for every field number the same bytes, all occurrences in order"; the
records put together are the raw bytes again, and the key-set half of DeepEqual and the length test are
redundant on such (parsable) bytes — on unparsable bytes the length test is what answers before the parser
fails, which is outside this theorem and tied / monitored.  (This is also the rule of proto.Equal in the pinned protobuf version.) -/
theorem C16_unknown_fields_wire (bx by_ : Bytes) (rx ry : Unk)
    (hx : wireRecords bx = some rx) (hy : wireRecords by_ = some ry) :
    (eqUnknownRaw bx by_ = some true ↔ ∀ n, unkGroup n rx = unkGroup n ry) ∧
    eqUnknownRaw bx by_ = some (eqUnknown rx ry) ∧ unkBytes rx = bx ∧ unkBytes ry = by_ := by
  have hbx := (wireRecords_spec bx rx hx).1
  have hby := (wireRecords_spec by_ ry hy).1
  have heq := eqUnknownRaw_eq bx by_ rx ry hx hy
  refine ⟨?_, heq, hbx, hby⟩
  rw [heq, Option.some.injEq]
  apply eqUnknown_iff_groups
  intro h
  have : rx = ry := by
    have e : bx = by_ := by rw [← hbx, ← hby, h]
    subst e
    rw [hx] at hy
    exact Option.some.inj hy
  subst this
  intro n; rfl

/-- "The same set of unknown field values", at the level of RECORDS: wire records are self-delimiting
(`ConsumeField` looks at the bytes of the record only — proved for varint, fixed32/64, length-delimited and
nested group records, with any sufficient fuel), so two record lists with the same concatenated bytes are the
same lists.  Hence for all unknown fields cut from raw bytes `equalUnknown` holds exactly when, for every field
number, the two messages carry the SAME SEQUENCE OF RECORDS of that number (records of different numbers may be
interleaved differently). -/
theorem C16_unknown_same_records (x y : Unk) (hx : WireCut x) (hy : WireCut y) :
    eqUnknown x y = true ↔ ∀ n, x.filter (fun r => r.1 == n) = y.filter (fun r => r.1 == n) := by
  rw [eqUnknown_iff_wire x y hx hy]
  unfold unkSame
  constructor
  · intro h n; exact (group_eq_iff_records x y hx hy n).1 (h n)
  · intro h n; exact (group_eq_iff_records x y hx hy n).2 (h n)

/-- The hypothesis is satisfiable (and is what the driver establishes for every message it reads). -/
example : WireCut [(1000, [0xc0, 0x3e, 1]), (1001, [0xc8, 0x3e, 9]), (1000, [0xc0, 0x3e, 2])] :=
  ⟨[0xc0, 0x3e, 1, 0xc8, 0x3e, 9, 0xc0, 0x3e, 2], by decide⟩

/-- The record cutter is well behaved on every input: a record that `ConsumeField` accepts is at least one
byte long and not longer than the input (so the Go loop `x[:n]; x = x[n:]` neither stalls nor slices out of
range on parsable bytes), and the fuel of the model is immaterial (the Go loop has none). -/
theorem C16_wire_cutter (b : Bytes) :
    (∀ num n, consumeField b = some (num, n) → 1 ≤ n ∧ n ≤ b.length) ∧
    (∀ fuel, b.length ≤ fuel → splitRecords fuel b = wireRecords b) :=
  ⟨fun num n h => consumeField_bounds b num n h,
   fun fuel h => splitRecords_fuel fuel b.length b h (Nat.le_refl _)⟩

/-- Non-vacuity: `#1000: 1, #1001: 9, #1000: 2` parses into three records; against `#1000: 3, …` (a
difference in a NON-last occurrence of a repeated number, same total length) the answer is false. -/
example : wireRecords [0xc0, 0x3e, 1, 0xc8, 0x3e, 9, 0xc0, 0x3e, 2] =
    some [(1000, [0xc0, 0x3e, 1]), (1001, [0xc8, 0x3e, 9]), (1000, [0xc0, 0x3e, 2])] := by decide

example : eqUnknownRaw [0xc0, 0x3e, 1, 0xc8, 0x3e, 9, 0xc0, 0x3e, 2] [0xc0, 0x3e, 3, 0xc0, 0x3e, 2, 0xc8, 0x3e, 9] =
    some false := by decide

example : eqUnknownRaw [0xc0, 0x3e, 1, 0xc8, 0x3e, 9, 0xc0, 0x3e, 2] [0xc0, 0x3e, 1, 0xc0, 0x3e, 2, 0xc8, 0x3e, 9] =
    some true := by decide

/-- Non-vacuity: well-formed arguments exist (a message with two fields, a map and unknown fields). -/
example : TopWF (some (.msg "pkg.T" true
    (.cons ⟨1, "a"⟩ (.one (.sc (.int 1)))
      (.cons ⟨2, "m"⟩ (.map (.cons (.str "6b") (.sc (.float .nan)) .nil)) .nil)) [(1000, [0xc0, 0x3e, 1])])) := by
  simp only [TopWF, Val.WF, Fields.WF, FVal.WF, Entries.WF, Fields.keys, Entries.keys]
  exact ⟨by decide, ⟨trivial, ⟨by decide, trivial, trivial⟩, trivial⟩, [0xc0, 0x3e, 1], by decide⟩

/-- The exception at work: for any message type whose short name is `Change`, a message with
`change_time` set and one without are equal for the spec-with-exception and NOT equal for protobuf equality. -/
example (ty : String) (hty : shortName ty = "Change") (ts : Val) :
    PEq ignoredField (.msg ty true (.cons ⟨2, "change_time"⟩ (.one ts) .nil) []) (.msg ty true .nil []) ∧
    ¬ PEq (fun _ _ => false) (.msg ty true (.cons ⟨2, "change_time"⟩ (.one ts) .nil) []) (.msg ty true .nil []) := by
  constructor
  · refine PEq.msg rfl ?_ ?_ (fun _ => rfl)
    · intro fd hfd
      by_cases h : (⟨2, "change_time"⟩ : FD) = fd
      · subst h; simp [ignoredField, hty] at hfd
      · simp [Fields.get?, h]
    · intro fd a b hfd ha hb
      simp [Fields.get?] at hb
  · intro h
    cases h with
    | msg _ hsome _ _ =>
      have := hsome ⟨2, "change_time"⟩ rfl
      simp [Fields.get?] at this

end ScVerif.C16
