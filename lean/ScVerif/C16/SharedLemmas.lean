import ScVerif.C16.Shared
/-! Lemmas about the shared-event model (`Shared.lean`): the repository's `include` never writes the published
object; under any schedule every subscriber's progress is a stage of its solo computation; progress. -/
namespace ScVerif.C16

theorem includeFresh_cell (inc : Option (Val → Bool)) (cell : CEvent) : (includeFresh inc cell).2 = cell := by
  unfold includeFresh
  cases inc with
  | none => rfl
  | some f =>
    simp only
    generalize incOf f cell.old = a
    generalize incOf f cell.new = b
    cases a <;> cases b <;> rfl

theorem includeAdjust_incOf (f : Val → Bool) (ev : CEvent) :
    includeAdjust (some f) ev =
      (if incOf f ev.old == incOf f ev.new then (if incOf f ev.new then some ev else none)
       else if incOf f ev.new then some ⟨none, ev.new⟩ else some ⟨ev.old, none⟩) := by
  unfold includeAdjust incOf
  rfl

theorem includeFresh_adjust (inc : Option (Val → Bool)) (ev : CEvent) :
    includeAdjust inc ev = ((includeFresh inc ev).1).map (ChRef.deref ev) := by
  cases inc with
  | none => rfl
  | some f =>
    rw [includeAdjust_incOf]
    unfold includeFresh
    simp only
    generalize incOf f ev.old = a
    generalize incOf f ev.new = b
    cases a <;> cases b <;> rfl

theorem stepSub_solo (E : Option MCmp) (cfg : SubCfg) (ev : CEvent) (pc : SubPc)
    (h : pc.Solo E cfg ev) :
    ((stepSub includeFresh E cfg ev pc).1).Solo E cfg ev ∧ (stepSub includeFresh E cfg ev pc).2 = ev := by
  cases pc with
  | start =>
    have hc := includeFresh_cell cfg.inc ev
    have ha := includeFresh_adjust cfg.inc ev
    unfold stepSub
    rcases hx : includeFresh cfg.inc ev with ⟨r, c'⟩
    rw [hx] at hc ha
    simp only at hc ha
    cases r with
    | none =>
      refine ⟨?_, hc⟩
      simp only [SubPc.Solo, collPullStep, ha, Option.map_none]
    | some r =>
      refine ⟨?_, hc⟩
      simp only [SubPc.Solo, hx]
  | included r =>
    refine ⟨?_, rfl⟩
    exact ⟨r, h, rfl⟩
  | filtered r =>
    refine ⟨?_, rfl⟩
    obtain ⟨r0, h0, hr⟩ := h
    have ha := includeFresh_adjust cfg.inc ev
    rw [h0] at ha
    simp only [Option.map_some] at ha
    simp only [stepSub, SubPc.Solo, collPullStep, ha]
    subst hr
    unfold filterRef SubCfg.flt decideChange
    cases hm : cfg.mask with
    | none => cases E <;> simp [ChRef.deref]
    | some g => cases E <;> simp [ChRef.deref]
  | done d => exact ⟨h, rfl⟩

theorem sysRun_solo (E : Option MCmp) (cfg : Nat → SubCfg) (ev : CEvent) (sched : List Nat) :
    ∀ (s : SharedSys), s.cell = ev → (∀ j, (s.pc j).Solo E (cfg j) ev) →
      (sysRun includeFresh E cfg s sched).cell = ev ∧
        ∀ j, ((sysRun includeFresh E cfg s sched).pc j).Solo E (cfg j) ev := by
  induction sched with
  | nil => intro s hc hs; exact ⟨hc, hs⟩
  | cons i rest ih =>
    intro s hc hs
    have hstep := stepSub_solo E (cfg i) ev (s.pc i) (hs i)
    apply ih
    · simp only [sysStep, hc]; exact hstep.2
    · intro j
      simp only [sysStep, hc]
      by_cases hj : j = i
      · subst hj; simp only [if_true]; exact hstep.1
      · simp only [hj, if_false]; exact hs j

theorem stepSub_rank (impl : IncludeImpl) (E : Option MCmp) (cfg : SubCfg) (cell : CEvent) (pc : SubPc) :
    min 3 (pc.rank + 1) ≤ ((stepSub impl E cfg cell pc).1).rank := by
  cases pc with
  | start =>
    unfold stepSub
    rcases impl cfg.inc cell with ⟨r, c'⟩
    cases r <;> simp [SubPc.rank] <;> omega
  | included r => simp [stepSub, SubPc.rank]
  | filtered r => simp [stepSub, SubPc.rank]
  | done d => simp [stepSub, SubPc.rank]

theorem sysRun_rank (impl : IncludeImpl) (E : Option MCmp) (cfg : Nat → SubCfg) (i : Nat) (sched : List Nat) :
    ∀ (s : SharedSys), min 3 ((s.pc i).rank + sched.count i) ≤ ((sysRun impl E cfg s sched).pc i).rank := by
  induction sched with
  | nil => intro s; simp [sysRun]; omega
  | cons k rest ih =>
    intro s
    have h := ih (sysStep impl E cfg s k)
    simp only [sysRun]
    by_cases hk : k = i
    · subst hk
      have hr := stepSub_rank impl E (cfg k) s.cell (s.pc k)
      have hpc : (sysStep impl E cfg s k).pc k = (stepSub impl E (cfg k) s.cell (s.pc k)).1 := by
        simp [sysStep]
      rw [hpc] at h
      simp only [List.count_cons_self]
      omega
    · have : ((sysStep impl E cfg s k).pc i) = s.pc i := by
        simp only [sysStep]
        have : ¬ i = k := fun e => hk e.symm
        simp [this]
      rw [this] at h
      rw [List.count_cons_of_ne hk]
      exact h

theorem rank_done (pc : SubPc) (h : 3 ≤ pc.rank) : ∃ d, pc = .done d := by
  cases pc with
  | done d => exact ⟨d, rfl⟩
  | start => simp [SubPc.rank] at h
  | included r => simp [SubPc.rank] at h
  | filtered r => simp [SubPc.rank] at h

end ScVerif.C16
