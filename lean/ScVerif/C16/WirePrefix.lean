import ScVerif.C16.WireLemmas
/-!
Wire records are self-delimiting: `ConsumeField` looks at the bytes of the record only.  Hence two lists of
records with the same concatenated bytes are the same lists — "the same bytes per field number" is "the same
records per field number".
-/
namespace ScVerif.C16

/-- `b'` agrees with `b` on the first `n` bytes. -/
def Agree (n : Nat) (b b' : Bytes) : Prop := b'.take n = b.take n

theorem Agree.mono {n m : Nat} {b b' : Bytes} (h : Agree n b b') (hm : m ≤ n) : Agree m b b' := by
  unfold Agree at *
  have := congrArg (List.take m) h
  simpa [List.take_take, Nat.min_eq_left hm] using this

theorem Agree.drop {n m : Nat} {b b' : Bytes} (h : Agree (n + m) b b') : Agree m (b.drop n) (b'.drop n) := by
  unfold Agree at *
  have := congrArg (List.drop n) h
  simpa [List.drop_take] using this

theorem Agree.length {n : Nat} {b b' : Bytes} (h : Agree n b b') (hn : n ≤ b.length) : n ≤ b'.length := by
  unfold Agree at h
  have := congrArg List.length h
  simp only [List.length_take] at this
  omega

theorem Agree.cons {n : Nat} {c : UInt8} {rest b' : Bytes} (h : Agree (n + 1) (c :: rest) b') :
    ∃ rest', b' = c :: rest' ∧ Agree n rest rest' := by
  unfold Agree at *
  cases b' with
  | nil => simp at h
  | cons c' rest' =>
    simp only [List.take_succ_cons, List.cons.injEq] at h
    exact ⟨rest', by rw [h.1], h.2⟩

theorem consumeVarintFrom_agree : ∀ (b : Bytes) (i v n : Nat) (b' : Bytes),
    consumeVarintFrom i b = some (v, n) → Agree n b b' → consumeVarintFrom i b' = some (v, n)
  | [], _, _, _, _, h, _ => by simp [consumeVarintFrom] at h
  | c :: rest, i, v, n, b', h, ha => by
    have hb := consumeVarintFrom_bounds (c :: rest) i v n h
    obtain ⟨k, rfl⟩ : ∃ k, n = k + 1 := ⟨n - 1, by omega⟩
    obtain ⟨rest', rfl, har⟩ := ha.cons
    by_cases hi : i ≥ 9
    · simp only [consumeVarintFrom, hi, if_true] at h ⊢; exact h
    · by_cases hc : c.toNat < 0x80
      · simp only [consumeVarintFrom, hi, if_false, hc, if_true] at h ⊢; exact h
      · simp only [consumeVarintFrom, hi, if_false, hc] at h ⊢
        cases hrec : consumeVarintFrom (i + 1) rest with
        | none => simp [hrec] at h
        | some p =>
          obtain ⟨v', n'⟩ := p
          simp only [hrec, Option.some.injEq, Prod.mk.injEq] at h
          have hk : n' = k := by omega
          subst hk
          rw [consumeVarintFrom_agree rest (i + 1) v' n' rest' hrec har]
          simp [h.1]

theorem consumeVarint_agree (b b' : Bytes) (v n : Nat) (h : consumeVarint b = some (v, n)) (ha : Agree n b b') :
    consumeVarint b' = some (v, n) := consumeVarintFrom_agree b 0 v n b' h ha

theorem consumeVarint_bounds (b : Bytes) (v n : Nat) (h : consumeVarint b = some (v, n)) : 1 ≤ n ∧ n ≤ b.length :=
  consumeVarintFrom_bounds b 0 v n h

theorem consumeTag_agree (b b' : Bytes) (num typ n : Nat) (h : consumeTag b = some (num, typ, n))
    (ha : Agree n b b') : consumeTag b' = some (num, typ, n) := by
  unfold consumeTag at h ⊢
  cases hv : consumeVarint b with
  | none => simp [hv] at h
  | some p =>
    obtain ⟨v, n'⟩ := p
    simp only [hv] at h
    by_cases h1 : v >>> 3 > 2147483647
    · simp [h1] at h
    · by_cases h2 : v >>> 3 < 1
      · simp [h1, h2] at h
      · simp only [h1, h2, if_false, Option.some.injEq, Prod.mk.injEq] at h
        obtain ⟨e1, e2, e3⟩ := h
        subst e1 e2 e3
        rw [consumeVarint_agree b b' v n' hv ha]
        simp only [h1, h2, if_false]

theorem consumeGroup_pos (fuel num : Nat) (b : Bytes) (r : Nat) (h : consumeGroup fuel num b = some r) : 1 ≤ r := by
  cases fuel with
  | zero => simp [consumeGroup] at h
  | succ f =>
    simp only [consumeGroup] at h
    split at h
    · cases h
    · rename_i num2 typ2 n htag
      have hn := consumeTag_bounds b num2 typ2 n htag
      split at h
      · split at h
        · cases h
        · simp only [Option.some.injEq] at h; omega
      · split at h
        · cases h
        · split at h
          · cases h
          · simp only [Option.some.injEq] at h; omega

theorem fv_nongroup (fuel num typ : Nat) (b : Bytes) (h3 : typ ≠ 3) :
    consumeFieldValue fuel num typ b = consumeFieldValue 0 num typ b := by
  unfold consumeFieldValue
  simp only [h3, if_false]

theorem fv_group (f num : Nat) (b : Bytes) : consumeFieldValue (f + 1) num 3 b = consumeGroup f num b := by
  unfold consumeFieldValue
  simp

theorem fv_group0 (num : Nat) (b : Bytes) : consumeFieldValue 0 num 3 b = none := by
  unfold consumeFieldValue
  simp

/-- The scalar wire types look at their own bytes only. -/
theorem fv_nongroup_agree (num typ : Nat) (b : Bytes) (m : Nat) (h3 : typ ≠ 3)
    (h : consumeFieldValue 0 num typ b = some m) (b' : Bytes) (ha : Agree m b b') :
    consumeFieldValue 0 num typ b' = some m := by
  have hm := (consumeValue_bounds 0).1 num typ b m h
  unfold consumeFieldValue at h ⊢
  by_cases t0 : typ = 0
  · simp only [t0, if_true] at h ⊢
    cases hv : consumeVarint b with
    | none => simp [hv] at h
    | some p =>
      obtain ⟨v, n⟩ := p
      simp only [hv, Option.some.injEq] at h
      subst h
      rw [consumeVarint_agree b b' v n hv ha]
  · by_cases t5 : typ = 5
    · simp only [t5, if_true] at h ⊢
      simp only [show (5 : Nat) ≠ 0 by decide, if_false] at h ⊢
      by_cases hl : b.length < 4
      · simp [hl] at h
      · simp only [hl, if_false, Option.some.injEq] at h
        subst h
        have := ha.length hm
        simp [show ¬ b'.length < 4 by omega]
    · by_cases t1 : typ = 1
      · simp only [t1, if_true] at h ⊢
        simp only [show (1 : Nat) ≠ 0 by decide, show (1 : Nat) ≠ 5 by decide, if_false] at h ⊢
        by_cases hl : b.length < 8
        · simp [hl] at h
        · simp only [hl, if_false, Option.some.injEq] at h
          subst h
          have := ha.length hm
          simp [show ¬ b'.length < 8 by omega]
      · by_cases t2 : typ = 2
        · simp only [t2, if_true] at h ⊢
          simp only [show (2 : Nat) ≠ 0 by decide, show (2 : Nat) ≠ 5 by decide, show (2 : Nat) ≠ 1 by decide,
            if_false] at h ⊢
          cases hv : consumeVarint b with
          | none => simp [hv] at h
          | some p =>
            obtain ⟨mm, n⟩ := p
            simp only [hv] at h
            by_cases hgt : mm > b.length - n
            · simp [hgt] at h
            · simp only [hgt, if_false, Option.some.injEq] at h
              subst h
              have hvb := consumeVarint_bounds b mm n hv
              rw [consumeVarint_agree b b' mm n hv (ha.mono (by omega))]
              have := ha.length hm
              simp [show ¬ mm > b'.length - n by omega]
        · simp [t0, t5, t1, t2, h3] at h

/-- A group looks at its own bytes only, with any fuel that covers them. -/
theorem consumeGroup_agree : ∀ (fuel num : Nat) (b : Bytes) (r : Nat), consumeGroup fuel num b = some r →
    ∀ (fuel' : Nat) (b' : Bytes), r ≤ fuel' → Agree r b b' → consumeGroup fuel' num b' = some r
  | 0, _, _, _, h, _, _, _, _ => by simp [consumeGroup] at h
  | f + 1, num, b, r, h, fuel', b', hf, ha => by
    have hr := consumeGroup_pos (f + 1) num b r h
    obtain ⟨f', rfl⟩ : ∃ f', fuel' = f' + 1 := ⟨fuel' - 1, by omega⟩
    simp only [consumeGroup] at h ⊢
    cases htag : consumeTag b with
    | none => simp [htag] at h
    | some p =>
      obtain ⟨num2, typ2, n⟩ := p
      have hn := consumeTag_bounds b num2 typ2 n htag
      simp only [htag] at h
      by_cases ht4 : typ2 = 4
      · simp only [ht4, if_true] at h
        by_cases hnum : num ≠ num2
        · simp [hnum] at h
        · simp only [hnum, if_false, Option.some.injEq] at h
          subst h
          rw [consumeTag_agree b b' num2 typ2 n htag ha]
          simp [ht4, hnum]
      · simp only [ht4, if_false] at h
        cases hm : consumeFieldValue f num2 typ2 (b.drop n) with
        | none => simp [hm] at h
        | some m =>
          simp only [hm] at h
          cases hr' : consumeGroup f num (b.drop (n + m)) with
          | none => simp [hr'] at h
          | some r' =>
            simp only [hr', Option.some.injEq] at h
            subst h
            have hr'pos := consumeGroup_pos f num _ r' hr'
            rw [consumeTag_agree b b' num2 typ2 n htag (ha.mono (by omega))]
            simp only [ht4, if_false]
            have ha1 : Agree m (b.drop n) (b'.drop n) := (ha.mono (by omega : n + m ≤ n + m + r')).drop
            have ha2 : Agree r' (b.drop (n + m)) (b'.drop (n + m)) := Agree.drop (n := n + m) ha
            have hv : consumeFieldValue f' num2 typ2 (b'.drop n) = some m := by
              by_cases t3 : typ2 = 3
              · subst t3
                cases f with
                | zero => simp [fv_group0] at hm
                | succ f0 =>
                  obtain ⟨f'', rfl⟩ : ∃ f'', f' = f'' + 1 := ⟨f' - 1, by omega⟩
                  rw [fv_group] at hm ⊢
                  exact consumeGroup_agree f0 num2 (b.drop n) m hm f'' (b'.drop n) (by omega) ha1
              · rw [fv_nongroup _ _ _ _ t3] at hm ⊢
                exact fv_nongroup_agree num2 typ2 (b.drop n) m t3 hm (b'.drop n) ha1
            rw [hv]
            simp only []
            rw [consumeGroup_agree f num (b.drop (n + m)) r' hr' f' (b'.drop (n + m)) (by omega) ha2]

/-- `ConsumeField` looks at the bytes of the record only. -/
theorem consumeField_agree (b b' : Bytes) (num n : Nat) (h : consumeField b = some (num, n)) (ha : Agree n b b') :
    consumeField b' = some (num, n) := by
  have hb := consumeField_bounds b num n h
  unfold consumeField at h ⊢
  cases htag : consumeTag b with
  | none => simp [htag] at h
  | some p =>
    obtain ⟨num', typ, k⟩ := p
    have hk := consumeTag_bounds b num' typ k htag
    simp only [htag] at h
    cases hm : consumeFieldValue b.length num' typ (b.drop k) with
    | none => simp [hm] at h
    | some m =>
      simp only [hm, Option.some.injEq, Prod.mk.injEq] at h
      obtain ⟨e1, e2⟩ := h
      subst e1 e2
      rw [consumeTag_agree b b' num' typ k htag (ha.mono (by omega))]
      simp only []
      have ha1 : Agree m (b.drop k) (b'.drop k) := ha.drop
      have hlen := ha.length hb.2
      have hv : consumeFieldValue b'.length num' typ (b'.drop k) = some m := by
        by_cases t3 : typ = 3
        · subst t3
          cases hbl : b.length with
          | zero => rw [hbl, fv_group0] at hm; cases hm
          | succ f0 =>
            obtain ⟨f'', hf''⟩ : ∃ f'', b'.length = f'' + 1 := ⟨b'.length - 1, by omega⟩
            rw [hbl, fv_group] at hm
            rw [hf'', fv_group]
            exact consumeGroup_agree f0 num' (b.drop k) m hm f'' (b'.drop k) (by omega) ha1
        · rw [fv_nongroup _ _ _ _ t3] at hm ⊢
          exact fv_nongroup_agree num' typ (b.drop k) m t3 hm (b'.drop k) ha1
      rw [hv]

/-! ## records are self-delimiting -/

/-- Whatever follows it, `ConsumeField` reads exactly this record. -/
def SelfDelim (r : Nat × Bytes) : Prop := r.2 ≠ [] ∧ ∀ t, consumeField (r.2 ++ t) = some (r.1, r.2.length)

theorem selfDelim_of_consumeField (b : Bytes) (num n : Nat) (h : consumeField b = some (num, n)) :
    SelfDelim (num, b.take n) := by
  have hb := consumeField_bounds b num n h
  have hl : (b.take n).length = n := by simp [List.length_take]; omega
  constructor
  · intro e
    have := congrArg List.length e
    simp only [hl, List.length_nil] at this
    omega
  · intro t
    simp only [hl]
    apply consumeField_agree b _ num n h
    unfold Agree
    rw [List.take_append_of_le_length (by omega), List.take_take, Nat.min_self]

theorem splitRecords_selfDelim : ∀ (fuel : Nat) (b : Bytes) (rs : List (Nat × Bytes)),
    splitRecords fuel b = some rs → ∀ r ∈ rs, SelfDelim r
  | _, [], rs, h => by
    simp only [splitRecords, Option.some.injEq] at h
    subst h
    intro r hr; cases hr
  | 0, _ :: _, rs, h => by simp [splitRecords] at h
  | fuel + 1, c :: b, rs, h => by
    simp only [splitRecords] at h
    cases hcf : consumeField (c :: b) with
    | none => simp [hcf] at h
    | some p =>
      obtain ⟨num, n⟩ := p
      simp only [hcf] at h
      cases hrest : splitRecords fuel ((c :: b).drop n) with
      | none => simp [hrest] at h
      | some rest =>
        simp only [hrest, Option.some.injEq] at h
        subst h
        intro r hr
        simp only [List.mem_cons] at hr
        rcases hr with rfl | hr
        · exact selfDelim_of_consumeField (c :: b) num n hcf
        · exact splitRecords_selfDelim fuel _ rest hrest r hr

theorem wireCut_selfDelim (u : Unk) (h : WireCut u) : ∀ r ∈ u, SelfDelim r := by
  obtain ⟨b, hb⟩ := h
  exact splitRecords_selfDelim _ b u hb

/-- Self-delimiting records are determined by their concatenation. -/
theorem records_unique : ∀ (R1 R2 : List (Nat × Bytes)), (∀ r ∈ R1, SelfDelim r) → (∀ r ∈ R2, SelfDelim r) →
    R1.flatMap recBytes = R2.flatMap recBytes → R1 = R2
  | [], [], _, _, _ => rfl
  | [], r2 :: R2, _, h2, h => by
    have := (h2 r2 (List.mem_cons_self)).1
    simp only [List.flatMap_nil, List.flatMap_cons, recBytes] at h
    have h' := congrArg List.length h
    simp only [List.length_nil, List.length_append] at h'
    exact absurd (List.eq_nil_of_length_eq_zero (by omega)) this
  | r1 :: R1, [], h1, _, h => by
    have := (h1 r1 (List.mem_cons_self)).1
    simp only [List.flatMap_nil, List.flatMap_cons, recBytes] at h
    have h' := congrArg List.length h
    simp only [List.length_nil, List.length_append] at h'
    exact absurd (List.eq_nil_of_length_eq_zero (by omega)) this
  | r1 :: R1, r2 :: R2, h1, h2, h => by
    simp only [List.flatMap_cons, recBytes] at h
    have c1 := (h1 r1 (List.mem_cons_self)).2 (R1.flatMap recBytes)
    have c2 := (h2 r2 (List.mem_cons_self)).2 (R2.flatMap recBytes)
    rw [h, c2] at c1
    simp only [Option.some.injEq, Prod.mk.injEq] at c1
    obtain ⟨e1, e2⟩ := c1
    have := List.append_inj h e2.symm
    have hr : r1 = r2 := Prod.ext e1.symm this.1
    subst hr
    congr 1
    exact records_unique R1 R2 (fun r hr => h1 r (List.mem_cons_of_mem _ hr))
      (fun r hr => h2 r (List.mem_cons_of_mem _ hr)) this.2

/-- Same bytes per field number = same records per field number. -/
theorem group_eq_iff_records (x y : Unk) (hx : WireCut x) (hy : WireCut y) (n : Nat) :
    unkGroup n x = unkGroup n y ↔ x.filter (fun r => r.1 == n) = y.filter (fun r => r.1 == n) := by
  constructor
  · intro h
    apply records_unique _ _ _ _ h
    · intro r hr; exact wireCut_selfDelim x hx r (List.mem_filter.mp hr).1
    · intro r hr; exact wireCut_selfDelim y hy r (List.mem_filter.mp hr).1
  · intro h
    unfold unkGroup
    rw [h]

end ScVerif.C16
