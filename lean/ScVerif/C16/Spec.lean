import ScVerif.C16.Equator
/-!
# C16 — SPEC: protobuf equality, written from proto.Equal's documentation

"Two messages are equal if they are the same protobuf message type, have the same set of populated known
field values, and the same set of unknown fields values.  Floating-point fields are equal if they contain
the same value; unlike `==`, a NaN is equal to another NaN.  Lists are equal if they are the same length
and each corresponding element is equal.  Maps are equal if they have the same set of keys and the
corresponding value for each key is equal.  An invalid message is not equal to a valid message; an
invalid message is only equal to another invalid message of the same type."

`PEq ign` is this relation with the fields selected by `ign parentShortName fd` left out of the
comparison altogether; `PEq (fun _ _ => false)` is protobuf equality itself.
-/
namespace ScVerif.C16

/-- Canonical representative of a float value: the sign of zero is dropped (`+0 = -0`); NaN is a single
value (`NaN = NaN`). -/
def F.canon : F → F
  | .fin q _ => .fin q false
  | f => f

def Scalar.canon : Scalar → Scalar
  | .float f => .float f.canon
  | s => s

/-- Unknown fields are the same: for every field number the same raw bytes, all occurrences in order (the
rule of proto.Equal; the order of records of DIFFERENT numbers does not matter). -/
def unkSame (x y : Unk) : Prop := ∀ n, unkGroup n x = unkGroup n y

mutual
  inductive PEq (ign : String → FD → Bool) : Val → Val → Prop
    | sc {a b : Scalar} : a.canon = b.canon → PEq ign (.sc a) (.sc b)
    | msg {tx ty : String} {vx vy : Bool} {fx fy : Fields} {ux uy : Unk} :
        tx = ty →
        (∀ fd, ign (shortName tx) fd = false → (fx.get? fd).isSome = (fy.get? fd).isSome) →
        (∀ fd a b, ign (shortName tx) fd = false → fx.get? fd = some a → fy.get? fd = some b → FEq ign a b) →
        unkSame ux uy →
        PEq ign (.msg tx vx fx ux) (.msg ty vy fy uy)
  inductive FEq (ign : String → FD → Bool) : FVal → FVal → Prop
    | one {a b : Val} : PEq ign a b → FEq ign (.one a) (.one b)
    | list {xs ys : Vals} : LEq ign xs ys → FEq ign (.list xs) (.list ys)
    | map {xs ys : Entries} :
        (∀ k, (xs.get? k).isSome = (ys.get? k).isSome) →
        (∀ k a b, xs.get? k = some a → ys.get? k = some b → PEq ign a b) →
        FEq ign (.map xs) (.map ys)
  inductive LEq (ign : String → FD → Bool) : Vals → Vals → Prop
    | nil : LEq ign .nil .nil
    | cons {a b : Val} {r s : Vals} : PEq ign a b → LEq ign r s → LEq ign (.cons a r) (.cons b s)
end

/-- Top-level arguments: nil only equals nil; a typed nil (invalid) only equals a typed nil of the same
type; valid messages by `PEq`. -/
def PEqTop (ign : String → FD → Bool) : Top → Top → Prop
  | none, none => True
  | some x, some y => x.isValid = y.isValid ∧ PEq ign x y
  | _, _ => False

/-- A top-level argument is a message (never a bare scalar) with a well-formed tree. -/
def TopWF : Top → Prop
  | none => True
  | some (.msg ty v fs u) => Val.WF (.msg ty v fs u)
  | some (.sc _) => False

end ScVerif.C16
