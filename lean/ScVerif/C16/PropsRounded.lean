import ScVerif.C16.RoundedF
/-!
# C16 — property theorems about the tolerance comparers IN ROUNDED ARITHMETIC (round 6)

"... tolerance comparers for floats, timestamps and durations are reflexive and symmetric, accept exactly the
pairs within the stated tolerance ...".  `Props.lean` proves this over exact rationals.  binary64 rounds; the
statements here are about the arithmetic as the code performs it, for EVERY rounding function `rnd` that is monotone and
sign-symmetric (`Rounding rnd`: IEEE round-to-nearest-even, round-toward-zero, exact arithmetic, ...), every
fraction, margin and pair of finite values, without any "the arithmetic is exact on these inputs" hypothesis — and
then for binary64 itself (`rne64`, proved to be such a rounding), with no hypothesis left.

Only property theorems and their non-vacuity examples live in this file.
-/
namespace ScVerif.C16

/-- `FloatValueApprox` in rounded arithmetic accepts EXACTLY the pairs that are within the stated tolerance
(`|x − y| ≤ max margin (fraction · min |x| |y|)` over the reals) or whose distance rounds to the same number as
that tolerance: rounding never rejects a pair that is within tolerance, and a pair it accepts beyond the
tolerance is beyond it by less than one rounding step.  (`margin` is a float: `rnd margin = margin`.) -/
theorem C16_float_approx_rounded (rnd : Rat → Rat) (h : Rounding rnd) (fr mg x y : Rat) (hmg : rnd mg = mg) :
    floatApproxR rnd fr mg x y = true ↔
      ((x - y).abs ≤ max mg (fr * min x.abs y.abs) ∨
       rnd (x - y).abs = rnd (max mg (fr * min x.abs y.abs))) := by
  rw [floatApproxR_eq rnd h fr mg x y hmg, decide_eq_true_eq]
  constructor
  · intro hle
    by_cases hd : (x - y).abs ≤ max mg (fr * min x.abs y.abs)
    · exact Or.inl hd
    · right
      have hlt : max mg (fr * min x.abs y.abs) ≤ (x - y).abs := by grind
      have := h.mono _ _ hlt
      grind
  · rintro (hd | he)
    · exact h.mono _ _ hd
    · rw [he]; exact Rat.le_refl

/-- Where the distance and the tolerance are floats themselves (the arithmetic is exact), the rounded comparer is
the exact one: the theorems of `Props.lean` are the special case. -/
theorem C16_float_approx_rounded_exact (rnd : Rat → Rat) (h : Rounding rnd) (fr mg x y : Rat) (hmg : rnd mg = mg)
    (hd : rnd (x - y).abs = (x - y).abs)
    (ht : rnd (max mg (fr * min x.abs y.abs)) = max mg (fr * min x.abs y.abs)) :
    floatApproxR rnd fr mg x y = floatApproxF (.fin fr false) (.fin mg false) (.fin x false) (.fin y false) := by
  rw [floatApproxF_fin, floatApproxR_eq rnd h fr mg x y hmg, hd, ht]

/-- Symmetric under every sign-symmetric rounding, for all tolerances (no hypothesis on the margin, no
monotonicity). -/
theorem C16_float_approx_rounded_symm (rnd : Rat → Rat) (h : SignSymmetric rnd) (fr mg x y : Rat) :
    floatApproxR rnd fr mg x y = floatApproxR rnd fr mg y x := by
  unfold floatApproxR
  simp only []
  have e : x - y = -(y - x) := by grind
  rw [e, h.odd, Rat.abs_neg, min_comm' x.abs y.abs]

/-- Reflexive under every sign-symmetric, sign-preserving rounding when the margin or the fraction is
non-negative. -/
theorem C16_float_approx_rounded_refl (rnd : Rat → Rat) (h : SignSymmetric rnd) (fr mg x : Rat) (hp : 0 ≤ mg ∨ 0 ≤ fr) :
    floatApproxR rnd fr mg x x = true := by
  unfold floatApproxR
  simp only [decide_eq_true_eq]
  have e : x - x = 0 := by grind
  have e2 : min x.abs x.abs = x.abs := by grind
  rw [e, h.zero, e2]
  have h0 : (0 : Rat).abs = 0 := rfl
  rw [h0]
  rcases hp with hp | hp
  · grind
  · have := h.nonneg _ (Rat.mul_nonneg hp (Rat.abs_nonneg (x := x)))
    grind

/-- `DurationValueWithinP` in rounded arithmetic (int64 → float64 conversions, difference and both products
rounded): symmetric for every p, reflexive for `p ≥ 0`, under every sign-symmetric, sign-preserving rounding and
for all int64 durations — also those beyond 2^53 ns, which float64 cannot represent. -/
theorem C16_durationP_rounded (rnd : Rat → Rat) (h : SignSymmetric rnd) (p : Rat) (xd yd : Int) :
    durWithinPR rnd p xd yd = durWithinPR rnd p yd xd ∧
    (0 ≤ p → durWithinPR rnd p xd xd = true) := by
  constructor
  · unfold durWithinPR
    simp only []
    have e : rnd xd - rnd yd = -(rnd yd - rnd xd) := by grind
    rw [e, h.odd, Rat.abs_neg, min_comm' (rnd xd).abs (rnd yd).abs]
  · intro hp
    unfold durWithinPR
    simp only [decide_eq_true_eq]
    have e : rnd xd - rnd xd = 0 := by grind
    have e2 : min (rnd xd).abs (rnd xd).abs = (rnd xd).abs := by grind
    have h0 : (0 : Rat).abs * 100 = 0 := by
      have : (0 : Rat).abs = 0 := rfl
      rw [this]; grind
    rw [e, h.zero, h0, h.zero, e2]
    exact h.nonneg _ (Rat.mul_nonneg hp (Rat.abs_nonneg (x := rnd xd)))

/-- The acceptance band of `DurationValueWithinP` in rounded arithmetic, for every monotone sign-symmetric rounding,
every p and all int64 durations: accepted iff 100 times the (rounded) distance of the converted durations is at
most p times the smaller converted magnitude, or both sides of that comparison round to the same number.  On
durations float64 represents exactly (conversions and difference exact: all |d| ≤ 2^52 ns) that is: within p
percent of each other over the reals (`C16_durationP`'s band), or the two products round to the same float. -/
theorem C16_durationP_rounded_band (rnd : Rat → Rat) (h : Rounding rnd) (p : Rat) (xd yd : Int) :
    (durWithinPR rnd p xd yd = true ↔
      ((rnd (rnd xd - rnd yd)).abs * 100 ≤ p * min (rnd xd).abs (rnd yd).abs ∨
       rnd ((rnd (rnd xd - rnd yd)).abs * 100) = rnd (p * min (rnd xd).abs (rnd yd).abs))) ∧
    (rnd xd = xd → rnd yd = yd → rnd ((xd : Rat) - (yd : Rat)) = (xd : Rat) - (yd : Rat) →
      (durWithinPR rnd p xd yd = true ↔
        (((xd : Rat) - (yd : Rat)).abs * 100 ≤ p * minAbs xd yd ∨
         rnd (((xd : Rat) - (yd : Rat)).abs * 100) = rnd (p * minAbs xd yd)))) := by
  have hiff : durWithinPR rnd p xd yd = true ↔
      ((rnd (rnd xd - rnd yd)).abs * 100 ≤ p * min (rnd xd).abs (rnd yd).abs ∨
       rnd ((rnd (rnd xd - rnd yd)).abs * 100) = rnd (p * min (rnd xd).abs (rnd yd).abs)) := by
    unfold durWithinPR
    simp only [decide_eq_true_eq]
    exact h.le_iff _ _
  refine ⟨hiff, ?_⟩
  intro hx hy hd
  rw [hiff, hx, hy, hd, minAbs_eq_min]

/-- The same in binary64 itself (no hypothesis on the rounding). -/
theorem C16_durationP_binary64 (p : Rat) (xd yd : Int)
    (hx : rne64 xd = xd) (hy : rne64 yd = yd) (hd : rne64 ((xd : Rat) - (yd : Rat)) = (xd : Rat) - (yd : Rat)) :
    durWithinPR rne64 p xd yd = true ↔
      (((xd : Rat) - (yd : Rat)).abs * 100 ≤ p * minAbs xd yd ∨
       rne64 (((xd : Rat) - (yd : Rat)).abs * 100) = rne64 (p * minAbs xd yd)) :=
  (C16_durationP_rounded_band rne64 rne64_rounding p xd yd).2 hx hy hd

/-- The exactness hypotheses are satisfiable (and fail beyond 2^53: that is where the conversions round). -/
example : rne64 ((4503599627370496 : Int) : Rat) = ((4503599627370496 : Int) : Rat) ∧
    rne64 ((9007199254740993 : Int) : Rat) ≠ ((9007199254740993 : Int) : Rat) := by
  decide +kernel

/-- With exact arithmetic (`rnd = id`) it is the comparer of `C16_durationP`. -/
theorem C16_durationP_rounded_exact (p : Rat) (z : Bool) (xd yd : Int) :
    durWithinPR id p xd yd = durWithinPD (.fin p z) xd yd := by
  rw [Bool.eq_iff_iff, durWithinPD_iff]
  unfold durWithinPR minAbs
  simp only [id, decide_eq_true_eq]
  have : min (xd : Rat).abs (yd : Rat).abs = if (xd : Rat).abs < (yd : Rat).abs then (xd : Rat).abs else (yd : Rat).abs := by
    grind
  rw [this]

/-! ### Binary64 itself: no hypothesis left

`rne64` is round-to-nearest-even onto the binary64 grid (subnormals included), written over exact rationals; it is
the function the driver runs and the tie compares with the hardware on every run.  It is PROVED monotone and
sign-symmetric (`rne64_rounding`, RoundedLemmas.lean), so the theorems above hold of it outright. -/

/-- In binary64 arithmetic `FloatValueApprox(fraction, margin)` accepts EXACTLY the pairs of finite floats that are
within the stated tolerance over the reals, or whose distance rounds to the same float as that tolerance — for all
fractions, all margins that are binary64 numbers (values of `rne64`, which is idempotent: `rne64_idem`), all finite
values; inputs whose arithmetic rounds included. -/
theorem C16_float_approx_binary64 (fr mg x y : Rat) (hmg : ∃ m, mg = rne64 m) :
    floatApproxR rne64 fr mg x y = true ↔
      ((x - y).abs ≤ max mg (fr * min x.abs y.abs) ∨
       rne64 (x - y).abs = rne64 (max mg (fr * min x.abs y.abs))) := by
  obtain ⟨m, rfl⟩ := hmg
  exact C16_float_approx_rounded rne64 rne64_rounding fr (rne64 m) x y (rne64_idem m)

/-- In binary64 arithmetic, without any hypothesis: `FloatValueApprox` is symmetric for all fractions, margins and
finite values and reflexive when the margin or the fraction is non-negative; `DurationValueWithinP` is symmetric
for every p and reflexive for `p ≥ 0` on all int64 durations (beyond 2^53 ns too). -/
theorem C16_tolerance_binary64 (fr mg x y p : Rat) (xd yd : Int) :
    floatApproxR rne64 fr mg x y = floatApproxR rne64 fr mg y x ∧
    ((0 ≤ mg ∨ 0 ≤ fr) → floatApproxR rne64 fr mg x x = true) ∧
    durWithinPR rne64 p xd yd = durWithinPR rne64 p yd xd ∧
    (0 ≤ p → durWithinPR rne64 p xd xd = true) :=
  ⟨C16_float_approx_rounded_symm rne64 rne64_signSymmetric fr mg x y,
   C16_float_approx_rounded_refl rne64 rne64_signSymmetric fr mg x,
   (C16_durationP_rounded rne64 rne64_signSymmetric p xd yd).1,
   (C16_durationP_rounded rne64 rne64_signSymmetric p xd yd).2⟩

/-- The binary64 numbers are the fixed points of `rne64`: 0, 0.5 and 0.1-as-a-float are, 0.1 is not. -/
example : rne64 0 = 0 ∧ rne64 (1 / 2) = 1 / 2 ∧
    rne64 (3602879701896397 / 36028797018963968) = 3602879701896397 / 36028797018963968 ∧
    rne64 (1 / 10) ≠ 1 / 10 := by
  decide +kernel

/-! ### The comparer as a whole, overflow included -/

/-- `FloatValueApprox(fraction, margin)` in rounded arithmetic WITH overflow (a result whose rounded magnitude
exceeds `lim` becomes ±Inf), on all float values — NaN, ±Inf, finite —: symmetric for every fraction and margin
(NaN and ±Inf included) under every sign-symmetric rounding; reflexive for finite tolerances with a non-negative
margin or fraction under every sign-symmetric, sign-preserving rounding. -/
theorem C16_float_value_approx_rounded (rnd : Rat → Rat) (h : SignSymmetric rnd) (lim : Rat) (hlim : 0 ≤ lim)
    (fraction margin fx fy : F) :
    floatValueApproxR rnd lim fraction margin (.sc (.float fx)) (.sc (.float fy)) =
      floatValueApproxR rnd lim fraction margin (.sc (.float fy)) (.sc (.float fx)) ∧
    (∀ fr mg a b, fraction = .fin fr a → margin = .fin mg b → (0 ≤ mg ∨ 0 ≤ fr) →
      floatValueApproxR rnd lim fraction margin (.sc (.float fx)) (.sc (.float fx)) = (true, true)) := by
  refine ⟨floatValueApproxR_symm rnd h.odd lim fraction margin fx fy, ?_⟩
  intro fr mg a b hf hm hp
  subst hf hm
  exact floatValueApproxR_refl rnd h lim hlim fr mg a b fx hp

/-- Where no intermediate result overflows, the comparer's finite branch is `floatApproxR` — the function the
"accepts exactly" theorem is about. -/
theorem C16_float_approx_rounded_no_overflow (rnd : Rat → Rat) (lim fr mg x y : Rat) (a b c d : Bool)
    (h1 : (rnd (x - y)).abs ≤ lim) (h2 : (rnd (fr * min x.abs y.abs)).abs ≤ lim) :
    floatValueApproxR rnd lim (.fin fr a) (.fin mg b) (.sc (.float (.fin x c))) (.sc (.float (.fin y d))) =
      (floatApproxR rnd fr mg x y, true) := by
  simp [floatValueApproxR, F.isNaN, F.isFinite, floatApproxFR_fin rnd lim fr mg x y a b c d h1 h2]

/-- Binary64 (`rne64`, overflow beyond `maxFloat64`), no hypothesis: the comparer is symmetric on ALL float64
values for all tolerances, and reflexive for finite tolerances with a non-negative margin or fraction. -/
theorem C16_float_value_approx_binary64 (fraction margin fx fy : F) :
    floatValueApproxR rne64 maxFloat64 fraction margin (.sc (.float fx)) (.sc (.float fy)) =
      floatValueApproxR rne64 maxFloat64 fraction margin (.sc (.float fy)) (.sc (.float fx)) ∧
    (∀ fr mg a b, fraction = .fin fr a → margin = .fin mg b → (0 ≤ mg ∨ 0 ≤ fr) →
      floatValueApproxR rne64 maxFloat64 fraction margin (.sc (.float fx)) (.sc (.float fx)) = (true, true)) :=
  C16_float_value_approx_rounded rne64 rne64_signSymmetric maxFloat64 (by decide +kernel) fraction margin fx fy

/-- Overflow is reachable and modelled: the largest float and its negation are an infinite float64 distance apart,
within no finite margin — and within a fraction whose product overflows too (`+Inf <= +Inf`). -/
example :
    floatValueApproxR rne64 maxFloat64 (.fin 0 false) (.fin maxFloat64 false)
      (.sc (.float (.fin maxFloat64 false))) (.sc (.float (.fin (-maxFloat64) false))) = (false, true) ∧
    floatValueApproxR rne64 maxFloat64 (.fin 4 false) (.fin 0 false)
      (.sc (.float (.fin maxFloat64 false))) (.sc (.float (.fin (-maxFloat64) false))) = (true, true) := by
  decide +kernel

/-! ### Own kind only, in rounded arithmetic too -/

/-- The rounded comparers claim values of their own kind only (on anything else `ok = false`: the default
comparison decides), and on two valid Durations `DurationValueWithinP` is the rounded arithmetic on
`AsDuration()` of each. -/
theorem C16_own_kind_only_rounded (rnd : Rat → Rat) (lim : Rat) (fr mg p : F) (x y : Val) :
    ((∀ fx, x ≠ .sc (.float fx)) → (floatValueApproxR rnd lim fr mg x y).2 = false) ∧
    (x.typeName ≠ durName → y.typeName ≠ durName → (durationValueWithinPR rnd p x y).2 = false) ∧
    (∀ q z fx fy ux uy, durationValueWithinPR rnd (.fin q z) (.msg durName true fx ux) (.msg durName true fy uy) =
      (durWithinPR rnd q (toDurationNs fx) (toDurationNs fy), true)) := by
  refine ⟨?_, ?_, ?_⟩
  · intro h
    cases x with
    | msg => simp [floatValueApproxR]
    | sc s => cases s <;> simp_all [floatValueApproxR]
  · intro hx hy
    cases x <;> cases y <;> simp_all [durationValueWithinPR, cmpDuration, Val.typeName]
  · intro q z fx fy ux uy
    simp [durationValueWithinPR, cmpDuration]

/-! ### Non-vacuity -/

/-- The hypotheses are satisfiable, by the exact arithmetic and by a rounding that is exact nowhere but at 0. -/
example : Rounding id ∧ Rounding (fun _ => 0) ∧ Rounding rne64 :=
  ⟨rounding_id, rounding_zero, rne64_rounding⟩

/-- The second disjunct of `C16_float_approx_rounded` is real. With the binary64 rounding `rne64` and fraction 0.1
(as a float), x = 232 and y = 210.9090909090909 (a float) are 21.090909090909093… apart — beyond the exact
tolerance 0.1·y by less than one rounding step — and are accepted, because the product 0.1·y rounds up to the
distance; in exact arithmetic the pair is rejected. -/
example :
    let fr : Rat := 3602879701896397 / 36028797018963968   -- 0.1 as a float
    let x : Rat := 232
    let y : Rat := 7420703931462749 / 35184372088832        -- 210.9090909090909
    floatApproxR rne64 fr 0 x y = true ∧ ¬ ((x - y).abs ≤ max 0 (fr * min x.abs y.abs)) ∧
    floatApproxR id fr 0 x y = false := by
  decide +kernel

end ScVerif.C16
