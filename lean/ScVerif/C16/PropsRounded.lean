import ScVerif.C16.RoundedLemmas
/-!
# C16 — property theorems about the tolerance comparers IN ROUNDED ARITHMETIC (round 6)

"... tolerance comparers for floats, timestamps and durations are reflexive and symmetric, accept exactly the
pairs within the stated tolerance ...".  `Props.lean` proves this over exact rationals.  binary64 rounds; these
theorems are about the arithmetic as the code performs it, for EVERY rounding function `rnd` that is monotone and
sign-symmetric (`Rounding rnd`: IEEE round-to-nearest-even, round-toward-zero, exact arithmetic, ...), every
fraction, margin and pair of finite values, without any "the arithmetic is exact on these inputs" hypothesis — and
then for binary64 itself (`rne64`, proved to be such a rounding), with no hypothesis left.

Only property theorems and their non-vacuity examples live in this file.
-/
namespace ScVerif.C16

/-- `FloatValueApprox` in rounded arithmetic accepts EXACTLY the pairs that are within the stated tolerance
(`|x − y| ≤ max margin (fraction · min |x| |y|)` over the reals) or whose distance rounds to the same number as
that tolerance: rounding never rejects a pair that is within tolerance, and a pair it accepts beyond the
tolerance is beyond it by less than one rounding step.  (`margin` is a float: `rnd margin = margin`.) -/
theorem C16_float_approx_rounded (rnd : Rat → Rat) (h : Rounding rnd) (fr mg x y : Rat) (hmg : rnd mg = mg) :
    floatApproxR rnd fr mg x y = true ↔
      ((x - y).abs ≤ max mg (fr * min x.abs y.abs) ∨
       rnd (x - y).abs = rnd (max mg (fr * min x.abs y.abs))) := by
  rw [floatApproxR_eq rnd h fr mg x y hmg, decide_eq_true_eq]
  constructor
  · intro hle
    by_cases hd : (x - y).abs ≤ max mg (fr * min x.abs y.abs)
    · exact Or.inl hd
    · right
      have hlt : max mg (fr * min x.abs y.abs) ≤ (x - y).abs := by grind
      have := h.mono _ _ hlt
      grind
  · rintro (hd | he)
    · exact h.mono _ _ hd
    · rw [he]; exact Rat.le_refl

/-- Where the distance and the tolerance are floats themselves (the arithmetic is exact), the rounded comparer is
the exact one: the theorems of `Props.lean` are the special case. -/
theorem C16_float_approx_rounded_exact (rnd : Rat → Rat) (h : Rounding rnd) (fr mg x y : Rat) (hmg : rnd mg = mg)
    (hd : rnd (x - y).abs = (x - y).abs)
    (ht : rnd (max mg (fr * min x.abs y.abs)) = max mg (fr * min x.abs y.abs)) :
    floatApproxR rnd fr mg x y = floatApproxF (.fin fr false) (.fin mg false) (.fin x false) (.fin y false) := by
  rw [floatApproxF_fin, floatApproxR_eq rnd h fr mg x y hmg, hd, ht]

/-- Symmetric under every sign-symmetric rounding, for all tolerances (no hypothesis on the margin, no
monotonicity). -/
theorem C16_float_approx_rounded_symm (rnd : Rat → Rat) (h : SignSymmetric rnd) (fr mg x y : Rat) :
    floatApproxR rnd fr mg x y = floatApproxR rnd fr mg y x := by
  unfold floatApproxR
  simp only []
  have e : x - y = -(y - x) := by grind
  rw [e, h.odd, Rat.abs_neg, min_comm' x.abs y.abs]

/-- Reflexive under every sign-symmetric, sign-preserving rounding when the margin or the fraction is
non-negative. -/
theorem C16_float_approx_rounded_refl (rnd : Rat → Rat) (h : SignSymmetric rnd) (fr mg x : Rat) (hp : 0 ≤ mg ∨ 0 ≤ fr) :
    floatApproxR rnd fr mg x x = true := by
  unfold floatApproxR
  simp only [decide_eq_true_eq]
  have e : x - x = 0 := by grind
  have e2 : min x.abs x.abs = x.abs := by grind
  rw [e, h.zero, e2]
  have h0 : (0 : Rat).abs = 0 := rfl
  rw [h0]
  rcases hp with hp | hp
  · grind
  · have := h.nonneg _ (Rat.mul_nonneg hp (Rat.abs_nonneg (x := x)))
    grind

/-- `DurationValueWithinP` in rounded arithmetic (int64 → float64 conversions, difference and both products
rounded): symmetric for every p, reflexive for `p ≥ 0`, under every sign-symmetric, sign-preserving rounding and
for all int64 durations — also those beyond 2^53 ns, which float64 cannot represent. -/
theorem C16_durationP_rounded (rnd : Rat → Rat) (h : SignSymmetric rnd) (p : Rat) (xd yd : Int) :
    durWithinPR rnd p xd yd = durWithinPR rnd p yd xd ∧
    (0 ≤ p → durWithinPR rnd p xd xd = true) := by
  constructor
  · unfold durWithinPR
    simp only []
    have e : rnd xd - rnd yd = -(rnd yd - rnd xd) := by grind
    rw [e, h.odd, Rat.abs_neg, min_comm' (rnd xd).abs (rnd yd).abs]
  · intro hp
    unfold durWithinPR
    simp only [decide_eq_true_eq]
    have e : rnd xd - rnd xd = 0 := by grind
    have e2 : min (rnd xd).abs (rnd xd).abs = (rnd xd).abs := by grind
    have h0 : (0 : Rat).abs * 100 = 0 := by
      have : (0 : Rat).abs = 0 := rfl
      rw [this]; grind
    rw [e, h.zero, h0, h.zero, e2]
    exact h.nonneg _ (Rat.mul_nonneg hp (Rat.abs_nonneg (x := rnd xd)))

/-- With exact arithmetic (`rnd = id`) it is the comparer of `C16_durationP`. -/
theorem C16_durationP_rounded_exact (p : Rat) (z : Bool) (xd yd : Int) :
    durWithinPR id p xd yd = durWithinPD (.fin p z) xd yd := by
  rw [Bool.eq_iff_iff, durWithinPD_iff]
  unfold durWithinPR minAbs
  simp only [id, decide_eq_true_eq]
  have : min (xd : Rat).abs (yd : Rat).abs = if (xd : Rat).abs < (yd : Rat).abs then (xd : Rat).abs else (yd : Rat).abs := by
    grind
  rw [this]

/-! ### Binary64 itself: no hypothesis left

`rne64` is round-to-nearest-even onto the binary64 grid (subnormals included), written over exact rationals; it is
the function the driver runs and the tie compares with the hardware on every run.  It is PROVED monotone and
sign-symmetric (`rne64_rounding`, RoundedLemmas.lean), so the theorems above hold of it outright. -/

/-- In binary64 arithmetic `FloatValueApprox(fraction, margin)` accepts EXACTLY the pairs of finite floats that are
within the stated tolerance over the reals, or whose distance rounds to the same float as that tolerance — for all
fractions, all margins that are floats, all finite values; inputs whose arithmetic rounds included. -/
theorem C16_float_approx_binary64 (fr mg x y : Rat) (hmg : rne64 mg = mg) :
    floatApproxR rne64 fr mg x y = true ↔
      ((x - y).abs ≤ max mg (fr * min x.abs y.abs) ∨
       rne64 (x - y).abs = rne64 (max mg (fr * min x.abs y.abs))) :=
  C16_float_approx_rounded rne64 rne64_rounding fr mg x y hmg

/-- In binary64 arithmetic, without any hypothesis: `FloatValueApprox` is symmetric for all fractions, margins and
finite values and reflexive when the margin or the fraction is non-negative; `DurationValueWithinP` is symmetric
for every p and reflexive for `p ≥ 0` on all int64 durations (beyond 2^53 ns too). -/
theorem C16_tolerance_binary64 (fr mg x y p : Rat) (xd yd : Int) :
    floatApproxR rne64 fr mg x y = floatApproxR rne64 fr mg y x ∧
    ((0 ≤ mg ∨ 0 ≤ fr) → floatApproxR rne64 fr mg x x = true) ∧
    durWithinPR rne64 p xd yd = durWithinPR rne64 p yd xd ∧
    (0 ≤ p → durWithinPR rne64 p xd xd = true) :=
  ⟨C16_float_approx_rounded_symm rne64 rne64_signSymmetric fr mg x y,
   C16_float_approx_rounded_refl rne64 rne64_signSymmetric fr mg x,
   (C16_durationP_rounded rne64 rne64_signSymmetric p xd yd).1,
   (C16_durationP_rounded rne64 rne64_signSymmetric p xd yd).2⟩

/-- The margin hypothesis of `C16_float_approx_binary64` is satisfiable: 0, 0.5 and 0.1-as-a-float are floats. -/
example : rne64 0 = 0 ∧ rne64 (1 / 2) = 1 / 2 ∧
    rne64 (3602879701896397 / 36028797018963968) = 3602879701896397 / 36028797018963968 := by
  decide +kernel

/-! ### Non-vacuity -/

/-- The hypotheses are satisfiable, by the exact arithmetic and by a rounding that is exact nowhere but at 0. -/
example : Rounding id ∧ Rounding (fun _ => 0) ∧ Rounding rne64 :=
  ⟨rounding_id, rounding_zero, rne64_rounding⟩

/-- The second disjunct of `C16_float_approx_rounded` is real. With the binary64 rounding `rne64` and fraction 0.1
(as a float), x = 232 and y = 210.9090909090909 (a float) are 21.090909090909093… apart — beyond the exact
tolerance 0.1·y by less than one rounding step — and are accepted, because the product 0.1·y rounds up to the
distance; in exact arithmetic the pair is rejected. -/
example :
    let fr : Rat := 3602879701896397 / 36028797018963968   -- 0.1 as a float
    let x : Rat := 232
    let y : Rat := 7420703931462749 / 35184372088832        -- 210.9090909090909
    floatApproxR rne64 fr 0 x y = true ∧ ¬ ((x - y).abs ≤ max 0 (fr * min x.abs y.abs)) ∧
    floatApproxR id fr 0 x y = false := by
  decide +kernel

end ScVerif.C16
