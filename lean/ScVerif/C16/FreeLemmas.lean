import ScVerif.C16.Free
import ScVerif.C16.MergeLemmas
import ScVerif.C16.PullLemmas
/-! Lemmas about the free-running lossy stages (`Free.lean`). -/
namespace ScVerif.C16

/-! ## DropExcess -/

section Drop
variable {β : Type}

/-- The messages a consumer can be handed, in order: what was held at the start, then the bus's messages. -/
def offered (p : Option β) (sched : List (Act β)) : List β := p.toList ++ recvs sched

theorem dropRun_sublist : ∀ (sched : List (Act β)) (p : Option β),
    List.Sublist (dropRun p sched).1 (offered p sched)
  | [], p => by simp [dropRun]
  | .recv b :: rest, p => by
    have ih := dropRun_sublist rest (some b)
    have h1 : (dropRun p (.recv b :: rest)).1 = (dropRun (some b) rest).1 := by cases p <;> rfl
    rw [h1]
    simp only [offered, recvs, Option.toList_some] at ih ⊢
    exact ih.trans (List.sublist_append_right _ _)
  | .take :: rest, none => by
    have ih := dropRun_sublist rest none
    simpa [dropRun, offered, recvs] using ih
  | .take :: rest, some a => by
    have ih := dropRun_sublist rest none
    simp only [dropRun, offered, recvs, Option.toList_some, Option.toList_none, List.nil_append,
      List.singleton_append] at ih ⊢
    exact ih.cons_cons a

/-- What is still held at the end is nothing or the LATEST message. -/
theorem dropRun_pending : ∀ (sched : List (Act β)) (p : Option β),
    (dropRun p sched).2 = none ∨ (dropRun p sched).2 = (offered p sched).getLast?
  | [], p => by cases p <;> simp [dropRun, offered, recvs]
  | .recv b :: rest, p => by
    have ih := dropRun_pending rest (some b)
    have h1 : (dropRun p (.recv b :: rest)).2 = (dropRun (some b) rest).2 := by cases p <;> rfl
    have h2 : (offered p (.recv b :: rest)).getLast? = (offered (some b) rest).getLast? := by
      simp only [offered, recvs, Option.toList_some]
      rw [List.getLast?_append, List.getLast?_append]
      simp [List.getLast?_cons]
    rw [h1, h2]; exact ih
  | .take :: rest, none => by
    have ih := dropRun_pending rest none
    simpa [dropRun, offered, recvs] using ih
  | .take :: rest, some a => by
    have ih := dropRun_pending rest none
    rcases ih with ih | ih
    · left; simpa [dropRun] using ih
    · simp only [dropRun]
      cases hr : recvs rest with
      | nil =>
        left
        simp [offered, hr] at ih
        exact ih
      | cons x xs =>
        right
        rw [ih]
        simp [offered, recvs, hr, List.getLast?_cons]

/-- Quiescence: nothing held at the end and something was offered — then the last message handed over IS the
latest message. -/
theorem dropRun_quiescent : ∀ (sched : List (Act β)) (p : Option β),
    (dropRun p sched).2 = none → offered p sched ≠ [] →
    (dropRun p sched).1.getLast? = (offered p sched).getLast?
  | [], p, h, hne => by
    cases p with
    | none => simp [offered, recvs] at hne
    | some a => simp [dropRun] at h
  | .recv b :: rest, p, h, _ => by
    have h1 : dropRun p (.recv b :: rest) = dropRun (some b) rest := by cases p <;> rfl
    have h2 : (offered p (.recv b :: rest)).getLast? = (offered (some b) rest).getLast? := by
      simp only [offered, recvs, Option.toList_some]
      rw [List.getLast?_append, List.getLast?_append]
      simp [List.getLast?_cons]
    rw [h1] at h ⊢
    rw [h2]
    exact dropRun_quiescent rest (some b) h (by simp [offered])
  | .take :: rest, none, h, hne => by
    have := dropRun_quiescent rest none (by simpa [dropRun] using h) (by simpa [offered, recvs] using hne)
    simpa [dropRun, offered, recvs] using this
  | .take :: rest, some a, h, _ => by
    simp only [dropRun] at h ⊢
    cases hr : recvs rest with
    | nil =>
      -- nothing arrives any more: nothing else is handed over
      have hs := dropRun_sublist rest none
      simp only [offered, hr, Option.toList_none, List.append_nil] at hs
      have : (dropRun none rest).1 = [] := List.sublist_nil.mp hs
      simp [this, offered, recvs, hr]
    | cons x xs =>
      have ih := dropRun_quiescent rest none h (by simp [offered, hr])
      have hne : (dropRun none rest).1 ≠ [] := by
        intro e
        rw [e] at ih
        simp only [offered, hr, Option.toList_none, List.nil_append, List.getLast?_nil] at ih
        exact absurd (List.getLast?_eq_none_iff.mp ih.symm) (by simp)
      rw [List.getLast?_cons_of_ne_nil hne, ih]
      simp [offered, recvs, hr, List.getLast?_cons]

end Drop

/-! ## Value.Pull behind DropExcess -/

/-- Whatever the loop of `Value.Pull` is handed, after the last event `w` the subscriber holds `flt w` or a
value the equivalence accepts for it. -/
theorem valuePullLoop_last (E : MCmp) (flt : Val → Val) (w : Val) :
    ∀ (evs : List Val) (last : Top),
      heldAfter last (valuePullLoop (some E) flt last (evs ++ [w])) = some (flt w) ∨
      E (heldAfter last (valuePullLoop (some E) flt last (evs ++ [w]))) (some (flt w)) = true
  | [], last => by
    simp only [List.nil_append, valuePullLoop]
    by_cases he : E last (some (flt w)) = true
    · right; simp [he, heldAfter]
    · left; simp [he, heldAfter]
  | ev :: rest, last => by
    simp only [List.cons_append, valuePullLoop]
    by_cases he : E last (some (flt ev)) = true
    · simpa [he, heldAfter] using valuePullLoop_last E flt w rest last
    · simpa [he, heldAfter] using valuePullLoop_last E flt w rest (some (flt ev))

theorem valuePull_last (E : MCmp) (flt : Val → Val) (w : Val) (cur : Top) (evs : List Val) :
    heldAfter none (valuePull (some E) flt cur (evs ++ [w])) = some (flt w) ∨
    E (heldAfter none (valuePull (some E) flt cur (evs ++ [w]))) (some (flt w)) = true := by
  cases cur with
  | none => simpa [valuePull] using valuePullLoop_last E flt w evs none
  | some v => simpa [valuePull, heldAfter] using valuePullLoop_last E flt w evs (some (flt v))

/-! ## mergeCollectionExcess: one id -/

section Merger
variable {α : Type}

/-- The changes of id `i` handed over so far form a chain of windows: each is "stored at the previous take →
stored at this take" (never absent → absent), from `t` to `w`. -/
inductive Coarse (i : String) : Option α → List (Chg α) → Option α → Prop
  | nil (t : Option α) : Coarse i t [] t
  | cons {t u w : Option α} {c : Chg α} {rest : List (Chg α)} :
      Pending i t u (some c) → Coarse i u rest w → Coarse i t (c :: rest) w

/-- Invariant of one id in the merger: `t` = the value stored when `i`'s change was last taken (or at the
start), `cur` = the value stored now; nothing pending means nothing happened since (or the item was absent
then and is absent now), else the pending change is exactly `t → cur`. -/
def Inv (i : String) (t cur : Option α) (p : Option (Chg α)) : Prop :=
  (p = none ∧ t = cur) ∨ (p ≠ none ∧ Pending i t cur p)

theorem pending_none {i : String} {t c : Option α} (h : Pending i t c none) : t = none ∧ c = none := by
  cases t <;> cases c <;> simp [Pending] at h ⊢

theorem pending_some_fields {i : String} {t u : Option α} {c : Chg α} (h : Pending i t u (some c)) :
    c.id = i ∧ c.old = t ∧ c.new = u ∧ ¬ (t = none ∧ u = none) := by
  cases t <;> cases u <;> simp only [Pending] at h
  · cases h
  · injection h with h; subst h; simp
  · injection h with h; subst h; simp
  · rcases h with h | h <;> (injection h with h; subst h; simp)

/-- What a receive does to the pending change of its id. -/
def recvP (p : Option (Chg α)) (b : Chg α) : Option (Chg α) :=
  match p with
  | none => some b
  | some a => mergeChanges a b

theorem idRun_recv (p : Option (Chg α)) (b : Chg α) (rest : List (Act (Chg α))) :
    idRun p (.recv b :: rest) = idRun (recvP p b) rest := by
  cases p <;> rfl

/-- One published event keeps the invariant. -/
theorem inv_recv (i : String) {cur cur' : Option α} {b : Chg α} (hstep : IdChain i cur [b] cur')
    {t : Option α} {p : Option (Chg α)} (hinv : Inv i t cur p) : Inv i t cur' (recvP p b) := by
  rcases hinv with ⟨hp, ht⟩ | ⟨hp, hpend⟩
  · subst hp ht
    right
    refine ⟨by simp [recvP], ?_⟩
    have := mergeFold_window i hstep (by simp)
    simpa [mergeFold, recvP] using this
  · cases p with
    | none => exact absurd rfl hp
    | some a =>
      have := mergeFold_pending i hstep t (some a) hpend
      simp only [mergeFold] at this
      cases hm : mergeChanges a b with
      | none =>
        rw [hm] at this
        have := pending_none this
        left; exact ⟨by simp [recvP, hm], by rw [this.1, this.2]⟩
      | some c =>
        rw [hm] at this
        right; exact ⟨by simp [recvP, hm], by simpa [recvP, hm] using this⟩

theorem idRun_chain (i : String) : ∀ (sched : List (Act (Chg α))) (cur e t : Option α) (p : Option (Chg α)),
    IdChain i cur (recvs sched) e → Inv i t cur p →
    ∃ w, Coarse i t (idRun p sched).1 w ∧ Inv i w e (idRun p sched).2
  | [], cur, e, t, p, hc, hinv => by
    simp only [recvs] at hc
    cases hc
    exact ⟨t, by simpa [idRun] using Coarse.nil t, by simpa [idRun] using hinv⟩
  | .recv b :: rest, cur, e, t, p, hc, hinv => by
    rw [idRun_recv]
    simp only [recvs] at hc
    cases hc with
    | add v h =>
      exact idRun_chain i rest (some v) e t _ h (inv_recv i (IdChain.add v (IdChain.done _)) hinv)
    | update u v h =>
      exact idRun_chain i rest (some v) e t _ h (inv_recv i (IdChain.update u v (IdChain.done _)) hinv)
    | remove u h =>
      exact idRun_chain i rest none e t _ h (inv_recv i (IdChain.remove u (IdChain.done _)) hinv)
  | .take :: rest, cur, e, t, none, hc, hinv => by
    simp only [recvs] at hc
    simpa [idRun] using idRun_chain i rest cur e t none hc hinv
  | .take :: rest, cur, e, t, some a, hc, hinv => by
    simp only [recvs] at hc
    obtain ⟨w, hw, hi⟩ := idRun_chain i rest cur e cur none hc (Or.inl ⟨rfl, rfl⟩)
    rcases hinv with ⟨hp, _⟩ | ⟨_, hpend⟩
    · cases hp
    · exact ⟨w, by simpa [idRun] using Coarse.cons hpend hw, by simpa [idRun] using hi⟩

/-! ## mergeCollectionExcess: the queue of several ids under a schedule -/

theorem nodup_tail {c : Chg α} {q : List (Chg α)} (h : NodupIds (c :: q)) :
    NodupIds q ∧ q.find? (fun d => d.id == c.id) = none := by
  simp only [NodupIds, List.map_cons, List.nodup_cons] at h
  refine ⟨h.2, ?_⟩
  rw [List.find?_eq_none]
  intro d hd
  have : d.id ≠ c.id := fun e => h.1 (e ▸ List.mem_map_of_mem hd)
  simpa using this

theorem mergerRun_nodup : ∀ (acts : List (Act (Chg α))) (q : List (Chg α)), NodupIds q →
    NodupIds (mergerRun q acts).2
  | [], q, h => by simpa [mergerRun] using h
  | .recv b :: rest, q, h => by
    simpa [mergerRun] using mergerRun_nodup rest _ (mergerRecv_nodup q b h)
  | .take :: rest, [], h => by simpa [mergerRun] using mergerRun_nodup rest [] h
  | .take :: rest, c :: q, h => by
    simpa [mergerRun] using mergerRun_nodup rest q (nodup_tail h).1

theorem mergerRun_proj (i : String) : ∀ (acts : List (Act (Chg α))) (q : List (Chg α)), NodupIds q →
    (mergerRun q acts).1.filter (fun c => c.id == i) =
      (idRun (q.find? (fun c => c.id == i)) (projI i q acts)).1 ∧
    (mergerRun q acts).2.find? (fun c => c.id == i) =
      (idRun (q.find? (fun c => c.id == i)) (projI i q acts)).2
  | [], q, _ => by simp [mergerRun, projI, idRun]
  | .recv b :: rest, q, h => by
    have ih := mergerRun_proj i rest (mergerRecv q b) (mergerRecv_nodup q b h)
    rw [mergerRecv_find q b i h] at ih
    simp only [mergerRun, projI]
    by_cases hbi : b.id = i
    · simp only [hbi, if_true] at ih ⊢
      rw [idRun_recv]
      cases hf : q.find? (fun c => c.id == i) with
      | none => simpa [hf, recvP] using ih
      | some a => simpa [hf, recvP] using ih
    · simp only [hbi, if_false] at ih ⊢
      exact ih
  | .take :: rest, [], h => by
    have ih := mergerRun_proj i rest [] h
    simpa [mergerRun, projI] using ih
  | .take :: rest, c :: q, h => by
    obtain ⟨hq, hnone⟩ := nodup_tail h
    have ih := mergerRun_proj i rest q hq
    simp only [mergerRun, projI]
    by_cases hci : c.id = i
    · subst hci
      rw [hnone] at ih
      simp only [if_true, List.find?_cons, beq_self_eq_true, List.filter_cons, idRun]
      exact ⟨by rw [ih.1], ih.2⟩
    · have hb : (c.id == i) = false := by simpa using hci
      simp only [hci, if_false, List.find?_cons, hb, List.filter_cons]
      simpa using ih

theorem projI_recvs (i : String) : ∀ (acts : List (Act (Chg α))) (q : List (Chg α)),
    recvs (projI i q acts) = (recvs acts).filter (fun c => c.id == i)
  | [], q => by simp [projI, recvs]
  | .recv b :: rest, q => by
    have ih := projI_recvs i rest (mergerRecv q b)
    by_cases hbi : b.id = i
    · simp [projI, recvs, hbi, ih]
    · have hb : (b.id == i) = false := by simpa using hbi
      simp [projI, recvs, hbi, hb, ih]
  | .take :: rest, [] => by simpa [projI, recvs] using projI_recvs i rest []
  | .take :: rest, c :: q => by
    have ih := projI_recvs i rest q
    by_cases hci : c.id = i <;> simp [projI, recvs, hci, ih]

/-! ## the subscriber's copy -/

theorem viewFold_tracks (E : Option α → Option α → Bool) (flt : α → α)
    (hrefl : ∀ a, E a a = true) (htrans : ∀ a b c, E a b = true → E b c = true → E a c = true)
    (i : String) {t w : Option α} {out : List (Chg α)} (hc : Coarse i t out w) :
    ∀ held, E held (t.map flt) = true → E (viewFold E flt held out) (w.map flt) = true := by
  induction hc with
  | nil t => intro held h; simpa [viewFold] using h
  | @cons t u w c rest hp _ ih =>
    intro held h
    obtain ⟨_, ho, hn, _⟩ := pending_some_fields hp
    simp only [viewFold, lossyStep, ho, hn]
    cases hd : E (t.map flt) (u.map flt) with
    | true => simp only [Bool.not_true]; exact ih held (htrans _ _ _ h hd)
    | false => simp only [Bool.not_false]; exact ih _ (hrefl _)

/-! ## the subscriber's copy with an include filter -/

/-- What a subscriber with an include filter may see of a stored item: nothing when absent or outside the
filter, else the item under the read mask. -/
def vis (flt : α → α) (inc : α → Bool) : Option α → Option α
  | some v => if inc v then some (flt v) else none
  | none => none

/-- The subscriber's copy of one item folded over the changes of that id handed to the loop of
`Collection.Pull` with `WithInclude` (include, read-mask filter, equivalence: `lossyStepI`). -/
def viewFoldI (E : Option α → Option α → Bool) (flt : α → α) (inc : α → Bool) : Option α → List (Chg α) → Option α
  | held, [] => held
  | held, c :: rest =>
    viewFoldI E flt inc
      (match lossyStepI (some E) flt (some inc) c with
        | some (c', true) => c'.new
        | _ => held) rest

theorem viewFoldI_tracks (E : Option α → Option α → Bool) (flt : α → α) (inc : α → Bool)
    (hrefl : ∀ a, E a a = true) (htrans : ∀ a b c, E a b = true → E b c = true → E a c = true)
    (hnil : ∀ w, E none (some w) = false ∧ E (some w) none = false)
    (i : String) {t w : Option α} {out : List (Chg α)} (hc : Coarse i t out w) :
    ∀ held, E held (vis flt inc t) = true → E (viewFoldI E flt inc held out) (vis flt inc w) = true := by
  induction hc with
  | nil t => intro held h; simpa [viewFoldI] using h
  | @cons t u w c rest hp _ ih =>
    intro held h
    obtain ⟨_, ho, hn, hne⟩ := pending_some_fields hp
    simp only [viewFoldI]
    apply ih
    cases t with
    | none =>
      cases u with
      | none => exact absurd ⟨rfl, rfl⟩ hne
      | some v =>
        by_cases hv : inc v = true
        · simp [lossyStepI, includeChg, lossyStep, ho, hn, hv, vis, (hnil (flt v)).1, hrefl]
        · simpa [lossyStepI, includeChg, lossyStep, ho, hn, hv, vis] using h
    | some x =>
      cases u with
      | none =>
        by_cases hx : inc x = true
        · simp [lossyStepI, includeChg, lossyStep, ho, hn, hx, vis, (hnil (flt x)).2, hrefl]
        · simpa [lossyStepI, includeChg, lossyStep, ho, hn, hx, vis] using h
      | some v =>
        by_cases hx : inc x = true <;> by_cases hv : inc v = true
        · cases hd : E (some (flt x)) (some (flt v)) with
          | true =>
            have := htrans _ _ _ (by simpa [vis, hx] using h) hd
            simpa [lossyStepI, includeChg, lossyStep, ho, hn, hx, hv, vis, hd] using this
          | false => simp [lossyStepI, includeChg, lossyStep, ho, hn, hx, hv, vis, hd, hrefl]
        · simp [lossyStepI, includeChg, lossyStep, ho, hn, hx, hv, vis, (hnil (flt x)).2, hrefl]
        · simp [lossyStepI, includeChg, lossyStep, ho, hn, hx, hv, vis, (hnil (flt v)).1, hrefl]
        · simpa [lossyStepI, includeChg, lossyStep, ho, hn, hx, hv, vis] using h

end Merger

end ScVerif.C16
