import ScVerif.C16.RepeatedLemmas
/-!
# C16 — `equalMap` consults the value comparer for every map VALUE (lemmas)
-/
namespace ScVerif.C16

/-- The entries `Range` visits, in order. -/
def Entries.toList : Entries → List (Scalar × Val)
  | .nil => []
  | .cons k v rest => (k, v) :: toList rest

/-- `equalMap`'s loop: every entry of x has an entry of y under the same key, equal under `equalValue`. -/
theorem eqMapLoop_iff (c : VCmp) (ys : Entries) : (xs : Entries) →
    (eqMapLoop c xs ys = true ↔
      ∀ p ∈ xs.toList, ∃ vy, ys.get? p.1 = some vy ∧ eqValue c p.2 vy = true)
  | .nil => by unfold eqMapLoop; simp [Entries.toList]
  | .cons k v rest => by
    have ih := eqMapLoop_iff c ys rest
    unfold eqMapLoop
    simp only [Bool.and_eq_true, ih, Entries.toList, List.mem_cons, forall_eq_or_imp]
    constructor
    · rintro ⟨h1, h2⟩
      refine ⟨?_, h2⟩
      cases hg : ys.get? k with
      | none => simp [hg] at h1
      | some vy => simp only [hg] at h1; exact ⟨vy, rfl, h1⟩
    · rintro ⟨⟨vy, hg, hv⟩, h2⟩
      refine ⟨?_, h2⟩
      rw [hg]
      exact hv

theorem Entries.len_eq_length : (xs : Entries) → xs.len = xs.toList.length
  | .nil => rfl
  | .cons _ _ r => by simp [Entries.len, Entries.toList, Entries.len_eq_length r]

/-- `equalField` on a map field, for every value comparer. -/
theorem eqField_map_iff (c : VCmp) (xs ys : Entries) :
    eqField c (.map xs) (.map ys) = true ↔
      xs.toList.length = ys.toList.length ∧
        ∀ p ∈ xs.toList, ∃ vy, ys.get? p.1 = some vy ∧ eqValue c p.2 vy = true := by
  unfold eqField
  rw [Bool.and_eq_true, eqMapLoop_iff, Entries.len_eq_length, Entries.len_eq_length]
  simp only [beq_iff_eq]

/-- A map whose values are built by one constructor `f`. -/
def Entries.ofListWith {α : Type} (f : α → Val) (l : List (Scalar × α)) : Entries :=
  Entries.ofList (l.map (fun p => (p.1, f p.2)))

theorem Entries.get?_ofListWith {α : Type} (f : α → Val) (k : Scalar) : (l : List (Scalar × α)) →
    (Entries.ofListWith f l).get? k = (l.find? (fun e => decide (e.1 = k))).map (fun e => f e.2)
  | [] => rfl
  | (k', a) :: r => by
    have ih := Entries.get?_ofListWith f k r
    unfold Entries.ofListWith at ih ⊢
    simp only [List.map_cons, Entries.ofList, Entries.get?, List.find?_cons]
    by_cases hk : k' = k
    · simp [hk]
    · simp [hk, ih]

theorem Entries.toList_ofListWith {α : Type} (f : α → Val) : (l : List (Scalar × α)) →
    (Entries.ofListWith f l).toList = l.map (fun p => (p.1, f p.2))
  | [] => rfl
  | (k', a) :: r => by
    have ih := Entries.toList_ofListWith f r
    unfold Entries.ofListWith at ih ⊢
    simp only [List.map_cons, Entries.ofList, Entries.toList, ih]

/-- The map loop over two maps whose values are built by one constructor `f`, the per-value verdict being
characterised by `P`. -/
theorem eqField_map_with_iff {α : Type} (c : VCmp) (f : α → Val) (P : α → α → Prop)
    (hP : ∀ a b, eqValue c (f a) (f b) = true ↔ P a b) (xs ys : List (Scalar × α)) :
    eqField c (.map (Entries.ofListWith f xs)) (.map (Entries.ofListWith f ys)) = true ↔
      xs.length = ys.length ∧
        ∀ p ∈ xs, ∃ q, ys.find? (fun e => decide (e.1 = p.1)) = some q ∧ P p.2 q.2 := by
  rw [eqField_map_iff, Entries.toList_ofListWith, Entries.toList_ofListWith]
  simp only [List.length_map, List.mem_map, Entries.get?_ofListWith]
  constructor
  · rintro ⟨hl, hp⟩
    refine ⟨hl, fun p hm => ?_⟩
    obtain ⟨vy, hg, hv⟩ := hp (p.1, f p.2) ⟨p, hm, rfl⟩
    simp only at hg hv
    cases hf : ys.find? (fun e => decide (e.1 = p.1)) with
    | none => simp [hf] at hg
    | some q =>
      simp only [hf, Option.map_some, Option.some.injEq] at hg
      subst hg
      exact ⟨q, rfl, (hP _ _).1 hv⟩
  · rintro ⟨hl, hp⟩
    refine ⟨hl, ?_⟩
    rintro _ ⟨p, hm, rfl⟩
    obtain ⟨q, hf, hq⟩ := hp p hm
    exact ⟨f q.2, by simp [hf], (hP _ _).2 hq⟩

end ScVerif.C16
