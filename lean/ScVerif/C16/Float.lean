/-!
# C16 — floating point values over exact arithmetic

`F` models an IEEE-754 value as used by `pkg/cmp`: NaN, ±Inf, or a finite value carried as an exact
rational (every finite float64/float32 is a dyadic rational).  The sign of zero is kept (`negz`) so
that `+0` and `-0` are distinct *representations* that compare equal, as in Go.

What is NOT modelled: rounding and overflow of finite results (`fmul`, `fsub`, `fdiv` are exact).
The correspondence check only uses inputs for which the float64 arithmetic of the code is exact.
-/
namespace ScVerif.C16

inductive F where
  | nan
  | inf (neg : Bool)
  | fin (q : Rat) (negz : Bool)
  deriving DecidableEq, Repr, Inhabited

namespace F

def ofRat (q : Rat) : F := .fin q false

def isNaN : F → Bool
  | .nan => true
  | _ => false

def isFinite : F → Bool
  | .fin _ _ => true
  | _ => false

/-- Sign bit of a non-NaN value (true = negative), as seen by multiplication/division. -/
def signBit : F → Bool
  | .nan => false
  | .inf n => n
  | .fin q nz => if q = 0 then nz else decide (q < 0)

/-- Go `==` on float64: NaN is unequal to everything, `+0 == -0`. -/
def eq : F → F → Bool
  | .inf a, .inf b => a == b
  | .fin p _, .fin q _ => decide (p = q)
  | _, _ => false

/-- Go `<=`. -/
def le : F → F → Bool
  | .nan, _ => false
  | _, .nan => false
  | .inf true, _ => true
  | _, .inf false => true
  | .inf false, _ => false
  | _, .inf true => false
  | .fin p _, .fin q _ => decide (p ≤ q)

/-- Go `<`. -/
def lt : F → F → Bool
  | .nan, _ => false
  | _, .nan => false
  | .inf true, .inf true => false
  | .inf false, .inf false => false
  | .inf true, _ => true
  | _, .inf false => true
  | .inf false, _ => false
  | _, .inf true => false
  | .fin p _, .fin q _ => decide (p < q)

def neg : F → F
  | .nan => .nan
  | .inf n => .inf (!n)
  | .fin q nz => .fin (-q) (!nz)

/-- `math.Abs`. -/
def abs : F → F
  | .nan => .nan
  | .inf _ => .inf false
  | .fin q _ => .fin q.abs false

/-- `x - y` (exact on finite values). -/
def sub : F → F → F
  | .nan, _ => .nan
  | _, .nan => .nan
  | .inf a, .inf b => if a == b then .nan else .inf a
  | .inf a, .fin _ _ => .inf a
  | .fin _ _, .inf b => .inf (!b)
  | .fin p pz, .fin q qz => .fin (p - q) (pz && !qz)

/-- `x * y` (exact on finite values). -/
def mul : F → F → F
  | .nan, _ => .nan
  | _, .nan => .nan
  | .inf a, .inf b => .inf (a != b)
  | .inf a, .fin q qz => if q = 0 then .nan else .inf (a != signBit (.fin q qz))
  | .fin p pz, .inf b => if p = 0 then .nan else .inf (signBit (.fin p pz) != b)
  | .fin p pz, .fin q qz => .fin (p * q) (signBit (.fin p pz) != signBit (.fin q qz))

/-- `x / y` (exact on finite values; division by zero gives ±Inf or NaN as in IEEE). -/
def div : F → F → F
  | .nan, _ => .nan
  | _, .nan => .nan
  | .inf _, .inf _ => .nan
  | .inf a, .fin q qz => .inf (a != signBit (.fin q qz))
  | .fin p pz, .inf b => .fin 0 (signBit (.fin p pz) != b)
  | .fin p pz, .fin q qz =>
    if q = 0 then (if p = 0 then .nan else .inf (signBit (.fin p pz) != signBit (.fin q qz)))
    else .fin (p / q) (signBit (.fin p pz) != signBit (.fin q qz))

/-- `math.Min`: `Min(x, -Inf) = -Inf` first, then NaN, then `Min(-0, ±0) = -0`. -/
def min (x y : F) : F :=
  if x = .inf true || y = .inf true then .inf true
  else if x.isNaN || y.isNaN then .nan
  else match x, y with
    | .fin p pz, .fin q qz =>
      if p = 0 ∧ q = 0 then .fin 0 (pz || qz) else if p < q then x else y
    | _, _ => if lt x y then x else y

/-- `math.Max`: `Max(x, +Inf) = +Inf` first, then NaN, then `Max(+0, ±0) = +0`. -/
def max (x y : F) : F :=
  if x = .inf false || y = .inf false then .inf false
  else if x.isNaN || y.isNaN then .nan
  else match x, y with
    | .fin p pz, .fin q qz =>
      if p = 0 ∧ q = 0 then .fin 0 (pz && qz) else if p > q then x else y
    | _, _ => if lt y x then x else y

end F
end ScVerif.C16
