import ScVerif.C16.Pull
/-!
# C16 — the published change is ONE object handed to every subscriber

`Collection.Pull` (pkg/resource/collection.go), for each event it takes from the bus:
`change.include(readConfig.Include)`, `change.filter(filter)`, `c.equivalence.Compare(change.OldValue,
change.NewValue)`, send. With back pressure the `*CollectionChange` a subscriber's loop receives is the very
pointer the writer published: every subscriber's goroutine works on the same object, interleaved in any
order. `include` answers with the received pointer itself when the change needs no adaptation (no predicate,
or old and new on the same side of it) and with a NEW change when an UPDATE becomes an ADD / REMOVE for this
subscriber; `filter` answers with the pointer it was given when there is no read mask and with a new change
otherwise; the comparison reads `OldValue` / `NewValue` through whatever pointer is left.

The model keeps the published object as a shared cell and each subscriber's progress through the three
steps; a schedule is any list of subscriber numbers (who moves next). The include step is a parameter that
may also WRITE the cell, so that "adapting the change in place" is expressible (and refuted).
-/
namespace ScVerif.C16

/-- Where a subscriber's current `*CollectionChange` lives: the published object, or a change of its own. -/
inductive ChRef where
  | shared
  | own (c : CEvent)

/-- Reading `OldValue` / `NewValue` through such a pointer. -/
def ChRef.deref (cell : CEvent) : ChRef → CEvent
  | .shared => cell
  | .own c => c

/-- One subscriber's read options: the read mask (none: `filter` hands back the pointer it was given) and
the include predicate. -/
structure SubCfg where
  mask : Option (Val → Val)
  inc : Option (Val → Bool)

/-- The response filter as a function (identity without a mask). -/
def SubCfg.flt (c : SubCfg) : Val → Val :=
  match c.mask with
  | some g => g
  | none => id

/-- Progress of one subscriber's handling of the event at hand. -/
inductive SubPc where
  | start
  | included (r : ChRef)
  | filtered (r : ChRef)
  | done (d : Option CDecision)

/-- An implementation of `CollectionChange.include`: what the subscriber continues with (`none`: not
forwarded) and the content of the published object afterwards. -/
abbrev IncludeImpl := Option (Val → Bool) → CEvent → Option ChRef × CEvent

/-- The predicate on a value that may be absent: an absent value is never included. -/
def incOf (f : Val → Bool) : Top → Bool
  | some v => f v
  | none => false

/-- `include` as in the repository: reads the published change, never writes it; a change of inclusion
yields a NEW change. -/
def includeFresh : IncludeImpl := fun inc cell =>
  match inc with
  | none => (some .shared, cell)
  | some f =>
    let oldInc := incOf f cell.old
    let newInc := incOf f cell.new
    if oldInc == newInc then (if newInc then (some .shared, cell) else (none, cell))
    else if newInc then (some (.own ⟨none, cell.new⟩), cell)
    else (some (.own ⟨cell.old, none⟩), cell)

/-- The variant that "saves the allocation": rewrites the received change and hands it back. -/
def includeInPlace : IncludeImpl := fun inc cell =>
  match inc with
  | none => (some .shared, cell)
  | some f =>
    let oldInc := incOf f cell.old
    let newInc := incOf f cell.new
    if oldInc == newInc then (if newInc then (some .shared, cell) else (none, cell))
    else if newInc then (some .shared, ⟨none, cell.new⟩)
    else (some .shared, ⟨cell.old, none⟩)

/-- `change.filter(filter)`. -/
def filterRef (mask : Option (Val → Val)) (cell : CEvent) (r : ChRef) : ChRef :=
  match mask with
  | none => r
  | some g => .own ⟨(r.deref cell).old.map g, (r.deref cell).new.map g⟩

/-- The equivalence check on the change that is left. -/
def decideChange (E : Option MCmp) (c : CEvent) : CDecision :=
  match E with
  | some e => ⟨c.old, c.new, !e c.old c.new⟩
  | none => ⟨c.old, c.new, true⟩

/-- One step of one subscriber: the new progress and the published object afterwards. -/
def stepSub (impl : IncludeImpl) (E : Option MCmp) (cfg : SubCfg) (cell : CEvent) : SubPc → SubPc × CEvent
  | .start =>
    match impl cfg.inc cell with
    | (none, cell') => (.done none, cell')
    | (some r, cell') => (.included r, cell')
  | .included r => (.filtered (filterRef cfg.mask cell r), cell)
  | .filtered r => (.done (some (decideChange E (r.deref cell))), cell)
  | .done d => (.done d, cell)

/-- The published object and every subscriber's progress (subscribers are numbered; any number of them). -/
structure SharedSys where
  cell : CEvent
  pc : Nat → SubPc

def SharedSys.init (ev : CEvent) : SharedSys := ⟨ev, fun _ => .start⟩

/-- Subscriber `i` moves. -/
def sysStep (impl : IncludeImpl) (E : Option MCmp) (cfg : Nat → SubCfg) (s : SharedSys) (i : Nat) : SharedSys :=
  let r := stepSub impl E (cfg i) s.cell (s.pc i)
  ⟨r.2, fun j => if j = i then r.1 else s.pc j⟩

/-- A schedule: who moves, in order. -/
def sysRun (impl : IncludeImpl) (E : Option MCmp) (cfg : Nat → SubCfg) : SharedSys → List Nat → SharedSys
  | s, [] => s
  | s, i :: rest => sysRun impl E cfg (sysStep impl E cfg s i) rest

/-- How far a subscriber has got (for the progress theorem). -/
def SubPc.rank : SubPc → Nat
  | .start => 0
  | .included _ => 1
  | .filtered _ => 2
  | .done _ => 3

/-- What a subscriber's progress must look like when nobody disturbs it: each stage is the corresponding
stage of its solo computation on the event as published. -/
def SubPc.Solo (E : Option MCmp) (cfg : SubCfg) (ev : CEvent) : SubPc → Prop
  | .start => True
  | .included r => (includeFresh cfg.inc ev).1 = some r
  | .filtered r => ∃ r0, (includeFresh cfg.inc ev).1 = some r0 ∧ r = filterRef cfg.mask ev r0
  | .done d => d = collPullStep E cfg.flt cfg.inc ev

/-- The equivalence that holds between any two present values (the widest tolerance). -/
def anyPresent : MCmp
  | some _, some _ => true
  | none, none => true
  | _, _ => false

end ScVerif.C16
