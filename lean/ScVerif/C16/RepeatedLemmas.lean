import ScVerif.C16.Tolerance
/-!
# C16 — `equalList` / `equalMap` consult the value comparer for every ELEMENT (lemmas)

`equalList` hands each pair of corresponding elements to `equalValue`, whose first step is the value-comparer
override.  So a repeated field whose elements are of a compared kind (`repeated google.protobuf.Timestamp`,
`repeated google.protobuf.Duration`, `repeated double`) is compared element by element WITH the tolerance.
-/
namespace ScVerif.C16

/-- `equalList`'s loop is the pointwise conjunction over the two element lists (same length included). -/
theorem eqListLoop_iff (c : VCmp) : (xs ys : Vals) →
    (eqListLoop c xs ys = true ↔
      xs.toList.length = ys.toList.length ∧ ∀ p ∈ List.zip xs.toList ys.toList, eqValue c p.1 p.2 = true)
  | .nil, .nil => by unfold eqListLoop; simp [Vals.toList]
  | .nil, .cons _ _ => by unfold eqListLoop; simp [Vals.toList]
  | .cons _ _, .nil => by unfold eqListLoop; simp [Vals.toList]
  | .cons a r, .cons b s => by
    have ih := eqListLoop_iff c r s
    unfold eqListLoop
    simp only [Bool.and_eq_true, ih, Vals.toList, List.length_cons, Nat.add_right_cancel_iff, List.zip_cons_cons,
      List.mem_cons, forall_eq_or_imp]
    constructor
    · rintro ⟨h1, h2, h3⟩; exact ⟨h2, h1, h3⟩
    · rintro ⟨h2, h1, h3⟩; exact ⟨h1, h2, h3⟩

theorem Vals.len_eq_length : (xs : Vals) → xs.len = xs.toList.length
  | .nil => rfl
  | .cons _ r => by simp [Vals.len, Vals.toList, Vals.len_eq_length r]

/-- A comparer that claims a pair decides it: `equalValue` returns its verdict. -/
theorem eqValue_claimed (c : VCmp) (x y : Val) (h : (c x y).2 = true) : eqValue c x y = (c x y).1 := by
  unfold eqValue; simp [h]

/-- `Equal(c)` = `equator{ValueAnd(c)}`: one comparer that claims the pair decides it. -/
theorem valueAnd_single_claimed (c : VCmp) (x y : Val) (h : (c x y).2 = true) :
    valueAnd [c] x y = ((c x y).1, true) := by
  simp only [valueAnd, valueAnd.go, h, if_true]
  cases (c x y).1 <;> simp

end ScVerif.C16

namespace ScVerif.C16

theorem Vals.len_ofList (l : List Val) : (Vals.ofList l).len = l.length := by
  induction l with
  | nil => rfl
  | cons a r ih => simp [Vals.ofList, Vals.len, ih]

/-- The loop over two lists of elements built by one constructor `f`, when the per-element verdict is
characterised by `P`. -/
theorem eqListLoop_map_iff {α : Type} (c : VCmp) (f : α → Val) (P : α → α → Prop)
    (hP : ∀ a b, eqValue c (f a) (f b) = true ↔ P a b) (xs : List α) : ∀ ys : List α,
    (eqListLoop c (Vals.ofList (xs.map f)) (Vals.ofList (ys.map f)) = true ↔
      xs.length = ys.length ∧ ∀ p ∈ List.zip xs ys, P p.1 p.2) := by
  induction xs with
  | nil =>
    intro ys
    cases ys with
    | nil => simp [Vals.ofList, eqListLoop]
    | cons b s => simp [Vals.ofList, eqListLoop]
  | cons a r ih =>
    intro ys
    cases ys with
    | nil => simp [Vals.ofList, eqListLoop]
    | cons b s =>
      simp only [List.map_cons, Vals.ofList, eqListLoop, Bool.and_eq_true, hP, ih s, List.length_cons,
        Nat.add_right_cancel_iff, List.zip_cons_cons, List.mem_cons, forall_eq_or_imp]
      constructor
      · rintro ⟨h1, h2, h3⟩; exact ⟨h2, h1, h3⟩
      · rintro ⟨h2, h1, h3⟩; exact ⟨h1, h2, h3⟩

end ScVerif.C16
