/-!
# C16 — model of `protowire.ConsumeField` (google.golang.org/protobuf/encoding/protowire), the function
`equalUnknown` uses to cut the raw unknown-field bytes into records

Follows wire.go: `ConsumeVarint` (at most 10 bytes, the 10th at most 1), `ConsumeTag` / `DecodeTag` (field
number 1 .. MaxInt32), `ConsumeFieldValue` for varint, fixed32, fixed64, length-delimited and group records
(nested fields until the matching end-group tag; a stray end-group tag and the reserved wire types 6 and 7
are errors).  `none` is a negative result of the Go functions (truncated, overflow, bad number, …).
The recursion limit of 10000 nested groups is not modelled (fuel = number of bytes).
-/
namespace ScVerif.C16

abbrev Bytes := List UInt8

/-- `ConsumeVarint`, byte `i` (0-based) onwards: `(value contributed, bytes consumed)`. -/
def consumeVarintFrom : Nat → Bytes → Option (Nat × Nat)
  | _, [] => none
  | i, c :: rest =>
    if i ≥ 9 then (if c.toNat < 2 then some (c.toNat <<< 63, 1) else none)
    else if c.toNat < 0x80 then some (c.toNat <<< (7 * i), 1)
    else match consumeVarintFrom (i + 1) rest with
      | some (v, n) => some (v + ((c.toNat - 0x80) <<< (7 * i)), n + 1)
      | none => none

def consumeVarint (b : Bytes) : Option (Nat × Nat) := consumeVarintFrom 0 b

/-- `ConsumeTag`: `(number, wire type, bytes consumed)`. -/
def consumeTag (b : Bytes) : Option (Nat × Nat × Nat) :=
  match consumeVarint b with
  | none => none
  | some (v, n) =>
    if v >>> 3 > 2147483647 then none
    else if v >>> 3 < 1 then none
    else some (v >>> 3, v &&& 7, n)

mutual
  /-- `consumeFieldValueD`: number of bytes of the value of a field with this number and wire type. -/
  def consumeFieldValue : Nat → Nat → Nat → Bytes → Option Nat
    | fuel, num, typ, b =>
      if typ = 0 then (match consumeVarint b with | some (_, n) => some n | none => none)
      else if typ = 5 then (if b.length < 4 then none else some 4)
      else if typ = 1 then (if b.length < 8 then none else some 8)
      else if typ = 2 then
        (match consumeVarint b with
          | some (m, n) => if m > b.length - n then none else some (n + m)
          | none => none)
      else if typ = 3 then
        (match fuel with
          | 0 => none
          | fuel + 1 => consumeGroup fuel num b)
      else none
  /-- The `for` loop of the start-group case: fields until the end-group tag with the same number. -/
  def consumeGroup : Nat → Nat → Bytes → Option Nat
    | 0, _, _ => none
    | fuel + 1, num, b =>
      match consumeTag b with
      | none => none
      | some (num2, typ2, n) =>
        if typ2 = 4 then (if num ≠ num2 then none else some n)
        else match consumeFieldValue fuel num2 typ2 (b.drop n) with
          | none => none
          | some m =>
            match consumeGroup fuel num (b.drop (n + m)) with
            | none => none
            | some r => some (n + m + r)
end

/-- `ConsumeField`: `(field number, total bytes of the record)`. -/
def consumeField (b : Bytes) : Option (Nat × Nat) :=
  match consumeTag b with
  | none => none
  | some (num, typ, n) =>
    match consumeFieldValue b.length num typ (b.drop n) with
    | none => none
    | some m => some (num, n + m)

/-- The `for len(x) > 0 { fnum, _, n := ConsumeField(x); … x[:n] …; x = x[n:] }` loop of `equalUnknown`:
the records in order, `(field number, raw bytes of the record)`.  `none`: some record does not parse (the
Go code then slices with a negative length and panics) — outside the model.  The fuel is immaterial
(`splitRecords_fuel`): a record is at least one byte long (`consumeField_bounds`). -/
def splitRecords : Nat → Bytes → Option (List (Nat × Bytes))
  | _, [] => some []
  | 0, _ :: _ => none
  | fuel + 1, b@(_ :: _) =>
    match consumeField b with
    | none => none
    | some (num, n) =>
      match splitRecords fuel (b.drop n) with
      | none => none
      | some rest => some ((num, b.take n) :: rest)

/-- The records of the raw bytes `b`. -/
def wireRecords (b : Bytes) : Option (List (Nat × Bytes)) := splitRecords b.length b

/-- Unknown fields as a message holds them: records that the cutter produces from some raw bytes. -/
def WireCut (u : List (Nat × Bytes)) : Prop := ∃ b, wireRecords b = some u

end ScVerif.C16
