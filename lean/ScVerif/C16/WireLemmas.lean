import ScVerif.C16.UnknownLemmas
import ScVerif.C16.WireBounds
/-!
`equalUnknown` on RAW bytes: the records are cut by the model of `protowire.ConsumeField`, so that "equal
raw bytes give equal records" is a fact, not a hypothesis.
-/
namespace ScVerif.C16

/-- `equalUnknown(x, y)` on the raw bytes, following the Go code: length test, `bytes.Equal` shortcut, the two
`ConsumeField` loops filling `map[FieldNumber]RawFields` by appending, `reflect.DeepEqual` of the maps (same
keys, same bytes per key).  `none`: a record does not parse (the Go code panics). -/
def eqUnknownRaw (x y : Bytes) : Option Bool :=
  if x.length != y.length then some false
  else if x == y then some true
  else match wireRecords x, wireRecords y with
    | some rx, some ry =>
      some (((rx ++ ry).map (·.1)).all (fun n =>
        ((rx.map (·.1)).contains n == (ry.map (·.1)).contains n) && unkGroup n rx == unkGroup n ry))
    | _, _ => none

/-- Every record holds at least one byte. -/
def NonemptyRecs (u : Unk) : Prop := ∀ r ∈ u, r.2 ≠ []

theorem splitRecords_spec : ∀ (fuel : Nat) (b : Bytes) (rs : List (Nat × Bytes)),
    splitRecords fuel b = some rs → unkBytes rs = b ∧ NonemptyRecs rs
  | _, [], rs, h => by
    simp only [splitRecords, Option.some.injEq] at h
    subst h
    simp [unkBytes, NonemptyRecs]
  | 0, _ :: _, rs, h => by simp [splitRecords] at h
  | fuel + 1, c :: b, rs, h => by
    simp only [splitRecords] at h
    split at h
    · cases h
    · rename_i num n hcf
      have hbound := consumeField_bounds (c :: b) num n hcf
      split at h
      · cases h
      · rename_i rest hrest
        simp only [Option.some.injEq] at h
        subst h
        obtain ⟨ih1, ih2⟩ := splitRecords_spec fuel _ rest hrest
        constructor
        · simp only [unkBytes, List.flatMap_cons, recBytes] at ih1 ⊢
          rw [ih1]
          exact List.take_append_drop n (c :: b)
        · intro r hr
          simp only [List.mem_cons] at hr
          rcases hr with rfl | hr
          · cases n with
            | zero => omega
            | succ k => simp
          · exact ih2 r hr

theorem wireRecords_spec (b : Bytes) (rs : Unk) (h : wireRecords b = some rs) :
    unkBytes rs = b ∧ NonemptyRecs rs := splitRecords_spec _ b rs h

theorem group_nonempty_of_mem (u : Unk) (hne : NonemptyRecs u) (n : Nat) (hn : n ∈ u.map (·.1)) :
    unkGroup n u ≠ [] := by
  simp only [List.mem_map] at hn
  obtain ⟨r, hr, rfl⟩ := hn
  intro h
  simp only [unkGroup, List.flatMap_eq_nil_iff, List.mem_filter, beq_iff_eq, and_imp] at h
  exact hne r hr (h r hr rfl)

theorem group_empty_of_not_mem (u : Unk) (n : Nat) (hn : n ∉ u.map (·.1)) : unkGroup n u = [] := by
  have : u.filter (fun r => r.1 == n) = [] := by
    simp only [List.filter_eq_nil_iff, beq_iff_eq]
    intro r hr e
    exact hn (List.mem_map.mpr ⟨r, hr, e⟩)
  simp [unkGroup, this]

/-- The key-set half of `reflect.DeepEqual` adds nothing: records are non-empty, so equal groups force equal
key sets. -/
theorem contains_eq_of_group_eq (rx ry : Unk) (hx : NonemptyRecs rx) (hy : NonemptyRecs ry) (n : Nat)
    (h : unkGroup n rx = unkGroup n ry) :
    (rx.map (·.1)).contains n = (ry.map (·.1)).contains n := by
  by_cases hnx : n ∈ rx.map (·.1)
  · by_cases hny : n ∈ ry.map (·.1)
    · have a : (rx.map (·.1)).contains n = true := List.contains_iff_mem.mpr hnx
      have b : (ry.map (·.1)).contains n = true := List.contains_iff_mem.mpr hny
      rw [a, b]
    · exact absurd (h ▸ group_empty_of_not_mem ry n hny) (group_nonempty_of_mem rx hx n hnx)
  · by_cases hny : n ∈ ry.map (·.1)
    · exact absurd (h ▸ group_empty_of_not_mem rx n hnx).symm
        (fun e => group_nonempty_of_mem ry hy n hny e.symm)
    · have a : (rx.map (·.1)).contains n = false := by
        simpa using hnx
      have b : (ry.map (·.1)).contains n = false := by
        simpa using hny
      rw [a, b]

theorem eqUnknownRaw_eq (bx by_ : Bytes) (rx ry : Unk)
    (hx : wireRecords bx = some rx) (hy : wireRecords by_ = some ry) :
    eqUnknownRaw bx by_ = some (eqUnknown rx ry) := by
  obtain ⟨hbx, hnx⟩ := wireRecords_spec bx rx hx
  obtain ⟨hby, hny⟩ := wireRecords_spec by_ ry hy
  unfold eqUnknownRaw eqUnknown unkLen
  rw [hbx, hby, hx, hy]
  by_cases hl : bx.length = by_.length
  · by_cases hb : bx = by_
    · simp [hb]
    · simp only [hl, bne_self_eq_false, Bool.false_eq_true, if_false, beq_iff_eq, hb, Option.some.injEq]
      apply Bool.eq_iff_iff.mpr
      simp only [List.all_eq_true, Bool.and_eq_true, beq_iff_eq]
      constructor
      · intro h n hn; exact (h n hn).2
      · intro h n hn
        exact ⟨contains_eq_of_group_eq rx ry hnx hny n (h n hn), h n hn⟩
  · simp [hl]

/-- On unknown fields cut from raw bytes `equalUnknown` decides `unkSame`, without further hypotheses. -/
theorem eqUnknown_iff_wire (x y : Unk) (hx : WireCut x) (hy : WireCut y) :
    eqUnknown x y = true ↔ unkSame x y := by
  obtain ⟨bx, hbx⟩ := hx
  obtain ⟨by_, hby⟩ := hy
  apply eqUnknown_iff_groups
  intro h
  have e : bx = by_ := by
    rw [← (wireRecords_spec bx x hbx).1, ← (wireRecords_spec by_ y hby).1, h]
  subst e
  rw [hbx] at hby
  cases hby
  intro n; rfl

end ScVerif.C16
