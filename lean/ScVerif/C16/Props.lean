import ScVerif.C16.LogicLemmas
import ScVerif.C16.PullLemmas
import ScVerif.C16.ToleranceLemmas
/-!
# C16 — property theorems

Property (fixed text): "The default message comparer agrees with protobuf equality on every pair of
messages (same or different types, unset versus default, NaN, maps, lists, unknown fields, nil), except
that it ignores change_time inside Change messages; tolerance comparers for floats, timestamps and
durations are reflexive and symmetric, accept exactly the pairs within the stated tolerance, and only
affect fields of their own kind, and And/Or combine comparers as conjunction and disjunction. A resource
configured with an equivalence never delivers a change whose value is equivalent to the one the
subscriber already holds for it, and never suppresses a non-equivalent one."

Only property theorems and their non-vacuity examples live in this file.
-/
namespace ScVerif.C16

/-! ## Tolerance comparers -/

/-- `FloatValueApprox(fraction, margin)` on finite values accepts exactly the pairs with
`|x - y| ≤ max margin (fraction · min |x| |y|)` (exact arithmetic), and always claims float values. -/
theorem C16_float_approx (fr mg x y : Rat) (a b c d : Bool) :
    floatValueApprox (.fin fr a) (.fin mg b) (.sc (.float (.fin x c))) (.sc (.float (.fin y d))) =
      (decide ((x - y).abs ≤ max mg (fr * min x.abs y.abs)), true) := by
  simp [floatValueApprox, F.isNaN, F.isFinite, floatApproxF_fin]

/-- Symmetric for all float values (NaN and infinities included) and all tolerances. -/
theorem C16_float_approx_symm (fr mg : Rat) (a b : Bool) (fx fy : F) :
    floatValueApprox (.fin fr a) (.fin mg b) (.sc (.float fx)) (.sc (.float fy)) =
    floatValueApprox (.fin fr a) (.fin mg b) (.sc (.float fy)) (.sc (.float fx)) := by
  have hm : ∀ p q : Rat, min p q = min q p := by intros; grind
  cases fx <;> cases fy <;>
    simp [floatValueApprox, F.isNaN, F.isFinite, F.eq, floatApproxF_fin, Bool.beq_comm]
  rename_i p _ q _
  rw [Rat.abs_sub_comm, hm]

/-- Reflexive for all float values (NaN and infinities included) when the margin or the fraction is
non-negative. -/
theorem C16_float_approx_refl (fr mg : Rat) (a b : Bool) (fx : F) (h : 0 ≤ mg ∨ 0 ≤ fr) :
    floatValueApprox (.fin fr a) (.fin mg b) (.sc (.float fx)) (.sc (.float fx)) = (true, true) := by
  cases fx with
  | nan => simp [floatValueApprox, F.isNaN]
  | inf n => simp [floatValueApprox, F.isNaN, F.isFinite, F.eq]
  | fin q z =>
    rw [C16_float_approx]
    have h0 : (q - q).abs = 0 := by simp [Rat.sub_self, Rat.abs_zero]
    have h1 : 0 ≤ q.abs := Rat.abs_nonneg
    have h2 : min q.abs q.abs = q.abs := by grind
    rw [h0, h2]
    have : (0 : Rat) ≤ max mg (fr * q.abs) := by
      rcases h with h | h
      · grind
      · have := Rat.mul_nonneg h h1
        grind
    simp [this]

/-- Non-finite values: NaN is only within tolerance of NaN, an infinity only of itself. -/
theorem C16_float_approx_nonfinite (fr mg : F) (fx fy : F) (h : fx.isFinite = false ∨ fy.isFinite = false) :
    floatValueApprox fr mg (.sc (.float fx)) (.sc (.float fy)) = (decide (fx = fy ∧ fx.isFinite = false), true) := by
  cases fx <;> cases fy <;> simp_all [floatValueApprox, F.isNaN, F.isFinite, F.eq]
  rename_i a b
  cases a <;> cases b <;> rfl

/-- `TimeValueWithin(d)` on two valid Timestamps accepts exactly the pairs of instants with `|x - y| ≤ d`,
for every tolerance below the maximal Duration (or instants less than 2^63 ns apart: `Time.Sub` saturates). -/
theorem C16_time_within (d : Int) (fx fy : Fields) (ux uy : Unk)
    (h : d < maxI64 ∨ (toTimeNs fx - toTimeNs fy ≤ maxI64 ∧ toTimeNs fy - toTimeNs fx ≤ maxI64)) :
    timeValueWithin d (.msg tsName true fx ux) (.msg tsName true fy uy) =
      (decide (toTimeNs fx - toTimeNs fy ≤ d ∧ toTimeNs fy - toTimeNs fx ≤ d), true) := by
  have := timeWithinT_iff d (toTimeNs fx) (toTimeNs fy) h
  simp only [timeValueWithin, tsName, beq_self_eq_true, Bool.not_true, Bool.and_self, Bool.false_eq_true,
    if_false, bne_self_eq_false, Bool.or_self]
  congr 1
  rw [Bool.eq_iff_iff, this]
  simp

/-- The hypothesis of `C16_time_within` is needed only at the extreme: instants more than 2^63 ns apart are
"within" the maximal Duration because `Time.Sub` saturates. -/
example : timeWithinT maxI64 (10000000000 * 1000000000) (-(10000000000 * 1000000000)) = true := by decide
example : (5 : Int) < maxI64 := by decide

/-- `DurationValueWithin(d)` on two valid Durations accepts exactly the pairs with `|x - y| ≤ d`, for ALL
int64 durations and tolerances (no overflow hypothesis: the subtraction's wrap-around is detected). -/
theorem C16_duration_within (d : Int) (hd : d ≤ maxI64) (fx fy : Fields) (ux uy : Unk) :
    durationValueWithin d (.msg durName true fx ux) (.msg durName true fy uy) =
      (decide (toDurationNs fx - toDurationNs fy ≤ d ∧ toDurationNs fy - toDurationNs fx ≤ d), true) := by
  have hx := toDurationNs_range fx
  have hy := toDurationNs_range fy
  have := durWithinD_iff d (toDurationNs fx) (toDurationNs fy) hx.1 hx.2 hy.1 hy.2 hd
  simp only [durationValueWithin, cmpDuration, durName, beq_self_eq_true, Bool.not_true, Bool.and_self,
    Bool.false_eq_true, if_false, bne_self_eq_false, Bool.or_self]
  congr 1
  rw [Bool.eq_iff_iff, this]
  simp

/-- Time and duration tolerances: symmetric always, reflexive for `d ≥ 0`. -/
theorem C16_within_symm_refl (d xt yt : Int) :
    timeWithinT d xt yt = timeWithinT d yt xt ∧ durWithinD d xt yt = durWithinD d yt xt ∧
    (0 ≤ d → timeWithinT d xt xt = true ∧ durWithinD d xt xt = true) := by
  refine ⟨?_, ?_, ?_⟩
  · unfold timeWithinT
    by_cases h1 : xt < yt <;> by_cases h2 : yt < xt <;> simp [h1, h2]
    · omega
    · have : xt = yt := by omega
      subst this; rfl
  · unfold durWithinD
    by_cases h1 : xt < yt <;> by_cases h2 : yt < xt <;> simp [h1, h2]
    · omega
    · have : xt = yt := by omega
      subst this; rfl
  · intro hd
    constructor
    · unfold timeWithinT timeSub sat64 maxI64 minI64
      simp; omega
    · unfold durWithinD wrap64
      simp; omega

/-- A tolerance comparer only claims values of its own kind: on anything else it answers `ok = false`, so
the default comparison decides. -/
theorem C16_own_kind_only (fr mg p : F) (d : Int) (x y : Val) :
    ((∀ fx, x ≠ .sc (.float fx)) → (floatValueApprox fr mg x y).2 = false) ∧
    (x.typeName ≠ tsName → y.typeName ≠ tsName → (timeValueWithin d x y).2 = false) ∧
    (x.typeName ≠ durName → y.typeName ≠ durName →
      (durationValueWithin d x y).2 = false ∧ (durationValueWithinP p x y).2 = false) := by
  refine ⟨?_, ?_, ?_⟩
  · intro h
    cases x with
    | msg => simp [floatValueApprox]
    | sc s =>
      cases s <;> simp_all [floatValueApprox]
  · intro hx hy
    cases x <;> cases y <;> simp_all [timeValueWithin, Val.typeName]
  · intro hx hy
    cases x <;> cases y <;> simp_all [durationValueWithin, durationValueWithinP, cmpDuration, Val.typeName]

/-- Where no comparer of the list claims a pair, `Equal(cs...)` compares it exactly like `Equal()`. -/
theorem C16_unclaimed_is_default (cs : List VCmp) (x y : Val) (h : ∀ c ∈ cs, (c x y).2 = false) :
    (valueAnd cs x y).2 = false := by
  have hc : claimers cs x y = [] := by
    simp only [claimers, List.filter_eq_nil_iff]
    intro c hc
    simp [h c hc]
  simp [valueAnd, valueAnd_go_eq, hc]

/-! ### DurationValueWithinP (repaired in /repo: it computed `|x / y| < p`, neither reflexive nor symmetric) -/

/-- Full strength, over exact arithmetic: for every finite p and all durations x, y (int64 nanoseconds, any
signs, zero included) `DurationValueWithinP(p)` accepts exactly the pairs "within p percent of each other" —
`100·|x − y| ≤ p·min(|x|, |y|)` —; it is symmetric for EVERY p (NaN and ±Inf included) and, for `p ≥ 0`,
reflexive. -/
theorem C16_durationP (p : Rat) (z : Bool) (xd yd : Int) :
    (durWithinPD (.fin p z) xd yd = true ↔ ((xd : Rat) - (yd : Rat)).abs * 100 ≤ p * minAbs xd yd) ∧
    (∀ q : F, durWithinPD q xd yd = durWithinPD q yd xd) ∧
    (0 ≤ p → durWithinPD (.fin p z) xd xd = true) :=
  ⟨durWithinPD_iff p z xd yd, fun q => durWithinPD_symm q xd yd, fun hp => durWithinPD_refl p z hp xd⟩

/-- The comparer itself on two valid Duration messages is that arithmetic on `AsDuration()` of each. -/
theorem C16_durationP_comparer (p : F) (fx fy : Fields) (ux uy : Unk) :
    durationValueWithinP p (.msg durName true fx ux) (.msg durName true fy uy) =
      (durWithinPD p (toDurationNs fx) (toDurationNs fy), true) := by
  simp [durationValueWithinP, cmpDuration]

/-- Non-vacuity: 4ns and 5ns are within 25 percent of each other, in both orders, and not within 12.5;
the witness of the old defect (4ns vs 4ns, p = 1/8) is now accepted. -/
example : durWithinPD (.fin 25 false) 4 5 = true ∧ durWithinPD (.fin 25 false) 5 4 = true ∧
    durWithinPD (.fin (25/2) false) 4 5 = false ∧ durWithinPD (.fin (1/8) false) 4 4 = true := by
  refine ⟨?_, ?_, ?_, ?_⟩ <;>
    simp [durWithinPD, F.sub, F.abs, F.ofRat, F.mul, F.le, F.min, F.isNaN, Rat.abs] <;> grind

/-! ## And / Or -/

/-- `And` is conjunction, `Or` is disjunction, over arbitrary message comparers. -/
theorem C16_and_or (eqs : List MCmp) (x y : Top) :
    (mAnd eqs x y = true ↔ ∀ e ∈ eqs, e x y = true) ∧
    (mOr eqs x y = true ↔ ∃ e ∈ eqs, e x y = true) := by
  simp [mAnd, mOr, mAnd_go_eq, mOr_go_eq]

/-- `ValueAnd` / `ValueOr` with the `ok` flag, over arbitrary value comparers: `ok` iff some comparer claims
the pair; `equal` is the conjunction / disjunction over the claiming comparers (so `true` / `false` when
none claims it). -/
theorem C16_value_and_or (eqs : List VCmp) (x y : Val) :
    ((valueAnd eqs x y).2 = true ↔ ∃ e ∈ eqs, (e x y).2 = true) ∧
    ((valueAnd eqs x y).1 = true ↔ ∀ e ∈ eqs, (e x y).2 = true → (e x y).1 = true) ∧
    ((valueOr eqs x y).2 = true ↔ ∃ e ∈ eqs, (e x y).2 = true) ∧
    ((valueOr eqs x y).1 = true ↔ ∃ e ∈ eqs, (e x y).2 = true ∧ (e x y).1 = true) := by
  have hne : (claimers eqs x y).isEmpty = false ↔ ∃ e ∈ eqs, (e x y).2 = true := by
    simp only [claimers, List.isEmpty_eq_false_iff, ne_eq, List.filter_eq_nil_iff, Classical.not_forall]
    constructor
    · rintro ⟨e, he, h⟩; exact ⟨e, he, by simpa using h⟩
    · rintro ⟨e, he, h⟩; exact ⟨e, he, by simpa using h⟩
  have hall : (claimers eqs x y).all (fun e => (e x y).1) = true ↔ ∀ e ∈ eqs, (e x y).2 = true → (e x y).1 = true := by
    simp only [claimers, List.all_eq_true, List.mem_filter]
    constructor
    · intro h e he h2; exact h e ⟨he, h2⟩
    · intro h e he; exact h e he.1 he.2
  have hany : (claimers eqs x y).any (fun e => (e x y).1) = true ↔ ∃ e ∈ eqs, (e x y).2 = true ∧ (e x y).1 = true := by
    simp only [claimers, List.any_eq_true, List.mem_filter]
    constructor
    · rintro ⟨e, ⟨he, h2⟩, h1⟩; exact ⟨e, he, h2, h1⟩
    · rintro ⟨e, he, h2, h1⟩; exact ⟨e, ⟨he, h2⟩, h1⟩
  refine ⟨?_, ?_, ?_, ?_⟩
  · simp only [valueAnd, valueAnd_go_eq]
    rw [← hne]
    by_cases h : (claimers eqs x y).all (fun e => (e x y).1) = true
    · simp [h]
    · simp only [h, if_false, true_iff]
      cases hc : claimers eqs x y with
      | nil => simp [hc] at h
      | cons => simp
  · simp only [valueAnd, valueAnd_go_eq]; exact hall
  · simp only [valueOr, valueOr_go_eq]
    rw [← hne]
    by_cases h : (claimers eqs x y).any (fun e => (e x y).1) = true
    · simp only [h, if_true, true_iff]
      cases hc : claimers eqs x y with
      | nil => simp [hc] at h
      | cons => simp
    · simp [h]
  · simp only [valueOr, valueOr_go_eq]; exact hany

/-! ## No duplicate delivery -/

/-- `Value.Pull` with an equivalence E (ANY function), ANY response filter, any current value and any
sequence of events: the seed is sent; then every event is delivered iff its (filtered) value is NOT
E-equivalent to what the subscriber holds at that moment — the value of the last change delivered to it —
and suppressed iff it is.  Nothing is reordered or invented: the decisions follow the events one to one. -/
theorem C16_no_dup_delivery (E : MCmp) (flt : Val → Val) (cur : Top) (events : List Val) :
    (valuePull (some E) flt cur events).map (·.value) = (cur.toList ++ events).map flt ∧
    (∀ v, cur = some v → (valuePull (some E) flt cur events).head? = some ⟨flt v, true⟩) ∧
    (∀ pre d post, valuePull (some E) flt cur events = pre ++ d :: post → (pre ≠ [] ∨ cur = none) →
      d.delivered = !E (heldAfter none pre) (some d.value)) := by
  cases cur with
  | none =>
    refine ⟨by simp [valuePull, valuePullLoop_values], by simp, ?_⟩
    intro pre d post h _
    exact valuePullLoop_decision E flt events none pre d post h
  | some v =>
    refine ⟨by simp [valuePull, valuePullLoop_values], by simp [valuePull], ?_⟩
    intro pre d post h hne
    cases pre with
    | nil => simp at hne
    | cons p pre =>
      simp only [valuePull, List.cons_append] at h
      injection h with h1 h2
      subst h1
      have := valuePullLoop_decision E flt events (some (flt v)) pre d post h2
      simpa [heldAfter] using this

/-- Without an equivalence every event is delivered. -/
theorem C16_no_equivalence_delivers_all (flt : Val → Val) (cur : Top) (events : List Val) :
    ∀ d ∈ valuePull none flt cur events, d.delivered = true := by
  intro d hd
  cases cur with
  | none => exact valuePullLoop_none flt events none d hd
  | some v =>
    simp only [valuePull, List.mem_cons] at hd
    rcases hd with h | h
    · subst h; rfl
    · exact valuePullLoop_none flt events _ d h

/-- `Collection.Pull` decides each change by its OWN old and new value (after the filter). -/
theorem C16_no_dup_delivery_collection_local (E : MCmp) (flt : Val → Val) (events : List CEvent)
    (pre : List CDecision) (d : CDecision) (post : List CDecision)
    (h : collPullLoop (some E) flt events = pre ++ d :: post) :
    d.delivered = !E d.old d.new :=
  collPullLoop_decision_local E flt events pre d post h

/-! ### Collection.Pull under a non-transitive equivalence — recorded finding

Full-strength statement (FALSE on the current code for tolerance comparers): for the changes of one id,
a change is delivered iff its new value is not E-equivalent to the value the subscriber holds for that id. -/

/-- With an E that is not transitive (a tolerance: |a-b| ≤ 1 on an integer field) two small steps are both
suppressed although the subscriber's copy (0) is not equivalent to the final value (2). -/
theorem C16_no_dup_delivery_collection_fails :
    ∃ (E : MCmp) (events : List CEvent) (init : Top), Chain init events ∧
      ∃ pre d post, collPullLoop (some E) id events = pre ++ d :: post ∧
        d.delivered = false ∧ E (heldAfterC init pre) d.new = false := by
  let n : Top → Int := fun t => match t with
    | some (.sc (.int i)) => i
    | _ => 0
  let E : MCmp := fun a b => decide (n a - n b ≤ 1 ∧ n b - n a ≤ 1)
  let v : Int → Top := fun i => some (.sc (.int i))
  refine ⟨E, [⟨v 0, v 1⟩, ⟨v 1, v 2⟩], v 0, by simp [Chain, v], [⟨v 0, v 1, false⟩], ⟨v 1, v 2, false⟩, [], ?_, rfl, ?_⟩
  · simp [collPullLoop, E, n, v]
  · simp [heldAfterC, E, n, v]

/-- PARTIAL (extra hypothesis: E is an equivalence relation — reflexive, symmetric, transitive — as
`Equal()` is): for the chain of changes of one id, starting from a subscriber that holds the current value,
a change is delivered iff its new value is not E-equivalent to what the subscriber holds. -/
theorem C16_no_dup_delivery_collection_partial (E : MCmp) (flt : Val → Val)
    (hrefl : ∀ a, E a a = true) (hsymm : ∀ a b, E a b = E b a)
    (htrans : ∀ a b c, E a b = true → E b c = true → E a c = true)
    (init : Top) (events : List CEvent) (hc : Chain init events)
    (pre : List CDecision) (d : CDecision) (post : List CDecision)
    (h : collPullLoop (some E) flt events = pre ++ d :: post) :
    d.delivered = !E (heldAfterC (init.map flt) pre) d.new :=
  collPullLoop_decision_held E flt hrefl hsymm htrans events init (init.map flt) pre d post hc (hrefl _) h

/-- The hypothesis is satisfiable: equality of the integer payload is an equivalence relation. -/
example : ∃ E : MCmp, (∀ a, E a a = true) ∧ (∀ a b, E a b = E b a) ∧
    (∀ a b c, E a b = true → E b c = true → E a c = true) := by
  let n : Top → Int := fun t => match t with
    | some (.sc (.int i)) => i
    | _ => 0
  refine ⟨fun a b => decide (n a = n b), by simp, ?_, ?_⟩
  · intro a b; simp [eq_comm]
  · intro a b c; simp; intro h1 h2; rw [h1, h2]

/-! ### Collection.Pull with an include filter (`WithInclude`) -/

/-- Include first, then the read-mask filter, then the equivalence — on the change as the subscriber sees it.
For every equivalence E under which an absent value is never equivalent to a value (true of every
`cmp.Message` built by `Equal`/`And`; see the next theorem), every include predicate, filter and event:
* old and new both outside the include filter: nothing is forwarded;
* the write moves the item across the include boundary: the change is ALWAYS delivered, as an ADD (no old
  value) or a REMOVE (no new value) — whatever E says about the stored old and new values;
* both inside: delivered iff the filtered old and new values are not E-equivalent. -/
theorem C16_include_then_equivalence (E : MCmp) (flt : Val → Val) (f : Val → Bool) (ev : CEvent)
    (hnil : ∀ v, E none (some v) = false ∧ E (some v) none = false) :
    (visible f ev.old = false → visible f ev.new = false → collPullStep (some E) flt (some f) ev = none) ∧
    (visible f ev.old = false → visible f ev.new = true →
      collPullStep (some E) flt (some f) ev = some ⟨none, ev.new.map flt, true⟩) ∧
    (visible f ev.old = true → visible f ev.new = false →
      collPullStep (some E) flt (some f) ev = some ⟨ev.old.map flt, none, true⟩) ∧
    (visible f ev.old = true → visible f ev.new = true →
      collPullStep (some E) flt (some f) ev =
        some ⟨ev.old.map flt, ev.new.map flt, !E (ev.old.map flt) (ev.new.map flt)⟩) := by
  obtain ⟨o, n⟩ := ev
  refine ⟨?_, ?_, ?_, ?_⟩ <;> intro ho hn
  · cases o <;> cases n <;> simp_all [collPullStep, includeAdjust, visible]
  · cases n with
    | none => simp [visible] at hn
    | some v =>
      cases o <;> simp_all [collPullStep, includeAdjust, visible, (hnil (flt v)).1]
  · cases o with
    | none => simp [visible] at ho
    | some v =>
      cases n <;> simp_all [collPullStep, includeAdjust, visible, (hnil (flt v)).2]
  · cases o <;> cases n <;> simp_all [collPullStep, includeAdjust, visible]

/-- The hypothesis of `C16_include_then_equivalence` holds for every `cmp.Equal(...)`: nil only equals nil. -/
theorem C16_equal_absent_never_equivalent (cs : List VCmp) (v : Val) :
    equal cs none (some v) = false ∧ equal cs (some v) none = false := by
  simp [equal, compare]

/-- Without an include filter the loop is the one of the theorems above. -/
theorem C16_include_none (E : Option MCmp) (flt : Val → Val) (events : List CEvent) :
    collPullLoopI E flt none events = (collPullLoop E flt events).map some :=
  collPullLoopI_none E flt events

end ScVerif.C16
