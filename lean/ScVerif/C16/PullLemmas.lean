import ScVerif.C16.Pull
/-! Spec vocabulary and lemmas for the equivalence check in Pull. -/
namespace ScVerif.C16

/-- SPEC. What a subscriber of a Value holds after a list of decisions: the value of the last change
that was delivered to it (`init` if none was). -/
def heldAfter (init : Top) : List Decision → Top
  | [] => init
  | d :: rest => heldAfter (if d.delivered then some d.value else init) rest

/-- SPEC. What a subscriber of a Collection holds for one id after a list of decisions about that id. -/
def heldAfterC (init : Top) : List CDecision → Top
  | [] => init
  | d :: rest => heldAfterC (if d.delivered then d.new else init) rest

theorem valuePullLoop_decision (E : MCmp) (flt : Val → Val) :
    ∀ (events : List Val) (last : Top) (pre : List Decision) (d : Decision) (post : List Decision),
      valuePullLoop (some E) flt last events = pre ++ d :: post →
      d.delivered = !E (heldAfter last pre) (some d.value)
  | [], last, pre, d, post, h => by
    simp [valuePullLoop] at h
  | ev :: rest, last, [], d, post, h => by
    simp only [valuePullLoop, List.nil_append] at h
    split at h
    · next he => cases h; simp [heldAfter, he]
    · next he => cases h; simp [heldAfter, he]
  | ev :: rest, last, p :: pre, d, post, h => by
    simp only [valuePullLoop, List.cons_append] at h
    split at h
    · next he =>
      injection h with h1 h2
      subst h1
      have := valuePullLoop_decision E flt rest last pre d post h2
      simpa [heldAfter] using this
    · next he =>
      injection h with h1 h2
      subst h1
      have := valuePullLoop_decision E flt rest (some (flt ev)) pre d post h2
      simpa [heldAfter] using this

theorem valuePullLoop_values (E : Option MCmp) (flt : Val → Val) :
    ∀ (events : List Val) (last : Top), (valuePullLoop E flt last events).map (·.value) = events.map flt
  | [], _ => by simp [valuePullLoop]
  | ev :: rest, last => by
    cases E with
    | none => simp [valuePullLoop, valuePullLoop_values none flt rest]
    | some e =>
      simp only [valuePullLoop]
      split <;> simp [valuePullLoop_values (some e) flt rest]

theorem valuePullLoop_none (flt : Val → Val) :
    ∀ (events : List Val) (last : Top), ∀ d ∈ valuePullLoop none flt last events, d.delivered = true
  | [], _, d, h => by simp [valuePullLoop] at h
  | ev :: rest, last, d, h => by
    simp only [valuePullLoop, List.mem_cons] at h
    rcases h with h | h
    · subst h; rfl
    · exact valuePullLoop_none flt rest _ d h

/-- The events about one id form a chain from `init`: each change's old value is the previous new value. -/
def Chain : Top → List CEvent → Prop
  | _, [] => True
  | cur, ev :: rest => ev.old = cur ∧ Chain ev.new rest

theorem collPullLoop_decision_local (E : MCmp) (flt : Val → Val) :
    ∀ (events : List CEvent) (pre : List CDecision) (d : CDecision) (post : List CDecision),
      collPullLoop (some E) flt events = pre ++ d :: post → d.delivered = !E d.old d.new
  | [], pre, d, post, h => by simp [collPullLoop] at h
  | ev :: rest, [], d, post, h => by
    simp only [collPullLoop, List.nil_append] at h
    cases h; rfl
  | ev :: rest, p :: pre, d, post, h => by
    simp only [collPullLoop, List.cons_append] at h
    injection h with _ h2
    exact collPullLoop_decision_local E flt rest pre d post h2

/-- With an equivalence relation E, comparing old with new is the same as comparing the subscriber's
copy with new: invariant `E held cur`. -/
theorem collPullLoop_decision_held (E : MCmp) (flt : Val → Val)
    (hrefl : ∀ a, E a a = true) (hsymm : ∀ a b, E a b = E b a)
    (htrans : ∀ a b c, E a b = true → E b c = true → E a c = true) :
    ∀ (events : List CEvent) (cur held : Top) (pre : List CDecision) (d : CDecision) (post : List CDecision),
      Chain cur events → E held (cur.map flt) = true →
      collPullLoop (some E) flt events = pre ++ d :: post →
      d.delivered = !E (heldAfterC held pre) d.new
  | [], _, _, pre, d, post, _, _, h => by simp [collPullLoop] at h
  | ev :: rest, cur, held, [], d, post, hc, hinv, h => by
    simp only [collPullLoop, List.nil_append] at h
    cases h
    simp only [heldAfterC]
    have hold : ev.old = cur := hc.1
    rw [hold]
    -- E held new ↔ E cur new, since E held cur
    cases h1 : E (Option.map flt cur) (Option.map flt ev.new) <;> cases h2 : E held (Option.map flt ev.new) <;> simp
    · have := htrans _ _ _ (by rw [hsymm]; exact hinv) h2
      rw [h1] at this; cases this
    · have := htrans _ _ _ hinv h1
      rw [h2] at this; cases this
  | ev :: rest, cur, held, p :: pre, d, post, hc, hinv, h => by
    simp only [collPullLoop, List.cons_append] at h
    injection h with h1 h2
    subst h1
    have hold : ev.old = cur := hc.1
    simp only [heldAfterC]
    cases he : E (Option.map flt ev.old) (Option.map flt ev.new)
    · -- delivered: subscriber now holds new
      simp only [Bool.not_false, if_true]
      exact collPullLoop_decision_held E flt hrefl hsymm htrans rest ev.new _ pre d post hc.2 (hrefl _) h2
    · simp only [Bool.not_true, Bool.false_eq_true, if_false]
      refine collPullLoop_decision_held E flt hrefl hsymm htrans rest ev.new held pre d post hc.2 ?_ h2
      rw [hold] at he
      exact htrans _ _ _ hinv he

theorem collPullLoopI_none (E : Option MCmp) (flt : Val → Val) :
    ∀ events : List CEvent, collPullLoopI E flt none events = (collPullLoop E flt events).map some
  | [] => by simp [collPullLoopI, collPullLoop]
  | ev :: rest => by
    have ih := collPullLoopI_none E flt rest
    simp only [collPullLoopI] at ih
    cases E <;> simp [collPullLoopI, collPullLoop, collPullStep, includeAdjust, ih]

/-- Whether the subscriber (with include predicate `f`) sees the item when its stored value is `t`. -/
def visible (f : Val → Bool) : Top → Bool
  | some v => f v
  | none => false

end ScVerif.C16
