/-!
# C01 — executable sequential model of `pkg/resource` Value / Collection

The definitions FOLLOW THE GO CODE (`/repo/pkg/resource/{atomic,opt,value,collection,id}.go`): same
phases, same order of checks, same data carried between phases.

* The model is parametric in the message type `M` and the field-mask type `K`: everything the code
  asks of protobuf / `pkg/masks` goes through `MsgOps` (proto.Equal, New, FieldUpdater.Validate /
  Merge, ResponseFilter.FilterClone, fieldmaskpb.Union).  Mask semantics in depth belong to C05; C01 is
  about sequencing, options, ids, errors and events.  `Flat.lean` instantiates `MsgOps` for a small
  concrete message (three top-level scalar fields of `internal/testproto.TestAllTypes`).
* Errors are gRPC codes only.
* Time: instants are integers (the harness uses nanoseconds relative to its clock's origin, so any
  `time.Time` - zero value, before the epoch, far future, sub-second - is an `Int`); a write time is
  present-with-value whatever the value. The resource clock is a counter; every `Now()` returns the counter and advances it by
  `cfg.tick` (0 = a fixed clock), so that two reads in one operation are two readings as in the code.
* Randomness: `cfg.gen r i` is "read `6+i` bytes from the rng and base64url-encode them".
* Callbacks (id callback, created callback) are recorded in the output.
-/
namespace ScVerif.C01

/-- gRPC status codes (only the code of an error is modelled). -/
inductive Code
  | canceled | unknown | invalidArgument | deadlineExceeded | notFound | alreadyExists
  | permissionDenied | resourceExhausted | failedPrecondition | aborted | outOfRange
  | unimplemented | internal | unavailable | dataLoss | unauthenticated
  deriving DecidableEq, Repr, Inhabited

/-- The three masks a `masks.FieldUpdater` is configured with (`nil` = `none`). -/
structure Upd (K : Type) where
  writable : Option K
  update : Option K
  reset : Option K

/-- What the resource code asks of protobuf and `pkg/masks`. -/
structure MsgOps (M K : Type) where
  /-- `msg.ProtoReflect().New().Interface()` -/
  zero : M
  /-- `proto.Equal` on two non-nil messages -/
  eq : M → M → Bool
  /-- `fieldmaskpb.Union(writableFields, moreWritableFields)` -/
  union : K → Option K → K
  /-- `FieldUpdater.Validate` -/
  validate : Upd K → M → Option Code
  /-- `FieldUpdater.Merge(dst, src)`; returns the new `dst` -/
  merge : Upd K → M → M → M
  /-- `ResponseFilter.FilterClone` on a non-nil message (`none` = nil read mask) -/
  filter : Option K → M → M

/-- `proto.Equal` on possibly-nil messages: nil equals only nil. -/
def eqOpt {M K : Type} (ops : MsgOps M K) : Option M → Option M → Bool
  | none, none => true
  | some a, some b => ops.eq a b
  | _, _ => false

/-- `resource.WriteRequest` (`ComputeWriteConfig(opts...)`).  Callbacks are functions; for the id and
created callbacks only their presence matters (their invocations are recorded in `Out`). -/
structure WriteReq (M K : Type) where
  writeTime : Option Int := none
  updateMask : Option K := none
  resetMask : Option K := none
  expectedValue : Option M := none
  expectAbsent : Bool := false
  expectedCheck : Option (Option M → Option Code) := none
  allowMissing : Bool := false
  before : Option (Option M → M → M) := none
  after : Option (Option M → M → M) := none
  nilWritable : Bool := false
  moreWritable : Option K := none
  createIfAbsent : Bool := false
  createdCb : Bool := false
  genEmptyID : Bool := false
  idCb : Bool := false

/-- `resource.ReadRequest` (the part that matters for Get/List; Pull options are in C04). -/
structure ReadReq (M K : Type) where
  readMask : Option K := none
  incl : Option (String → M → Bool) := none

/-- Resource construction options (`resource.config`). `R` is the state of the rng. -/
structure Cfg (M K R : Type) where
  ops : MsgOps M K
  writable : Option K := none
  icpt : Option (String → String) := none
  /-- clock step per `Now()` call; 0 = fixed clock -/
  tick : Int := 1
  /-- candidate `i` of `GenerateUniqueId`: read `6+i` bytes, base64url-encode -/
  gen : R → Nat → String × R

variable {M K R : Type}

/-- `WriteRequest.fieldUpdater(writableFields)` -/
def fieldUpdater (cfg : Cfg M K R) (wr : WriteReq M K) : Upd K :=
  let w : Option K :=
    if wr.nilWritable then none
    else match cfg.writable with
      | none => none
      | some w => some (cfg.ops.union w wr.moreWritable)
  { writable := w, update := wr.updateMask, reset := wr.resetMask }

/-- `if c.idInterceptor != nil { id = c.idInterceptor(id) }` -/
def icptId (cfg : Cfg M K R) (id : String) : String :=
  match cfg.icpt with
  | none => id
  | some f => f id

/-- `idAbsent` of `Collection.Update` (fix 929e9c0): whether the caller provided an id is decided on the id
AS GIVEN, before the id interceptor runs (an interceptor may turn the empty id into a key of its own: a
prefix, a suffix); an id the interceptor maps to the empty key counts as absent too (`id == ""` after
interception, as before the fix). -/
def idAbsent (cfg : Cfg M K R) (id : String) : Bool :=
  id = "" || icptId cfg id = ""

/-- The id the `get` callback of `Collection.Update` starts from.  The code keeps the intercepted id next
to the flag `idAbsent` and tests `(idAbsent || id == "") && genEmptyID`; when the caller's id is empty and
ids are generated, the intercepted id is dead (it is overwritten by the generated id before any lookup),
so the flag is folded into the starting id: the context then starts from the empty id, and `updGet`'s test
`c.id = "" && wr.genEmptyID` is the code's test (`updKey_gen` / `updKey_nogen` in `Lemmas.lean`). -/
def updKey (cfg : Cfg M K R) (wr : WriteReq M K) (id : String) : String :=
  if id = "" && wr.genEmptyID then "" else icptId cfg id

/-- `WriteRequest.changeFn(writer, value)` applied to `(old, dst)`. -/
def changeFn (ops : MsgOps M K) (wr : WriteReq M K) (u : Upd K) (value : M)
    (old dst : Option M) : Except Code M :=
  match wr.expectedValue with
  | some ev =>
    if !(eqOpt ops old (some ev)) then .error .failedPrecondition
    else changeRest
  | none => changeRest
where
  changeRest : Except Code M :=
    match (match wr.expectedCheck with | some chk => chk old | none => none) with
    | some c => .error c
    | none =>
      let value := match wr.before with | some f => f old value | none => value
      let dst := match dst with | some d => d | none => ops.zero
      let dst := ops.merge u dst value
      let dst := match wr.after with | some f => f old dst | none => dst
      .ok dst

/-- Result of `GetAndUpdate`: `(oldValue, newValue, err)`. -/
structure GauRes (M : Type) where
  old : Option M
  new : Option M
  err : Option Code

/-- `resource.GetAndUpdate` run by one caller: `get` (under RLock), `change` on a clone with no lock
held, then under Lock the second `get`, the `proto.Equal` re-validation, and `save`.
`σ` is everything the callbacks can touch. -/
def getAndUpdate {σ : Type} (ops : MsgOps M K)
    (get : σ → Except Code (Option M) × σ)
    (change : Option M → Option M → Except Code M)
    (save : σ → M → σ) (s : σ) : GauRes M × σ :=
  match get s with
  | (.error c, s1) => ({ old := none, new := none, err := some c }, s1)
  | (.ok old, s1) =>
    -- newValue = proto.Clone(oldValue); a clone of an immutable value is the value
    match change old old with
    | .error c => ({ old := old, new := none, err := some c }, s1)
    | .ok new =>
      match get s1 with
      | (r2, s2) =>
        let again : Option M := match r2 with | .ok v => v | .error _ => none
        if !(eqOpt ops old again) then
          ({ old := old, new := some new, err := some .aborted }, s2)
        else
          ({ old := old, new := some new, err := none }, save s2 new)

/-! ## Value -/

/-- `resource.Value`: stored message (possibly nil), its change time, the clock counter. -/
structure VState (M : Type) where
  value : Option M
  changeTime : Int
  clock : Int

/-- `ValueChange` as sent on the bus by `Value.set`. -/
structure VEvent (M : Type) where
  value : M
  time : Int

structure VOut (M : Type) where
  val : Option M
  err : Option Code
  events : List (VEvent M)

/-- `NewValue(WithInitialValue(v)?)`: one clock read for `changeTime`. -/
def Value.init (cfg : Cfg M K R) (v : Option M) : VState M :=
  { value := v, changeTime := 0, clock := cfg.tick }

/-- `WriteRequest.updateTime(clock)`: explicit write time, else one clock read. -/
def updateTimeV (cfg : Cfg M K R) (wr : WriteReq M K) (s : VState M) : Int × VState M :=
  match wr.writeTime with
  | some t => (t, s)
  | none => (s.clock, { s with clock := s.clock + cfg.tick })

/-- `Value.Get(opts...)` -/
def Value.get (cfg : Cfg M K R) (s : VState M) (ro : ReadReq M K) : Option M :=
  s.value.map (cfg.ops.filter ro.readMask)

/-- `Value.Set(value, opts...)` -/
def Value.set (cfg : Cfg M K R) (s : VState M) (msg : M) (wr : WriteReq M K) : VOut M × VState M :=
  let u := fieldUpdater cfg wr
  match cfg.ops.validate u msg with
  | some c => ({ val := none, err := some c, events := [] }, s)
  | none =>
    let (r, s1) := getAndUpdate cfg.ops
      (fun (s : VState M) => (.ok s.value, s))
      (changeFn cfg.ops wr u msg)
      (fun s m =>
        let (t, s') := updateTimeV cfg wr s
        { s' with value := some m, changeTime := t })
      s
    match r.err, r.new with
    | none, some new =>
      let (t, s2) := updateTimeV cfg wr s1
      ({ val := some new, err := none, events := [{ value := new, time := t }] }, s2)
    | some c, _ => ({ val := none, err := some c, events := [] }, s1)
    | none, none => ({ val := none, err := some .internal, events := [] }, s1)  -- unreachable

/-! ## Collection -/

/-- `item{body, changeTime}` -/
structure Item (M : Type) where
  body : M
  time : Int

/-- `resource.Collection`: `byId` as an association list with distinct keys, the clock counter and
the rng state. -/
structure CState (M R : Type) where
  items : List (String × Item M)
  clock : Int
  rng : R

inductive Kind | add | update | remove
  deriving DecidableEq, Repr

/-- `CollectionChange` -/
structure CEvent (M : Type) where
  id : String
  time : Int
  kind : Kind
  old : Option M
  new : Option M
  seed : Bool := false
  lastSeed : Bool := false

structure COut (M : Type) where
  val : Option M
  err : Option Code
  events : List (CEvent M)
  idCalls : List String
  createdCalls : Nat

def lookup (items : List (String × Item M)) (id : String) : Option (Item M) :=
  match items with
  | [] => none
  | (k, v) :: rest => if k = id then some v else lookup rest id

/-- `byId[id] = it` -/
def setItem (items : List (String × Item M)) (id : String) (it : Item M) : List (String × Item M) :=
  match items with
  | [] => [(id, it)]
  | (k, v) :: rest => if k = id then (k, it) :: rest else (k, v) :: setItem rest id it

/-- `delete(byId, id)` -/
def eraseItem (items : List (String × Item M)) (id : String) : List (String × Item M) :=
  items.filter (fun kv => kv.1 ≠ id)

/-- `clock.Now()` -/
def nowC (cfg : Cfg M K R) (s : CState M R) : Int × CState M R :=
  (s.clock, { s with clock := s.clock + cfg.tick })

def updateTimeC (cfg : Cfg M K R) (wr : WriteReq M K) (s : CState M R) : Int × CState M R :=
  match wr.writeTime with
  | some t => (t, s)
  | none => nowC cfg s

/-- The loop of `GenerateUniqueId`: tries `i, i+1, …` while `fuel` lasts. -/
def genLoop (gen : R → Nat → String × R) (exists_ : String → Bool) : Nat → Nat → R → Option String × R
  | 0, _, r => (none, r)
  | fuel + 1, i, r =>
    let (cand, r') := gen r i
    if cand ≠ "" && !(exists_ cand) then (some cand, r')
    else genLoop gen exists_ fuel (i + 1) r'

/-- `Collection.genID()`: 10 tries; the existence probe goes through the id interceptor, and the
id that is returned is the intercepted candidate (the key every other entry point will use).
`used` is "is a key of `byId`". -/
def genID (cfg : Cfg M K R) (used : String → Bool) (rng : R) : Option String × R :=
  let (r, rng') := genLoop cfg.gen (fun cand => used (icptId cfg cand)) 10 0 rng
  (r.map (icptId cfg), rng')

def usedIn (items : List (String × Item M)) (id : String) : Bool := (lookup items id).isSome

/-- What the closures of `Collection.Update` capture and mutate. -/
structure UpdCtx (M R : Type) where
  st : CState M R
  id : String
  created : Option M
  idCalls : List String
  createdCalls : Nat
  /-- `createdMeanwhile`: the re-validation read found the item although the first read did not -/
  createdMeanwhile : Bool := false

/-- The `get` callback of `Collection.Update`. -/
def updGet (cfg : Cfg M K R) (wr : WriteReq M K) (c : UpdCtx M R) : Except Code (Option M) × UpdCtx M R :=
  match c.created with
  | some cr =>
    -- the re-validation read of the create path: re-check existence
    match lookup c.st.items c.id with
    | some it =>
      if wr.expectAbsent then (.error .alreadyExists, c)
      else (.ok (some it.body), { c with createdMeanwhile := true })
    | none => (.ok (some cr), c)
  | none =>
    -- handle empty ids, generating them, and invoking callbacks
    let r : Option Code × UpdCtx M R :=
      if c.id = "" && wr.genEmptyID then
        match genID cfg (usedIn c.st.items) c.st.rng with
        | (none, rng') => (some .aborted, { c with st := { c.st with rng := rng' } })
        | (some id', rng') =>
          (none, { c with st := { c.st with rng := rng' }, id := id',
                          idCalls := if wr.idCb then c.idCalls ++ [id'] else c.idCalls })
      else (none, c)
    match r with
    | (some e, c) => (.error e, c)
    | (none, c) =>
      match lookup c.st.items c.id with
      | some it =>
        if wr.expectAbsent then (.error .alreadyExists, c)
        else (.ok (some it.body), c)
      | none =>
        if !wr.createIfAbsent then (.error .notFound, c)
        else
          (.ok (some cfg.ops.zero),
            { c with created := some cfg.ops.zero,
                     createdCalls := if wr.createdCb then c.createdCalls + 1 else c.createdCalls })

/-- The `save` callback of `Collection.Update`. -/
def updSave (cfg : Cfg M K R) (wr : WriteReq M K) (c : UpdCtx M R) (m : M) : UpdCtx M R :=
  let (t, st') := updateTimeC cfg wr c.st
  { c with st := { st' with items := setItem st'.items c.id { body := m, time := t } } }

/-- `Collection.Update(id, msg, opts...)` from the id its `get` callback starts from -/
def Coll.updateAt (cfg : Cfg M K R) (s : CState M R) (id : String) (msg : M) (wr : WriteReq M K) :
    COut M × CState M R :=
  let u := fieldUpdater cfg wr
  match cfg.ops.validate u msg with
  | some c => ({ val := none, err := some c, events := [], idCalls := [], createdCalls := 0 }, s)
  | none =>
    let c0 : UpdCtx M R := { st := s, id := id, created := none, idCalls := [], createdCalls := 0 }
    let (r, c) := getAndUpdate cfg.ops (updGet cfg wr) (changeFn cfg.ops wr u msg) (updSave cfg wr) c0
    match r.err, r.new with
    | none, some new =>
      -- an item created meanwhile (equal to the provisional message, or the write is aborted) is UPDATED
      let add := r.old.isNone || (c.created.isSome && !c.createdMeanwhile)
      let (t, st') := updateTimeC cfg wr c.st
      ({ val := some new, err := none,
         events := [{ id := c.id, time := t, kind := if add then .add else .update,
                      old := if add then none else r.old, new := some new }],
         idCalls := c.idCalls, createdCalls := c.createdCalls }, st')
    | some e, _ =>
      ({ val := none, err := some e, events := [], idCalls := c.idCalls, createdCalls := c.createdCalls }, c.st)
    | none, none =>
      ({ val := none, err := some .internal, events := [], idCalls := c.idCalls,
         createdCalls := c.createdCalls }, c.st)  -- unreachable

/-- `Collection.Update(id, msg, opts...)` -/
def Coll.update (cfg : Cfg M K R) (s : CState M R) (id : String) (msg : M) (wr : WriteReq M K) :
    COut M × CState M R :=
  Coll.updateAt cfg s (updKey cfg wr id) msg wr

/-- `Collection.Update` as it was before fix 929e9c0: the emptiness of the id was tested after the id
interceptor had run, i.e. the `get` callback started from the intercepted id whatever the caller gave
(kept for the witness `C01_genid_legacy_prefix_never_generates` and for `C01_genid_fix_conservative`) -/
def Coll.updateLegacy (cfg : Cfg M K R) (s : CState M R) (id : String) (msg : M) (wr : WriteReq M K) :
    COut M × CState M R :=
  Coll.updateAt cfg s (icptId cfg id) msg wr

/-- `Collection.Add` = `Update` with `WithExpectAbsent(), WithCreateIfAbsent()` prepended. -/
def Coll.add (cfg : Cfg M K R) (s : CState M R) (id : String) (msg : M) (wr : WriteReq M K) :
    COut M × CState M R :=
  Coll.update cfg s id msg { wr with expectAbsent := true, createIfAbsent := true }

/-- Are two `byId` lookups the same `*item`?  One caller at a time: the same entry. Compared here
by existence, change time and `proto.Equal` of the bodies. -/
def sameItem (ops : MsgOps M K) : Option (Item M) → Option (Item M) → Bool
  | none, none => true
  | some a, some b => a.time == b.time && ops.eq a.body b.body
  | _, _ => false

/-- The attempt loop of `Collection.Delete`. -/
def deleteLoop (cfg : Cfg M K R) (wr : WriteReq M K) (id : String) :
    Nat → Option (Item M) → CState M R → COut M × CState M R
  | 0, _, s => ({ val := none, err := some .unavailable, events := [], idCalls := [], createdCalls := 0 }, s)
  | fuel + 1, oldVal, s =>
    match oldVal with
    | none =>
      if !wr.allowMissing then
        ({ val := none, err := some .notFound, events := [], idCalls := [], createdCalls := 0 }, s)
      else ({ val := none, err := none, events := [], idCalls := [], createdCalls := 0 }, s)
    | some it =>
      match (match wr.expectedCheck with | some chk => chk (some it.body) | none => none) with
      | some e => ({ val := some it.body, err := some e, events := [], idCalls := [], createdCalls := 0 }, s)
      | none =>
        if (match wr.expectedValue with | some ev => !(cfg.ops.eq it.body ev) | none => false) then
          ({ val := some it.body, err := some .failedPrecondition, events := [], idCalls := [],
             createdCalls := 0 }, s)
        else
          let oldVal2 := lookup s.items id
          if !(sameItem cfg.ops oldVal2 oldVal) then deleteLoop cfg wr id fuel oldVal2 s
          else
            let (t, s') := nowC cfg s
            ({ val := some it.body, err := none,
               events := [{ id := id, time := t, kind := .remove, old := some it.body, new := none }],
               idCalls := [], createdCalls := 0 },
             { s' with items := eraseItem s'.items id })

/-- `Collection.Delete(id, opts...)` -/
def Coll.delete (cfg : Cfg M K R) (s : CState M R) (id : String) (wr : WriteReq M K) :
    COut M × CState M R :=
  let id := icptId cfg id
  deleteLoop cfg wr id 5 (lookup s.items id) s

/-- `Collection.Get(id, opts...)` -/
def Coll.get (cfg : Cfg M K R) (s : CState M R) (id : String) (ro : ReadReq M K) : Option M :=
  (lookup s.items (icptId cfg id)).map (fun it => cfg.ops.filter ro.readMask it.body)

/-- `ReadRequest.Exclude` -/
def excluded (ro : ReadReq M K) (id : String) (m : M) : Bool :=
  match ro.incl with
  | none => false
  | some f => !(f id m)

/-- `Collection.itemSlice` -/
def itemSlice (s : CState M R) (ro : ReadReq M K) : List (String × Item M) :=
  s.items.filter (fun kv => !(excluded ro kv.1 kv.2.body))

/-- insertion into a list sorted by id -/
def insertById (x : String × Item M) : List (String × Item M) → List (String × Item M)
  | [] => [x]
  | y :: ys => if x.1 < y.1 then x :: y :: ys else y :: insertById x ys

/-- `sort.Slice(tmp, func(i, j) bool { return tmp[i].id < tmp[j].id })` -/
def sortById : List (String × Item M) → List (String × Item M)
  | [] => []
  | x :: xs => insertById x (sortById xs)

/-- `Collection.List(opts...)`, with the ids kept next to the messages. -/
def Coll.listIds (cfg : Cfg M K R) (s : CState M R) (ro : ReadReq M K) : List (String × M) :=
  (sortById (itemSlice s ro)).map (fun kv => (kv.1, cfg.ops.filter ro.readMask kv.2.body))

def Coll.list (cfg : Cfg M K R) (s : CState M R) (ro : ReadReq M K) : List M :=
  (Coll.listIds cfg s ro).map (·.2)

/-- `NewCollection(WithInitialRecord(id, v)...)`: every initial record is stamped by the clock
(the harness holds the clock still during construction, so all get tick 0). -/
def Coll.init (cfg : Cfg M K R) (records : List (String × M)) (rng : R) : CState M R :=
  { items := records.foldl (fun acc kv => setItem acc kv.1 { body := kv.2, time := 0 }) [],
    clock := cfg.tick, rng := rng }

/-! ## Operation sequences -/

inductive COp (M K : Type)
  | get (id : String) (ro : ReadReq M K)
  | list (ro : ReadReq M K)
  | update (id : String) (msg : M) (wr : WriteReq M K)
  | add (id : String) (msg : M) (wr : WriteReq M K)
  | delete (id : String) (wr : WriteReq M K)

/-- What one call returns to its caller (+ bus events and callback invocations). -/
inductive CRes (M : Type)
  | got (v : Option M)
  | listed (vs : List (String × M))
  | wrote (o : COut M)

def Coll.step (cfg : Cfg M K R) (s : CState M R) : COp M K → CRes M × CState M R
  | .get id ro => (.got (Coll.get cfg s id ro), s)
  | .list ro => (.listed (Coll.listIds cfg s ro), s)
  | .update id msg wr => let (o, s') := Coll.update cfg s id msg wr; (.wrote o, s')
  | .add id msg wr => let (o, s') := Coll.add cfg s id msg wr; (.wrote o, s')
  | .delete id wr => let (o, s') := Coll.delete cfg s id wr; (.wrote o, s')

def Coll.run (cfg : Cfg M K R) : CState M R → List (COp M K) → List (CRes M) × CState M R
  | s, [] => ([], s)
  | s, op :: ops =>
    let (r, s1) := Coll.step cfg s op
    let (rs, s2) := Coll.run cfg s1 ops
    (r :: rs, s2)

inductive VOp (M K : Type)
  | get (ro : ReadReq M K)
  | set (msg : M) (wr : WriteReq M K)

inductive VRes (M : Type)
  | got (v : Option M)
  | wrote (o : VOut M)

def Value.step (cfg : Cfg M K R) (s : VState M) : VOp M K → VRes M × VState M
  | .get ro => (.got (Value.get cfg s ro), s)
  | .set msg wr => let (o, s') := Value.set cfg s msg wr; (.wrote o, s')

def Value.run (cfg : Cfg M K R) : VState M → List (VOp M K) → List (VRes M) × VState M
  | s, [] => ([], s)
  | s, op :: ops =>
    let (r, s1) := Value.step cfg s op
    let (rs, s2) := Value.run cfg s1 ops
    (r :: rs, s2)

end ScVerif.C01
