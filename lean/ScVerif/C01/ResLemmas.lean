import ScVerif.C01.Res
import ScVerif.C01.ListLemmas
/-! Lemmas about resource option lists (`Res.lean`). -/
namespace ScVerif.C01
variable {M K R : Type}

theorem applyAllRes_append (a b : List (ResOpt M K)) : ∀ c : ResCfg M K,
    applyAllRes c (a ++ b) = (applyAllRes c a).bind (fun c' => applyAllRes c' b) := by
  induction a with
  | nil => intro c; simp [applyAllRes]
  | cons o os ih =>
    intro c
    simp only [List.cons_append, applyAllRes]
    cases applyRes c o with
    | none => simp
    | some c' => simp [ih]

/-- an option that is not an initial record never panics and leaves the records alone -/
theorem applyRes_records (c c' : ResCfg M K) (o : ResOpt M K) (h : applyRes c o = some c') :
    c'.initialRecords = c.initialRecords ++ recordsOf [o] := by
  cases o with
  | initialRecord id v =>
    simp only [applyRes] at h
    split at h
    · cases h
    · cases h; simp [recordsOf]
  | _ => simp only [applyRes, Option.some.injEq] at h; subst h; simp [recordsOf]

theorem recordsOf_cons (o : ResOpt M K) (os : List (ResOpt M K)) :
    recordsOf (o :: os) = recordsOf [o] ++ recordsOf os := by
  cases o <;> simp [recordsOf]

theorem applyAllRes_records (opts : List (ResOpt M K)) : ∀ c rc : ResCfg M K,
    applyAllRes c opts = some rc → rc.initialRecords = c.initialRecords ++ recordsOf opts := by
  induction opts with
  | nil => intro c rc h; simp only [applyAllRes, Option.some.injEq] at h; subst h; simp [recordsOf]
  | cons o os ih =>
    intro c rc h
    simp only [applyAllRes] at h
    cases ho : applyRes c o with
    | none => simp [ho] at h
    | some c' =>
      rw [ho] at h
      rw [ih c' rc h, applyRes_records c c' o ho, recordsOf_cons o os, List.append_assoc]

/-- the ids of a record list -/
def idsOf (l : List (String × M)) : List String := l.map (·.1)

/-- construction panics exactly when an id is given twice (among the records already there and the
ones of the list) -/
theorem applyAllRes_isSome (opts : List (ResOpt M K)) : ∀ c : ResCfg M K,
    (applyAllRes c opts).isSome = true ↔
      (∀ id ∈ idsOf (recordsOf opts), id ∉ idsOf c.initialRecords) ∧
      (idsOf (recordsOf opts)).Pairwise (· ≠ ·) := by
  induction opts with
  | nil => intro c; simp [applyAllRes, recordsOf, idsOf]
  | cons o os ih =>
    intro c
    cases o with
    | initialRecord id v =>
      simp only [applyAllRes, applyRes]
      by_cases hin : id ∈ idsOf c.initialRecords
      · have hany : (c.initialRecords.any fun kv => kv.1 == id) = true := by
          simp only [idsOf, List.mem_map] at hin
          obtain ⟨kv, hm, he⟩ := hin
          simp only [List.any_eq_true, beq_iff_eq]
          exact ⟨kv, hm, he⟩
        simp only [hany, ↓reduceIte, Option.isSome_none, Bool.false_eq_true, false_iff, recordsOf, idsOf,
          List.map_cons, List.mem_cons, forall_eq_or_imp, not_and]
        intro h; exact absurd hin h.1
      · have hany : (c.initialRecords.any fun kv => kv.1 == id) = false := by
          cases hq : (c.initialRecords.any fun kv => kv.1 == id) with
          | false => rfl
          | true =>
            exfalso; apply hin
            simp only [List.any_eq_true, beq_iff_eq] at hq
            obtain ⟨kv, hm, he⟩ := hq
            simp only [idsOf, List.mem_map]
            exact ⟨kv, hm, he⟩
        simp only [hany, Bool.false_eq_true, ↓reduceIte]
        rw [ih]
        simp only [recordsOf, idsOf, List.map_cons, List.map_append, List.map_nil, List.mem_append, List.mem_cons,
          List.not_mem_nil, or_false, not_or, forall_eq_or_imp, List.pairwise_cons]
        simp only [idsOf] at hin
        constructor
        · rintro ⟨h1, h2⟩
          exact ⟨⟨hin, fun a ha => (h1 a ha).1⟩, fun a ha he => (h1 a ha).2 he.symm, h2⟩
        · rintro ⟨⟨_, h1⟩, h2, h3⟩
          exact ⟨fun a ha => ⟨h1 a ha, fun he => h2 a ha he.symm⟩, h3⟩
    | writable m => simp only [applyAllRes, applyRes, recordsOf]; exact ih _
    | icpt f => simp only [applyAllRes, applyRes, recordsOf]; exact ih _
    | initialValue v => simp only [applyAllRes, applyRes, recordsOf]; exact ih _
    | other => simp only [applyAllRes, applyRes, recordsOf]; exact ih _

theorem applyRes_keeps_writable (c c' : ResCfg M K) (o : ResOpt M K) (hs : o.setsWritable = false)
    (h : applyRes c o = some c') : c'.writable = c.writable := by
  cases o with
  | writable m => simp [ResOpt.setsWritable] at hs
  | initialRecord id v => simp only [applyRes] at h; split at h <;> cases h; rfl
  | _ => simp only [applyRes, Option.some.injEq] at h; subst h; rfl

theorem applyRes_keeps_icpt (c c' : ResCfg M K) (o : ResOpt M K) (hs : o.setsIcpt = false)
    (h : applyRes c o = some c') : c'.icpt = c.icpt := by
  cases o with
  | icpt f => simp [ResOpt.setsIcpt] at hs
  | initialRecord id v => simp only [applyRes] at h; split at h <;> cases h; rfl
  | _ => simp only [applyRes, Option.some.injEq] at h; subst h; rfl

theorem applyRes_keeps_initialValue (c c' : ResCfg M K) (o : ResOpt M K) (hs : o.setsInitialValue = false)
    (h : applyRes c o = some c') : c'.initialValue = c.initialValue := by
  cases o with
  | initialValue v => simp [ResOpt.setsInitialValue] at hs
  | initialRecord id v => simp only [applyRes] at h; split at h <;> cases h; rfl
  | _ => simp only [applyRes, Option.some.injEq] at h; subst h; rfl

/-- a setting survives every later option that does not set it -/
theorem applyAllRes_keeps {α : Type} (proj : ResCfg M K → α) (sets : ResOpt M K → Bool)
    (hstep : ∀ c c' o, sets o = false → applyRes c o = some c' → proj c' = proj c)
    (post : List (ResOpt M K)) (hpost : ∀ o ∈ post, sets o = false) :
    ∀ c rc : ResCfg M K, applyAllRes c post = some rc → proj rc = proj c := by
  induction post with
  | nil => intro c rc h; simp only [applyAllRes, Option.some.injEq] at h; subst h; rfl
  | cons o os ih =>
    intro c rc h
    simp only [applyAllRes] at h
    cases ho : applyRes c o with
    | none => simp [ho] at h
    | some c' =>
      rw [ho] at h
      rw [ih (fun o' hm => hpost o' (List.mem_cons_of_mem _ hm)) c' rc h]
      exact hstep c c' o (hpost o List.mem_cons_self) ho

/-- the contents of a fresh collection: under every id the LAST record given for it, stamped 0 -/
theorem lookup_init (cfg : Cfg M K R) (records : List (String × M)) (rng : R) (k : String) :
    lookup (Coll.init cfg records rng).items k =
      (records.reverse.find? (fun kv => kv.1 == k)).map (fun kv => { body := kv.2, time := 0 }) := by
  unfold Coll.init
  simp only []
  suffices ∀ acc : List (String × Item M),
      lookup (records.foldl (fun acc kv => setItem acc kv.1 { body := kv.2, time := 0 }) acc) k =
        match records.reverse.find? (fun kv => kv.1 == k) with
        | some kv => some { body := kv.2, time := 0 }
        | none => lookup acc k by
    rw [this []]
    cases records.reverse.find? (fun kv => kv.1 == k) <;> simp [lookup]
  induction records with
  | nil => intro acc; simp
  | cons r rs ih =>
    intro acc
    simp only [List.foldl_cons, ih, List.reverse_cons, List.find?_append]
    cases hf : rs.reverse.find? (fun kv => kv.1 == k) with
    | some kv => simp
    | none =>
      simp only [Option.none_or, List.find?_cons, List.find?_nil, lookup_setItem]
      by_cases hk : k = r.1
      · subst hk; simp
      · have : (r.1 == k) = false := by simp [beq_eq_false_iff_ne]; exact fun h => hk h.symm
        simp [this, hk]

/-- distinct ids: a record list holds at most one message per id -/
theorem unique_of_pairwise (l : List (String × M)) (hn : (idsOf l).Pairwise (· ≠ ·)) (id : String) (v v' : M)
    (h1 : (id, v) ∈ l) (h2 : (id, v') ∈ l) : v = v' := by
  induction l with
  | nil => cases h1
  | cons x xs ih =>
    simp only [idsOf, List.map_cons, List.pairwise_cons] at hn
    have hmem : ∀ w, (id, w) ∈ xs → id ∈ xs.map (·.1) := fun w hw => List.mem_map.mpr ⟨(id, w), hw, rfl⟩
    rcases List.mem_cons.mp h1 with e1 | m1 <;> rcases List.mem_cons.mp h2 with e2 | m2
    · rw [← e1] at e2; exact (Prod.mk.inj e2).2.symm
    · subst e1; exact absurd rfl (hn.1 id (hmem _ m2))
    · subst e2; exact absurd rfl (hn.1 id (hmem _ m1))
    · exact ih hn.2 m1 m2

theorem hasDupKey_false (l : List (String × M)) : hasDupKey l = false ↔ (idsOf l).Pairwise (· ≠ ·) := by
  induction l with
  | nil => simp [hasDupKey, idsOf]
  | cons kv rest ih =>
    simp only [hasDupKey, Bool.or_eq_false_iff, ih, idsOf, List.map_cons, List.pairwise_cons, List.mem_map,
      forall_exists_index, and_imp]
    constructor
    · rintro ⟨h1, h2⟩
      refine ⟨fun a x hx hxa he => ?_, h2⟩
      have : (rest.any fun x => x.1 == kv.1) = true := by
        simp only [List.any_eq_true, beq_iff_eq]
        exact ⟨x, hx, by rw [hxa, he]⟩
      rw [h1] at this; cases this
    · rintro ⟨h1, h2⟩
      refine ⟨?_, h2⟩
      cases hq : (rest.any fun x => x.1 == kv.1) with
      | false => rfl
      | true =>
        simp only [List.any_eq_true, beq_iff_eq] at hq
        obtain ⟨x, hx, he⟩ := hq
        exact absurd he.symm (h1 x.1 x hx rfl)

/-- a fresh collection over records with distinct ids holds exactly those records -/
theorem lookup_init_distinct (cfg : Cfg M K R) (recs : List (String × M)) (rng : R)
    (hnd : (idsOf recs).Pairwise (· ≠ ·)) :
    (∀ k v, (k, v) ∈ recs → lookup (Coll.init cfg recs rng).items k = some { body := v, time := 0 }) ∧
    (∀ k, k ∉ idsOf recs → lookup (Coll.init cfg recs rng).items k = none) := by
  constructor
  · intro id v hm
    rw [lookup_init]
    cases hf : recs.reverse.find? (fun kv => kv.1 == id) with
    | none =>
      have := List.find?_eq_none.mp hf (id, v) (List.mem_reverse.mpr hm)
      simp at this
    | some kv =>
      have hk : kv.1 = id := by have := List.find?_some hf; simpa using this
      have hm' : kv ∈ recs := List.mem_reverse.mp (List.mem_of_find?_eq_some hf)
      obtain ⟨k, w⟩ := kv
      simp only at hk; subst hk
      have := unique_of_pairwise _ hnd k w v hm' hm
      subst this; rfl
  · intro id hn
    rw [lookup_init]
    cases hf : recs.reverse.find? (fun kv => kv.1 == id) with
    | none => rfl
    | some kv =>
      exfalso; apply hn
      have hk : kv.1 = id := by have := List.find?_some hf; simpa using this
      exact List.mem_map.mpr ⟨kv, List.mem_reverse.mp (List.mem_of_find?_eq_some hf), hk⟩

/-- what `Coll.newO` amounts to once the option list has resolved -/
theorem newO_cases (base : Cfg M K R) (opts : List (ResOpt M K)) (rng : R)
    (cfg : Cfg M K R) (s : CState M R) (h : Coll.newO base opts rng = some (cfg, s)) :
    ∃ rc, computeConfig opts = some rc ∧ cfg = toCfg base rc ∧
      hasDupKey (keyedRecords cfg (recordsOf opts)) = false ∧
      s = Coll.init cfg (keyedRecords cfg (recordsOf opts)) rng := by
  unfold Coll.newO at h
  cases hc : computeConfig opts with
  | none => simp [hc] at h
  | some rc =>
    have hrec : rc.initialRecords = recordsOf opts := by
      have := applyAllRes_records opts {} rc hc
      simpa using this
    simp only [hc, Option.bind_some] at h
    split at h
    · cases h
    · rename_i hd
      simp only [Option.some.injEq, Prod.mk.injEq] at h
      obtain ⟨hcfg, hs⟩ := h
      subst hcfg
      rw [hrec] at hd hs
      exact ⟨rc, rfl, rfl, by simpa using hd, hs.symm⟩

end ScVerif.C01
