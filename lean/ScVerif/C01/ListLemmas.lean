import ScVerif.C01.Lemmas
/-! Lemmas for `Collection.List`: the sort, and the distinct-keys invariant of `byId`. -/
namespace ScVerif.C01
variable {M K R : Type}

/-- keys of `byId` are distinct (it is a Go map) -/
def NodupKeys (items : List (String × Item M)) : Prop := (items.map (·.1)).Pairwise (· ≠ ·)

theorem str_lt_of_not_lt_of_ne {a b : String} (h1 : ¬ a < b) (h2 : a ≠ b) : b < a := by
  apply Classical.byContradiction
  intro h3
  exact h2 (String.le_antisymm (String.not_lt.mp h3) (String.not_lt.mp h1))

theorem mem_insertById (x y : String × Item M) (l : List (String × Item M)) :
    y ∈ insertById x l ↔ y = x ∨ y ∈ l := by
  induction l with
  | nil => simp [insertById]
  | cons z zs ih =>
    simp only [insertById]
    split
    · simp
    · simp only [List.mem_cons, ih]
      constructor
      · rintro (h | h | h) <;> simp [h]
      · rintro (h | h | h) <;> simp [h]

theorem mem_sortById (y : String × Item M) (l : List (String × Item M)) : y ∈ sortById l ↔ y ∈ l := by
  induction l with
  | nil => simp [sortById]
  | cons z zs ih => simp [sortById, mem_insertById, ih]

theorem sorted_insertById (x : String × Item M) (l : List (String × Item M))
    (hs : (l.map (·.1)).Pairwise (· < ·)) (hx : ∀ y ∈ l, y.1 ≠ x.1) :
    ((insertById x l).map (·.1)).Pairwise (· < ·) := by
  induction l with
  | nil => simp [insertById]
  | cons z zs ih =>
    simp only [List.map_cons, List.pairwise_cons, List.mem_map, forall_exists_index, and_imp,
      forall_apply_eq_imp_iff₂] at hs
    simp only [insertById]
    split
    · rename_i hlt
      simp only [List.map_cons, List.pairwise_cons, List.mem_cons, List.mem_map, forall_eq_or_imp,
        forall_exists_index, and_imp, forall_apply_eq_imp_iff₂]
      exact ⟨⟨hlt, fun a ha => String.lt_trans hlt (hs.1 a ha)⟩, hs.1, hs.2⟩
    · rename_i hnlt
      have hzx : z.1 < x.1 := str_lt_of_not_lt_of_ne hnlt (fun e => hx z (by simp) e.symm)
      simp only [List.map_cons, List.pairwise_cons, List.mem_map, forall_exists_index, and_imp,
        forall_apply_eq_imp_iff₂]
      refine ⟨?_, ih hs.2 (fun y hy => hx y (by simp [hy]))⟩
      intro a ha
      rcases (mem_insertById x a zs).mp ha with h | h
      · subst h; exact hzx
      · exact hs.1 a h

theorem sorted_sortById (l : List (String × Item M)) (hn : NodupKeys l) :
    ((sortById l).map (·.1)).Pairwise (· < ·) := by
  induction l with
  | nil => simp [sortById]
  | cons z zs ih =>
    simp only [NodupKeys, List.map_cons, List.pairwise_cons, List.mem_map, forall_exists_index, and_imp,
      forall_apply_eq_imp_iff₂] at hn
    simp only [sortById]
    apply sorted_insertById _ _ (ih hn.2)
    intro y hy
    exact fun e => hn.1 y ((mem_sortById y zs).mp hy) e.symm

theorem nodupKeys_filter (l : List (String × Item M)) (p : String × Item M → Bool) (hn : NodupKeys l) :
    NodupKeys (l.filter p) := by
  unfold NodupKeys at *
  exact (List.Pairwise.sublist (List.Sublist.map _ List.filter_sublist) hn)

theorem mem_iff_lookup (l : List (String × Item M)) (hn : NodupKeys l) (k : String) (v : Item M) :
    (k, v) ∈ l ↔ lookup l k = some v := by
  induction l with
  | nil => simp [lookup]
  | cons z zs ih =>
    obtain ⟨k', v'⟩ := z
    simp only [NodupKeys, List.map_cons, List.pairwise_cons, List.mem_map, forall_exists_index, and_imp,
      forall_apply_eq_imp_iff₂] at hn
    simp only [List.mem_cons, Prod.mk.injEq, lookup]
    by_cases hk : k' = k
    · subst hk
      simp only [true_and, ↓reduceIte, Option.some.injEq]
      constructor
      · rintro (h | h)
        · exact h.symm
        · exact absurd rfl (hn.1 (k', v) h)
      · intro h; exact Or.inl h.symm
    · simp only [hk, ↓reduceIte]
      rw [← ih hn.2]
      constructor
      · rintro (h | h)
        · exact absurd h.1.symm hk
        · exact h
      · intro h; exact Or.inr h

theorem keys_setItem (items : List (String × Item M)) (id : String) (it : Item M) (k : String) :
    k ∈ (setItem items id it).map (·.1) ↔ k = id ∨ k ∈ items.map (·.1) := by
  induction items with
  | nil => simp [setItem]
  | cons z zs ih =>
    obtain ⟨k', v'⟩ := z
    simp only [setItem]
    split
    · rename_i h; subst h; simp
    · simp only [List.map_cons, List.mem_cons, ih]
      constructor
      · rintro (h | h | h) <;> simp [h]
      · rintro (h | h | h) <;> simp [h]

theorem nodupKeys_setItem (items : List (String × Item M)) (id : String) (it : Item M) (hn : NodupKeys items) :
    NodupKeys (setItem items id it) := by
  induction items with
  | nil => simp [setItem, NodupKeys]
  | cons z zs ih =>
    obtain ⟨k', v'⟩ := z
    simp only [NodupKeys, List.map_cons, List.pairwise_cons] at hn
    simp only [setItem]
    split
    · simpa [NodupKeys] using hn
    · rename_i hne
      simp only [NodupKeys, List.map_cons, List.pairwise_cons]
      refine ⟨?_, ih hn.2⟩
      intro a ha
      rcases (keys_setItem zs id it a).mp ha with h | h
      · subst h; exact hne
      · exact hn.1 a h

theorem nodupKeys_eraseItem (items : List (String × Item M)) (id : String) (hn : NodupKeys items) :
    NodupKeys (eraseItem items id) := nodupKeys_filter _ _ hn

theorem nodupKeys_init (cfg : Cfg M K R) (records : List (String × M)) (rng : R) :
    NodupKeys (Coll.init cfg records rng).items := by
  unfold Coll.init
  simp only []
  suffices ∀ acc : List (String × Item M), NodupKeys acc →
      NodupKeys (records.foldl (fun acc kv => setItem acc kv.1 { body := kv.2, time := 0 }) acc) from
    this [] (by simp [NodupKeys])
  induction records with
  | nil => intro acc h; exact h
  | cons r rs ih => intro acc h; exact ih _ (nodupKeys_setItem _ _ _ h)

/-- `List` returns the included entries, projected, in strictly increasing id order. -/
theorem coll_list_spec (cfg : Cfg M K R) (s : CState M R) (ro : ReadReq M K) (hn : NodupKeys s.items) :
    ListSpec cfg (abs s).m ro (Coll.listIds cfg s ro) := by
  have hn' : NodupKeys (itemSlice s ro) := nodupKeys_filter _ _ hn
  constructor
  · have := sorted_sortById _ hn'
    simpa [Coll.listIds, List.map_map, Function.comp_def] using this
  · intro id v
    simp only [Coll.listIds, List.mem_map, Prod.mk.injEq, abs]
    constructor
    · rintro ⟨⟨k, it⟩, hmem, hk, hv⟩
      simp only at hk hv
      subst hk
      have h1 := (mem_sortById _ _).mp hmem
      simp only [itemSlice, List.mem_filter, Bool.not_eq_eq_eq_not, Bool.not_true] at h1
      exact ⟨it, (mem_iff_lookup _ hn _ _).mp h1.1, h1.2, hv.symm⟩
    · rintro ⟨it, hl, hex, hv⟩
      refine ⟨(id, it), (mem_sortById _ _).mpr ?_, rfl, hv.symm⟩
      simp only [itemSlice, List.mem_filter, Bool.not_eq_eq_eq_not, Bool.not_true]
      exact ⟨(mem_iff_lookup _ hn _ _).mpr hl, hex⟩
/-! ## the distinct-keys invariant is kept by every call -/

theorem updGet_items (cfg : Cfg M K R) (wr : WriteReq M K) (c : UpdCtx M R) :
    (updGet cfg wr c).2.st.items = c.st.items := by
  unfold updGet
  cases c.created with
  | some cr => simp only []; cases lookup c.st.items c.id <;> simp only [] <;> split <;> rfl
  | none =>
    simp only []
    by_cases hg : (c.id = "" && wr.genEmptyID) = true
    · simp only [hg, ↓reduceIte]
      rcases genID cfg (usedIn c.st.items) c.st.rng with ⟨r, rng'⟩
      cases r with
      | none => rfl
      | some id' =>
        simp only []
        cases lookup c.st.items id' <;> simp only [] <;> split <;> rfl
    · have hg' : (c.id = "" && wr.genEmptyID) = false := by simpa using hg
      simp only [hg', Bool.false_eq_true, ↓reduceIte]
      cases lookup c.st.items c.id <;> simp only [] <;> split <;> rfl

theorem updateTimeC_items (cfg : Cfg M K R) (wr : WriteReq M K) (s : CState M R) :
    (updateTimeC cfg wr s).2.items = s.items := by
  unfold updateTimeC nowC; split <;> rfl

theorem gau_state_cases {σ : Type} (ops : MsgOps M K)
    (get : σ → Except Code (Option M) × σ) (change : Option M → Option M → Except Code M)
    (save : σ → M → σ) (s : σ) :
    (getAndUpdate ops get change save s).2 = (get s).2 ∨
    (getAndUpdate ops get change save s).2 = (get (get s).2).2 ∨
    ∃ new, (getAndUpdate ops get change save s).2 = save (get (get s).2).2 new := by
  unfold getAndUpdate
  rcases get s with ⟨r1, s1⟩
  cases r1 with
  | error e => exact Or.inl rfl
  | ok old =>
    simp only []
    cases change old old with
    | error e => exact Or.inl rfl
    | ok new =>
      simp only []
      rcases get s1 with ⟨r2, s2⟩
      cases r2 <;> simp only [] <;> split <;>
        first | exact Or.inr (Or.inl rfl) | exact Or.inr (Or.inr ⟨new, rfl⟩)

theorem coll_update_items (cfg : Cfg M K R) (s : CState M R) (id : String) (msg : M) (wr : WriteReq M K) :
    (Coll.update cfg s id msg wr).2.items = s.items ∨
    ∃ k it, (Coll.update cfg s id msg wr).2.items = setItem s.items k it := by
  have hfin : (Coll.update cfg s id msg wr).2.items = s.items ∨
      (Coll.update cfg s id msg wr).2.items =
        (getAndUpdate cfg.ops (updGet cfg wr) (changeFn cfg.ops wr (fieldUpdater cfg wr) msg) (updSave cfg wr)
          { st := s, id := updKey cfg wr id, created := none, idCalls := [], createdCalls := 0 }).2.st.items := by
    unfold Coll.update Coll.updateAt
    simp only []
    split
    · exact Or.inl rfl
    · right
      generalize getAndUpdate cfg.ops (updGet cfg wr) (changeFn cfg.ops wr (fieldUpdater cfg wr) msg) (updSave cfg wr)
        { st := s, id := updKey cfg wr id, created := none, idCalls := [], createdCalls := 0 } = g
      rcases g with ⟨r, c⟩
      simp only []
      split <;> simp [updateTimeC_items]
  rcases hfin with h | h
  · exact Or.inl h
  · rw [h]
    have hi := updGet_items cfg wr
    rcases gau_state_cases cfg.ops (updGet cfg wr) (changeFn cfg.ops wr (fieldUpdater cfg wr) msg) (updSave cfg wr)
      { st := s, id := updKey cfg wr id, created := none, idCalls := [], createdCalls := 0 } with h1 | h1 | ⟨new, h1⟩
    · left; rw [h1, hi]
    · left; rw [h1, hi, hi]
    · right
      rw [h1]
      simp only [updSave, updateTimeC_items, hi]
      exact ⟨_, _, rfl⟩

theorem coll_delete_items (cfg : Cfg M K R) (h : EqRefl cfg.ops) (s : CState M R) (id : String) (wr : WriteReq M K) :
    (Coll.delete cfg s id wr).2.items = s.items ∨
    (Coll.delete cfg s id wr).2.items = eraseItem s.items (icptId cfg id) := by
  unfold Coll.delete
  rw [deleteLoop_first cfg h]
  cases lookup s.items (icptId cfg id) with
  | none => simp only []; split <;> exact Or.inl rfl
  | some it =>
    simp only []
    cases wr.expectedCheck with
    | none =>
      cases wr.expectedValue with
      | none => exact Or.inr rfl
      | some ev => simp only []; split; exact Or.inl rfl; exact Or.inr rfl
    | some chk =>
      cases hc : chk (some it.body) with
      | some e => simp [hc]
      | none =>
        cases wr.expectedValue with
        | none => simp only [hc]; exact Or.inr rfl
        | some ev => simp only [hc]; split; exact Or.inl rfl; exact Or.inr rfl

theorem step_nodup (cfg : Cfg M K R) (h : EqRefl cfg.ops) (s : CState M R) (op : COp M K)
    (hn : NodupKeys s.items) : NodupKeys (Coll.step cfg s op).2.items := by
  cases op with
  | get id ro => exact hn
  | list ro => exact hn
  | update id msg wr =>
    simp only [Coll.step]
    rcases coll_update_items cfg s id msg wr with e | ⟨k, it, e⟩
    · rw [e]; exact hn
    · rw [e]; exact nodupKeys_setItem _ _ _ hn
  | add id msg wr =>
    simp only [Coll.step, Coll.add]
    rcases coll_update_items cfg s id msg { wr with expectAbsent := true, createIfAbsent := true } with e | ⟨k, it, e⟩
    · rw [e]; exact hn
    · rw [e]; exact nodupKeys_setItem _ _ _ hn
  | delete id wr =>
    simp only [Coll.step]
    rcases coll_delete_items cfg h s id wr with e | e
    · rw [e]; exact hn
    · rw [e]; exact nodupKeys_eraseItem _ _ hn

theorem step_refines (cfg : Cfg M K R) (h : EqRefl cfg.ops) (s : CState M R) (op : COp M K)
    (hn : NodupKeys s.items) :
    Spec.Step cfg (abs s) op (Coll.step cfg s op).1 (abs (Coll.step cfg s op).2) := by
  cases op with
  | get id ro => exact Spec.Step.get (abs s) id ro
  | list ro => exact Spec.Step.list (abs s) ro _ (coll_list_spec cfg s ro hn)
  | update id msg wr =>
    have := coll_update_eq cfg h s id msg wr
    simp only [Coll.step]
    rw [this.1, this.2]
    exact Spec.Step.update (abs s) id msg wr
  | add id msg wr =>
    have := coll_update_eq cfg h s id msg { wr with expectAbsent := true, createIfAbsent := true }
    simp only [Coll.step, Coll.add]
    rw [this.1, this.2]
    exact Spec.Step.add (abs s) id msg wr
  | delete id wr =>
    have := coll_delete_eq cfg h s id wr
    simp only [Coll.step]
    rw [this.1, this.2]
    exact Spec.Step.delete (abs s) id wr

theorem run_refines (cfg : Cfg M K R) (h : EqRefl cfg.ops) (ops : List (COp M K)) :
    ∀ s : CState M R, NodupKeys s.items →
      Spec.Run cfg (abs s) ops (Coll.run cfg s ops).1 (abs (Coll.run cfg s ops).2) := by
  induction ops with
  | nil => intro s _; exact Spec.Run.nil _
  | cons op ops ih =>
    intro s hn
    simp only [Coll.run]
    exact Spec.Run.cons (step_refines cfg h s op hn) (ih _ (step_nodup cfg h s op hn))
end ScVerif.C01
