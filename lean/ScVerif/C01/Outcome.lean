import ScVerif.C01.ListLemmas
/-! Inversion of the reference `Spec.update`: the eight ways a call can end. -/
namespace ScVerif.C01
variable {M K R : Type}

/-- How the id of an `Update` is resolved: as given (after the id interceptor), or generated. -/
def Resolved (cfg : Cfg M K R) (t : SState M R) (id : String) (wr : WriteReq M K)
    (id1 : String) (calls : List String) (t1 : SState M R) : Prop :=
  ((idAbsent cfg id && wr.genEmptyID) = false ∧ id1 = icptId cfg id ∧ calls = [] ∧ t1 = t) ∨
  ((idAbsent cfg id && wr.genEmptyID) = true ∧
    ∃ rng', genID cfg (fun k => (t.m k).isSome) t.rng = (some id1, rng') ∧
      calls = (if wr.idCb then [id1] else []) ∧ t1 = { t with rng := rng' })

theorem Resolved.m_eq {cfg : Cfg M K R} {t : SState M R} {id : String} {wr : WriteReq M K} {id1 calls t1}
    (h : Resolved cfg t id wr id1 calls t1) : t1.m = t.m ∧ t1.clock = t.clock := by
  rcases h with ⟨_, _, _, e⟩ | ⟨_, rng', _, _, e⟩ <;> subst e <;> exact ⟨rfl, rfl⟩

inductive UpdOutcome (cfg : Cfg M K R) (t : SState M R) (id : String) (msg : M) (wr : WriteReq M K) :
    COut M × SState M R → Prop
  | invalid (c : Code) : cfg.ops.validate (fieldUpdater cfg wr) msg = some c →
      UpdOutcome cfg t id msg wr (failOut c [] 0, t)
  | exhausted (rng' : R) : cfg.ops.validate (fieldUpdater cfg wr) msg = none →
      (idAbsent cfg id && wr.genEmptyID) = true →
      genID cfg (fun k => (t.m k).isSome) t.rng = (none, rng') →
      UpdOutcome cfg t id msg wr (failOut .aborted [] 0, { t with rng := rng' })
  | alreadyExists (id1 calls t1) (it : Item M) : cfg.ops.validate (fieldUpdater cfg wr) msg = none →
      Resolved cfg t id wr id1 calls t1 → t.m id1 = some it → wr.expectAbsent = true →
      UpdOutcome cfg t id msg wr (failOut .alreadyExists calls 0, t1)
  | precondition (id1 calls t1) (it : Item M) (c : Code) : cfg.ops.validate (fieldUpdater cfg wr) msg = none →
      Resolved cfg t id wr id1 calls t1 → t.m id1 = some it → wr.expectAbsent = false →
      Spec.newValue cfg.ops wr (fieldUpdater cfg wr) msg (some it.body) it.body = .error c →
      UpdOutcome cfg t id msg wr (failOut c calls 0, t1)
  | updated (id1 calls t1) (it : Item M) (new : M) : cfg.ops.validate (fieldUpdater cfg wr) msg = none →
      Resolved cfg t id wr id1 calls t1 → t.m id1 = some it → wr.expectAbsent = false →
      Spec.newValue cfg.ops wr (fieldUpdater cfg wr) msg (some it.body) it.body = .ok new →
      UpdOutcome cfg t id msg wr (Spec.commit cfg wr t1 id1 (some it.body) new calls 0)
  | notFound (id1 calls t1) : cfg.ops.validate (fieldUpdater cfg wr) msg = none →
      Resolved cfg t id wr id1 calls t1 → t.m id1 = none → wr.createIfAbsent = false →
      UpdOutcome cfg t id msg wr (failOut .notFound calls 0, t1)
  | createFailed (id1 calls t1) (c : Code) : cfg.ops.validate (fieldUpdater cfg wr) msg = none →
      Resolved cfg t id wr id1 calls t1 → t.m id1 = none → wr.createIfAbsent = true →
      Spec.newValue cfg.ops wr (fieldUpdater cfg wr) msg (some cfg.ops.zero) cfg.ops.zero = .error c →
      UpdOutcome cfg t id msg wr (failOut c calls (if wr.createdCb then 1 else 0), t1)
  | created (id1 calls t1) (new : M) : cfg.ops.validate (fieldUpdater cfg wr) msg = none →
      Resolved cfg t id wr id1 calls t1 → t.m id1 = none → wr.createIfAbsent = true →
      Spec.newValue cfg.ops wr (fieldUpdater cfg wr) msg (some cfg.ops.zero) cfg.ops.zero = .ok new →
      UpdOutcome cfg t id msg wr (Spec.commit cfg wr t1 id1 none new calls (if wr.createdCb then 1 else 0))

/-- where the error of the change phase comes from: a mismatching expected value (`FailedPrecondition`), or
it is the very code the caller's own expected check returned -/
theorem newValue_error (ops : MsgOps M K) (wr : WriteReq M K) (u : Upd K) (msg : M) (old : Option M) (base : M)
    (c : Code) (hn : Spec.newValue ops wr u msg old base = .error c) :
    c = .failedPrecondition ∨ ∃ chk, wr.expectedCheck = some chk ∧ chk old = some c := by
  unfold Spec.newValue at hn
  have hchkpart : (match (match wr.expectedCheck with | some chk => chk old | none => none) with
        | some c => (Except.error c : Except Code M)
        | none => Except.ok (match wr.after with
            | some f => f old (ops.merge u base
                (match wr.before with | some f => f old msg | none => msg))
            | none => ops.merge u base
                (match wr.before with | some f => f old msg | none => msg))) = Except.error c →
      ∃ chk, wr.expectedCheck = some chk ∧ chk old = some c := by
    intro hn
    cases hchk : wr.expectedCheck with
    | none => simp [hchk] at hn
    | some chk =>
      simp only [hchk] at hn
      cases hco : chk old with
      | none => simp [hco] at hn
      | some c' =>
        simp only [hco, Except.error.injEq] at hn
        exact ⟨chk, rfl, by rw [hco, hn]⟩
  cases hev : wr.expectedValue with
  | none =>
    simp only [hev, Bool.false_eq_true, ↓reduceIte] at hn
    exact Or.inr (hchkpart hn)
  | some ev =>
    simp only [hev] at hn
    cases hq : eqOpt ops old (some ev) with
    | false =>
      simp only [hq, Bool.not_false, ↓reduceIte, Except.error.injEq] at hn
      exact Or.inl hn.symm
    | true =>
      simp only [hq, Bool.not_true, Bool.false_eq_true, ↓reduceIte] at hn
      exact Or.inr (hchkpart hn)

theorem spec_update_outcome (cfg : Cfg M K R) (t : SState M R) (id : String) (msg : M) (wr : WriteReq M K) :
    UpdOutcome cfg t id msg wr (Spec.update cfg t id msg wr) := by
  unfold Spec.update
  simp only []
  cases hv : cfg.ops.validate (fieldUpdater cfg wr) msg with
  | some c => exact UpdOutcome.invalid c hv
  | none =>
    simp only []
    -- after resolution the rest is the same for both ways of resolving
    have rest : ∀ id1 calls t1, Resolved cfg t id wr id1 calls t1 →
        UpdOutcome cfg t id msg wr
          (match t1.m id1 with
           | some it =>
             if wr.expectAbsent then (failOut .alreadyExists calls 0, t1)
             else
               match Spec.newValue cfg.ops wr (fieldUpdater cfg wr) msg (some it.body) it.body with
               | .error c => (failOut c calls 0, t1)
               | .ok new => Spec.commit cfg wr t1 id1 (some it.body) new calls 0
           | none =>
             if !wr.createIfAbsent then (failOut .notFound calls 0, t1)
             else
               match Spec.newValue cfg.ops wr (fieldUpdater cfg wr) msg (some cfg.ops.zero) cfg.ops.zero with
               | .error c => (failOut c calls (if wr.createdCb then 1 else 0), t1)
               | .ok new => Spec.commit cfg wr t1 id1 none new calls (if wr.createdCb then 1 else 0)) := by
      intro id1 calls t1 hr
      have hm : t1.m id1 = t.m id1 := by rw [hr.m_eq.1]
      rw [hm]
      cases hl : t.m id1 with
      | some it =>
        simp only []
        cases hxa : wr.expectAbsent with
        | true => simpa using UpdOutcome.alreadyExists id1 calls t1 it hv hr hl hxa
        | false =>
          simp only [Bool.false_eq_true, ↓reduceIte]
          cases hn : Spec.newValue cfg.ops wr (fieldUpdater cfg wr) msg (some it.body) it.body with
          | error c => exact UpdOutcome.precondition id1 calls t1 it c hv hr hl hxa hn
          | ok new => exact UpdOutcome.updated id1 calls t1 it new hv hr hl hxa hn
      | none =>
        simp only []
        cases hcia : wr.createIfAbsent with
        | false => simpa using UpdOutcome.notFound id1 calls t1 hv hr hl hcia
        | true =>
          simp only [Bool.not_true, Bool.false_eq_true, ↓reduceIte]
          cases hn : Spec.newValue cfg.ops wr (fieldUpdater cfg wr) msg (some cfg.ops.zero) cfg.ops.zero with
          | error c => exact UpdOutcome.createFailed id1 calls t1 c hv hr hl hcia hn
          | ok new => exact UpdOutcome.created id1 calls t1 new hv hr hl hcia hn
    cases hg : (idAbsent cfg id && wr.genEmptyID) with
    | false =>
      simp only [Bool.false_eq_true, ↓reduceIte]
      exact rest _ _ _ (Or.inl ⟨hg, rfl, rfl, rfl⟩)
    | true =>
      simp only [↓reduceIte]
      rcases hgen : genID cfg (fun k => (t.m k).isSome) t.rng with ⟨r, rng'⟩
      cases r with
      | none => exact UpdOutcome.exhausted rng' hv hg hgen
      | some id1 => exact rest _ _ _ (Or.inr ⟨hg, rng', hgen, rfl, rfl⟩)
end ScVerif.C01
