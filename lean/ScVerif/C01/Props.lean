import ScVerif.C01.Outcome
import ScVerif.C01.IcptLemmas
/-!
# C01 — property theorems

Property (fixed text): "Used by one caller at a time, a Value behaves as a single message register and
a Collection as an id-to-message map: for every sequence of Get, List, Set, Add, Update and Delete
calls with any combination of write options (update and reset masks, expected value or check,
expect-absent, create-if-absent, allow-missing, generated ids, id interceptor, before/after
interceptors, write time) each call returns what a plain reference model returns and leaves the same
contents. A call that fails (precondition, not found, already exists, invalid mask) changes nothing
and emits nothing. List is sorted by id, and a generated id is non-empty, unused, reported once
through the id callback and usable for later Get/Update/Delete."

Model: `Model.lean` (follows `pkg/resource`); reference: `Spec.lean` (register / function map, one step
per call).  All theorems are for EVERY message type and message operations (`MsgOps`), every
configuration, every option record, arbitrary interceptors / checks / include predicates / id
interceptor / rng, and every finite call sequence.  The one hypothesis on the message operations,
`EqRefl` (`proto.Equal m m`), is what the code's re-validation really needs.

Only property theorems and their non-vacuity examples live in this file.
-/
namespace ScVerif.C01
variable {M K R : Type}

/-- Value ⊑ register: every call sequence returns exactly the reference's results (values, codes,
events) and ends in the same state. -/
theorem C01_value_refines (cfg : Cfg M K R) (h : EqRefl cfg.ops) (ops : List (VOp M K)) :
    ∀ s : VState M, Value.run cfg s ops = Spec.vrun cfg s ops := by
  induction ops with
  | nil => intro s; rfl
  | cons op ops ih =>
    intro s
    cases op with
    | get ro => simp only [Value.run, Spec.vrun, Value.step, Spec.vstep, Value.get, ih]
    | set msg wr => simp only [Value.run, Spec.vrun, Value.step, Spec.vstep, value_set_eq cfg h, ih]

/-- Collection ⊑ map: from ANY initial records, every call sequence is a run of the reference map:
each call returns the reference's result (value, code, events, callback invocations; for List: the
strictly id-sorted projection of the included entries) and leaves the reference's contents. -/
theorem C01_collection_refines (cfg : Cfg M K R) (h : EqRefl cfg.ops) (records : List (String × M)) (rng : R)
    (ops : List (COp M K)) :
    Spec.Run cfg (abs (Coll.init cfg records rng)) ops
      (Coll.run cfg (Coll.init cfg records rng) ops).1
      (abs (Coll.run cfg (Coll.init cfg records rng) ops).2) :=
  run_refines cfg h ops _ (nodupKeys_init cfg records rng)

/-- A failing Update/Add changes nothing (the contents as a map are the same) and emits nothing. -/
theorem C01_failed_update_frame (cfg : Cfg M K R) (h : EqRefl cfg.ops) (s : CState M R) (id : String) (msg : M)
    (wr : WriteReq M K) (hf : (Coll.update cfg s id msg wr).1.err ≠ none) :
    lookup (Coll.update cfg s id msg wr).2.items = lookup s.items ∧
    (Coll.update cfg s id msg wr).2.clock = s.clock ∧
    (Coll.update cfg s id msg wr).1.events = [] ∧ (Coll.update cfg s id msg wr).1.val = none := by
  have he := coll_update_eq cfg h s id msg wr
  have hm : lookup (Coll.update cfg s id msg wr).2.items = (abs (Coll.update cfg s id msg wr).2).m := rfl
  have hc : (Coll.update cfg s id msg wr).2.clock = (abs (Coll.update cfg s id msg wr).2).clock := rfl
  rw [he.1] at hf ⊢
  rw [hm, hc, he.2]
  have ho := spec_update_outcome cfg (abs s) id msg wr
  generalize Spec.update cfg (abs s) id msg wr = r at hf ho
  cases ho with
  | invalid c _ => exact ⟨rfl, rfl, rfl, rfl⟩
  | exhausted rng' _ _ _ => exact ⟨rfl, rfl, rfl, rfl⟩
  | alreadyExists id1 calls t1 it _ hr _ _ => exact ⟨hr.m_eq.1, hr.m_eq.2, rfl, rfl⟩
  | precondition id1 calls t1 it c _ hr _ _ _ => exact ⟨hr.m_eq.1, hr.m_eq.2, rfl, rfl⟩
  | notFound id1 calls t1 _ hr _ _ => exact ⟨hr.m_eq.1, hr.m_eq.2, rfl, rfl⟩
  | createFailed id1 calls t1 c _ hr _ _ _ => exact ⟨hr.m_eq.1, hr.m_eq.2, rfl, rfl⟩
  | updated id1 calls t1 it new _ _ _ _ _ =>
    exfalso; apply hf; unfold Spec.commit; cases wr.writeTime <;> rfl
  | created id1 calls t1 new _ _ _ _ _ =>
    exfalso; apply hf; unfold Spec.commit; cases wr.writeTime <;> rfl

/-- A failing Delete changes nothing and emits nothing. -/
theorem C01_failed_delete_frame (cfg : Cfg M K R) (h : EqRefl cfg.ops) (s : CState M R) (id : String)
    (wr : WriteReq M K) (hf : (Coll.delete cfg s id wr).1.err ≠ none) :
    (Coll.delete cfg s id wr).2 = s ∧ (Coll.delete cfg s id wr).1.events = [] := by
  unfold Coll.delete at hf ⊢
  rw [deleteLoop_first cfg h] at hf ⊢
  revert hf
  cases lookup s.items (icptId cfg id) with
  | none => intro _; simp only []; split <;> exact ⟨rfl, rfl⟩
  | some it =>
    simp only []
    cases wr.expectedCheck with
    | none =>
      cases wr.expectedValue with
      | none => intro hf; simp at hf
      | some ev => cases hq : cfg.ops.eq it.body ev <;> simp [hq]
    | some chk =>
      cases hc : chk (some it.body) with
      | some e => simp [hc]
      | none =>
        cases wr.expectedValue with
        | none => intro hf; simp [hc] at hf
        | some ev => cases hq : cfg.ops.eq it.body ev <;> simp [hc, hq]

/-- A failing Set leaves the Value exactly as it was (value, change time, clock) and emits nothing. -/
theorem C01_failed_set_frame (cfg : Cfg M K R) (h : EqRefl cfg.ops) (s : VState M) (msg : M)
    (wr : WriteReq M K) (hf : (Value.set cfg s msg wr).1.err ≠ none) :
    (Value.set cfg s msg wr).2 = s ∧ (Value.set cfg s msg wr).1.events = [] := by
  rw [value_set_eq cfg h] at hf ⊢
  unfold Spec.set at hf ⊢
  revert hf
  simp only []
  cases cfg.ops.validate (fieldUpdater cfg wr) msg with
  | some c => intro _; exact ⟨rfl, rfl⟩
  | none =>
    simp only []
    cases Spec.newValue cfg.ops wr (fieldUpdater cfg wr) msg s.value (s.value.getD cfg.ops.zero) with
    | error c => intro _; exact ⟨rfl, rfl⟩
    | ok new => intro hf; exfalso; apply hf; cases wr.writeTime <;> rfl

/-- List on every reachable state: ids strictly increasing, and the entries are exactly the stored
items the include predicate accepts, each projected by the read mask. -/
theorem C01_list_sorted (cfg : Cfg M K R) (h : EqRefl cfg.ops) (records : List (String × M)) (rng : R)
    (ops : List (COp M K)) (ro : ReadReq M K) :
    let s := (Coll.run cfg (Coll.init cfg records rng) ops).2
    ((Coll.listIds cfg s ro).map (·.1)).Pairwise (· < ·) ∧
    ∀ id v, (id, v) ∈ Coll.listIds cfg s ro ↔
      ∃ it, lookup s.items id = some it ∧ excluded ro id it.body = false ∧
        v = cfg.ops.filter ro.readMask it.body := by
  intro s
  have hn : NodupKeys s.items := by
    have : ∀ (ops : List (COp M K)) (s0 : CState M R), NodupKeys s0.items →
        NodupKeys (Coll.run cfg s0 ops).2.items := by
      intro ops
      induction ops with
      | nil => intro s0 h0; exact h0
      | cons op ops ih => intro s0 h0; simp only [Coll.run]; exact ih _ (step_nodup cfg h s0 op h0)
    exact this ops _ (nodupKeys_init cfg records rng)
  exact coll_list_spec cfg s ro hn

/-- Generated ids. A successful Update/Add that was given the empty id with `WithGenIDIfAbsent`:
the id `id'` under which the item is stored and announced was not a key before, is reported
through the id callback exactly once (when one is registered), and the item just written is stored
under it; `id'` is the id interceptor's image of a non-empty candidate.  If the interceptor leaves `id'`
alone, `Get id'` returns the value just written.  (`C01_genid_interceptor` turns this into a condition on
the interceptor.) -/
theorem C01_genid (cfg : Cfg M K R) (h : EqRefl cfg.ops) (s : CState M R) (id : String) (msg : M)
    (wr : WriteReq M K)
    (hgen : idAbsent cfg id = true ∧ wr.genEmptyID = true)
    (hok : (Coll.update cfg s id msg wr).1.err = none) :
    ∃ id' new,
      (Coll.update cfg s id msg wr).1.val = some new ∧
      (∃ t, (Coll.update cfg s id msg wr).1.events = [{ id := id', time := t, kind := .add, old := none, new := some new }]) ∧
      lookup s.items id' = none ∧
      (Coll.update cfg s id msg wr).1.idCalls = (if wr.idCb then [id'] else []) ∧
      (lookup (Coll.update cfg s id msg wr).2.items id').map (·.body) = some new ∧
      (icptId cfg id' = id' →
        Coll.get cfg (Coll.update cfg s id msg wr).2 id' {} = some (cfg.ops.filter none new)) ∧
      (∃ cand, cand ≠ "" ∧ id' = icptId cfg cand) := by
  have he := coll_update_eq cfg h s id msg wr
  have hm : ∀ k, lookup (Coll.update cfg s id msg wr).2.items k = (abs (Coll.update cfg s id msg wr).2).m k :=
    fun _ => rfl
  unfold Coll.get
  simp only [hm]
  rw [he.1] at hok ⊢
  rw [he.2]
  have hg : (idAbsent cfg id && wr.genEmptyID) = true := by simp [hgen.1, hgen.2]
  have ho := spec_update_outcome cfg (abs s) id msg wr
  generalize Spec.update cfg (abs s) id msg wr = r at hok ho
  -- the only successful outcome of a generating call is `created`
  have hres : ∀ id1 calls t1, Resolved cfg (abs s) id wr id1 calls t1 →
      ∃ rng', genID cfg (usedIn s.items) s.rng = (some id1, rng') ∧
        calls = (if wr.idCb then [id1] else []) ∧ t1 = { abs s with rng := rng' } := by
    intro id1 calls t1 hr
    rcases hr with ⟨hf, _⟩ | ⟨_, rng', h1, h2, h3⟩
    · rw [hg] at hf; cases hf
    · exact ⟨rng', h1, h2, h3⟩
  cases ho with
  | invalid c _ => cases hok
  | exhausted rng' _ _ _ => cases hok
  | alreadyExists id1 calls t1 it _ hr _ _ => cases hok
  | precondition id1 calls t1 it c _ hr _ _ _ => cases hok
  | notFound id1 calls t1 _ hr _ _ => cases hok
  | createFailed id1 calls t1 c _ hr _ _ _ => cases hok
  | updated id1 calls t1 it new _ hr hl _ _ =>
    obtain ⟨rng', hgn, _, _⟩ := hres _ _ _ hr
    have := genID_some cfg _ _ _ _ hgn
    have hl' : lookup s.items id1 = some it := hl
    simp [usedIn, hl'] at this
  | created id1 calls t1 new _ hr hl _ _ =>
    obtain ⟨rng', hgn, hcalls, ht1⟩ := hres _ _ _ hr
    refine ⟨id1, new, ?_, ?_, hl, ?_, ?_, ?_, ?_⟩
    · unfold Spec.commit; cases wr.writeTime <;> rfl
    · unfold Spec.commit; cases wr.writeTime <;> exact ⟨_, rfl⟩
    · rw [hcalls]; unfold Spec.commit; cases wr.writeTime <;> rfl
    · unfold Spec.commit; cases wr.writeTime <;> simp [SState.put]
    · intro hid
      rw [hid]
      unfold Spec.commit; cases wr.writeTime <;> simp [SState.put]
    · unfold genID at hgn
      rcases hloop : genLoop cfg.gen (fun cand => usedIn s.items (icptId cfg cand)) 10 0 s.rng with ⟨r, rg⟩
      rw [hloop] at hgn
      cases r with
      | none => simp at hgn
      | some c =>
        simp only [Option.map_some, Prod.mk.injEq, Option.some.injEq] at hgn
        exact ⟨c, (genLoop_some _ _ _ _ _ _ _ hloop).1, hgn.1.symm⟩

/-- Since fix 929e9c0 the caller's EMPTY id with `WithGenIDIfAbsent` gets a generated id WHATEVER the id
interceptor is (no hypothesis on it: a prefixing interceptor turns "" into a key of its own, which is not an
id anybody provided): the conclusions of `C01_genid` for `id = ""`. -/
theorem C01_genid_caller_gave_no_id (cfg : Cfg M K R) (h : EqRefl cfg.ops) (s : CState M R) (msg : M)
    (wr : WriteReq M K) (hgen : wr.genEmptyID = true)
    (hok : (Coll.update cfg s "" msg wr).1.err = none) :
    ∃ id' new,
      (Coll.update cfg s "" msg wr).1.val = some new ∧
      (∃ t, (Coll.update cfg s "" msg wr).1.events = [{ id := id', time := t, kind := .add, old := none, new := some new }]) ∧
      lookup s.items id' = none ∧
      (Coll.update cfg s "" msg wr).1.idCalls = (if wr.idCb then [id'] else []) ∧
      (lookup (Coll.update cfg s "" msg wr).2.items id').map (·.body) = some new ∧
      (∃ cand, cand ≠ "" ∧ id' = icptId cfg cand) := by
  obtain ⟨id', new, h1, h2, h3, h4, h5, _, h7⟩ :=
    C01_genid cfg h s "" msg wr ⟨by simp [idAbsent], hgen⟩ hok
  exact ⟨id', new, h1, h2, h3, h4, h5, h7⟩

/-- "A generated id is unused", as the caller sees it: a write that generates its id (the caller gave no
id, or one the interceptor maps to the empty key) never answers `AlreadyExists` (nor finds an item to
update) - however many items the collection holds and whatever the interceptor does to the empty id -
unless that is the very code the caller's own expected check or mask validation returned.  Before fix
929e9c0 the second `Add("", WithGenIDIfAbsent())` behind a prefixing interceptor answered AlreadyExists. -/
theorem C01_generated_id_never_exists (cfg : Cfg M K R) (h : EqRefl cfg.ops) (s : CState M R) (id : String)
    (msg : M) (wr : WriteReq M K) (hgen : idAbsent cfg id = true ∧ wr.genEmptyID = true)
    (ha : (Coll.update cfg s id msg wr).1.err = some .alreadyExists) :
    (∃ chk, wr.expectedCheck = some chk ∧ chk (some cfg.ops.zero) = some .alreadyExists) ∨
    cfg.ops.validate (fieldUpdater cfg wr) msg = some .alreadyExists := by
  have he := coll_update_eq cfg h s id msg wr
  rw [he.1] at ha
  have hg : (idAbsent cfg id && wr.genEmptyID) = true := by simp [hgen.1, hgen.2]
  have ho := spec_update_outcome cfg (abs s) id msg wr
  generalize Spec.update cfg (abs s) id msg wr = r at ha ho
  -- a resolved id of a generating call is a fresh one
  have hfresh : ∀ id1 calls t1, Resolved cfg (abs s) id wr id1 calls t1 → lookup s.items id1 = none := by
    intro id1 calls t1 hr
    rcases hr with ⟨hf, _⟩ | ⟨_, rng', h1, _, _⟩
    · rw [hg] at hf; cases hf
    · have := genID_some cfg _ _ _ _ h1
      cases hl : lookup s.items id1 with
      | none => rfl
      | some it =>
        have hl' : (abs s).m id1 = some it := hl
        simp [hl'] at this
  cases ho with
  | invalid c hv =>
    simp only [failOut, Option.some.injEq] at ha
    right; rw [hv, ha]
  | exhausted rng' _ _ _ => simp [failOut] at ha
  | alreadyExists id1 calls t1 it _ hr hl _ =>
    have := hfresh _ _ _ hr
    have hl' : lookup s.items id1 = some it := hl
    rw [hl'] at this; cases this
  | precondition id1 calls t1 it c _ hr hl _ _ =>
    have := hfresh _ _ _ hr
    have hl' : lookup s.items id1 = some it := hl
    rw [hl'] at this; cases this
  | updated id1 calls t1 it new _ hr hl _ _ =>
    have := hfresh _ _ _ hr
    have hl' : lookup s.items id1 = some it := hl
    rw [hl'] at this; cases this
  | notFound id1 calls t1 _ hr _ _ => simp [failOut] at ha
  | createFailed id1 calls t1 c _ hr _ _ hn =>
    simp only [failOut, Option.some.injEq] at ha
    subst ha
    rcases newValue_error _ _ _ _ _ _ _ hn with hc | ⟨chk, h1, h2⟩
    · cases hc
    · exact Or.inl ⟨chk, h1, h2⟩
  | created id1 calls t1 new _ _ _ _ _ =>
    exfalso; revert ha; unfold Spec.commit; cases wr.writeTime <;> simp

/-- Fix 929e9c0 is conservative: `Update` / `Add` answer, emit and store exactly what they did before it
(`Coll.updateLegacy`: emptiness tested after interception) for every call that names an id, for every call
that does not ask for a generated id, and for every call at all on a collection whose interceptor leaves the
empty id empty (none, lower-casing, `first`, `dup`); the only calls that changed are `("", WithGenIDIfAbsent)`
behind an interceptor that gives the empty id a key of its own. -/
theorem C01_genid_fix_conservative (cfg : Cfg M K R) (s : CState M R) (id : String) (msg : M) (wr : WriteReq M K)
    (hsame : icptId cfg "" = "" ∨ id ≠ "" ∨ wr.genEmptyID = false) :
    Coll.update cfg s id msg wr = Coll.updateLegacy cfg s id msg wr := by
  have hk : updKey cfg wr id = icptId cfg id := by
    unfold updKey
    by_cases hid : id = ""
    · rcases hsame with h0 | hne | hg
      · simp [hid, h0]
      · exact absurd hid hne
      · simp [hg]
    · simp [hid]
  unfold Coll.update Coll.updateLegacy
  rw [hk]

/-- What the fix repaired, on the code as it was (`Coll.updateLegacy`) behind the prefixing interceptor
`dash` ("" -> "-"): `Add("", WithGenIDIfAbsent(), WithIDCallback)` is stored under "-", no id is generated and
the callback hears nothing; the second such Add answers AlreadyExists; with the fix (`Coll.add`) both
succeed under two fresh generated ids, each reported once. -/
theorem C01_genid_legacy_prefix_never_generates :
    let cfg : Cfg Msg Mask (List Nat) := { ops := flatOps, gen := flatGen, icpt := some dashStr }
    let wr : WriteReq Msg Mask := { genEmptyID := true, idCb := true, expectAbsent := true, createIfAbsent := true }
    let m : Msg := { a := 1, s := "", c := none }
    let l1 := Coll.updateLegacy cfg (Coll.init cfg [] []) "" m wr
    let l2 := Coll.updateLegacy cfg l1.2 "" m wr
    let f1 := Coll.add cfg (Coll.init cfg [] []) "" m { genEmptyID := true, idCb := true }
    let f2 := Coll.add cfg f1.2 "" m { genEmptyID := true, idCb := true }
    (l1.1.err = none ∧ l1.1.idCalls = [] ∧ l1.2.items.map (·.1) = ["-"] ∧
      l2.1.err = some .alreadyExists ∧ l2.1.idCalls = []) ∧
    (f1.1.err = none ∧ f1.1.idCalls = ["-AAAAAAAA"] ∧ f2.1.err = none ∧ f2.1.idCalls = ["-AAAAAAAAAA"] ∧
      f2.2.items.map (·.1) = ["-AAAAAAAA", "-AAAAAAAAAA"]) := by
  decide

/-- A sufficient condition on the id interceptor (none is an interceptor too: the identity):
IDEMPOTENT (`icpt (icpt x) = icpt x`) and NON-EMPTINESS PRESERVING (`x ≠ "" → icpt x ≠ ""`).  Then a
generated id is non-empty, was unused, is reported once, and is USABLE: `Get id'` returns the item just
written and `Delete id'` removes exactly it.  Idempotence is what makes the reported id usable: every
entry point applies the interceptor to the id it is given, and (since fix e0639b6) the stored key is
the interceptor's image of the candidate. -/
theorem C01_genid_interceptor (cfg : Cfg M K R) (h : EqRefl cfg.ops) (s : CState M R) (id : String) (msg : M)
    (wr : WriteReq M K)
    (hidem : ∀ x, icptId cfg (icptId cfg x) = icptId cfg x)
    (hne : ∀ x, x ≠ "" → icptId cfg x ≠ "")
    (hgen : idAbsent cfg id = true ∧ wr.genEmptyID = true)
    (hok : (Coll.update cfg s id msg wr).1.err = none) :
    ∃ id' new,
      id' ≠ "" ∧ lookup s.items id' = none ∧
      (Coll.update cfg s id msg wr).1.val = some new ∧
      (Coll.update cfg s id msg wr).1.idCalls = (if wr.idCb then [id'] else []) ∧
      Coll.get cfg (Coll.update cfg s id msg wr).2 id' {} = some (cfg.ops.filter none new) ∧
      (Coll.delete cfg (Coll.update cfg s id msg wr).2 id' {}).1.val = some new ∧
      (Coll.delete cfg (Coll.update cfg s id msg wr).2 id' {}).1.err = none ∧
      lookup (Coll.delete cfg (Coll.update cfg s id msg wr).2 id' {}).2.items id' = none := by
  obtain ⟨id', new, h1, _, h3, h4, h5, h6, cand, hc1, hc2⟩ := C01_genid cfg h s id msg wr hgen hok
  have hfix : icptId cfg id' = id' := by rw [hc2]; exact hidem cand
  refine ⟨id', new, by rw [hc2]; exact hne cand hc1, h3, h1, h4, h6 hfix, ?_⟩
  -- Delete resolves the id the same way and finds the item just written
  have hdel := deleteLoop_first cfg h ({} : WriteReq M K) (icptId cfg id') 4 (Coll.update cfg s id msg wr).2
  unfold Coll.delete
  rw [hdel, hfix]
  cases hl : lookup (Coll.update cfg s id msg wr).2.items id' with
  | none => rw [hl] at h5; simp at h5
  | some it =>
    rw [hl] at h5
    simp only [Option.map_some, Option.some.injEq] at h5
    simp [h5, lookup_eraseItem]

/-- One caller at a time never sees the re-validation fail: `Aborted` from Update/Add comes only from
id-generation exhaustion (ten candidates all empty or in use), or is the very code returned by the
caller's own expected-check, or by mask validation. -/
theorem C01_seq_never_aborts (cfg : Cfg M K R) (h : EqRefl cfg.ops) (s : CState M R) (id : String) (msg : M)
    (wr : WriteReq M K) (ha : (Coll.update cfg s id msg wr).1.err = some .aborted) :
    ((idAbsent cfg id = true ∧ wr.genEmptyID = true) ∧ (genID cfg (usedIn s.items) s.rng).1 = none) ∨
    (∃ chk old, wr.expectedCheck = some chk ∧ chk old = some .aborted) ∨
    cfg.ops.validate (fieldUpdater cfg wr) msg = some .aborted := by
  have he := coll_update_eq cfg h s id msg wr
  rw [he.1] at ha
  have ho := spec_update_outcome cfg (abs s) id msg wr
  generalize Spec.update cfg (abs s) id msg wr = r at ha ho
  have hnv : ∀ old base c, Spec.newValue cfg.ops wr (fieldUpdater cfg wr) msg old base = .error c →
      c = .aborted → ∃ chk old, wr.expectedCheck = some chk ∧ chk old = some .aborted := by
    intro old base c hn hc
    subst hc
    unfold Spec.newValue at hn
    have hchkpart : (match (match wr.expectedCheck with | some chk => chk old | none => none) with
          | some c => (Except.error c : Except Code M)
          | none => Except.ok (match wr.after with
              | some f => f old (cfg.ops.merge (fieldUpdater cfg wr) base
                  (match wr.before with | some f => f old msg | none => msg))
              | none => cfg.ops.merge (fieldUpdater cfg wr) base
                  (match wr.before with | some f => f old msg | none => msg))) = Except.error Code.aborted →
        ∃ chk old, wr.expectedCheck = some chk ∧ chk old = some .aborted := by
      intro hn
      cases hchk : wr.expectedCheck with
      | none => simp [hchk] at hn
      | some chk =>
        simp only [hchk] at hn
        cases hco : chk old with
        | none => simp [hco] at hn
        | some c' =>
          simp only [hco, Except.error.injEq] at hn
          exact ⟨chk, old, rfl, by rw [hco, hn]⟩
    cases hev : wr.expectedValue with
    | none =>
      simp only [hev, Bool.false_eq_true, ↓reduceIte] at hn
      exact hchkpart hn
    | some ev =>
      simp only [hev] at hn
      cases hq : eqOpt cfg.ops old (some ev) with
      | false => simp [hq] at hn
      | true =>
        simp only [hq, Bool.not_true, Bool.false_eq_true, ↓reduceIte] at hn
        exact hchkpart hn
  cases ho with
  | invalid c hv =>
    simp only [failOut, Option.some.injEq] at ha
    right; right; rw [hv, ha]
  | exhausted rng' _ hg hgen =>
    left
    refine ⟨by simpa using hg, ?_⟩
    have : genID cfg (usedIn s.items) s.rng = (none, rng') := hgen
    rw [this]
  | alreadyExists id1 calls t1 it _ hr _ _ => simp [failOut] at ha
  | precondition id1 calls t1 it c _ hr _ _ hn =>
    simp only [failOut, Option.some.injEq] at ha
    exact Or.inr (Or.inl (hnv _ _ _ hn ha))
  | notFound id1 calls t1 _ hr _ _ => simp [failOut] at ha
  | createFailed id1 calls t1 c _ hr _ _ hn =>
    simp only [failOut, Option.some.injEq] at ha
    exact Or.inr (Or.inl (hnv _ _ _ hn ha))
  | updated id1 calls t1 it new _ _ _ _ _ =>
    exfalso; revert ha; unfold Spec.commit; cases wr.writeTime <;> simp
  | created id1 calls t1 new _ _ _ _ _ =>
    exfalso; revert ha; unfold Spec.commit; cases wr.writeTime <;> simp

/-- One caller at a time: a Value.Set never answers `Aborted` of its own, and a Collection.Delete
never exhausts its retries (`Unavailable`), unless that is the code the caller's own check returned. -/
theorem C01_seq_delete_no_retry (cfg : Cfg M K R) (h : EqRefl cfg.ops) (s : CState M R) (id : String)
    (wr : WriteReq M K) (ha : (Coll.delete cfg s id wr).1.err = some .unavailable) :
    ∃ chk old, wr.expectedCheck = some chk ∧ chk old = some .unavailable := by
  have he := coll_delete_eq cfg h s id wr
  rw [he.1] at ha
  unfold Spec.delete at ha
  simp only [] at ha
  cases hl : (abs s).m (icptId cfg id) with
  | none => simp only [hl] at ha; cases hq : wr.allowMissing <;> simp [hq, failOut] at ha
  | some it =>
    simp only [hl] at ha
    cases hchk : wr.expectedCheck with
    | none =>
      simp only [hchk] at ha
      cases hev : wr.expectedValue with
      | none => simp [hev] at ha
      | some ev => cases hq : cfg.ops.eq it.body ev <;> simp [hev, hq, failOut] at ha
    | some chk =>
      simp only [hchk] at ha
      cases hc : chk (some it.body) with
      | some e => simp only [hc, failOut, Option.some.injEq] at ha; exact ⟨chk, _, rfl, by rw [hc, ha]⟩
      | none =>
        simp only [hc] at ha
        cases hev : wr.expectedValue with
        | none => simp [hev] at ha
        | some ev => cases hq : cfg.ops.eq it.body ev <;> simp [hev, hq, failOut] at ha

/-! ## Non-vacuity -/

/-- the hypothesis `EqRefl` holds for the concrete message operations the driver runs -/
example : EqRefl flatOps := fun m => by simp [flatOps]

/-- the interceptor hypotheses of `C01_genid_interceptor` hold for a collection without id interceptor -/
example (cfg : Cfg M K R) (hc : cfg.icpt = none) :
    (∀ x, icptId cfg (icptId cfg x) = icptId cfg x) ∧ (∀ x, x ≠ "" → icptId cfg x ≠ "") := by
  simp [icptId, hc]

/-- ... for the lower-casing interceptor (the documented use of `WithIDInterceptor`) ... -/
example (cfg : Cfg M K R) (hc : cfg.icpt = some lowerStr) :
    (∀ x, icptId cfg (icptId cfg x) = icptId cfg x) ∧ (∀ x, x ≠ "" → icptId cfg x ≠ "") := by
  simp only [icptId, hc]
  exact ⟨lowerStr_idem, lowerStr_ne⟩

/-- ... and for `first` (keep the first character; many ids collide, generation still yields usable ids). -/
example (cfg : Cfg M K R) (hc : cfg.icpt = some firstStr) :
    (∀ x, icptId cfg (icptId cfg x) = icptId cfg x) ∧ (∀ x, x ≠ "" → icptId cfg x ≠ "") := by
  simp only [icptId, hc]
  exact ⟨firstStr_idem, firstStr_ne⟩

/-- `dash` is not idempotent, and it never yields the empty id: before fix 929e9c0 id generation could
never be triggered under it; now the caller's empty id triggers it (next example). -/
example : dashStr (dashStr "a") ≠ dashStr "a" ∧ ∀ x, dashStr x ≠ "" := by
  refine ⟨by decide, fun x hx => ?_⟩
  have := congrArg String.toList hx
  simp [dashStr] at this

def dashCfg : Cfg Msg Mask (List Nat) := { ops := flatOps, gen := flatGen, icpt := some dashStr }

/-- behind the prefixing interceptor two `Add("", WithGenIDIfAbsent(), WithIDCallback)` in a row both
succeed, each under a fresh generated id of the interceptor's image that the callback hears once (before
fix 929e9c0: the first was stored under "-" without a callback, the second answered AlreadyExists) -/
example :
    (Coll.run dashCfg (Coll.init dashCfg [] [1, 2, 3])
      [ .add "" { a := 1, s := "", c := none } { genEmptyID := true, idCb := true },
        .add "" { a := 2, s := "", c := none } { genEmptyID := true, idCb := true } ]).1.map
      (fun r => match r with | .wrote o => (o.err, o.idCalls) | _ => (none, []))
      = [(none, ["-AQIDAAAA"]), (none, ["-AAAAAAAA"])] := by decide

def dupCfg : Cfg Msg Mask (List Nat) := { ops := flatOps, gen := flatGen, icpt := some dupStr }

/-- Idempotence is NEEDED (`dup` doubles an id: maps "" to "", keeps non-emptiness, is not idempotent):
the generated id is stored under `dup candidate`, reported as such, and `Get` of the reported id looks
up `dup (dup candidate)` and misses.  This is what the code does (tied: the `dup` interceptor is in
the closed family); the property's "usable" clause cannot hold for such an interceptor, whatever key the
code chose. -/
theorem C01_genid_needs_idempotence :
    ∃ id', (Coll.add dupCfg (Coll.init dupCfg [] []) "" { a := 1, s := "", c := none } { genEmptyID := true, idCb := true }).1.idCalls = [id'] ∧
      (Coll.add dupCfg (Coll.init dupCfg [] []) "" { a := 1, s := "", c := none } { genEmptyID := true, idCb := true }).1.err = none ∧
      Coll.get dupCfg (Coll.add dupCfg (Coll.init dupCfg [] []) "" { a := 1, s := "", c := none } { genEmptyID := true, idCb := true }).2 id' {} = none :=
  ⟨"AAAAAAAAAAAAAAAA", by decide⟩

/-- top-level masks on the three shapes of field (what the code does, tied): under an update mask
naming them a scalar is REPLACED, a nested message is MERGED sub-field-wise, a repeated field is
APPENDED to, and a named field the written message does not populate is CLEARED; with no update mask
everything is replaced -/
example :
    Flat.merge { writable := none, update := some [.a, .f, .r], reset := none }
      { a := 1, s := "x", c := none, f := some (2, 3), r := [5, 6] }
      { a := 9, s := "y", c := some 4, f := some (0, 8), r := [7] } =
      { a := 9, s := "x", c := none, f := some (2, 8), r := [5, 6, 7] } ∧
    Flat.merge { writable := none, update := some [.f, .r], reset := none }
      { a := 1, s := "x", c := none, f := some (2, 3), r := [5, 6] }
      { a := 9, s := "y", c := none } =
      { a := 1, s := "x", c := none } ∧
    Flat.merge { writable := none, update := none, reset := none }
      { a := 1, s := "x", c := none, f := some (2, 3), r := [5, 6] }
      { a := 0, s := "", c := none, f := some (0, 8), r := [7] } =
      { a := 0, s := "", c := none, f := some (0, 8), r := [7] } := by decide

def exCfg : Cfg Msg Mask (List Nat) := { ops := flatOps, gen := flatGen }

/-- a 7-call script: generated-id create, create, masked update, failed precondition, delete, failing
delete, list — the codes the model answers with -/
def exScript : List (COp Msg Mask) :=
  [ .add "" { a := 1, s := "", c := none } { genEmptyID := true, idCb := true },
    .add "b" { a := 2, s := "x", c := none } {},
    .update "b" { a := 7, s := "y", c := none } { updateMask := some [.a] },
    .update "b" { a := 9, s := "", c := none } { expectedValue := some { a := 2, s := "x", c := none } },
    .delete "b" {},
    .delete "b" {},
    .list {} ]

def errOf : CRes Msg → Option Code
  | .wrote o => o.err
  | _ => none

example : ((Coll.run exCfg (Coll.init exCfg [] []) exScript).1.map errOf) =
    [none, none, none, some .failedPrecondition, none, some .notFound, none] := by decide

example : (Coll.list exCfg (Coll.run exCfg (Coll.init exCfg [] []) (exScript.take 3)).2 {}) =
    [{ a := 1, s := "", c := none }, { a := 7, s := "x", c := none }] := by decide

end ScVerif.C01
