import ScVerif.C01.Model
namespace ScVerif.C01
theorem C01_placeholder_true : eqOpt (M := Nat) (K := Nat) ⟨0, fun a b => a == b, fun a _ => a, fun _ _ => none, fun _ _ s => s, fun _ m => m⟩ none none = true := rfl
end ScVerif.C01
